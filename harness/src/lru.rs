//! Correspondence of `Qv.Model.Lru` with the real `AsyncLruCache` (src/cache.rs),
//! driven through the cfg-guarded hook `qcow2_rs::cache::verif`.  Random sequences
//! of the cache's methods plus holding / dropping entry references and toggling
//! dirty bits; after every operation the full map state is printed.
use crate::util::Rng;
use qcow2_rs::cache::verif::{VerifEntry, VerifLru, VerifRow};
use std::collections::HashMap;

struct Run {
    c: VerifLru,
    held: Vec<(usize, VerifEntry)>, // (id, reference)
    ids: HashMap<usize, usize>,     // live entry address -> id
    next_id: usize,
    out: Vec<String>,
}

impl Run {
    fn id_of(&mut self, addr: usize) -> (usize, bool) {
        if let Some(i) = self.ids.get(&addr) {
            (*i, false)
        } else {
            let i = self.next_id;
            self.next_id += 1;
            self.ids.insert(addr, i);
            (i, true)
        }
    }
    fn rows(&mut self, rows: Vec<VerifRow>) -> String {
        let mut v: Vec<String> = Vec::new();
        for (k, addr, lru, dirty, strong) in rows {
            let (id, _) = self.id_of(addr);
            v.push(format!("{}:{}:{}:{}:{}", k, id, lru, dirty as u8, strong - 1));
        }
        if v.is_empty() {
            "-".into()
        } else {
            v.join(",")
        }
    }
    fn state(&mut self) {
        let r = self.c.rmap_rows();
        let w = self.c.wmap_rows();
        // forget entries that are gone (their address may be reused)
        let mut live: Vec<usize> = r.iter().chain(w.iter()).map(|x| x.1).collect();
        live.extend(self.held.iter().map(|(_, e)| e.addr()));
        self.ids.retain(|a, _| live.contains(a));
        let rs = self.rows(r);
        let ws = self.rows(w);
        self.out.push(format!("state rmap={} wmap={}", rs, ws));
    }
}

pub fn gen_case(seed: u64, id: usize, nops: usize) -> Vec<String> {
    let mut rng = Rng::derive(seed, 77, id as u64);
    let limit = *rng.pick(&[1usize, 2, 2, 3, 4, 6]);
    let nkeys = rng.range(2, 9);
    let mut run = Run { c: VerifLru::new(limit), held: Vec::new(), ids: HashMap::new(), next_id: 0, out: Vec::new() };
    run.out.push(format!("case {} limit={}", id, limit));
    for _ in 0..nops {
        let r = rng.below(100);
        if r < 22 {
            let k = rng.below(nkeys) as usize;
            let e = run.c.put(k, k as u64);
            let (i, new) = run.id_of(e.addr());
            run.held.push((i, e));
            run.out.push(format!("put {} -> id={} new={}", k, i, new as u8));
        } else if r < 40 {
            // victims = keys that left rmap + dirty victims returned
            let before: Vec<VerifRow> = run.c.rmap_rows();
            let ret = run.c.commit();
            let after: Vec<VerifRow> = run.c.rmap_rows();
            let mut victims: Vec<usize> = before
                .iter()
                .filter(|b| !after.iter().any(|a| a.1 == b.1))
                .map(|b| b.0)
                .collect();
            let mut dirty: Vec<String> = Vec::new();
            for (k, e) in ret {
                victims.push(k);
                let (i, _) = run.id_of(e.addr());
                dirty.push(format!("{}:{}", k, i));
                run.held.push((i, e));
            }
            victims.sort();
            dirty.sort();
            let vs = victims.iter().map(|k| k.to_string()).collect::<Vec<_>>().join(",");
            run.out.push(format!(
                "commit victims={} -> dirty={}",
                if vs.is_empty() { "-".into() } else { vs },
                if dirty.is_empty() { "-".into() } else { dirty.join(",") }
            ));
        } else if r < 55 {
            let k = rng.below(nkeys) as usize;
            match run.c.get(k) {
                Some(e) => {
                    let (i, _) = run.id_of(e.addr());
                    run.held.push((i, e));
                    run.out.push(format!("get {} -> {}", k, i));
                }
                None => run.out.push(format!("get {} -> -", k)),
            }
        } else if r < 72 {
            if run.held.is_empty() {
                continue;
            }
            let j = rng.below(run.held.len() as u64) as usize;
            let (i, e) = run.held.swap_remove(j);
            drop(e);
            run.out.push(format!("release {}", i));
        } else if r < 84 {
            if run.held.is_empty() {
                continue;
            }
            let j = rng.below(run.held.len() as u64) as usize;
            let d = rng.chance(2, 3);
            run.held[j].1.set_dirty(d);
            run.out.push(format!("setdirty {} {}", run.held[j].0, d as u8));
        } else if r < 89 {
            run.c.shrink();
            run.out.push("shrink".into());
        } else if r < 94 {
            let s = rng.below(nkeys) as usize;
            let e = s + rng.below(nkeys + 1) as usize;
            let ret = run.c.dirty_entries(s, e);
            let mut v: Vec<String> = Vec::new();
            for (k, en) in ret {
                let (i, _) = run.id_of(en.addr());
                v.push(format!("{}:{}", k, i));
                run.held.push((i, en));
            }
            v.sort();
            run.out.push(format!("dirties {} {} -> {}", s, e, if v.is_empty() { "-".into() } else { v.join(",") }));
        } else if r < 97 {
            let k = rng.below(nkeys) as usize;
            run.c.remove_from_wmap(k);
            run.out.push(format!("rmw {}", k));
        } else {
            run.out.push(format!("empty -> {}", run.c.is_empty() as u8));
        }
        run.state();
    }
    // leave nothing dirty behind (Drop only logs)
    run.out.push("end".into());
    run.out
}
