//! Shared helpers: PRNG, token patterns, hex, device construction, RAM view.
use crate::sim::SimFile;
use qcow2_rs::dev::{Qcow2Dev, Qcow2DevParams, VerifSlice, VerifSnapshot};
use qcow2_rs::error::Qcow2Result;
use qcow2_rs::helpers::Qcow2IoBuf;
use qcow2_rs::meta::Qcow2Header;
use std::path::Path;

/// SplitMix64: every random choice of a run derives from one state
#[derive(Clone)]
pub struct Rng(pub u64);

impl Rng {
    pub fn new(seed: u64) -> Self {
        Rng(seed)
    }
    pub fn derive(seed: u64, a: u64, b: u64) -> Self {
        let mut r = Rng(seed ^ a.wrapping_mul(0x9E3779B97F4A7C15) ^ b.wrapping_mul(0xC2B2AE3D27D4EB4F));
        r.next();
        r
    }
    pub fn next(&mut self) -> u64 {
        self.0 = self.0.wrapping_add(0x9E3779B97F4A7C15);
        let mut z = self.0;
        z = (z ^ (z >> 30)).wrapping_mul(0xBF58476D1CE4E5B9);
        z = (z ^ (z >> 27)).wrapping_mul(0x94D049BB133111EB);
        z ^ (z >> 31)
    }
    pub fn below(&mut self, n: u64) -> u64 {
        if n == 0 {
            0
        } else {
            self.next() % n
        }
    }
    pub fn range(&mut self, lo: u64, hi: u64) -> u64 {
        lo + self.below(hi - lo + 1)
    }
    pub fn chance(&mut self, num: u64, den: u64) -> bool {
        self.below(den) < num
    }
    pub fn pick<'a, T>(&mut self, v: &'a [T]) -> &'a T {
        &v[self.below(v.len() as u64) as usize]
    }
}

pub const SECTOR: usize = 512;
pub const POISON_BYTE: u8 = 0xA5;
pub const POISON_WORD: u64 = 0xA5A5_A5A5_A5A5_A5A5;

/// fill one 512-byte sector with the token (64 little-endian words)
pub fn fill_sector(buf: &mut [u8], tok: u64) {
    debug_assert!(buf.len() == SECTOR);
    for w in buf.chunks_mut(8) {
        w.copy_from_slice(&tok.to_le_bytes());
    }
}

/// fill `buf` (multiple of 512) with tokens base, base+1, ...
pub fn fill_tokens(buf: &mut [u8], base: u64) {
    for (i, s) in buf.chunks_mut(SECTOR).enumerate() {
        fill_sector(s, base + i as u64);
    }
}

/// decode one sector: Some(word) if all 64 words are equal, None if mixed
pub fn decode_sector(buf: &[u8]) -> Option<u64> {
    let first = u64::from_le_bytes(buf[0..8].try_into().unwrap());
    for w in buf.chunks(8) {
        if u64::from_le_bytes(w.try_into().unwrap()) != first {
            return None;
        }
    }
    Some(first)
}

/// run-length text of a buffer's sectors: `z`, `p`, `t<hex>` (+n consecutive), `m`
pub fn decode_rle(buf: &[u8]) -> String {
    let mut toks: Vec<Option<u64>> = Vec::new();
    for s in buf.chunks(SECTOR) {
        if s.len() < SECTOR {
            toks.push(None);
        } else {
            toks.push(decode_sector(s));
        }
    }
    rle_tokens(&toks)
}

/// canonical run-length encoding of a token sequence; runs of equal tokens and
/// runs of consecutive tokens are compressed
pub fn rle_tokens(toks: &[Option<u64>]) -> String {
    let mut out = String::new();
    let mut i = 0;
    while i < toks.len() {
        let t = toks[i];
        // equal run
        let mut j = i + 1;
        while j < toks.len() && toks[j] == t {
            j += 1;
        }
        let eq = j - i;
        // consecutive run
        let mut k = i + 1;
        if let Some(v) = t {
            while k < toks.len() && toks[k] == Some(v.wrapping_add((k - i) as u64)) {
                k += 1;
            }
        }
        let seq = k - i;
        if !out.is_empty() {
            out.push(' ');
        }
        let name = |t: Option<u64>| match t {
            None => "m".to_string(),
            Some(0) => "z".to_string(),
            Some(POISON_WORD) => "p".to_string(),
            Some(v) => format!("t{:x}", v),
        };
        if seq > eq && seq > 1 {
            out.push_str(&format!("{}+{}", name(t), seq));
            i += seq;
        } else if eq > 1 {
            out.push_str(&format!("{}*{}", name(t), eq));
            i += eq;
        } else {
            out.push_str(&name(t));
            i += 1;
        }
    }
    out
}

pub fn hex(b: &[u8]) -> String {
    let mut s = String::with_capacity(b.len() * 2);
    for x in b {
        s.push_str(&format!("{:02x}", x));
    }
    s
}

pub fn unhex(s: &str) -> Vec<u8> {
    (0..s.len() / 2)
        .map(|i| u8::from_str_radix(&s[2 * i..2 * i + 2], 16).unwrap())
        .collect()
}

pub fn fnv64(b: &[u8]) -> u64 {
    let mut h: u64 = 0xcbf29ce484222325;
    for x in b {
        h ^= *x as u64;
        h = h.wrapping_mul(0x100000001b3);
    }
    h
}

/// the code's own formatter: an empty image of `size` bytes virtual size
pub fn format_image(size: u64, cb: usize, ro: u8, bs: usize) -> Qcow2Result<Vec<u8>> {
    let (rc_t, rc_b, _) = Qcow2Header::calculate_meta_params(size, cb, ro, bs);
    let clusters = 1 + rc_t.1 + rc_b.1;
    let img_size = ((clusters as usize) << cb) + bs;
    let mut buf = vec![0u8; img_size];
    Qcow2Header::format_qcow2(&mut buf, size, cb, ro, bs)?;
    Ok(buf)
}

/// open a device (and its backing chain, top first in `files`) over SimFiles
pub async fn open_dev(files: &[SimFile], params: &Qcow2DevParams) -> Qcow2Result<Qcow2Dev<SimFile>> {
    let mut devs: Vec<Qcow2Dev<SimFile>> = Vec::new();
    for (i, f) in files.iter().enumerate() {
        let mut p = params.clone();
        if i > 0 {
            p.mark_backing_dev(Some(true));
        }
        let (dev, _back) = qcow2_rs::utils::qcow2_alloc_dev(Path::new("sim"), f.clone(), &p).await?;
        devs.push(dev);
    }
    // link from the bottom up
    let mut cur: Option<Qcow2Dev<SimFile>> = None;
    while let Some(mut d) = devs.pop() {
        if let Some(b) = cur.take() {
            d.set_backing_dev(Box::new(b));
        }
        cur = Some(d);
    }
    let dev = cur.unwrap();
    dev.qcow2_prep_io().await?;
    Ok(dev)
}

pub fn iobuf(len: usize, fill: u8) -> Qcow2IoBuf<u8> {
    let mut b = Qcow2IoBuf::<u8>::new(len);
    for x in b.iter_mut() {
        *x = fill;
    }
    b
}

/// refcount entry `i` of a raw refblock slice (independent re-implementation,
/// straight from the qcow2 specification)
pub fn rc_get(order: u8, bytes: &[u8], i: usize) -> u64 {
    let bits = 1usize << order;
    if bits >= 8 {
        let n = bits / 8;
        let mut v = 0u64;
        for k in 0..n {
            v = (v << 8) | bytes[i * n + k] as u64;
        }
        v
    } else {
        let per = 8 / bits;
        let b = bytes[i / per];
        ((b >> ((i % per) * bits)) as u64) & ((1u64 << bits) - 1)
    }
}

/// The metadata as the running device sees it, computed without touching the
/// device: cached slice if cached, zeros if its cluster is still "new", else the
/// file bytes.
pub struct RamView<'a> {
    pub snap: &'a VerifSnapshot,
    pub file: &'a [u8],
    pub cb: usize,
    pub order: u8,
    pub l2_slice_bits: usize,
    pub rb_slice_bits: usize,
}

impl<'a> RamView<'a> {
    fn is_new(&self, cluster: u64) -> bool {
        self.snap.new_clusters.iter().any(|(c, _)| *c == cluster)
    }

    fn slice_bytes(&self, slices: &'a [VerifSlice], off: u64, len: usize) -> std::borrow::Cow<'a, [u8]> {
        use std::borrow::Cow;
        for s in slices {
            if s.offset == Some(off) {
                if let Some(b) = &s.bytes {
                    return Cow::Borrowed(&b[..]);
                }
            }
        }
        if self.is_new(off >> self.cb) {
            return Cow::Owned(vec![0u8; len]);
        }
        let o = off as usize;
        if o + len <= self.file.len() {
            return Cow::Borrowed(&self.file[o..o + len]);
        }
        let mut v = vec![0u8; len];
        if o < self.file.len() {
            let n = self.file.len() - o;
            v[..n].copy_from_slice(&self.file[o..o + n]);
        }
        Cow::Owned(v)
    }

    /// raw L2 entry of guest cluster `g`
    pub fn l2_entry(&self, g: u64) -> u64 {
        let l2_entries = (1u64 << self.cb) / 8;
        let l1_idx = (g / l2_entries) as usize;
        let l2_idx = (g % l2_entries) as usize;
        let l1e = if l1_idx < self.snap.l1.len() {
            self.snap.l1[l1_idx]
        } else {
            0
        };
        let l2_off = l1e & 0x00ff_ffff_ffff_fe00;
        if l2_off == 0 {
            return 0;
        }
        let slice_entries = (1usize << self.l2_slice_bits) / 8;
        let slice_no = l2_idx / slice_entries;
        let off = l2_off + ((slice_no as u64) << self.l2_slice_bits);
        let b = self.slice_bytes(&self.snap.l2_slices, off, 1 << self.l2_slice_bits);
        let k = (l2_idx % slice_entries) * 8;
        u64::from_be_bytes(b[k..k + 8].try_into().unwrap())
    }

    /// refcount of host cluster `c` (None when no refblock covers it)
    pub fn refcount(&self, c: u64) -> Option<u64> {
        let rb_entries = ((1u64 << self.cb) * 8) >> self.order;
        let rt_idx = (c / rb_entries) as usize;
        if rt_idx >= self.snap.rt.len() {
            return None;
        }
        let rbo = self.snap.rt[rt_idx] & 0xffff_ffff_ffff_fe00;
        if rbo == 0 {
            return None;
        }
        let rb_idx = (c % rb_entries) as usize;
        let slice_entries = ((1usize << self.rb_slice_bits) * 8) >> self.order;
        let slice_no = rb_idx / slice_entries;
        let off = rbo + ((slice_no as u64) << self.rb_slice_bits);
        let b = self.slice_bytes(&self.snap.rb_slices, off, 1 << self.rb_slice_bits);
        Some(rc_get(self.order, &b, rb_idx % slice_entries))
    }
}

/// CPU time (user + system, all threads) of this process in milliseconds
fn process_cpu_ms() -> Option<u64> {
    let s = std::fs::read_to_string("/proc/self/stat").ok()?;
    // the command name (field 2) may contain spaces: fields are counted after the last ')'
    let rest = &s[s.rfind(')')? + 2..];
    let f: Vec<&str> = rest.split(' ').collect();
    let ticks = f.get(11)?.parse::<u64>().ok()? + f.get(12)?.parse::<u64>().ok()?;
    Some(ticks * 10) // USER_HZ is 100 on Linux
}

/// id of the case the main thread is running (`usize::MAX`: none), for `block_on`
static CURRENT_CASE: std::sync::atomic::AtomicUsize = std::sync::atomic::AtomicUsize::new(usize::MAX);

struct WakeFlag(std::sync::atomic::AtomicBool);

impl std::task::Wake for WakeFlag {
    fn wake(self: std::sync::Arc<Self>) {
        self.0.store(true, std::sync::atomic::Ordering::SeqCst);
    }
    fn wake_by_ref(self: &std::sync::Arc<Self>) {
        self.0.store(true, std::sync::atomic::Ordering::SeqCst);
    }
}

/// `block_on` for futures over an ungated `SimFile`: every request completes inside the
/// call that issues it and there is no other thread, timer or reactor, so a future that
/// returns `Pending` without having been woken during that poll can never be woken - the
/// task waits for something only it could release (a lock it holds itself).  That is
/// decided here, without a clock: reported like a watchdog hang (`hang case=<id>`, exit 3).
pub fn block_on<F: std::future::Future>(fut: F) -> F::Output {
    use std::sync::atomic::Ordering;
    let flag = std::sync::Arc::new(WakeFlag(std::sync::atomic::AtomicBool::new(false)));
    let waker = std::task::Waker::from(flag.clone());
    let mut cx = std::task::Context::from_waker(&waker);
    let mut fut = std::pin::pin!(fut);
    loop {
        if let std::task::Poll::Ready(v) = fut.as_mut().poll(&mut cx) {
            return v;
        }
        if !flag.0.swap(false, Ordering::SeqCst) {
            let id = CURRENT_CASE.load(Ordering::Relaxed);
            if id == usize::MAX {
                panic!("block_on: the future waits for a wake-up that cannot come");
            }
            println!("hang case={} why=waits for a wake-up that cannot come (a lock the task holds itself)", id);
            std::process::exit(3);
        }
    }
}

/// Hang detection for a harness that runs its cases on the main thread.
///
/// A case is a hang when it has made no progress while the process *consumed* `budget`
/// seconds of CPU time (a loop that spins), or - a case blocked without running, which
/// `block_on` above normally reports at once - for `30 * budget` seconds of wall-clock time.  Wall-clock time alone is not a measure of
/// what the library did: on a loaded or freshly restored machine the same few
/// milliseconds of work can take many seconds (DESIGN 10.21).
pub struct Watchdog {
    progress: std::sync::Arc<std::sync::atomic::AtomicUsize>,
    tick: std::sync::Arc<std::sync::atomic::AtomicUsize>,
}

impl Watchdog {
    pub fn start(budget_secs: u64) -> Self {
        use std::sync::atomic::{AtomicUsize, Ordering};
        let progress = std::sync::Arc::new(AtomicUsize::new(usize::MAX));
        let tick = std::sync::Arc::new(AtomicUsize::new(0));
        let (p, t) = (progress.clone(), tick.clone());
        std::thread::spawn(move || {
            let mut last = (usize::MAX, 0usize);
            let mut since = std::time::Instant::now();
            let mut cpu0 = process_cpu_ms();
            loop {
                std::thread::sleep(std::time::Duration::from_millis(200));
                let cur = (p.load(Ordering::Relaxed), t.load(Ordering::Relaxed));
                if cur != last {
                    last = cur;
                    since = std::time::Instant::now();
                    cpu0 = process_cpu_ms();
                    continue;
                }
                if cur.0 == usize::MAX {
                    continue;
                }
                let wall = since.elapsed().as_secs();
                let spun = match (cpu0, process_cpu_ms()) {
                    (Some(a), Some(b)) => b.saturating_sub(a) >= budget_secs * 1000,
                    // no /proc: fall back to a generous wall-clock budget
                    _ => wall >= 6 * budget_secs,
                };
                if spun || wall >= 30 * budget_secs {
                    if spun {
                        println!("hang case={} why=spins: {} s of CPU time without finishing", cur.0, budget_secs);
                    } else {
                        println!("hang case={} why=neither runs nor finishes for {} s", cur.0, wall);
                    }
                    std::process::exit(3);
                }
            }
        });
        Watchdog { progress, tick }
    }

    /// the case with this id starts now
    pub fn begin(&self, id: usize) {
        CURRENT_CASE.store(id, std::sync::atomic::Ordering::Relaxed);
        self.progress.store(id, std::sync::atomic::Ordering::Relaxed);
        self.tick.fetch_add(1, std::sync::atomic::Ordering::Relaxed);
    }
}
