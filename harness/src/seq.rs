//! Sequential device histories (C01, C02, C03, C08, C10, C11, C13, C16, C18 …):
//! generates a case (geometry + operation list), runs it on the real `Qcow2Dev`
//! over `SimFile`, and writes the observations as lines.
use crate::sim::{Kind, SimFile};
use crate::util::*;
use crate::util::block_on;
use qcow2_rs::dev::{Qcow2Dev, Qcow2DevParams};
use std::fmt::Write as _;
use std::panic::{catch_unwind, AssertUnwindSafe};

#[derive(Clone, Debug, PartialEq)]
pub enum Op {
    Write { off: u64, len: u64, tok: u64 },
    Read { off: u64, len: u64 },
    Discard { off: u64, len: u64 },
    Flush,
    Shrink,
    Fsync,
    /// flush_meta, then drop the device and open a new one on the same file
    Reopen { bsb: u8, l2: Option<(u8, usize)>, rb: Option<(u8, usize)> },
}

#[derive(Clone, Debug)]
pub struct Case {
    pub id: usize,
    pub seed: u64,
    pub cb: usize,
    pub ro: u8,
    pub size: u64,
    pub bsb: u8,
    pub l2: Option<(u8, usize)>,
    pub rb: Option<(u8, usize)>,
    pub rdonly: bool,
    /// "format" (the code's own formatter), "built" (independent builder),
    /// "built+back" / "built+backshort" (with a built backing image)
    pub img: String,
    pub ver: u32,
    pub ops: Vec<Op>,
}

fn cache_txt(c: &Option<(u8, usize)>) -> String {
    match c {
        Some((b, s)) => format!("{},{}", b, s),
        None => "-".into(),
    }
}

fn cache_parse(s: &str) -> Option<(u8, usize)> {
    if s == "-" {
        None
    } else {
        let mut it = s.split(',');
        Some((it.next().unwrap().parse().unwrap(), it.next().unwrap().parse().unwrap()))
    }
}

impl Op {
    pub fn text(&self) -> String {
        match self {
            Op::Write { off, len, tok } => format!("write {} {} {}", off, len, tok),
            Op::Read { off, len } => format!("read {} {}", off, len),
            Op::Discard { off, len } => format!("discard {} {}", off, len),
            Op::Flush => "flush".into(),
            Op::Shrink => "shrink".into(),
            Op::Fsync => "fsync".into(),
            Op::Reopen { bsb, l2, rb } => format!("reopen {} {} {}", bsb, cache_txt(l2), cache_txt(rb)),
        }
    }
    pub fn parse(t: &[&str]) -> Op {
        let n = |i: usize| -> u64 { t[i].parse().unwrap() };
        match t[0] {
            "write" => Op::Write { off: n(1), len: n(2), tok: n(3) },
            "read" => Op::Read { off: n(1), len: n(2) },
            "discard" => Op::Discard { off: n(1), len: n(2) },
            "flush" => Op::Flush,
            "shrink" => Op::Shrink,
            "fsync" => Op::Fsync,
            "reopen" => Op::Reopen { bsb: n(1) as u8, l2: cache_parse(t[2]), rb: cache_parse(t[3]) },
            x => panic!("bad op {}", x),
        }
    }
    pub fn kind(&self) -> &'static str {
        match self {
            Op::Write { .. } => "write",
            Op::Read { .. } => "read",
            Op::Discard { .. } => "discard",
            Op::Flush => "flush",
            Op::Shrink => "shrink",
            Op::Fsync => "fsync",
            Op::Reopen { .. } => "reopen",
        }
    }
}

impl Case {
    pub fn header(&self) -> String {
        format!(
            "case id={} seed={} cb={} ro={} size={} bsb={} l2={} rb={} rdonly={} img={} ver={}",
            self.id,
            self.seed,
            self.cb,
            self.ro,
            self.size,
            self.bsb,
            cache_txt(&self.l2),
            cache_txt(&self.rb),
            self.rdonly as u8,
            self.img,
            self.ver
        )
    }

    pub fn lines(&self) -> Vec<String> {
        let mut v = vec![self.header()];
        for (k, op) in self.ops.iter().enumerate() {
            v.push(format!("op {} {}", k, op.text()));
        }
        v.push("end".into());
        v
    }

    pub fn parse(lines: &[&str]) -> Case {
        let mut kv = std::collections::HashMap::new();
        for t in lines[0].split(' ').skip(1) {
            if let Some((k, v)) = t.split_once('=') {
                kv.insert(k.to_string(), v.to_string());
            }
        }
        let g = |k: &str| kv.get(k).cloned().unwrap_or_default();
        let mut ops = Vec::new();
        for l in &lines[1..] {
            let t: Vec<&str> = l.split(' ').collect();
            if t[0] == "op" {
                ops.push(Op::parse(&t[2..]));
            }
        }
        Case {
            id: g("id").parse().unwrap(),
            seed: g("seed").parse().unwrap(),
            cb: g("cb").parse().unwrap(),
            ro: g("ro").parse().unwrap(),
            size: g("size").parse().unwrap(),
            bsb: g("bsb").parse().unwrap(),
            l2: cache_parse(&g("l2")),
            rb: cache_parse(&g("rb")),
            rdonly: g("rdonly") == "1",
            img: g("img"),
            ver: g("ver").parse().unwrap_or(3),
            ops,
        }
    }

    pub fn params(&self) -> Qcow2DevParams {
        Qcow2DevParams::new(self.bsb, self.rb, self.l2, self.rdonly, false)
    }
}

/// generator profile: which op mix / geometry class
#[derive(Clone, Copy, Debug, PartialEq)]
pub enum Profile {
    /// C01-style general histories
    General,
    /// many discards and rewrites over a small working set (C08, C11)
    Churn,
    /// boundary / invalid arguments (C13)
    Validate,
    /// frequent flush / shrink / reopen (C02, C18)
    Flushy,
    /// partial writes over backing-provided and compressed clusters (C10)
    Cow,
    /// writes/discards with frequent flush + fsync pairs (C04, C05)
    Crashy,
    /// fill, punch holes around slice boundaries, multi-cluster rewrites (C03, C08)
    Frag,
    /// crashy operations on the sparse geometry class (large virtual size, many L1
    /// entries, several small L2 slices per table)
    CrashySparse,
    /// fill a self-formatted image until the host file outgrows its refcount table (C12)
    Grow,
    /// many L1 entries (several blocks of the L1 table) with general operations (C17, C02)
    TopBlocks,
    /// small refcount blocks (64 clusters each): a new refblock every few writes, crashy operations (C04, C05)
    Refblocks,
    /// writes on both sides of L2 slice boundaries, flush / reopen (cold caches), discards and
    /// multi-cluster operations across the boundaries (C18, C17: loads in the middle of an operation)
    SliceCross,
    /// general operations on the sparse geometry class
    Sparse,
}

pub fn pick_slice(rng: &mut Rng, bsb: u8, cb: usize, allow_default: bool) -> Option<(u8, usize)> {
    if allow_default && cb >= 12 && rng.chance(1, 5) {
        return None;
    }
    let b = rng.range(bsb as u64, cb as u64) as u8;
    let cnt = *rng.pick(&[2usize, 2, 3, 4, 8, 16]);
    Some((b, cnt << b))
}

pub fn gen_geometry(rng: &mut Rng, case: &mut Case) {
    let cb = *rng.pick(&[9usize, 9, 10, 10, 11, 12, 12, 13, 16]);
    let cs = 1u64 << cb;
    // refcount width: the formatter needs all metadata refcounts in one refblock
    let ro = rng.range(0, 6) as u8;
    let max_clusters: u64 = match cb {
        9 => 96,
        10 => 128,
        11 => 160,
        12 => 192,
        13 => 128,
        _ => 48,
    };
    let mut n = rng.range(4, max_clusters);
    // sparse class: a large virtual size (many L1 entries, several L2 slices per
    // table far from each other) with the same small amount of data
    let sparse = (cb == 10 || cb == 12) && rng.chance(1, 3);
    if sparse {
        n = rng.range(4096, 8192);
    }
    let tail = if rng.chance(1, 4) { rng.below(cs / 512) * 512 } else { 0 };
    case.cb = cb;
    case.ro = ro;
    case.size = n * cs + tail;
    case.bsb = rng.range(9, 12.min(cb as u64)) as u8;
    case.l2 = pick_slice(rng, case.bsb, cb, true);
    case.rb = pick_slice(rng, case.bsb, cb, true);
    if sparse && rng.chance(2, 3) {
        // small L2 slices: several per table
        case.bsb = 9;
        case.l2 = Some((9, (*rng.pick(&[2usize, 4, 8, 16])) << 9));
    }
    if case.l2.is_none() != case.rb.is_none() && rng.chance(1, 2) {
        case.rb = case.l2;
    }
}

fn align_down(x: u64, a: u64) -> u64 {
    x / a * a
}

/// an in-range block aligned (offset, len) biased to structure boundaries
pub fn gen_range(rng: &mut Rng, c: &Case, max_clusters: u64) -> (u64, u64) {
    let bs = 1u64 << c.bsb;
    let cs = 1u64 << c.cb;
    let vs = align_down(c.size, bs);
    let l2_slice_cover = match c.l2 {
        Some((b, _)) => ((1u64 << b) / 8) * cs,
        None => 512 * cs,
    };
    let shape = rng.below(10);
    let mut off = match rng.below(6) {
        0 => align_down(rng.below(vs), cs),
        1 => align_down(rng.below(vs), cs) + align_down(rng.below(cs), bs),
        2 => {
            let k = rng.below(vs / l2_slice_cover + 1);
            (k * l2_slice_cover).saturating_sub(bs * rng.below(3))
        }
        3 => vs.saturating_sub(bs * rng.range(1, 8)),
        _ => align_down(rng.below(vs), bs),
    };
    if off >= vs {
        off = vs - bs;
    }
    let mut len = match shape {
        0..=3 => bs * rng.range(1, (cs / bs).max(1)),           // sub-cluster (may straddle)
        4..=5 => cs,                                              // one cluster
        6..=7 => cs * rng.range(1, 3) + bs * rng.below(cs / bs),  // straddling
        _ => cs * rng.range(2, max_clusters.max(2)),              // multi cluster
    };
    if shape <= 3 && rng.chance(1, 2) {
        // keep inside one cluster
        let room = cs - off % cs;
        len = len.min(room);
    }
    if off + len > vs {
        len = vs - off;
    }
    len = align_down(len, bs).max(bs);
    if off + len > vs {
        off = vs - len;
        off = align_down(off, bs);
    }
    (off, len)
}

pub fn gen_case(seed: u64, id: usize, profile: Profile, nops: usize) -> Case {
    let mut rng = Rng::derive(seed, 1, id as u64);
    let mut c = Case {
        id,
        seed,
        cb: 9,
        ro: 4,
        size: 0,
        bsb: 9,
        l2: None,
        rb: None,
        rdonly: false,
        img: "format".into(),
        ver: 3,
        ops: Vec::new(),
    };
    gen_geometry(&mut rng, &mut c);
    if profile == Profile::Frag {
        // several refblock slices per refblock, host usage crossing slice boundaries
        c.cb = *rng.pick(&[10usize, 11]);
        c.bsb = 9;
        c.ro = 5;
        let cs = 1u64 << c.cb;
        c.size = rng.range(130, 200) * cs;
        c.rb = Some((9, (*rng.pick(&[2usize, 3, 4, 8])) << 9));
        c.l2 = pick_slice(&mut rng, 9, c.cb, false);
    }
    if profile == Profile::Refblocks {
        c.cb = 9;
        c.bsb = 9;
        c.ro = 6;
        // 512..1024 clusters: 8..16 refblocks of 64 clusters, 8..16 L2 tables
        c.size = rng.range(512, 1024) * 512;
        c.l2 = if rng.chance(1, 2) { None } else { pick_slice(&mut rng, 9, c.cb, true) };
        c.rb = c.l2;
    }
    if profile == Profile::TopBlocks {
        // 512-byte clusters: 64 clusters per L2 table; 100..250 L1 entries = 2..4 blocks of 64
        c.cb = 9;
        c.bsb = 9;
        c.ro = *rng.pick(&[4u8, 4, 5, 3]);
        c.size = rng.range(6400, 16000) * 512;
        c.l2 = Some((9, (*rng.pick(&[2usize, 4, 8, 16])) << 9));
        c.rb = pick_slice(&mut rng, 9, c.cb, true);
    }
    if profile == Profile::SliceCross {
        c.cb = *rng.pick(&[9usize, 10]);
        c.bsb = 9;
        c.ro = *rng.pick(&[3u8, 4, 4, 5]);
        let cs = 1u64 << c.cb;
        // 512-byte slices: 64 clusters each; four to six slices
        c.size = 64 * cs * rng.range(4, 6);
        c.l2 = Some((9, (*rng.pick(&[2usize, 2, 4])) << 9));
        c.rb = Some((9, (*rng.pick(&[2usize, 4])) << 9));
    }
    if profile == Profile::Grow {
        // one block of reftable entries (64) covers 64 * rb_entries clusters: with 512-byte
        // clusters and 64/32-bit refcounts that is 2 / 4 MiB of host file, which a nearly
        // full image of about that virtual size outgrows (data + L2 tables + refblocks)
        c.cb = 9;
        c.bsb = 9;
        c.ro = *rng.pick(&[6u8, 6, 5]);
        let cover: u64 = 64 * ((512 * 8) >> c.ro) * 512;
        c.size = cover - 512 * rng.below(64);
        // default (large) caches in half of the cases: dirty slices pile up until the relocation
        c.l2 = if rng.chance(1, 2) { None } else { pick_slice(&mut rng, 9, c.cb, true) };
        c.rb = c.l2;
    }
    if profile == Profile::CrashySparse || profile == Profile::Sparse {
        // 512-byte clusters: 64 clusters per L2 table, so the L1 table has a second block
        c.cb = *rng.pick(&[10usize, 12, 12, 9]);
        let cs = 1u64 << c.cb;
        c.ro = rng.range(3, 6) as u8;
        c.bsb = 9;
        c.size = rng.range(6000, 8192) * cs;
        c.l2 = Some((9, (*rng.pick(&[2usize, 4, 8, 16])) << 9));
        c.rb = pick_slice(&mut rng, 9, c.cb, true);
    }
    if profile == Profile::Validate && rng.chance(1, 2) {
        // virtual size that is a multiple of 512 but not of the block size
        let bs = 1u64 << c.bsb;
        let cs = 1u64 << c.cb;
        if bs > 512 {
            c.size = c.size / cs * cs + 512 * rng.range(1, bs / 512 - 1);
        }
    }
    gen_ops(&mut rng, &mut c, profile, nops);
    c
}

/// images for a case: (files top first, sidecar lines for the driver)
pub struct CaseImages {
    pub files: Vec<Vec<u8>>,
    pub comp: Vec<String>,
    pub flat: Vec<String>,
}

/// a case over an image from the independent builder; geometry comes from the layout
pub fn gen_built_case(seed: u64, id: usize, profile: Profile, nops: usize, kind: &str) -> Case {
    let mut rng = Rng::derive(seed, 3, id as u64);
    let (layout, _, _) = built_layouts(seed, id, kind);
    let bsb = rng.range(9, 12.min(layout.cb as u64)) as u8;
    let mut c = Case {
        id,
        seed,
        cb: layout.cb,
        ro: layout.ro,
        size: layout.size,
        bsb,
        l2: None,
        rb: None,
        rdonly: false,
        img: kind.to_string(),
        ver: layout.version,
        ops: Vec::new(),
    };
    c.l2 = pick_slice(&mut rng, bsb, c.cb, true);
    c.rb = pick_slice(&mut rng, bsb, c.cb, true);
    if c.l2.is_none() != c.rb.is_none() {
        c.rb = c.l2;
    }
    let (_, back, _) = built_layouts(seed, id, kind);
    if let Some(b) = back {
        if b.cb != c.cb {
            // the same parameters are used for every image of the chain: only the
            // defaults fit images with different cluster sizes
            c.l2 = None;
            c.rb = None;
            c.bsb = 9;
            gen_ops(&mut rng, &mut c, profile, nops);
            for op in c.ops.iter_mut() {
                if let Op::Reopen { .. } = op {
                    *op = Op::Reopen { bsb: 9, l2: None, rb: None };
                }
            }
            return c;
        }
    }
    gen_ops(&mut rng, &mut c, profile, nops);
    c
}

/// deterministic layouts of a built case: (top, optional backing, rng for placement)
pub fn built_layouts(seed: u64, id: usize, kind: &str) -> (crate::build::Layout, Option<crate::build::Layout>, Rng) {
    let mut rng = Rng::derive(seed, 2, id as u64);
    let with_back = kind.contains("+back");
    let mut top = crate::build::gen_layout(&mut rng, with_back, true);
    if kind.starts_with("overlay") {
        // a fresh overlay: nothing allocated, everything comes from the backing image
        for s in top.states.iter_mut() {
            *s = crate::build::GState::Unalloc;
        }
    }
    let back = if with_back {
        let mut b = crate::build::gen_layout(&mut rng, false, true);
        if rng.chance(3, 4) && b.cb != top.cb {
            // usual case: the chain shares one cluster size
            let mut tries = 0;
            while b.cb != top.cb && tries < 200 {
                b = crate::build::gen_layout(&mut rng, false, true);
                tries += 1;
            }
        }
        // same cluster size is not required by the format; keep the token spaces apart
        crate::build::retag(&mut b, 0xB000_0000_0000);
        if kind.contains("backshort") {
            // backing shorter than the top image
            if b.size >= top.size {
                let cs = 1u64 << b.cb;
                let n = (top.size / 2 / cs).max(1);
                b.size = n * cs;
                b.states.truncate(n as usize);
                b.tok_base.truncate(n as usize);
            }
        } else if b.size < top.size {
            // make the backing at least as large as the top: regenerate states
            let cs = 1u64 << b.cb;
            let n = top.size.div_ceil(cs);
            b.size = n * cs;
            while (b.states.len() as u64) < n {
                let g = b.states.len() as u64;
                b.states.push(if g % 3 == 0 { crate::build::GState::Unalloc } else { crate::build::GState::Data });
                b.tok_base.push(0xB000_0000_0000 + (g << 16));
            }
        }
        Some(b)
    } else {
        None
    };
    if !with_back {
        top.backing_name = None;
    }
    (top, back, rng)
}

/// A host file may hold arbitrary bytes wherever no cluster is allocated (an image on a
/// block device, a reused file).  Every second case gets a tail of stale bytes behind
/// the last allocated cluster, so that anything relying on "fresh clusters read as
/// zero" shows.
pub fn garbage_tail(case: &Case, img: &mut Vec<u8>) {
    if case.id % 2 == 1 || case.size >= (4 << 20) {
        let cs = 1usize << case.cb;
        let len = img.len().div_ceil(cs) * cs;
        img.resize(len, 0);
        let extra = (96 * cs).min(768 * 1024);
        img.extend(std::iter::repeat(POISON_BYTE).take(extra));
    }
}

pub fn case_images(case: &Case) -> Result<CaseImages, String> {
    if case.img == "format" {
        let mut img = format_image(case.size, case.cb, case.ro, 1 << case.bsb).map_err(|_| "format err".to_string())?;
        // the formatter's buffer ends after the first block of the L1 table; the rest of the
        // table belongs to the image (zeros): stale bytes may start only behind it
        let (_, _, l1) = qcow2_rs::meta::Qcow2Header::calculate_meta_params(case.size, case.cb, case.ro, 1 << case.bsb);
        let l1_end = l1.0 as usize + ((l1.1 as usize) << case.cb);
        if img.len() < l1_end {
            img.resize(l1_end, 0);
        }
        garbage_tail(case, &mut img);
        return Ok(CaseImages { files: vec![img], comp: vec![], flat: vec![] });
    }
    let (top, back, mut rng) = built_layouts(case.seed, case.id, &case.img);
    let bt = crate::build::build(&top, &mut rng);
    let bb = back.as_ref().map(|b| crate::build::build(b, &mut rng));
    let mut comp = Vec::new();
    for (o, t) in &bt.comp {
        comp.push(format!("top {} {}", o, t));
    }
    for c in &bt.prealloc {
        comp.push(format!("prealloc {} 0", c));
    }
    let spc_top = (1usize << top.cb) / SECTOR;
    let nsec = (top.size as usize) / SECTOR;
    let mut flat: Vec<Option<u64>> = Vec::new();
    for s in 0..nsec {
        let v = match bt.content.get(s).copied().flatten() {
            Some(v) => v,
            None => match (&back, &bb) {
                (Some(bl), Some(bbt)) => {
                    if (s as u64 + 1) * 512 <= bl.size {
                        bbt.content.get(s).copied().flatten().unwrap_or(0)
                    } else {
                        0
                    }
                }
                _ => 0,
            },
        };
        flat.push(Some(v));
    }
    let own: Vec<Option<u64>> = (0..top.states.len()).map(|g| Some(bt.own[g] as u64)).collect();
    let _ = spc_top;
    let mut top_bytes = bt.bytes;
    garbage_tail(case, &mut top_bytes);
    let mut files = vec![top_bytes];
    if let Some(bbt) = bb {
        for (o, t) in &bbt.comp {
            comp.push(format!("back {} {}", o, t));
        }
        files.push(bbt.bytes);
    }
    Ok(CaseImages { files, comp, flat: vec![rle_tokens(&flat), rle_tokens(&own)] })
}

pub fn gen_ops(rng: &mut Rng, c: &mut Case, profile: Profile, nops: usize) {
    let mut rng = rng.clone();
    let c = c;
    let bs = 1u64 << c.bsb;
    let cs = 1u64 << c.cb;
    let nops = rng.range((nops / 2).max(1) as u64, nops as u64) as usize;
    let nops_total = nops;
    let mut frag_step = 0u64;
    // boundary grid for the validation profile: every (offset, length) pair x op kind
    let mut grid: Vec<Op> = Vec::new();
    let mut grid_pos = 0usize;
    if profile == Profile::Validate {
        let vs = c.size;
        let offs = [
            0u64,
            1,
            bs - 1,
            bs,
            cs - bs,
            cs,
            vs.saturating_sub(bs),
            vs.saturating_sub(1),
            vs,
            vs + 1,
            vs + bs,
            align_down(vs, bs),
            align_down(vs, bs).saturating_sub(bs),
            align_down(vs, bs) + bs,
            1 << 63,
            u64::MAX - bs + 1,
            u64::MAX - 1,
            u64::MAX,
            align_down(rng.below(vs), bs),
        ];
        let lens = [0u64, 1, bs - 1, bs, bs + 1, 2 * bs, cs, cs + bs, 3 * cs];
        let dlens = [0u64, 1, cs - 1, cs, 2 * cs, vs, u64::MAX, u64::MAX / 2 + 7];
        for &off in &offs {
            for &len in &lens {
                grid.push(Op::Read { off, len });
                grid.push(Op::Write { off, len, tok: 0 });
            }
            for &len in &dlens {
                grid.push(Op::Discard { off, len });
            }
        }
        // deterministic shuffle
        for i in (1..grid.len()).rev() {
            let j = rng.below(i as u64 + 1) as usize;
            grid.swap(i, j);
        }
    }
    let profile_geom = profile;
    let profile = match profile {
        Profile::CrashySparse => Profile::Crashy,
        Profile::Sparse => Profile::General,
        Profile::TopBlocks => Profile::General,
        Profile::Refblocks => Profile::Crashy,
        p => p,
    };
    let _ = profile_geom;
    let mut k = 0u64;
    for _ in 0..nops {
        k += 1;
        let tok = k << 20;
        let r = rng.below(100);
        let op = match profile {
            Profile::General => match r {
                0..=44 => {
                    let (off, len) = gen_range(&mut rng, &*c, 6);
                    Op::Write { off, len, tok }
                }
                45..=69 => {
                    let (off, len) = gen_range(&mut rng, &*c, 8);
                    Op::Read { off, len }
                }
                70..=79 => {
                    let (off, len) = gen_range(&mut rng, &*c, 8);
                    // discard takes arbitrary byte ranges
                    let j = rng.below(4);
                    let off2 = if j == 0 { off + rng.below(cs) } else { off };
                    let len2 = if j == 1 { len + rng.below(cs) } else { len };
                    Op::Discard { off: off2, len: len2 }
                }
                80..=87 => Op::Flush,
                88..=91 => Op::Shrink,
                92..=95 => Op::Reopen {
                    bsb: rng.range(9, 12.min(c.cb as u64)) as u8,
                    l2: None,
                    rb: None,
                },
                96..=97 => Op::Fsync,
                _ => {
                    // invalid request
                    let (off, len) = gen_range(&mut rng, &*c, 2);
                    match rng.below(4) {
                        0 => Op::Write { off: off + 1, len, tok },
                        1 => Op::Read { off, len: len + 3 },
                        2 => Op::Write { off: c.size, len: bs, tok },
                        _ => Op::Read { off: c.size + bs * rng.below(3), len: bs },
                    }
                }
            },
            Profile::Flushy => match r {
                0..=34 => {
                    let (off, len) = gen_range(&mut rng, &*c, 5);
                    Op::Write { off, len, tok }
                }
                35..=49 => {
                    let (off, len) = gen_range(&mut rng, &*c, 6);
                    Op::Read { off, len }
                }
                50..=59 => {
                    let (off, len) = gen_range(&mut rng, &*c, 6);
                    Op::Discard { off, len }
                }
                60..=74 => Op::Flush,
                75..=84 => Op::Shrink,
                85..=96 => Op::Reopen { bsb: rng.range(9, 12.min(c.cb as u64)) as u8, l2: None, rb: None },
                _ => Op::Fsync,
            },
            Profile::Crashy => match r {
                0..=49 => {
                    let (off, len) = gen_range(&mut rng, &*c, 4);
                    Op::Write { off, len, tok }
                }
                50..=64 => {
                    let (off, len) = gen_range(&mut rng, &*c, 4);
                    Op::Discard { off, len }
                }
                65..=72 => {
                    let (off, len) = gen_range(&mut rng, &*c, 4);
                    Op::Read { off, len }
                }
                73..=88 => Op::Flush,
                89..=92 => Op::Shrink,
                _ => Op::Fsync,
            },
            Profile::Cow => match r {
                0..=54 => {
                    // sub-cluster and straddling writes
                    let (off, len) = gen_range(&mut rng, &*c, 2);
                    let len = if rng.chance(2, 3) { len.min(bs * rng.range(1, 4)) } else { len };
                    Op::Write { off, len, tok }
                }
                55..=74 => {
                    let (off, len) = gen_range(&mut rng, &*c, 4);
                    Op::Read { off, len }
                }
                75..=82 => {
                    let (off, len) = gen_range(&mut rng, &*c, 4);
                    Op::Discard { off, len }
                }
                83..=91 => Op::Flush,
                92..=94 => Op::Shrink,
                _ => Op::Reopen { bsb: rng.range(9, 12.min(c.cb as u64)) as u8, l2: None, rb: None },
            },
            Profile::Churn => match r {
                0..=39 => {
                    let (mut off, len) = gen_range(&mut rng, &*c, 4);
                    off %= (16 * cs).min(align_down(c.size, bs));
                    let off = align_down(off, bs);
                    let len = len.min(align_down(c.size, bs) - off).max(bs);
                    Op::Write { off, len, tok }
                }
                40..=69 => {
                    let g = rng.below(16.min(c.size / cs));
                    let n = rng.range(1, 4);
                    Op::Discard { off: g * cs, len: n * cs }
                }
                70..=84 => {
                    let (off, len) = gen_range(&mut rng, &*c, 4);
                    Op::Read { off, len }
                }
                85..=92 => Op::Flush,
                93..=95 => Op::Shrink,
                _ => Op::Reopen { bsb: c.bsb, l2: None, rb: None },
            },
            Profile::Validate => {
                if r < 88 && !grid.is_empty() {
                    // walk the boundary grid without replacement
                    let g = grid[grid_pos % grid.len()].clone();
                    grid_pos += 1;
                    match g {
                        Op::Write { off, len, .. } => Op::Write { off, len, tok },
                        o => o,
                    }
                } else if r < 95 {
                    let (off, len) = gen_range(&mut rng, &*c, 2);
                    Op::Write { off, len, tok }
                } else {
                    Op::Flush
                }
            }
            Profile::CrashySparse | Profile::Sparse | Profile::TopBlocks | Profile::Refblocks => unreachable!(),
            Profile::SliceCross => {
                let span = 64 * cs; // guest bytes per L2 slice
                let nsl = c.size / span;
                let b = rng.range(1, nsl - 1) * span; // a slice boundary
                match r {
                    0..=34 => {
                        // a cluster just below or just above the boundary; cases with an odd id
                        // leave the slices below their boundaries empty (for 512-byte clusters a
                        // slice is a whole L2 table: its L1 entry stays 0)
                        let off = if c.id % 2 == 0 && rng.chance(1, 2) { b - cs * rng.range(1, 2) } else { b + cs * rng.below(2) };
                        Op::Write { off, len: cs, tok }
                    }
                    35..=59 => {
                        let off = b - cs * rng.range(1, 3);
                        Op::Discard { off, len: cs * rng.range(3, 6) }
                    }
                    60..=69 => {
                        let off = if c.id % 2 == 0 { b - cs * rng.range(1, 3) } else { b };
                        Op::Write { off, len: cs * rng.range(3, 5), tok }
                    }
                    70..=76 => {
                        let off = b - cs * rng.range(1, 3);
                        Op::Read { off, len: cs * rng.range(3, 5) }
                    }
                    77..=86 => Op::Flush,
                    87..=95 => Op::Reopen { bsb: 9, l2: c.l2, rb: c.rb },
                    _ => Op::Shrink,
                }
            }
            Profile::Grow => {
                // mostly a fill in big pieces (random order), some flush+fsync pairs, a few
                // discards and rewrites; the table is outgrown when ~97% is written
                let ncl = c.size / cs;
                let step = frag_step;
                let fill = (nops_total as u64 * 3 / 5).max(1);
                if r >= 15 {
                    frag_step += 1;
                }
                if r < 8 {
                    Op::Flush
                } else if r < 12 {
                    Op::Fsync
                } else if r < 15 {
                    let g = rng.below(ncl);
                    Op::Discard { off: g * cs, len: cs * rng.range(1, 64) }
                } else if step < fill {
                    let per = ncl.div_ceil(fill);
                    let slot = (step * 7919) % fill; // a permutation of the slots when fill is not a multiple of 7919
                    let g0 = (slot * per).min(ncl - 1);
                    let n = per.min(ncl - g0).max(1);
                    Op::Write { off: g0 * cs, len: n * cs, tok }
                } else {
                    let (off, len) = gen_range(&mut rng, &*c, 64);
                    Op::Write { off, len, tok }
                }
            }
            Profile::Frag => {
                // phase 1: fill sequentially; phase 2: punch holes around refblock-slice
                // boundaries; phase 3: multi-cluster writes that have to stitch runs
                // across slices (retry / fragment branches of the allocator)
                let ncl = c.size / cs;
                let step = frag_step;
                frag_step += 1;
                let third = (nops_total / 3).max(1) as u64;
                if step < third {
                    let per = (ncl / third).max(1);
                    let g0 = (step * per).min(ncl - 1);
                    let n = per.min(ncl - g0).min(24).max(1);
                    Op::Write { off: g0 * cs, len: n * cs, tok }
                } else if step < 2 * third {
                    if rng.chance(1, 6) {
                        Op::Flush
                    } else {
                        let g0 = rng.below(ncl);
                        let n = rng.range(1, 6).min(ncl - g0);
                        Op::Discard { off: g0 * cs, len: n * cs }
                    }
                } else {
                    match rng.below(10) {
                        0 => Op::Flush,
                        1 => {
                            let g0 = rng.below(ncl);
                            let n = rng.range(1, 4).min(ncl - g0);
                            Op::Discard { off: g0 * cs, len: n * cs }
                        }
                        2 => {
                            let (off, len) = gen_range(&mut rng, &*c, 8);
                            Op::Read { off, len }
                        }
                        _ => {
                            let g0 = rng.below(ncl);
                            let n = rng.range(2, 16).min(ncl - g0).max(1);
                            Op::Write { off: g0 * cs, len: n * cs, tok }
                        }
                    }
                }
            }
        };
        // reopen needs legal cache params for the new block size
        let op = match op {
            Op::Reopen { bsb, .. } => Op::Reopen {
                bsb,
                l2: pick_slice(&mut rng, bsb, c.cb, true),
                rb: pick_slice(&mut rng, bsb, c.cb, true),
            },
            o => o,
        };
        c.ops.push(op);
    }
    if profile == Profile::Validate && rng.chance(1, 3) {
        c.rdonly = true;
    }
    if profile == Profile::Crashy {
        // a sync point is a flush_meta immediately followed by fsync_range
        let mut ops = Vec::new();
        for op in c.ops.drain(..) {
            let is_flush = op == Op::Flush;
            ops.push(op);
            if is_flush {
                ops.push(Op::Fsync);
            }
        }
        c.ops = ops;
    }
}

/// corrupt one or more metadata words / header fields of a valid image; returns what was done
pub fn mutate_image(rng: &mut Rng, img: &mut Vec<u8>) -> String {
    let (cb, l1_off, l1_n, rt_off, rt_clusters) = match FileView::new(img) {
        Some(v) => (v.cb, v.l1_off as usize, v.l1_n as usize, v.rt_off as usize, v.rt_clusters as usize),
        None => return "none".into(),
    };
    let cs = 1usize << cb;
    let nclusters = (img.len() / cs).max(1) as u64;
    let rd64 = |img: &Vec<u8>, o: usize| -> u64 {
        if o + 8 <= img.len() { u64::from_be_bytes(img[o..o + 8].try_into().unwrap()) } else { 0 }
    };
    let wr64 = |img: &mut Vec<u8>, o: usize, v: u64| {
        if o + 8 <= img.len() {
            img[o..o + 8].copy_from_slice(&v.to_be_bytes());
        }
    };
    let weird = |rng: &mut Rng| -> u64 {
        match rng.below(8) {
            0 => rng.next(),
            1 => (rng.below(nclusters * 2) * cs as u64) | (1 << 63),
            2 => rng.below(nclusters) * cs as u64 + 512,
            3 => u64::MAX,
            4 => (1 << 62) | (rng.next() & 0x3fff_ffff_ffff_ffff),
            5 => (rng.below(1 << 20) * cs as u64) | (1 << 63),
            6 => 0,
            _ => (rng.below(nclusters) * cs as u64) | (rng.below(256) << 56) | (1 << 63),
        }
    };
    let mut done = Vec::new();
    let n = rng.range(1, 3);
    for _ in 0..n {
        match rng.below(6) {
            0 => {
                // header field
                let fields: [(usize, usize); 9] = [(20, 4), (24, 8), (36, 4), (40, 8), (48, 8), (56, 4), (96, 4), (100, 4), (8, 8)];
                let (o, l) = *rng.pick(&fields);
                let v = match rng.below(4) {
                    0 => rng.next(),
                    1 => 0,
                    2 => u64::MAX,
                    _ => rng.below(1 << 20) * cs as u64,
                };
                let b = v.to_be_bytes();
                img[o..o + l].copy_from_slice(&b[8 - l..]);
                done.push(format!("hdr@{}", o));
            }
            1 => {
                if l1_n > 0 {
                    let i = rng.below(l1_n as u64) as usize;
                    let v = weird(rng);
                    wr64(img, l1_off + i * 8, v);
                    done.push(format!("l1[{}]={:x}", i, v));
                }
            }
            2 => {
                // an L2 entry of an existing table
                let tables: Vec<usize> = (0..l1_n).map(|i| (rd64(img, l1_off + i * 8) & 0x00ff_ffff_ffff_fe00) as usize).filter(|o| *o != 0).collect();
                if !tables.is_empty() {
                    let t = *rng.pick(&tables);
                    let j = rng.below((cs / 8) as u64) as usize;
                    let v = weird(rng);
                    wr64(img, t + j * 8, v);
                    done.push(format!("l2@{:x}[{}]={:x}", t, j, v));
                }
            }
            3 => {
                let n_rt = rt_clusters * cs / 8;
                if n_rt > 0 {
                    let i = rng.below((n_rt as u64).min(8)) as usize;
                    let v = weird(rng) & !(1 << 63);
                    wr64(img, rt_off + i * 8, v);
                    done.push(format!("rt[{}]={:x}", i, v));
                }
            }
            4 => {
                // refcount bytes
                let rb = (rd64(img, rt_off) & 0xffff_ffff_ffff_fe00) as usize;
                if rb != 0 && rb + cs <= img.len() {
                    for _ in 0..rng.range(1, 16) {
                        let o = rb + rng.below(cs as u64 / 4) as usize;
                        img[o] = if rng.chance(1, 2) { 0 } else { rng.next() as u8 };
                    }
                    done.push("refcounts".into());
                }
            }
            _ => {
                // truncate the file
                let keep = rng.range(1, nclusters) as usize * cs;
                img.truncate(keep);
                done.push(format!("truncate@{}", keep));
            }
        }
    }
    done.join("+")
}

/// the metadata seen through a file alone (no caches): used after flush
pub struct FileView<'a> {
    pub file: &'a [u8],
    pub cb: usize,
    pub order: u8,
    pub l1_off: u64,
    pub l1_n: u64,
    pub rt_off: u64,
    pub rt_clusters: u64,
}

impl<'a> FileView<'a> {
    pub fn new(file: &'a [u8]) -> Option<Self> {
        if file.len() < 104 {
            return None;
        }
        let u32be = |o: usize| u32::from_be_bytes(file[o..o + 4].try_into().unwrap());
        let u64be = |o: usize| u64::from_be_bytes(file[o..o + 8].try_into().unwrap());
        let version = u32be(4);
        Some(FileView {
            file,
            cb: u32be(20) as usize,
            order: if version == 2 { 4 } else { u32be(96) as u8 },
            l1_off: u64be(40),
            l1_n: u32be(36) as u64,
            rt_off: u64be(48),
            rt_clusters: u32be(56) as u64,
        })
    }
    fn word(&self, off: u64) -> u64 {
        let o = off as usize;
        if o + 8 <= self.file.len() {
            u64::from_be_bytes(self.file[o..o + 8].try_into().unwrap())
        } else {
            0
        }
    }
    pub fn l2_entry(&self, g: u64) -> u64 {
        let l2e = (1u64 << self.cb) / 8;
        let i = g / l2e;
        if i >= self.l1_n {
            return 0;
        }
        let l1e = self.word(self.l1_off + i * 8);
        let l2o = l1e & 0x00ff_ffff_ffff_fe00;
        if l2o == 0 {
            return 0;
        }
        self.word(l2o + (g % l2e) * 8)
    }
    pub fn rt_entries(&self) -> u64 {
        (self.rt_clusters << self.cb) / 8
    }
    pub fn refcount(&self, c: u64) -> u64 {
        let rbe = ((1u64 << self.cb) * 8) >> self.order;
        let i = c / rbe;
        if i >= self.rt_entries() {
            return 0;
        }
        let rbo = self.word(self.rt_off + i * 8) & 0xffff_ffff_ffff_fe00;
        if rbo == 0 {
            return 0;
        }
        let o = rbo as usize;
        let cs = 1usize << self.cb;
        if o + cs > self.file.len() {
            // refblock (partly) beyond EOF reads as zeros
            let mut tmp = vec![0u8; cs];
            if o < self.file.len() {
                let n = self.file.len() - o;
                tmp[..n].copy_from_slice(&self.file[o..]);
            }
            return rc_get(self.order, &tmp, (c % rbe) as usize);
        }
        rc_get(self.order, &self.file[o..o + cs], (c % rbe) as usize)
    }
}

/// sparse run-length text: `i:v` or `i-j:v` (equal values) or `i-j:v+s` (values
/// increasing by `step` per index); zero values are skipped
pub fn sparse_rle(items: impl Iterator<Item = (u64, u64)>, step: u64, hexv: bool) -> String {
    let v: Vec<(u64, u64)> = items.filter(|(_, v)| *v != 0).collect();
    let mut out = String::new();
    let mut i = 0;
    let fv = |x: u64| if hexv { format!("{:x}", x) } else { x.to_string() };
    while i < v.len() {
        let (k0, v0) = v[i];
        let mut j = i + 1;
        while j < v.len() && v[j].0 == k0 + (j - i) as u64 && v[j].1 == v0 {
            j += 1;
        }
        let mut m = i + 1;
        while step != 0
            && m < v.len()
            && v[m].0 == k0 + (m - i) as u64
            && v[m].1 == v0.wrapping_add(step * (m - i) as u64)
        {
            m += 1;
        }
        if !out.is_empty() {
            out.push(' ');
        }
        if m - i > j - i && m - i > 1 {
            let _ = write!(out, "{}-{}:{}+", k0, v[m - 1].0, fv(v0));
            i = m;
        } else if j - i > 1 {
            let _ = write!(out, "{}-{}:{}", k0, v[j - 1].0, fv(v0));
            i = j;
        } else {
            let _ = write!(out, "{}:{}", k0, fv(v0));
            i += 1;
        }
    }
    if out.is_empty() {
        out.push('-');
    }
    out
}

pub struct Runner {
    pub case: Case,
    pub files: Vec<SimFile>,
    pub out: Vec<String>,
    /// directory for image snapshots (flush points); None = do not dump
    pub dump_dir: Option<String>,
    pub n_flush: usize,
    /// fault injection: the results of every op (for the oracle) and whether
    /// faults are cleared before the final flush
    pub results: Vec<String>,
    pub fault_mode: bool,
    /// malformed-image runs: no state dumps, no reopen sweeps (only results matter)
    pub quiet: bool,
}

fn classify(e: &qcow2_rs::error::Qcow2Error) -> &'static str {
    let _ = e;
    "err"
}

impl Runner {
    pub fn new(case: Case, files: Vec<SimFile>, dump_dir: Option<String>) -> Self {
        Runner { case, files, out: Vec::new(), dump_dir, n_flush: 0, results: Vec::new(), fault_mode: false, quiet: false }
    }

    fn emit(&mut self, k: usize, s: String) {
        self.out.push(format!("{} {}", k, s));
    }

    /// dump the RAM view (non-perturbing)
    fn dump_state(&mut self, k: usize, dev: &Qcow2Dev<SimFile>, cur_l2: Option<(u8, usize)>, cur_rb: Option<(u8, usize)>) {
        if self.quiet {
            return;
        }
        let snap = dev.verif_snapshot();
        let file = self.files[0].snapshot();
        let cb = self.case.cb;
        let l2b = cur_l2.map(|x| x.0 as usize).unwrap_or(12);
        let rbb = cur_rb.map(|x| x.0 as usize).unwrap_or(12);
        let view = RamView { snap: &snap, file: &file, cb, order: self.case.ro, l2_slice_bits: l2b, rb_slice_bits: rbb };
        let cs = 1u64 << cb;
        let nguest = self.case.size.div_ceil(cs);
        let map = sparse_rle((0..nguest).map(|g| (g, view.l2_entry(g))), cs, true);
        // metadata clusters (L2 tables, refblocks) are excluded from the `new` set:
        // when they stop being new depends on cache write-back timing
        let mut meta: Vec<u64> = Vec::new();
        for e in &snap.l1 {
            let o = e & 0x00ff_ffff_ffff_fe00;
            if o != 0 {
                meta.push(o >> cb);
            }
        }
        let rbe = (cs * 8) >> self.case.ro;
        let mut maxc = 0u64;
        for (i, e) in snap.rt.iter().enumerate() {
            let o = e & 0xffff_ffff_ffff_fe00;
            if o != 0 {
                meta.push(o >> cb);
                maxc = (i as u64 + 1) * rbe;
            }
        }
        let newd: Vec<String> = snap
            .new_clusters
            .iter()
            .filter(|(c, _)| !meta.contains(c))
            .map(|(c, _)| c.to_string())
            .collect();
        let maxc = maxc.min(1 << 16);
        let rc = sparse_rle((0..maxc).map(|c| (c, view.refcount(c).unwrap_or(0))), 0, false);
        let rt = sparse_rle(snap.rt.iter().enumerate().map(|(i, e)| (i as u64, *e)), rbe * cs, true);
        let l1 = sparse_rle(snap.l1.iter().enumerate().map(|(i, e)| (i as u64, *e)), 0, true);
        self.emit(
            k,
            format!(
                "st hint={} nf={} new={} hl1={},{} hrt={},{} l1he={}",
                snap.free_hint,
                snap.need_flush as u8,
                if newd.is_empty() { "-".into() } else { newd.join(",") },
                snap.hdr_l1_offset,
                snap.hdr_l1_entries,
                snap.hdr_rt_offset,
                snap.hdr_rt_clusters,
                snap.l1_header_entries
            ),
        );
        self.emit(k, format!("l1 {}", l1));
        self.emit(k, format!("map {}", map));
        self.emit(k, format!("rt {}", rt));
        self.emit(k, format!("rc {}", rc));
    }

    /// dump the metadata as the file alone shows it (after a successful flush)
    fn dump_file(&mut self, k: usize) {
        if self.quiet {
            return;
        }
        let file = self.files[0].snapshot();
        let cs = 1u64 << self.case.cb;
        if let Some(fv) = FileView::new(&file) {
            let nguest = self.case.size.div_ceil(cs);
            let map = sparse_rle((0..nguest).map(|g| (g, fv.l2_entry(g))), cs, true);
            let rbe = (cs * 8) >> self.case.ro;
            let mut maxc = 0;
            for i in 0..fv.rt_entries() {
                if fv.word(fv.rt_off + i * 8) != 0 {
                    maxc = (i + 1) * rbe;
                }
            }
            let maxc = maxc.min(1 << 16);
            let rc = sparse_rle((0..maxc).map(|c| (c, fv.refcount(c))), 0, false);
            self.emit(k, format!("fhdr l1={},{} rt={},{}", fv.l1_off, fv.l1_n, fv.rt_off, fv.rt_clusters));
            self.emit(k, format!("fmap {}", map));
            self.emit(k, format!("frc {}", rc));
        }
        if let Some(d) = &self.dump_dir {
            let p = format!("{}/case{}.f{}.img", d, self.case.id, self.n_flush);
            std::fs::write(&p, &file).unwrap();
            self.emit(k, format!("fimg {}", p));
        }
        self.n_flush += 1;
    }

    /// open fresh devices on a copy of the current files and read the whole disk
    fn reopen_sweep(&mut self, k: usize) {
        if self.quiet {
            return;
        }
        let copies: Vec<SimFile> = self.files.iter().map(|f| SimFile::new("copy", f.snapshot())).collect();
        let mut rng = Rng::derive(self.case.seed, 77, (self.case.id * 1000 + k) as u64);
        // one reopen with the same parameters, one with different ones
        let mut plist = vec![self.case.params()];
        let bsb = rng.range(9, 12.min(self.case.cb as u64)) as u8;
        // the same parameters go to every image of the chain: custom slice sizes
        // only when the case itself uses them (chain with one cluster size)
        let custom = self.files.len() == 1 || self.case.l2.is_some() || self.case.rb.is_some();
        if custom {
            plist.push(Qcow2DevParams::new(
                bsb,
                pick_slice(&mut rng, bsb, self.case.cb, true),
                pick_slice(&mut rng, bsb, self.case.cb, true),
                true,
                false,
            ));
        } else {
            plist.push(Qcow2DevParams::new(9, None, None, true, false));
        }
        for (j, p) in plist.iter().enumerate() {
            let r = catch_unwind(AssertUnwindSafe(|| {
                block_on(async {
                    let dev = open_dev(&copies, p).await?;
                    sweep(&dev, self.case.size, 1 << p.get_bs_bits()).await
                })
            }));
            let txt = match r {
                Ok(Ok(s)) => s,
                Ok(Err(_)) => "err".into(),
                Err(_) => "panic".into(),
            };
            self.emit(k, format!("reopen{} {}", j, txt));
        }
    }

    pub fn run(&mut self) {
        let case = self.case.clone();
        let mut params = case.params();
        let mut cur_l2 = case.l2;
        let mut cur_rb = case.rb;
        let opened = catch_unwind(AssertUnwindSafe(|| block_on(open_dev(&self.files, &params))));
        let mut dev = match opened {
            Ok(Ok(d)) => d,
            Ok(Err(_)) => {
                self.out.push("open err".into());
                return;
            }
            Err(_) => {
                self.out.push("open panic".into());
                return;
            }
        };
        self.out.push("open ok".into());
        for (k, op) in case.ops.iter().enumerate() {
            for f in &self.files {
                f.set_op(k);
            }
            let bs = 1u64 << params.get_bs_bits();
            let _ = bs;
            let res: Result<Result<(String, Option<String>), ()>, ()> = {
                let d = &dev;
                let r = catch_unwind(AssertUnwindSafe(|| {
                    block_on(async {
                        match op {
                            Op::Write { off, len, tok } => {
                                let mut buf = iobuf((*len).max(1) as usize, 0);
                                let l = *len as usize;
                                let full = l / SECTOR * SECTOR;
                                fill_tokens(&mut buf[..full], *tok);
                                match d.write_at(&buf[..l], *off).await {
                                    Ok(()) => Ok(("ok".to_string(), None)),
                                    Err(e) => Ok((classify(&e).to_string(), None)),
                                }
                            }
                            Op::Read { off, len } => {
                                let l = *len as usize;
                                let mut buf = iobuf(l.max(1), POISON_BYTE);
                                match d.read_at(&mut buf[..l], *off).await {
                                    Ok(n) => {
                                        let n2 = n.min(l) / SECTOR * SECTOR;
                                        Ok((format!("ok n={}", n), Some(decode_rle(&buf[..n2]))))
                                    }
                                    Err(e) => Ok((classify(&e).to_string(), None)),
                                }
                            }
                            Op::Discard { off, len } => match d.discard(*off, *len).await {
                                Ok(()) => Ok(("ok".to_string(), None)),
                                Err(e) => Ok((classify(&e).to_string(), None)),
                            },
                            Op::Flush | Op::Reopen { .. } => match d.flush_meta().await {
                                Ok(()) => Ok(("ok".to_string(), None)),
                                Err(e) => Ok((classify(&e).to_string(), None)),
                            },
                            Op::Shrink => match d.shrink_caches().await {
                                Ok(()) => Ok(("ok".to_string(), None)),
                                Err(e) => Ok((classify(&e).to_string(), None)),
                            },
                            Op::Fsync => match d.fsync_range(0, usize::MAX).await {
                                Ok(()) => Ok(("ok".to_string(), None)),
                                Err(e) => Ok((classify(&e).to_string(), None)),
                            },
                        }
                    })
                }));
                match r {
                    Ok(x) => Ok(x),
                    Err(_) => Err(()),
                }
            };
            match res {
                Err(()) => {
                    self.results.push("panic".into());
                    self.emit(k, "res panic".into());
                    // the device may hold poisoned state: stop the case here
                    std::mem::forget(dev);
                    return;
                }
                Ok(Err(())) => unreachable!(),
                Ok(Ok((r, buf))) => {
                    self.results.push(r.split(' ').next().unwrap_or("").to_string());
                    self.emit(k, format!("res {}", r));
                    if self.fault_mode {
                        let fired: Vec<String> = self.files[0]
                            .0
                            .borrow()
                            .log
                            .iter()
                            .filter(|q| q.failed && q.op == k)
                            .map(|q| q.kind.ch().to_string())
                            .collect();
                        if !fired.is_empty() {
                            self.emit(k, format!("fired {}", fired.join("")));
                        }
                    }
                    if let Some(b) = buf {
                        self.emit(k, format!("buf {}", b));
                    }
                    let ok = r.starts_with("ok");
                    let flushed = ok && matches!(op, Op::Flush | Op::Shrink | Op::Reopen { .. });
                    if flushed {
                        self.dump_file(k);
                        self.reopen_sweep(k);
                    }
                    if let (true, Op::Reopen { bsb, l2, rb }) = (ok, op) {
                        drop(dev);
                        params = Qcow2DevParams::new(*bsb, *rb, *l2, case.rdonly, false);
                        cur_l2 = *l2;
                        cur_rb = *rb;
                        let opened = catch_unwind(AssertUnwindSafe(|| block_on(open_dev(&self.files, &params))));
                        dev = match opened {
                            Ok(Ok(d)) => d,
                            Ok(Err(_)) => {
                                self.emit(k, "reopen-open err".into());
                                return;
                            }
                            Err(_) => {
                                self.emit(k, "reopen-open panic".into());
                                return;
                            }
                        };
                    }
                    self.dump_state(k, &dev, cur_l2, cur_rb);
                    // C18: whenever need_flush_meta() is false (and this op was not itself a
                    // flush, which is swept anyway) the file alone must give the device content
                    if !flushed && !self.quiet && !dev.need_flush_meta() && matches!(op, Op::Write { .. } | Op::Discard { .. } | Op::Read { .. }) {
                        let copies: Vec<SimFile> = self.files.iter().map(|f| SimFile::new("copy", f.snapshot())).collect();
                        let mut p = params.clone();
                        p.set_read_only(true);
                        let r = catch_unwind(AssertUnwindSafe(|| {
                            block_on(async {
                                let d2 = open_dev(&copies, &p).await?;
                                sweep(&d2, self.case.size, 1 << p.get_bs_bits()).await
                            })
                        }));
                        let txt = match r {
                            Ok(Ok(s)) => s,
                            Ok(Err(_)) => "err".into(),
                            Err(_) => "panic".into(),
                        };
                        self.emit(k, format!("nfsweep {}", txt));
                        {
                            let snap = dev.verif_snapshot();
                            let dirty = snap.l2_slices.iter().filter(|s| s.dirty).count()
                                + snap.rb_slices.iter().filter(|s| s.dirty).count()
                                + snap.l1_dirty_blocks.len()
                                + snap.rt_dirty_blocks.len();
                            self.emit(k, format!("nfdirty {}", dirty));
                        }
                        // ... and what the live device reads at the same moment
                        let live = catch_unwind(AssertUnwindSafe(|| block_on(sweep(&dev, self.case.size, 1 << params.get_bs_bits()))));
                        self.emit(k, format!("nflive {}", match live { Ok(Ok(s)) => s, Ok(Err(_)) => "err".into(), Err(_) => "panic".into() }));
                    }
                }
            }
        }
        // end of case: final flush, sweep of the live device, reopen sweep
        let k = case.ops.len();
        for f in &self.files {
            f.set_op(k);
        }
        if self.fault_mode {
            // the backend works again: faults stop before the final flush
            for f in &self.files {
                let mut st = f.0.borrow_mut();
                st.fail_ids.clear();
                st.punch_unsupported = false;
            }
        }
        let fault_mode = self.fault_mode;
        let r = catch_unwind(AssertUnwindSafe(|| {
            block_on(async {
                let live = sweep(&dev, case.size, 1u64 << params.get_bs_bits()).await;
                let mut fl = if case.rdonly { Ok(()) } else { dev.flush_meta().await };
                if fault_mode {
                    // "repeating flush_meta() until it returns Ok"
                    let mut tries = 0;
                    while fl.is_err() && tries < 5 {
                        fl = dev.flush_meta().await;
                        tries += 1;
                    }
                }
                (live, fl.is_ok())
            })
        }));
        match r {
            Ok((live, flok)) => {
                self.emit(k, format!("live {}", live.unwrap_or_else(|_| "err".into())));
                self.emit(k, format!("res {}", if flok { "ok" } else { "err" }));
                if flok && !case.rdonly {
                    // a successful flush_meta() leaves nothing un-synced behind: modifying requests
                    // issued after the last successful fsync
                    let st = self.files[0].0.borrow();
                    let last_sync = st.log.iter().filter(|r| r.kind == crate::sim::Kind::Sync && !r.failed).map(|r| r.id).max();
                    let tail = st
                        .log
                        .iter()
                        .filter(|r| (r.kind == crate::sim::Kind::Write || r.kind == crate::sim::Kind::Punch) && !r.failed)
                        .filter(|r| last_sync.map(|s| r.id > s).unwrap_or(true))
                        .count();
                    drop(st);
                    self.emit(k, format!("tail {}", tail));
                }
                if flok {
                    self.dump_file(k);
                    self.reopen_sweep(k);
                }
                self.dump_state(k, &dev, cur_l2, cur_rb);
            }
            Err(_) => {
                self.emit(k, "res panic".into());
                std::mem::forget(dev);
            }
        }
    }
}

/// read the whole virtual disk through `read_at` in cluster-ish chunks
pub async fn sweep(dev: &Qcow2Dev<SimFile>, size: u64, bs: u64) -> Result<String, qcow2_rs::error::Qcow2Error> {
    let total = size / bs * bs;
    let mut toks: Vec<Option<u64>> = Vec::new();
    let chunk = (64 * 1024u64).max(bs);
    let mut off = 0;
    while off < total {
        let len = chunk.min(total - off) as usize;
        let mut buf = iobuf(len, POISON_BYTE);
        let n = dev.read_at(&mut buf, off).await?;
        for s in buf[..len].chunks(SECTOR) {
            toks.push(decode_sector(s));
        }
        if n != len {
            toks.push(None); // short count marker
        }
        off += len as u64;
    }
    Ok(rle_tokens(&toks))
}

/// summary of the request log for the oracles (alignment, read-only stream)
pub fn log_lines(files: &[SimFile]) -> Vec<String> {
    let mut v = Vec::new();
    for (i, f) in files.iter().enumerate() {
        let st = f.0.borrow();
        for r in &st.log {
            v.push(format!(
                "req {} {} {} {} {} a={} op={} f={}",
                i,
                r.id,
                r.kind.ch(),
                r.off,
                r.len,
                r.align,
                r.op,
                r.failed as u8
            ));
        }
    }
    v
}

/// the top file's modifying requests and syncs with payloads, for crash-state construction
pub fn crash_lines(files: &[SimFile]) -> Vec<String> {
    let mut v = Vec::new();
    let st = files[0].0.borrow();
    for r in &st.log {
        if r.failed {
            continue;
        }
        match r.kind {
            Kind::Write => v.push(format!(
                "W {} {} {} {}",
                r.op,
                r.off,
                r.len,
                hex(r.payload.as_ref().map(|p| &p[..]).unwrap_or(&[]))
            )),
            Kind::Punch => v.push(format!("Z {} {} {}", r.op, r.off, r.len)),
            Kind::Sync => v.push(format!("S {}", r.op)),
            Kind::Read => {}
        }
    }
    v
}

/// request log of a CONCURRENT run in an order the sequential crash semantics can read: modifying requests at
/// their completion, fsyncs at their issue (an fsync covers exactly the requests that had completed when it
/// was issued). Every crash state built from this order is a crash state of the concurrent run (requests in
/// flight at the crash are simply absent, which is one of their outcomes).
pub fn conc_crash_lines(files: &[SimFile]) -> Vec<String> {
    let st = files[0].0.borrow();
    let mut ev: Vec<(usize, String)> = Vec::new();
    for r in &st.log {
        if r.failed {
            continue;
        }
        match (r.kind, r.done_seq) {
            (Kind::Write, Some(d)) => ev.push((
                d,
                format!("W 0 {} {} {}", r.off, r.len, hex(r.payload.as_ref().map(|p| &p[..]).unwrap_or(&[]))),
            )),
            (Kind::Punch, Some(d)) => ev.push((d, format!("Z 0 {} {}", r.off, r.len))),
            (Kind::Sync, Some(_)) => ev.push((r.issue_seq, "S 0".to_string())),
            _ => {}
        }
    }
    ev.sort_by_key(|e| e.0);
    ev.into_iter().map(|e| e.1).collect()
}

pub fn has_modifying(files: &[SimFile], idx: usize) -> bool {
    files[idx].0.borrow().log.iter().any(|r| r.kind == Kind::Write || r.kind == Kind::Punch)
}
