//! C19: the three real backends (`Qcow2IoSync`, `Qcow2IoTokio`, `Qcow2IoUring`) and the
//! in-memory `SimFile` run the same request sequences; results, final bytes and length
//! must agree pairwise and with the Lean host-file model (`Qv.Spec.HostFile`).
//! Guest-level histories are replayed on every backend through the real device.
use crate::seq::{Case, Op};
use crate::sim::SimFile;
use crate::util::*;
use qcow2_rs::dev::{Qcow2Dev, Qcow2DevParams};
use qcow2_rs::error::Qcow2Result;
use qcow2_rs::ops::Qcow2IoOps;
use std::path::{Path, PathBuf};

#[derive(Clone, Debug)]
pub enum Rq {
    Read { off: u64, len: usize },
    Write { off: u64, len: usize, seed: u8 },
    Punch { off: u64, len: usize },
    Sync,
}

impl Rq {
    pub fn text(&self) -> String {
        match self {
            Rq::Read { off, len } => format!("R {} {}", off, len),
            Rq::Write { off, len, seed } => format!("W {} {} {}", off, len, seed),
            Rq::Punch { off, len } => format!("Z {} {}", off, len),
            Rq::Sync => "S".into(),
        }
    }
}

pub fn pattern(len: usize, seed: u8) -> Vec<u8> {
    (0..len).map(|i| seed.wrapping_add((i % 251) as u8)).collect()
}

pub fn gen_requests(rng: &mut Rng, n: usize, large: bool, aligned: bool) -> Vec<Rq> {
    let mut v = Vec::new();
    let mut eof: u64 = 0;
    let unit: u64 = if aligned { 4096 } else { 1 };
    for _ in 0..n {
        let r = rng.below(100);
        let maxlen: u64 = if large { 3 << 20 } else if aligned { 8192 } else { 6000 };
        let len = match rng.below(6) {
            0 => 0,
            1 => unit,
            2 => rng.range(1, 600) * unit.min(64),
            _ => rng.range(1, maxlen / unit.max(1)).max(1) * unit,
        };
        let len = (len / unit * unit).min(maxlen);
        let off = match rng.below(6) {
            0 => 0,
            1 => eof,
            2 => eof.saturating_sub(rng.below(len + 1)),
            3 => eof + rng.below(5000),
            _ => rng.below(eof + 1),
        } / unit * unit;
        let rq = if r < 40 {
            eof = eof.max(if len > 0 { off + len } else { eof });
            Rq::Write { off, len: len as usize, seed: rng.next() as u8 }
        } else if r < 75 {
            Rq::Read { off, len: len as usize }
        } else if r < 92 {
            Rq::Punch { off, len: len as usize }
        } else {
            Rq::Sync
        };
        v.push(rq);
    }
    // what a backend still buffers when it is dropped is its own business: compare after a sync
    v.push(Rq::Sync);
    v
}

/// run the requests on one backend; one result line per request + final state
pub async fn run_backend<T: Qcow2IoOps>(io: &T, reqs: &[Rq], aligned: bool) -> Vec<String> {
    let mut out = Vec::new();
    for rq in reqs {
        let line = match rq {
            Rq::Read { off, len } => {
                let mut buf = iobuf((*len).max(1), POISON_BYTE);
                let _ = aligned;
                match io.read_to(*off, &mut buf[..*len]).await {
                    Ok(n) => format!("R n={} fnv={:x}", n, fnv64(&buf[..n.min(*len)])),
                    Err(_) => "R err".into(),
                }
            }
            Rq::Write { off, len, seed } => {
                let data = pattern(*len, *seed);
                let mut buf = iobuf((*len).max(1), 0);
                buf[..*len].copy_from_slice(&data);
                match io.write_from(*off, &buf[..*len]).await {
                    Ok(()) => "W ok".into(),
                    Err(_) => "W err".into(),
                }
            }
            Rq::Punch { off, len } => match io.fallocate(*off, *len, 1).await {
                Ok(()) => "Z ok".into(),
                Err(_) => "Z err".into(),
            },
            Rq::Sync => match io.fsync(0, usize::MAX, 0).await {
                Ok(()) => "S ok".into(),
                Err(_) => "S err".into(),
            },
        };
        out.push(line);
    }
    out
}

pub fn final_state(bytes: &[u8]) -> String {
    format!("final len={} fnv={:x}", bytes.len(), fnv64(bytes))
}

pub fn scratch_dir() -> PathBuf {
    let d = PathBuf::from(format!("/var/tmp/qv-{}", std::process::id()));
    std::fs::create_dir_all(&d).unwrap();
    d
}

/// all backends on one request list: map backend name -> lines
pub fn run_all(reqs: &[Rq], dir: &Path, tag: &str, dio: bool) -> Vec<(String, Vec<String>)> {
    let mut res = Vec::new();
    // in-memory backend
    {
        let f = SimFile::new("sim", Vec::new());
        let mut lines = futures::executor::block_on(run_backend(&f, reqs, dio));
        lines.push(final_state(&f.snapshot()));
        res.push(("sim".to_string(), lines));
    }
    // sync backend
    {
        let p = dir.join(format!("{}-sync.bin", tag));
        std::fs::write(&p, b"").unwrap();
        let r = std::panic::catch_unwind(|| {
            let io = qcow2_rs::sync_io::Qcow2IoSync::new(&p, false, dio);
            let mut lines = futures::executor::block_on(run_backend(&io, reqs, dio));
            drop(io);
            lines.push(final_state(&std::fs::read(&p).unwrap()));
            lines
        });
        res.push(("sync".to_string(), r.unwrap_or_else(|_| vec!["panic".into()])));
        let _ = std::fs::remove_file(&p);
    }
    // tokio backend (buffered only: it asserts !dio)
    if !dio {
        let p = dir.join(format!("{}-tokio.bin", tag));
        std::fs::write(&p, b"").unwrap();
        let r = std::panic::catch_unwind(|| {
            let rt = tokio::runtime::Builder::new_current_thread().enable_all().build().unwrap();
            let lines = rt.block_on(async {
                let io = qcow2_rs::tokio_io::Qcow2IoTokio::new(&p, false, false).await;
                run_backend(&io, reqs, false).await
            });
            let mut lines = lines;
            lines.push(final_state(&std::fs::read(&p).unwrap()));
            lines
        });
        res.push(("tokio".to_string(), r.unwrap_or_else(|_| vec!["panic".into()])));
        let _ = std::fs::remove_file(&p);
    }
    // io_uring backend
    {
        let p = dir.join(format!("{}-uring.bin", tag));
        std::fs::write(&p, b"").unwrap();
        let pp = p.clone();
        let rq: Vec<Rq> = reqs.to_vec();
        let r = std::panic::catch_unwind(move || {
            let lines = tokio_uring::start(async move {
                let io = qcow2_rs::uring::Qcow2IoUring::new(&pp, false, dio).await;
                run_backend(&io, &rq, dio).await
            });
            lines
        });
        let lines = match r {
            Ok(mut l) => {
                l.push(final_state(&std::fs::read(&p).unwrap()));
                l
            }
            Err(_) => vec!["panic".into()],
        };
        res.push(("uring".to_string(), lines));
        let _ = std::fs::remove_file(&p);
    }
    res
}

/// replay a guest-level case on a device over any backend; returns the final sweep
pub async fn guest_history<T: Qcow2IoOps>(dev: &Qcow2Dev<T>, case: &Case) -> Qcow2Result<String> {
    for op in &case.ops {
        match op {
            Op::Write { off, len, tok } => {
                let l = *len as usize;
                let mut buf = iobuf(l.max(1), 0);
                fill_tokens(&mut buf[..l / SECTOR * SECTOR], *tok);
                let _ = dev.write_at(&buf[..l], *off).await;
            }
            Op::Read { off, len } => {
                let l = *len as usize;
                let mut buf = iobuf(l.max(1), POISON_BYTE);
                let _ = dev.read_at(&mut buf[..l], *off).await;
            }
            Op::Discard { off, len } => {
                let _ = dev.discard(*off, *len).await;
            }
            Op::Flush | Op::Reopen { .. } => {
                let _ = dev.flush_meta().await;
            }
            Op::Shrink => {
                let _ = dev.shrink_caches().await;
            }
            Op::Fsync => {
                let _ = dev.fsync_range(0, usize::MAX).await;
            }
        }
    }
    dev.flush_meta().await?;
    let bs = 1u64 << case.bsb;
    let total = case.size / bs * bs;
    let mut toks: Vec<Option<u64>> = Vec::new();
    let mut off = 0u64;
    while off < total {
        let len = (64 * 1024u64).max(bs).min(total - off) as usize;
        let mut buf = iobuf(len, POISON_BYTE);
        let n = dev.read_at(&mut buf, off).await?;
        for s in buf[..len].chunks(SECTOR) {
            toks.push(decode_sector(s));
        }
        if n != len {
            toks.push(None);
        }
        off += len as u64;
    }
    Ok(rle_tokens(&toks))
}

pub fn guest_on_backends(case: &Case, img: &[u8], dir: &Path) -> Vec<(String, String)> {
    let mut res = Vec::new();
    let params = Qcow2DevParams::new(case.bsb, case.rb, case.l2, false, false);
    // sim
    {
        let f = SimFile::new("top", img.to_vec());
        let r = futures::executor::block_on(async {
            let dev = open_dev(&[f.clone()], &params).await?;
            guest_history(&dev, case).await
        });
        res.push(("sim".to_string(), r.unwrap_or_else(|_| "err".into())));
    }
    // sync
    {
        let p = dir.join(format!("guest{}-sync.qcow2", case.id));
        std::fs::write(&p, img).unwrap();
        let r = std::panic::catch_unwind(|| {
            let dev = qcow2_rs::utils::qcow2_setup_dev_sync(&p, &params)?;
            futures::executor::block_on(async {
                dev.qcow2_prep_io().await?;
                guest_history(&dev, case).await
            })
        });
        res.push(("sync".to_string(), match r { Ok(Ok(s)) => s, Ok(Err(_)) => "err".into(), Err(_) => "panic".into() }));
        let _ = std::fs::remove_file(&p);
    }
    // tokio
    {
        let p = dir.join(format!("guest{}-tokio.qcow2", case.id));
        std::fs::write(&p, img).unwrap();
        let r = std::panic::catch_unwind(|| {
            let rt = tokio::runtime::Builder::new_current_thread().enable_all().build().unwrap();
            rt.block_on(async {
                let dev = qcow2_rs::utils::qcow2_setup_dev_tokio(&p, &params).await?;
                guest_history(&dev, case).await
            })
        });
        res.push(("tokio".to_string(), match r { Ok(Ok(s)) => s, Ok(Err(_)) => "err".into(), Err(_) => "panic".into() }));
        let _ = std::fs::remove_file(&p);
    }
    // uring
    {
        let p = dir.join(format!("guest{}-uring.qcow2", case.id));
        std::fs::write(&p, img).unwrap();
        let pp = p.clone();
        let c2 = case.clone();
        let pr = params.clone();
        let r = std::panic::catch_unwind(move || {
            tokio_uring::start(async move {
                let dev = qcow2_rs::utils::qcow2_setup_dev_uring(&pp, &pr).await?;
                guest_history(&dev, &c2).await
            })
        });
        res.push(("uring".to_string(), match r { Ok(Ok(s)) => s, Ok(Err(_)) => "err".into(), Err(_) => "panic".into() }));
        let _ = std::fs::remove_file(&p);
    }
    res
}
