//! C09: specification conformance.  (A) images from the independent builder are
//! opened with default and custom parameters; `get_mapping()` of every guest
//! cluster and a full `read_at` sweep are printed (judged against the Lean
//! specification parser and the builder's ground truth).  (B) the library's own
//! formatter over a grid of (virtual size, cluster bits, refcount order, block
//! size); the images are judged by the Lean checker.
use crate::seq::{case_images, gen_built_case, sweep, Profile};
use crate::sim::SimFile;
use crate::util::*;
use qcow2_rs::dev::Qcow2DevParams;
use qcow2_rs::meta::MappingSource;
use std::panic::{catch_unwind, AssertUnwindSafe};

pub fn run(seed: u64, n: usize, out: &str) -> Vec<String> {
    let mut lines: Vec<String> = Vec::new();
    let kinds = ["built", "built+back", "built+backshort"];
    for id in 0..n {
        let kind = kinds[id % kinds.len()];
        let case = gen_built_case(seed, id, Profile::General, 2, kind);
        let images = match catch_unwind(|| case_images(&case)) {
            Ok(Ok(i)) => i,
            _ => continue,
        };
        for (i, f) in images.files.iter().enumerate() {
            std::fs::write(format!("{}/c{}.img{}", out, id, i), f).unwrap();
        }
        std::fs::write(format!("{}/c{}.flat", out, id), images.flat.join("\n")).unwrap();
        let cs = 1u64 << case.cb;
        let mut rng = Rng::derive(seed, 91, id as u64);
        // (the same parameters are used for the backing image, whose clusters may be smaller)
        let b2 = if kind == "built" { rng.range(9, 12.min(case.cb as u64)) as u8 } else { 9 };
        let psets: Vec<(u8, Option<(u8, usize)>, Option<(u8, usize)>)> = vec![
            // the defaults
            (9, None, None),
            // the case's own (random) parameters
            (case.bsb, case.l2, case.rb),
            // smallest caches: two slices of one block
            (b2, Some((b2, 2usize << b2)), Some((b2, 2usize << b2))),
        ];
        for (pi, (bsb, l2, rb)) in psets.iter().enumerate() {
            lines.push(format!(
                "case id={} p={} kind={} cb={} ro={} ver={} size={} bsb={} l2={:?} rb={:?}",
                id, pi, kind, case.cb, case.ro, case.ver, case.size, bsb, l2, rb
            ).replace(' ', " ").replace("Some(", "").replace(")", "").replace(", ", ","));
            let files: Vec<SimFile> = images
                .files
                .iter()
                .enumerate()
                .map(|(i, f)| SimFile::new(if i == 0 { "top" } else { "back" }, f.clone()))
                .collect();
            let params = Qcow2DevParams::new(*bsb, *rb, *l2, false, false);
            let r = catch_unwind(AssertUnwindSafe(|| {
                futures::executor::block_on(async {
                    let dev = open_dev(&files, &params).await?;
                    let mut v: Vec<String> = vec!["open ok".into()];
                    let ng = case.size.div_ceil(cs);
                    for g in 0..ng {
                        let m = dev.get_mapping(g * cs).await?;
                        let (cls, off) = match m.source {
                            MappingSource::DataFile => ("data", m.cluster_offset.unwrap_or(u64::MAX)),
                            MappingSource::Backing => ("back", m.cluster_offset.unwrap_or(u64::MAX)),
                            MappingSource::Zero => ("zero", m.cluster_offset.unwrap_or(0)),
                            MappingSource::Compressed => ("comp", m.cluster_offset.unwrap_or(u64::MAX)),
                            MappingSource::Unallocated => ("unalloc", 0),
                        };
                        v.push(format!("gmap {} {} {} {} {}", g, cls, off, m.compressed_length.unwrap_or(0), m.copied as u8));
                    }
                    let s = sweep(&dev, case.size, 1 << *bsb).await?;
                    v.push(format!("sweep {}", s.replace(' ', ",")));
                    // multi-cluster reads that start anywhere (also inside a range without L2
                    // table) and run across L2 table boundaries
                    let bs = 1u64 << *bsb;
                    let vs = case.size / bs * bs;
                    let l2_span = (cs / 8) * cs;
                    let mut rr = Rng::derive(seed, 93, (id * 8 + pi) as u64);
                    for _ in 0..24 {
                        let start = match rr.below(3) {
                            // a little before an L2 table boundary
                            0 => (rr.range(1, (vs / l2_span).max(1)) * l2_span).saturating_sub(cs * rr.range(1, 6)),
                            _ => rr.below(vs / bs) * bs,
                        } / bs * bs;
                        let start = start.min(vs.saturating_sub(bs));
                        let len = (cs * rr.range(2, 12) + bs * rr.below(cs / bs)).min(vs - start) / bs * bs;
                        if len == 0 {
                            continue;
                        }
                        let mut buf = iobuf(len as usize, POISON_BYTE);
                        let n = dev.read_at(&mut buf, start).await?;
                        let toks: Vec<Option<u64>> = buf[..n.min(len as usize) / SECTOR * SECTOR].chunks(SECTOR).map(decode_sector).collect();
                        v.push(format!("mread {} {} {}", start, n, rle_tokens(&toks).replace(' ', ",")));
                    }
                    Ok::<Vec<String>, qcow2_rs::error::Qcow2Error>(v)
                })
            }));
            match r {
                Ok(Ok(v)) => lines.extend(v),
                Ok(Err(_)) => lines.push("open err".into()),
                Err(_) => lines.push("open panic".into()),
            }
            lines.push("end".into());
        }
    }
    // (B) the formatter
    let mut grid: Vec<(u64, usize, u8, usize)> = Vec::new();
    let mut rng = Rng::derive(seed, 92, 0);
    for cb in [9usize, 10, 12, 16, 21] {
        let cs = 1u64 << cb;
        for ro in 0u8..=6 {
            // big clusters make big scratch files: a thinner grid there
            if cb == 21 && ![0u8, 4, 6].contains(&ro) {
                continue;
            }
            for bs in [512usize, 4096] {
                if bs > cs as usize {
                    continue;
                }
                for size in [bs as u64, cs, cs + bs as u64, 3 * cs, cs * (cs / 8), cs * (cs / 8) + cs, 7 * cs * (cs / 8) - bs as u64] {
                    grid.push((size, cb, ro, bs));
                }
            }
        }
    }
    for _ in 0..(n * 2) {
        let cb = rng.range(9, 21) as usize;
        let cs = 1u64 << cb;
        let ro = rng.range(0, 6) as u8;
        let bs = 1usize << rng.range(9, 12.min(cb as u64));
        // up to the 32 MiB L1 cap: l1 entries <= 4 Mi
        let max_clusters: u64 = (cs / 8) * (1 << 22);
        let nclusters = match rng.below(4) {
            0 => rng.range(1, 64),
            1 => rng.range(1, 100_000),
            2 => rng.range(1, max_clusters.min(1 << 40)),
            _ => rng.range(1, (cs / 8) * 40),
        };
        let size = (nclusters * cs).min(1 << 62) / bs as u64 * bs as u64 + if rng.chance(1, 3) { bs as u64 * rng.below(cs / bs as u64) } else { 0 };
        grid.push((size.max(bs as u64), cb, ro, bs));
    }
    let mut written = 0usize;
    for (k, (size, cb, ro, bs)) in grid.iter().enumerate() {
        let r = catch_unwind(|| format_image(*size, *cb, *ro, *bs));
        let res = match r {
            Ok(Ok(img)) => {
                // keep the scratch space bounded: very large images are judged too, but only some
                if img.len() <= (1 << 20) || written < 48 {
                    std::fs::write(format!("{}/f{}.img", out, k), &img).unwrap();
                    if img.len() > (1 << 20) {
                        written += 1;
                    }
                    "ok"
                } else {
                    "ok-notjudged"
                }
            }
            Ok(Err(_)) => "err",
            Err(_) => "panic",
        };
        lines.push(format!("fmt {} size={} cb={} ro={} bs={} res={}", k, size, cb, ro, bs, res));
    }
    lines
}
