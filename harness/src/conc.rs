//! Concurrent operations under a deterministic scheduler (C06, C07, C18).
//! All API calls of a case run as tasks of one single-threaded executor; the
//! in-memory backend gates every request (it stays pending until the scheduler
//! completes it), so the scheduler owns every suspension point: which ready task
//! is polled next and which pending request completes next.  Policies: seeded
//! random and PCT-like priorities.  A state with unfinished tasks, nothing ready
//! and nothing pending is a deadlock; a step budget catches livelock.
use crate::seq::{Case, Op};
use crate::sim::SimFile;
use crate::util::*;
use qcow2_rs::dev::Qcow2Dev;
use std::future::Future;
use std::pin::Pin;
use std::sync::atomic::{AtomicBool, Ordering};
use std::sync::Arc;
use std::task::{Context, Poll, Wake, Waker};

struct Flag(AtomicBool);
impl Wake for Flag {
    fn wake(self: Arc<Self>) {
        self.0.store(true, Ordering::SeqCst);
    }
    fn wake_by_ref(self: &Arc<Self>) {
        self.0.store(true, Ordering::SeqCst);
    }
}

#[derive(Clone, Debug)]
pub struct TaskOut {
    pub res: String,
    pub buf: Option<String>,
}

pub struct TaskRec {
    pub op: Op,
    pub inv: usize,
    pub resp: usize,
    pub out: Option<TaskOut>,
    /// index of a task that has to complete before this one is started
    pub after: Option<usize>,
    /// flush_meta returned Ok: how many of the requests it issued itself no completed fsync covers
    pub uncovered: usize,
}

pub struct SchedResult {
    pub tasks: Vec<TaskRec>,
    pub steps: usize,
    pub deadlock: bool,
    pub livelock: bool,
    pub panicked: bool,
}

async fn run_op(dev: &Qcow2Dev<SimFile>, op: Op) -> TaskOut {
    match op {
        Op::Write { off, len, tok } => {
            let l = len as usize;
            let mut buf = iobuf(l.max(1), 0);
            fill_tokens(&mut buf[..l / SECTOR * SECTOR], tok);
            match dev.write_at(&buf[..l], off).await {
                Ok(()) => TaskOut { res: "ok".into(), buf: None },
                Err(_) => TaskOut { res: "err".into(), buf: None },
            }
        }
        Op::Read { off, len } => {
            let l = len as usize;
            let mut buf = iobuf(l.max(1), POISON_BYTE);
            match dev.read_at(&mut buf[..l], off).await {
                Ok(n) => TaskOut { res: format!("ok n={}", n), buf: Some(decode_rle(&buf[..n.min(l) / SECTOR * SECTOR])) },
                Err(_) => TaskOut { res: "err".into(), buf: None },
            }
        }
        Op::Discard { off, len } => match dev.discard(off, len).await {
            Ok(()) => TaskOut { res: "ok".into(), buf: None },
            Err(_) => TaskOut { res: "err".into(), buf: None },
        },
        Op::Flush | Op::Reopen { .. } => match dev.flush_meta().await {
            Ok(()) => TaskOut { res: "ok".into(), buf: None },
            Err(_) => TaskOut { res: "err".into(), buf: None },
        },
        Op::Shrink => match dev.shrink_caches().await {
            Ok(()) => TaskOut { res: "ok".into(), buf: None },
            Err(_) => TaskOut { res: "err".into(), buf: None },
        },
        Op::Fsync => match dev.fsync_range(0, usize::MAX).await {
            Ok(()) => TaskOut { res: "ok".into(), buf: None },
            Err(_) => TaskOut { res: "err".into(), buf: None },
        },
    }
}

/// run the tasks of one concurrent batch to completion under the scheduler
pub fn run_batch(
    dev: &Qcow2Dev<SimFile>,
    files: &[SimFile],
    ops: &[(Op, Option<usize>)],
    rng: &mut Rng,
    policy: usize,
    step0: usize,
) -> SchedResult {
    let pct = policy == 1;
    // policy 2: one kind of backend request is starved: it completes only when nothing else
    // can happen (late hole punches, late syncs, late reads, late writes)
    let starve: Option<crate::sim::Kind> = if policy == 2 {
        Some(*rng.pick(&[crate::sim::Kind::Punch, crate::sim::Kind::Punch, crate::sim::Kind::Write, crate::sim::Kind::Sync, crate::sim::Kind::Read, crate::sim::Kind::Read]))
    } else {
        None
    };
    let n = ops.len();
    let mut futs: Vec<Option<Pin<Box<dyn Future<Output = TaskOut> + '_>>>> = Vec::new();
    let mut flags: Vec<Arc<Flag>> = Vec::new();
    let mut recs: Vec<TaskRec> = Vec::new();
    for (op, after) in ops {
        futs.push(Some(Box::pin(run_op(dev, op.clone()))));
        flags.push(Arc::new(Flag(AtomicBool::new(true))));
        recs.push(TaskRec { op: op.clone(), inv: usize::MAX, resp: usize::MAX, out: None, after: *after, uncovered: 0 });
    }
    // PCT-like: fixed random priorities with a few priority change points
    let mut prio: Vec<u64> = (0..n).map(|_| rng.next() >> 8).collect();
    let change_at: Vec<usize> = (0..3).map(|_| rng.below(400) as usize).collect();
    let trace = std::env::var("QVH_TRACE").is_ok();
    let mut step = step0;
    let budget = step0 + 200_000;
    let mut deadlock = false;
    let mut livelock = false;
    let mut panicked = false;
    for f in files {
        f.0.borrow_mut().gated = true;
    }
    let seq0 = files[0].0.borrow().seq;
    loop {
        let eligible = |i: usize, recs: &Vec<TaskRec>| -> bool {
            recs[i].out.is_none()
                && recs[i].after.map(|a| recs[a].out.is_some()).unwrap_or(true)
        };
        let ready: Vec<usize> = (0..n)
            .filter(|&i| eligible(i, &recs) && flags[i].0.load(Ordering::SeqCst))
            .collect();
        let mut pend: Vec<(usize, usize)> = Vec::new();
        let mut starved: Vec<(usize, usize)> = Vec::new();
        for (fi, f) in files.iter().enumerate() {
            for id in f.pending_ids() {
                if starve.is_some() && Some(f.0.borrow().log[id].kind) == starve {
                    starved.push((fi, id));
                } else {
                    pend.push((fi, id));
                }
            }
        }
        if ready.is_empty() && pend.is_empty() {
            pend.append(&mut starved);
        }
        if recs.iter().all(|r| r.out.is_some()) {
            break;
        }
        if ready.is_empty() && pend.is_empty() {
            deadlock = true;
            break;
        }
        if step > budget {
            livelock = true;
            break;
        }
        if change_at.contains(&(step - step0)) && n > 0 {
            let i = rng.below(n as u64) as usize;
            prio[i] = rng.next() >> 8;
        }
        // choose: poll a ready task or complete a pending request
        let total = ready.len() + pend.len();
        let choice = if pct && !ready.is_empty() && rng.chance(3, 4) {
            // highest priority ready task
            let best = *ready.iter().max_by_key(|&&i| prio[i]).unwrap();
            ready.iter().position(|&i| i == best).unwrap()
        } else {
            rng.below(total as u64) as usize
        };
        if choice < ready.len() {
            let i = ready[choice];
            flags[i].0.store(false, Ordering::SeqCst);
            if recs[i].inv == usize::MAX {
                recs[i].inv = step;
            }
            for f in files {
                f.set_op(i);
            }
            if trace {
                eprintln!("step {} poll task {} ({})", step, i, recs[i].op.text());
            }
            let waker = Waker::from(flags[i].clone());
            let mut cx = Context::from_waker(&waker);
            let fut = futs[i].as_mut().unwrap();
            let r = std::panic::catch_unwind(std::panic::AssertUnwindSafe(|| fut.as_mut().poll(&mut cx)));
            match r {
                Ok(Poll::Ready(out)) => {
                    if matches!(recs[i].op, Op::Flush) && out.res == "ok" {
                        // flush_meta() returned Ok: every request this call issued is covered by an fsync that
                        // was issued after the request completed (and has completed itself)
                        let st = files[0].0.borrow();
                        let syncs: Vec<usize> = st
                            .log
                            .iter()
                            .filter(|r| r.kind == crate::sim::Kind::Sync && !r.failed && r.done_seq.is_some())
                            .map(|r| r.issue_seq)
                            .collect();
                        recs[i].uncovered = st
                            .log
                            .iter()
                            .filter(|r| r.issue_seq >= seq0 && r.op == i && !r.failed)
                            .filter(|r| r.kind == crate::sim::Kind::Write || r.kind == crate::sim::Kind::Punch)
                            .filter(|r| match r.done_seq {
                                Some(d) => !syncs.iter().any(|&s| s > d),
                                None => true,
                            })
                            .count();
                    }
                    recs[i].out = Some(out);
                    recs[i].resp = step;
                    futs[i] = None;
                }
                Ok(Poll::Pending) => {}
                Err(_) => {
                    recs[i].out = Some(TaskOut { res: "panic".into(), buf: None });
                    recs[i].resp = step;
                    // a poisoned future must not be dropped normally
                    std::mem::forget(futs[i].take());
                    panicked = true;
                    break;
                }
            }
        } else {
            let (fi, id) = pend[choice - ready.len()];
            if trace {
                let st = files[fi].0.borrow();
                let r = &st.log[id];
                eprintln!("step {} complete file={} req={} {} off={} len={} (task {})", step, fi, id, r.kind.ch(), r.off, r.len, r.op);
            }
            files[fi].complete(id);
        }
        step += 1;
    }
    // forget unfinished futures (deadlock / livelock): dropping them could hang on locks
    for f in futs.iter_mut() {
        if let Some(x) = f.take() {
            std::mem::forget(x);
        }
    }
    for f in files {
        f.0.borrow_mut().gated = false;
    }
    SchedResult { tasks: recs, steps: step, deadlock, livelock, panicked }
}

/// generate a concurrent case: a few sequential setup ops, then batches of concurrent ops
pub fn gen_conc_case(seed: u64, id: usize, kind: &str) -> (Case, Vec<Vec<(Op, Option<usize>)>>) {
    let mut case = if kind == "format" {
        crate::seq::gen_case(seed, id, crate::seq::Profile::General, 4)
    } else {
        crate::seq::gen_built_case(seed, id, crate::seq::Profile::General, 4, kind)
    };
    case.ops.clear();
    let mut rng = Rng::derive(seed, 6, id as u64);
    // small caches force evictions while operations are in flight
    if kind == "format" && rng.chance(2, 3) {
        let b = case.bsb;
        case.l2 = Some((b, (*rng.pick(&[2usize, 2, 3, 4])) << b));
        case.rb = Some((b, (*rng.pick(&[2usize, 2, 3, 4])) << b));
    }
    let bs = 1u64 << case.bsb;
    let cs = 1u64 << case.cb;
    let vs = case.size / bs * bs;
    let nb = rng.range(1, 4) as usize;
    let mut batches = Vec::new();
    let mut k = 0u64;
    // scenario templates (a quarter of the cases): operations that are only dangerous in one
    // particular order, with the random batches after them
    if vs >= 8 * cs && rng.chance(1, 4) {
        let x = rng.below(vs / cs - 4) * cs;
        let y = (x + cs * rng.range(2, 3)).min(vs - cs);
        let mut tok = |k: &mut u64| {
            *k += 1;
            *k << 20
        };
        batches.push(vec![(Op::Write { off: x, len: cs, tok: tok(&mut k) }, None)]);
        match rng.below(4) {
            3 => {
                // a flush of freshly dirtied metadata next to fsyncs of other callers
                batches.push(vec![(Op::Flush, None), (Op::Fsync, None), (Op::Fsync, None), (Op::Write { off: y, len: bs, tok: tok(&mut k) }, None)]);
            }
            0 => {
                // cold caches, then a discard next to flushes (metadata loads inside the discard)
                batches.push(vec![(Op::Shrink, None)]);
                // (the flushes start when the read, which needs a metadata load as well, is done)
                batches.push(vec![
                    (Op::Discard { off: x, len: cs }, None),
                    (Op::Read { off: y, len: bs }, None),
                    (Op::Flush, Some(1)),
                    (Op::Flush, Some(1)),
                ]);
            }
            1 => {
                // a read in flight across a discard of its cluster and a later allocating write
                batches.push(vec![
                    (Op::Read { off: x, len: cs }, None),
                    (Op::Discard { off: x, len: cs }, None),
                    (Op::Write { off: y, len: cs, tok: tok(&mut k) }, Some(1)),
                    (Op::Read { off: x, len: bs }, Some(2)),
                ]);
            }
            _ => {
                // writes into one fresh cluster next to a flush
                batches.push(vec![
                    (Op::Write { off: y, len: bs, tok: tok(&mut k) }, None),
                    (Op::Write { off: y + cs - bs, len: bs, tok: tok(&mut k) }, None),
                    (Op::Flush, None),
                    (Op::Read { off: y, len: cs }, None),
                ]);
            }
        }
    }
    // a few hot regions per case: later batches discard / rewrite what earlier ones allocated
    let hot: Vec<u64> = (0..rng.range(1, 3)).map(|_| rng.below(vs / cs + 1) * cs).collect();
    for _ in 0..nb {
        let nt = rng.range(2, 6) as usize;
        // focus region: same cluster / neighbouring clusters / disjoint
        let focus = if rng.chance(2, 3) { *rng.pick(&hot) } else { rng.below(vs / cs + 1) * cs };
        let mode = rng.below(7);
        // guest bytes covered by one L2 slice / one refblock slice worth of data clusters
        let l2_slice_bytes = case.l2.map(|(b, _)| (1u64 << b) / 8).unwrap_or(512) * cs;
        let mut ops: Vec<(Op, Option<usize>)> = Vec::new();
        for t in 0..nt {
            k += 1;
            let tok = k << 20;
            let base = match mode {
                0 => focus,
                1 => focus + rng.below(3) * cs,
                // sibling slices of one L2 table (different cache entries, same metadata cluster)
                3 | 4 => (focus + rng.below(8) * l2_slice_bytes) % (vs / cs * cs).max(cs),
                // slices of two different L2 tables (two fresh metadata clusters at a time)
                5 | 6 => (focus + rng.below(2) * (cs / 8) * cs + rng.below(4) * l2_slice_bytes) % (vs / cs * cs).max(cs),
                _ => rng.below(vs / cs + 1) * cs,
            };
            let mut off = (base + rng.below(cs / bs) * bs).min(vs - bs);
            off = off / bs * bs;
            let mut len = match rng.below(4) {
                0 => bs,
                1 => bs * rng.range(1, (cs / bs).max(1)),
                2 => cs,
                _ => cs + bs * rng.below(2 * cs / bs),
            };
            if off + len > vs {
                len = vs - off;
            }
            let len = (len / bs * bs).max(bs);
            let r = rng.below(100);
            let op = if r < 45 {
                Op::Write { off, len, tok }
            } else if r < 65 {
                Op::Read { off, len }
            } else if r < 83 {
                Op::Discard { off: off / cs * cs, len: cs * rng.range(1, 2) }
            } else if r < 91 {
                Op::Flush
            } else if r < 95 {
                Op::Fsync
            } else {
                Op::Shrink
            };
            let after = if t > 0 && rng.chance(1, 3) { Some(rng.below(t as u64) as usize) } else { None };
            ops.push((op, after));
        }
        batches.push(ops);
    }
    (case, batches)
}
