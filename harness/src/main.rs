//! qvh — verification harness for /verif (see /verif/DESIGN.md).
mod hdr;
mod pure;
mod sim;
mod util;

use std::collections::HashMap;
use std::io::Write;

fn args() -> (String, HashMap<String, String>) {
    let a: Vec<String> = std::env::args().collect();
    let mode = a.get(1).cloned().unwrap_or_default();
    let mut m = HashMap::new();
    let mut i = 2;
    while i < a.len() {
        if let Some(k) = a[i].strip_prefix("--") {
            let v = a.get(i + 1).cloned().unwrap_or_default();
            m.insert(k.to_string(), v);
            i += 2;
        } else {
            i += 1;
        }
    }
    (mode, m)
}

fn write_lines(path: &str, lines: &[String]) {
    let mut f = std::io::BufWriter::new(std::fs::File::create(path).unwrap());
    for l in lines {
        writeln!(f, "{}", l).unwrap();
    }
}

fn main() {
    // keep panic messages out of the output streams: every call that may
    // panic is wrapped in catch_unwind and reported as a `panic` result
    if std::env::var("QVH_PANIC_MSG").is_err() {
        std::panic::set_hook(Box::new(|_| {}));
    }
    let (mode, m) = args();
    let seed: u64 = m.get("seed").and_then(|s| s.parse().ok()).unwrap_or(1);
    let n: usize = m.get("n").and_then(|s| s.parse().ok()).unwrap_or(200);
    let out = m.get("out").cloned().unwrap_or_else(|| "/verif/out/tmp".into());
    std::fs::create_dir_all(&out).unwrap();
    match mode.as_str() {
        "pure" => {
            let reqs = pure::gen_requests(seed, n);
            let resp: Vec<String> = reqs.iter().map(|l| pure::respond(l)).collect();
            write_lines(&format!("{}/pure.in", out), &reqs);
            write_lines(&format!("{}/pure.impl", out), &resp);
            println!("pure requests={}", reqs.len());
        }
        "hdr" => {
            let mut rng = util::Rng::derive(seed, 14, 0);
            let mut reqs = Vec::new();
            for i in 0..n {
                let b = if i % 2 == 0 { hdr::gen_valid(&mut rng) } else { hdr::gen_malformed(&mut rng) };
                reqs.push(format!("hdr {}", util::hex(&b)));
            }
            let resp: Vec<String> = reqs.iter().map(|l| pure::respond(l)).collect();
            write_lines(&format!("{}/hdr.in", out), &reqs);
            write_lines(&format!("{}/hdr.impl", out), &resp);
            println!("hdr requests={}", reqs.len());
        }
        "respond" => {
            // answer request lines from a file (replay)
            let inp = m.get("in").cloned().unwrap();
            let text = std::fs::read_to_string(inp).unwrap();
            for l in text.lines() {
                println!("{}", pure::respond(l));
            }
        }
        _ => {
            eprintln!("usage: qvh <pure|hdr|respond> --seed S --n N --out DIR");
            std::process::exit(2);
        }
    }
}
