//! qvh — verification harness for /verif (see /verif/DESIGN.md).
mod backend;
mod build;
mod conc;
mod conform;
mod hdr;
mod lru;
mod pure;
mod seq;
mod sim;
mod util;

use std::collections::HashMap;
use std::io::Write;

fn args() -> (String, HashMap<String, String>) {
    let a: Vec<String> = std::env::args().collect();
    let mode = a.get(1).cloned().unwrap_or_default();
    let mut m = HashMap::new();
    let mut i = 2;
    while i < a.len() {
        if let Some(k) = a[i].strip_prefix("--") {
            let v = a.get(i + 1).cloned().unwrap_or_default();
            m.insert(k.to_string(), v);
            i += 2;
        } else {
            i += 1;
        }
    }
    (mode, m)
}

fn write_lines(path: &str, lines: &[String]) {
    let mut f = std::io::BufWriter::new(std::fs::File::create(path).unwrap());
    for l in lines {
        writeln!(f, "{}", l).unwrap();
    }
}

fn main() {
    // keep panic messages out of the output streams: every call that may
    // panic is wrapped in catch_unwind and reported as a `panic` result
    if std::env::var("QVH_PANIC_MSG").is_err() {
        std::panic::set_hook(Box::new(|_| {}));
    }
    let (mode, m) = args();
    let seed: u64 = m.get("seed").and_then(|s| s.parse().ok()).unwrap_or(1);
    let n: usize = m.get("n").and_then(|s| s.parse().ok()).unwrap_or(200);
    let out = m.get("out").cloned().unwrap_or_else(|| "/verif/out/tmp".into());
    std::fs::create_dir_all(&out).unwrap();
    match mode.as_str() {
        "pure" => {
            let reqs = pure::gen_requests(seed, n);
            let resp: Vec<String> = reqs.iter().map(|l| pure::respond(l)).collect();
            write_lines(&format!("{}/pure.in", out), &reqs);
            write_lines(&format!("{}/pure.impl", out), &resp);
            println!("pure requests={}", reqs.len());
        }
        "uset" => {
            let reqs = pure::gen_uset_requests(seed, n);
            let resp: Vec<String> = reqs.iter().map(|l| pure::respond(l)).collect();
            write_lines(&format!("{}/uset.in", out), &reqs);
            write_lines(&format!("{}/uset.impl", out), &resp);
            println!("uset requests={}", reqs.len());
        }
        "hdr" => {
            let mut rng = util::Rng::derive(seed, 14, 0);
            let mut reqs = Vec::new();
            for i in 0..n {
                let b = if i % 2 == 0 { hdr::gen_valid(&mut rng) } else { hdr::gen_malformed(&mut rng) };
                reqs.push(format!("hdr {}", util::hex(&b)));
            }
            let resp: Vec<String> = reqs.iter().map(|l| pure::respond(l)).collect();
            write_lines(&format!("{}/hdr.in", out), &reqs);
            write_lines(&format!("{}/hdr.impl", out), &resp);
            println!("hdr requests={}", reqs.len());
        }
        "seq" => {
            let profile = match m.get("profile").map(|s| s.as_str()).unwrap_or("general") {
                "churn" => seq::Profile::Churn,
                "validate" => seq::Profile::Validate,
                "flushy" => seq::Profile::Flushy,
                "cow" => seq::Profile::Cow,
                "crashy" => seq::Profile::Crashy,
                "frag" => seq::Profile::Frag,
                "crashysparse" => seq::Profile::CrashySparse,
                "sparse" => seq::Profile::Sparse,
                "grow" => seq::Profile::Grow,
                "slicecross" => seq::Profile::SliceCross,
                "topblocks" => seq::Profile::TopBlocks,
                "refblocks" => seq::Profile::Refblocks,
                _ => seq::Profile::General,
            };
            let nops: usize = m.get("ops").and_then(|s| s.parse().ok()).unwrap_or(40);
            let dump = m.get("dump").map(|s| s == "1").unwrap_or(false);
            let crashlog = m.get("crashlog").map(|s| s == "1").unwrap_or(false);
            let mut crash: Vec<String> = Vec::new();
            let mut inp = Vec::new();
            let mut imp = Vec::new();
            let mut log = Vec::new();
            let cases: Vec<seq::Case> = match m.get("replay") {
                Some(path) => {
                    let text = std::fs::read_to_string(path).unwrap();
                    let mut cs = Vec::new();
                    let mut cur: Vec<&str> = Vec::new();
                    for l in text.lines() {
                        if l.starts_with("case ") {
                            cur = vec![l];
                        } else if l == "end" {
                            cs.push(seq::Case::parse(&cur));
                            cur = Vec::new();
                        } else if !cur.is_empty() {
                            cur.push(l);
                        }
                    }
                    cs
                }
                None => {
                    let kinds: Vec<String> = m
                        .get("img")
                        .map(|s| s.split(',').map(|x| x.to_string()).collect())
                        .unwrap_or_else(|| vec!["format".to_string()]);
                    (0..n)
                        .map(|id| {
                            let kind = &kinds[id % kinds.len()];
                            if kind == "format" {
                                seq::gen_case(seed, id, profile, nops)
                            } else {
                                seq::gen_built_case(seed, id, profile, nops, kind)
                            }
                        })
                        .collect()
                }
            };
            let only: Option<usize> = m.get("only").and_then(|s| s.parse().ok());
            let skip: Vec<usize> = m
                .get("skip")
                .map(|s| s.split(',').filter_map(|x| x.parse().ok()).collect())
                .unwrap_or_default();
            let cases: Vec<seq::Case> = cases
                .into_iter()
                .filter(|c| only.map(|o| o == c.id).unwrap_or(true) && !skip.contains(&c.id))
                .collect();
            // watchdog: a case that does not finish within the budget is a hang
            // (livelock inside the library); report it and stop the process
            let watchdog = util::Watchdog::start(m.get("hang-secs").and_then(|s| s.parse().ok()).unwrap_or(20));
            let mut f_in = std::fs::File::create(format!("{}/seq.in", out)).unwrap();
            let mut f_impl = std::fs::File::create(format!("{}/seq.impl", out)).unwrap();
            let mut f_log = std::fs::File::create(format!("{}/seq.log", out)).unwrap();
            let flush_to = |f: &mut std::fs::File, v: &mut Vec<String>| {
                for l in v.drain(..) {
                    writeln!(f, "{}", l).unwrap();
                }
                f.flush().unwrap();
            };
            let ncases = cases.len();
            for case in cases {
                flush_to(&mut f_in, &mut inp);
                flush_to(&mut f_impl, &mut imp);
                flush_to(&mut f_log, &mut log);
                watchdog.begin(case.id);
                inp.extend(case.lines());
                flush_to(&mut f_in, &mut inp);
                // a corpus file may carry its images next to it (<file>.img0, .img1,
                // .comp, .flat) so that it does not depend on the builder staying stable
                let side = m.get("replay").filter(|p| std::path::Path::new(&format!("{}.img0", p)).exists());
                let images = match side {
                    Some(p) => {
                        let mut files = vec![std::fs::read(format!("{}.img0", p)).unwrap()];
                        if let Ok(b) = std::fs::read(format!("{}.img1", p)) {
                            files.push(b);
                        }
                        let rl = |ext: &str| -> Vec<String> {
                            std::fs::read_to_string(format!("{}.{}", p, ext))
                                .map(|t| t.lines().map(|l| l.to_string()).collect())
                                .unwrap_or_default()
                        };
                        Ok(Ok(seq::CaseImages { files, comp: rl("comp"), flat: rl("flat") }))
                    }
                    None => std::panic::catch_unwind(|| seq::case_images(&case)),
                };
                let images = match images {
                    Ok(Ok(i)) => i,
                    Ok(Err(_)) | Err(_) => {
                        imp.push(format!("case {}", case.id));
                        imp.push("format err".into());
                        imp.push("end".into());
                        continue;
                    }
                };
                if let Some(dest) = m.get("corpus") {
                    write_lines(dest, &case.lines());
                    if case.img != "format" {
                        for (i, f) in images.files.iter().enumerate() {
                            std::fs::write(format!("{}.img{}", dest, i), f).unwrap();
                        }
                        write_lines(&format!("{}.comp", dest), &images.comp);
                        write_lines(&format!("{}.flat", dest), &images.flat);
                    }
                }
                if crashlog && case.img == "format" {
                    std::fs::write(format!("{}/case{}.img0", out, case.id), &images.files[0]).unwrap();
                }
                if case.img != "format" {
                    // sidecars for the Lean driver: initial images, plaintext of
                    // compressed clusters, ground-truth guest content
                    for (i, f) in images.files.iter().enumerate() {
                        std::fs::write(format!("{}/case{}.img{}", out, case.id, i), f).unwrap();
                    }
                    write_lines(&format!("{}/case{}.comp", out, case.id), &images.comp);
                    write_lines(&format!("{}/case{}.flat", out, case.id), &images.flat);
                }
                let files: Vec<sim::SimFile> = images
                    .files
                    .iter()
                    .enumerate()
                    .map(|(i, f)| sim::SimFile::new(if i == 0 { "top" } else { "back" }, f.clone()))
                    .collect();
                let mut r = seq::Runner::new(case.clone(), files, if dump { Some(out.clone()) } else { None });
                r.run();
                imp.push(format!("case {}", case.id));
                imp.extend(r.out.drain(..));
                imp.push("end".into());
                log.push(format!("case {}", case.id));
                log.extend(seq::log_lines(&r.files));
                log.push("end".into());
                if crashlog {
                    crash.push(format!("case {}", case.id));
                    crash.extend(seq::crash_lines(&r.files));
                    crash.push("end".into());
                }
            }
            flush_to(&mut f_in, &mut inp);
            flush_to(&mut f_impl, &mut imp);
            flush_to(&mut f_log, &mut log);
            if crashlog {
                write_lines(&format!("{}/crash.log", out), &crash);
            }
            println!("seq cases={}", ncases);
        }
        "fault" => {
            // C17: every history is first run fault-free to learn its request stream, then
            // re-run with a failure injected at individual request indices (and with hole
            // punching unsupported); results go to the oracle annotated on the op lines
            let nops: usize = m.get("ops").and_then(|s| s.parse().ok()).unwrap_or(30);
            let per_case: usize = m.get("points").and_then(|s| s.parse().ok()).unwrap_or(10);
            let kinds: Vec<String> = m
                .get("img")
                .map(|s| s.split(',').map(|x| x.to_string()).collect())
                .unwrap_or_else(|| vec!["format".to_string()]);
            let mut inp = Vec::new();
            let mut imp = Vec::new();
            let mut flog: Vec<String> = Vec::new();
            let mut nruns = 0;
            let only_case: Option<usize> = m.get("only").and_then(|s| s.parse().ok());
            for id in 0..n {
                if only_case.map(|o| o != id).unwrap_or(false) {
                    continue;
                }
                let kind = &kinds[id % kinds.len()];
                let sparse_every: usize = m.get("sparse-every").and_then(|s| s.parse().ok()).unwrap_or(12).max(2);
                let fprofile = match m.get("profile").map(|s| s.as_str()) {
                    Some("flushy") => seq::Profile::Flushy,
                    Some("churn") => seq::Profile::Churn,
                    Some("slicecross") => seq::Profile::SliceCross,
                    Some("topblocks") => seq::Profile::TopBlocks,
                    _ => seq::Profile::General,
                };
                let case = if kind == "format" {
                    // every other self-formatted case: many L1 entries (second block of the L1 table)
                    seq::gen_case(seed, id, if (id / kinds.len()) % sparse_every == sparse_every / 2 { seq::Profile::Sparse } else { fprofile }, nops)
                } else {
                    seq::gen_built_case(seed, id, fprofile, nops, kind)
                };
                let images = match std::panic::catch_unwind(|| seq::case_images(&case)) {
                    Ok(Ok(i)) => i,
                    _ => continue,
                };
                let mk = |images: &seq::CaseImages| -> Vec<sim::SimFile> {
                    images
                        .files
                        .iter()
                        .enumerate()
                        .map(|(i, f)| sim::SimFile::new(if i == 0 { "top" } else { "back" }, f.clone()))
                        .collect()
                };
                // fault-free run
                let files = mk(&images);
                let mut r0 = seq::Runner::new(case.clone(), files, None);
                r0.run();
                let kinds0: Vec<(usize, char)> = r0.files[0].0.borrow().log.iter().map(|r| (r.id, r.kind.ch())).collect();
                let ops0: Vec<usize> = r0.files[0].0.borrow().log.iter().map(|r| r.op).collect();
                let total = kinds0.len();
                if total == 0 {
                    continue;
                }
                // fault points: spread over the stream, all request kinds
                let mut rng = util::Rng::derive(seed, 17, id as u64);
                let mut points: Vec<usize> = Vec::new();
                for j in 0..per_case {
                    points.push((j * total) / per_case + rng.below((total / per_case).max(1) as u64) as usize);
                }
                for kch in ['R', 'W', 'Z', 'S'] {
                    let c: Vec<usize> = kinds0.iter().filter(|(_, k)| *k == kch).map(|(i, _)| *i).collect();
                    if !c.is_empty() {
                        points.push(c[rng.below(c.len() as u64) as usize]);
                    }
                }
                // targeted: metadata loads in the middle of a discard (the operation has changed
                // something already when the load fails)
                let mut dreads: Vec<usize> = (0..total)
                    .filter(|i| kinds0[*i].1 == 'R' && matches!(case.ops.get(ops0[*i]), Some(seq::Op::Discard { .. })))
                    .collect();
                for _ in 0..4 {
                    if dreads.is_empty() {
                        break;
                    }
                    points.push(dreads.swap_remove(rng.below(dreads.len() as u64) as usize));
                }
                points.retain(|p| *p < total);
                points.sort();
                points.dedup();
                let mut variants: Vec<(String, Vec<usize>, bool)> = points
                    .iter()
                    .map(|p| (format!("single:{}:{}", p, kinds0[*p].1), vec![*p], false))
                    .collect();
                // random multi-request subsets and punch-unsupported
                let multi: Vec<usize> = (0..total).filter(|_| rng.chance(1, 6)).collect();
                variants.push((format!("multi:{}", multi.len()), multi, false));
                // two writes of one batch fail (consecutive write requests of one operation)
                let mut wpairs: Vec<usize> = (0..total.saturating_sub(1))
                    .filter(|i| kinds0[*i].1 == 'W' && kinds0[*i + 1].1 == 'W' && ops0[*i] == ops0[*i + 1])
                    .collect();
                for _ in 0..3 {
                    if wpairs.is_empty() {
                        break;
                    }
                    let a = wpairs.swap_remove(rng.below(wpairs.len() as u64) as usize);
                    variants.push((format!("wpair:{}", a), vec![a, a + 1], false));
                }
                // the backend is down for a few consecutive requests
                for _ in 0..2 {
                    let a = rng.below(total as u64) as usize;
                    let burst: Vec<usize> = (a..(a + rng.range(2, 4) as usize).min(total)).collect();
                    variants.push((format!("burst:{}+{}", a, burst.len()), burst, false));
                }
                variants.push(("punch-unsupported".into(), vec![], true));
                for (vi, (vname, fails, punch)) in variants.into_iter().enumerate() {
                    let mut c2 = case.clone();
                    c2.id = id * 1000 + vi;
                    let files = mk(&images);
                    {
                        let mut st = files[0].0.borrow_mut();
                        for f in &fails {
                            st.fail_ids.insert(*f);
                        }
                        st.punch_unsupported = punch;
                    }
                    if c2.img != "format" {
                        for (i, f) in images.files.iter().enumerate() {
                            std::fs::write(format!("{}/case{}.img{}", out, c2.id, i), f).unwrap();
                        }
                        write_lines(&format!("{}/case{}.comp", out, c2.id), &images.comp);
                        write_lines(&format!("{}/case{}.flat", out, c2.id), &images.flat);
                    }
                    let mut r = seq::Runner::new(c2.clone(), files, Some(out.clone()));
                    r.fault_mode = true;
                    r.run();
                    nruns += 1;
                    // annotate the op lines with the results the real code returned
                    let mut lines = c2.lines();
                    for (k, res) in r.results.iter().enumerate() {
                        if k + 1 < lines.len() {
                            lines[k + 1] = format!("{} res={}", lines[k + 1], res);
                        }
                    }
                    lines[0] = format!("{} fault={}", lines[0], vname);
                    inp.extend(lines);
                    imp.push(format!("case {}", c2.id));
                    imp.extend(r.out.drain(..));
                    let fired = r.files[0].0.borrow().log.iter().filter(|q| q.failed).count();
                    imp.push(format!("faults fired={} variant={}", fired, vname));
                    imp.push("end".into());
                    // the request log of the runs without hole punching (zero-write fallback): C16
                    if punch {
                        flog.push(format!("case {}", c2.id));
                        flog.extend(seq::log_lines(&r.files));
                        flog.push("end".into());
                    }
                }
            }
            write_lines(&format!("{}/seq.in", out), &inp);
            write_lines(&format!("{}/seq.impl", out), &imp);
            write_lines(&format!("{}/seq.log", out), &flog);
            println!("fault runs={}", nruns);
        }
        "malformed" => {
            // C14: valid images with corrupted metadata (header fields, L1 / L2 / reftable
            // entries pointing anywhere, refcount bytes): opening and every operation must
            // return Ok or Err - no panic, no hang
            let nops: usize = m.get("ops").and_then(|s| s.parse().ok()).unwrap_or(16);
            let mut imp = Vec::new();
            let mut inp = Vec::new();
            let watchdog = util::Watchdog::start(m.get("hang-secs").and_then(|s| s.parse().ok()).unwrap_or(10));
            let skip: Vec<usize> = m.get("skip").map(|s| s.split(',').filter_map(|x| x.parse().ok()).collect()).unwrap_or_default();
            let mut f_in = std::fs::File::create(format!("{}/seq.in", out)).unwrap();
            for id in 0..n {
                if skip.contains(&id) {
                    continue;
                }
                let kind = if id % 3 == 0 { "built+back" } else { "built" };
                let mut case = seq::gen_built_case(seed, id, seq::Profile::General, nops, kind);
                case.l2 = None;
                case.rb = None;
                case.bsb = 9;
                for op in case.ops.iter_mut() {
                    if let seq::Op::Reopen { .. } = op {
                        *op = seq::Op::Flush;
                    }
                }
                let mut images = match std::panic::catch_unwind(|| seq::case_images(&case)) {
                    Ok(Ok(i)) => i,
                    _ => continue,
                };
                let mut rng = util::Rng::derive(seed, 14, id as u64);
                let what = seq::mutate_image(&mut rng, &mut images.files[0]);
                for l in case.lines() {
                    writeln!(f_in, "{}", l).unwrap();
                }
                writeln!(f_in, "mut {}", what).unwrap();
                f_in.flush().unwrap();
                watchdog.begin(id);
                let files: Vec<sim::SimFile> = images
                    .files
                    .iter()
                    .enumerate()
                    .map(|(i, f)| sim::SimFile::new(if i == 0 { "top" } else { "back" }, f.clone()))
                    .collect();
                let mut r = seq::Runner::new(case.clone(), files, None);
                r.quiet = true;
                r.run();
                imp.push(format!("case {}", case.id));
                imp.push(format!("mut {}", what));
                imp.extend(r.out.drain(..).filter(|l| l.contains(" res ") || l.starts_with("open")));
                imp.push("end".into());
                inp.push(String::new());
            }
            write_lines(&format!("{}/seq.impl", out), &imp);
            println!("malformed cases={}", n);
        }
        "conform" => {
            let lines = conform::run(seed, n, &out);
            write_lines(&format!("{}/conform.impl", out), &lines);
            println!("conform lines={}", lines.len());
        }
        "lru" => {
            // correspondence of the cache model with the real AsyncLruCache
            let ops: usize = m.get("ops").and_then(|s| s.parse().ok()).unwrap_or(60);
            let mut lines = Vec::new();
            for id in 0..n {
                lines.extend(lru::gen_case(seed, id, ops));
            }
            write_lines(&format!("{}/lru.impl", out), &lines);
            println!("lru cases={}", n);
        }
        "backend" => {
            // C19: request sequences on every backend (+ requests for the Lean host-file model)
            let dir = backend::scratch_dir();
            let mut req_lines = Vec::new();
            let mut res_lines = Vec::new();
            for id in 0..n {
                let mut rng = util::Rng::derive(seed, 19, id as u64);
                let (large, dio) = match id % 8 {
                    6 => (true, false),
                    7 => (false, true),
                    _ => (false, false),
                };
                let reqs = backend::gen_requests(&mut rng, if large { 12 } else { 40 }, large, dio);
                req_lines.push(format!("case {} large={} dio={}", id, large as u8, dio as u8));
                for r in &reqs {
                    req_lines.push(r.text());
                }
                req_lines.push("end".into());
                res_lines.push(format!("case {}", id));
                for (name, lines) in backend::run_all(&reqs, &dir, &format!("c{}", id), dio) {
                    for (i, l) in lines.iter().enumerate() {
                        res_lines.push(format!("{} {} {}", name, i, l));
                    }
                }
                res_lines.push("end".into());
            }
            // guest-level histories on every backend
            let ng = m.get("guest").and_then(|s| s.parse().ok()).unwrap_or(n / 4);
            for id in 0..ng {
                let case = seq::gen_case(seed, 100000 + id, seq::Profile::General, 30);
                if let Ok(img) = util::format_image(case.size, case.cb, case.ro, 1 << case.bsb) {
                    res_lines.push(format!("guest {}", case.id));
                    for (name, sweep) in backend::guest_on_backends(&case, &img, &dir) {
                        res_lines.push(format!("{} sweep {}", name, sweep));
                    }
                    res_lines.push("end".into());
                }
            }
            let _ = std::fs::remove_dir_all(&dir);
            write_lines(&format!("{}/backend.in", out), &req_lines);
            write_lines(&format!("{}/backend.impl", out), &res_lines);
            println!("backend cases={} guest={}", n, ng);
        }
        "conc" => {
            // C06 / C07 / C18: concurrent operations under the deterministic scheduler
            let kinds: Vec<String> = m
                .get("img")
                .map(|s| s.split(',').map(|x| x.to_string()).collect())
                .unwrap_or_else(|| vec!["format".to_string()]);
            let scheds: usize = m.get("scheds").and_then(|s| s.parse().ok()).unwrap_or(3);
            let skip: Vec<usize> = m.get("skip").map(|s| s.split(',').filter_map(|x| x.parse().ok()).collect()).unwrap_or_default();
            let watchdog = util::Watchdog::start(m.get("hang-secs").and_then(|s| s.parse().ok()).unwrap_or(20));
            let mut f_out = std::fs::File::create(format!("{}/conc.impl", out)).unwrap();
            let conc_crashlog = m.get("crashlog").map(|s| s == "1").unwrap_or(false);
            let mut crash_in: Vec<String> = Vec::new();
            let mut crash_log: Vec<String> = Vec::new();
            let mut nrun = 0;
            for id in 0..n {
                let kind = &kinds[id % kinds.len()];
                let (case, batches) = conc::gen_conc_case(seed, id, kind);
                let images = match std::panic::catch_unwind(|| seq::case_images(&case)) {
                    Ok(Ok(i)) => i,
                    _ => continue,
                };
                if case.img != "format" {
                    write_lines(&format!("{}/case{}.flat", out, case.id), &images.flat);
                }
                for sc in 0..scheds {
                    let run_id = id * 100 + sc;
                    if skip.contains(&run_id) {
                        continue;
                    }
                    if let Some(o) = m.get("only").and_then(|s| s.parse::<usize>().ok()) {
                        if o != run_id {
                            continue;
                        }
                    }
                    watchdog.begin(run_id);
                    let mut lines: Vec<String> = Vec::new();
                    lines.push(format!("{} run={} sched={}", case.header(), run_id, sc));
                    writeln!(f_out, "{}", lines[0]).unwrap();
                    f_out.flush().unwrap();
                    let files: Vec<sim::SimFile> = images
                        .files
                        .iter()
                        .enumerate()
                        .map(|(i, f)| sim::SimFile::new(if i == 0 { "top" } else { "back" }, f.clone()))
                        .collect();
                    let params = case.params();
                    let dev = match std::panic::catch_unwind(std::panic::AssertUnwindSafe(|| {
                        util::block_on(util::open_dev(&files, &params))
                    })) {
                        Ok(Ok(d)) => d,
                        _ => {
                            writeln!(f_out, "open err\nend").unwrap();
                            continue;
                        }
                    };
                    let mut rng = util::Rng::derive(seed, 60 + sc as u64, id as u64);
                    let mut step = 0usize;
                    let mut broken = false;
                    for (b, ops) in batches.iter().enumerate() {
                        let r = conc::run_batch(&dev, &files, ops, &mut rng, [0usize, 1, 2, 2][sc % 4], step);
                        step = r.steps + 1;
                        lines.push(format!("batch {}", b));
                        for (i, t) in r.tasks.iter().enumerate() {
                            let (res, buf) = match &t.out {
                                Some(o) => (o.res.clone(), o.buf.clone()),
                                None => ("unfinished".to_string(), None),
                            };
                            lines.push(format!(
                                "task {} {} inv={} resp={} after={} res={}{}",
                                i,
                                t.op.text(),
                                t.inv,
                                t.resp,
                                t.after.map(|a| a.to_string()).unwrap_or("-".into()),
                                res.replace(' ', "_"),
                                buf.map(|b| format!(" buf={}", b.replace(' ', ","))).unwrap_or_default()
                            ));
                        }
                        for (i, t) in r.tasks.iter().enumerate() {
                            if matches!(t.op, seq::Op::Flush) {
                                lines.push(format!("uncov {} {} {}", b, i, t.uncovered));
                            }
                        }
                        lines.push(format!(
                            "sched steps={} deadlock={} livelock={} panic={}",
                            r.steps, r.deadlock as u8, r.livelock as u8, r.panicked as u8
                        ));
                        if r.deadlock || r.livelock || r.panicked {
                            broken = true;
                            break;
                        }
                        // quiescent point after every batch: flag and dirty metadata (C18)
                        {
                            let snap = dev.verif_snapshot();
                            let dirty = snap.l2_slices.iter().filter(|s| s.dirty).count()
                                + snap.rb_slices.iter().filter(|s| s.dirty).count()
                                + snap.l1_dirty_blocks.len()
                                + snap.rt_dirty_blocks.len();
                            lines.push(format!("bnf {} {} {}", b, dev.need_flush_meta() as u8, dirty));
                        }
                    }
                    if broken {
                        std::mem::forget(dev);
                    } else {
                        // quiescent point
                        let nf = dev.need_flush_meta();
                        lines.push(format!("nf {}", nf as u8));
                        // C18 directly: with the flag clear nothing may be dirty in the caches / top tables
                        {
                            let snap = dev.verif_snapshot();
                            let dirty = snap.l2_slices.iter().filter(|s| s.dirty).count()
                                + snap.rb_slices.iter().filter(|s| s.dirty).count()
                                + snap.l1_dirty_blocks.len()
                                + snap.rt_dirty_blocks.len();
                            lines.push(format!("nfdirty {}", dirty));
                        }
                        let sweep_of = |fs: &Vec<sim::SimFile>| -> String {
                            let copies: Vec<sim::SimFile> = fs.iter().map(|f| sim::SimFile::new("copy", f.snapshot())).collect();
                            let mut p = case.params();
                            p.set_read_only(true);
                            match std::panic::catch_unwind(std::panic::AssertUnwindSafe(|| {
                                util::block_on(async {
                                    let d = util::open_dev(&copies, &p).await?;
                                    seq::sweep(&d, case.size, 1 << case.bsb).await
                                })
                            })) {
                                Ok(Ok(s)) => s,
                                Ok(Err(_)) => "err".into(),
                                Err(_) => "panic".into(),
                            }
                        };
                        if !nf {
                            lines.push(format!("quiet {}", sweep_of(&files).replace(' ', ",")));
                        }
                        let live = std::panic::catch_unwind(std::panic::AssertUnwindSafe(|| {
                            util::block_on(seq::sweep(&dev, case.size, 1 << case.bsb))
                        }));
                        lines.push(format!("live {}", match live { Ok(Ok(s)) => s.replace(' ', ","), Ok(Err(_)) => "err".into(), Err(_) => "panic".into() }));
                        let fl = std::panic::catch_unwind(std::panic::AssertUnwindSafe(|| util::block_on(dev.flush_meta())));
                        match fl {
                            Ok(Ok(())) => {
                                lines.push("flush ok".into());
                                lines.push(format!("reopen {}", sweep_of(&files).replace(' ', ",")));
                                // C05 under concurrency: after flush_meta + fsync_range everything that completed is
                                // durable. Durable image = initial bytes + every request that completed before a
                                // successful fsync was ISSUED (what a crash right now is guaranteed to keep).
                                let fs = std::panic::catch_unwind(std::panic::AssertUnwindSafe(|| util::block_on(dev.fsync_range(0, usize::MAX))));
                                if let Ok(Ok(())) = fs {
                                    let mut durable = images.files[0].clone();
                                    {
                                        let st = files[0].0.borrow();
                                        let last_sync_issue = st.log.iter().filter(|r| r.kind == sim::Kind::Sync && !r.failed && r.done_seq.is_some()).map(|r| r.issue_seq).max();
                                        let mut reqs: Vec<&sim::Req> = st
                                            .log
                                            .iter()
                                            .filter(|r| (r.kind == sim::Kind::Write || r.kind == sim::Kind::Punch) && !r.failed)
                                            .filter(|r| match (r.done_seq, last_sync_issue) { (Some(d), Some(s)) => d < s, _ => false })
                                            .collect();
                                        reqs.sort_by_key(|r| r.done_seq.unwrap());
                                        for r in reqs {
                                            let off = r.off as usize;
                                            match (&r.kind, &r.payload) {
                                                (sim::Kind::Write, Some(p)) => {
                                                    if durable.len() < off + p.len() {
                                                        durable.resize(off + p.len(), 0);
                                                    }
                                                    durable[off..off + p.len()].copy_from_slice(p);
                                                }
                                                (sim::Kind::Punch, _) => {
                                                    let end = (off + r.len).min(durable.len());
                                                    if off < end {
                                                        for b in &mut durable[off..end] {
                                                            *b = 0;
                                                        }
                                                    }
                                                }
                                                _ => {}
                                            }
                                        }
                                    }
                                    let mut dfiles: Vec<sim::SimFile> = vec![sim::SimFile::new("durable", durable)];
                                    for f in files.iter().skip(1) {
                                        dfiles.push(sim::SimFile::new("copy", f.snapshot()));
                                    }
                                    lines.push(format!("durable {}", sweep_of(&dfiles).replace(' ', ",")));
                                }
                            }
                            Ok(Err(_)) => lines.push("flush err".into()),
                            Err(_) => {
                                lines.push("flush panic".into());
                            }
                        }
                    }
                    lines.push("end".into());
                    for l in &lines[1..] {
                        writeln!(f_out, "{}", l).unwrap();
                    }
                    f_out.flush().unwrap();
                    if conc_crashlog && case.img == "format" && !lines.iter().any(|l| l.starts_with("sched") && (l.contains("deadlock=1") || l.contains("livelock=1") || l.contains("panic=1"))) {
                        // C04 under concurrency: the request log of this schedule for the crash driver
                        std::fs::write(format!("{}/case{}.img0", out, run_id), &images.files[0]).unwrap();
                        let mut c2 = case.clone();
                        c2.id = run_id;
                        crash_in.push(c2.header());
                        crash_in.push("end".into());
                        crash_log.push(format!("case {}", run_id));
                        crash_log.extend(seq::conc_crash_lines(&files));
                        crash_log.push("end".into());
                    }
                    nrun += 1;
                }
            }
            if conc_crashlog {
                write_lines(&format!("{}/crash.in", out), &crash_in);
                write_lines(&format!("{}/crash.log", out), &crash_log);
            }
            println!("conc runs={}", nrun);
        }
        "respond" => {
            // answer request lines from a file (replay)
            let inp = m.get("in").cloned().unwrap();
            let text = std::fs::read_to_string(inp).unwrap();
            for l in text.lines() {
                println!("{}", pure::respond(l));
            }
        }
        _ => {
            eprintln!("usage: qvh <pure|hdr|respond> --seed S --n N --out DIR");
            std::process::exit(2);
        }
    }
}
