//! Independent image builder: writes spec-valid qcow2 images from a random
//! layout (table placement anywhere, fragmentation, compressed runs that may
//! straddle host clusters, zero clusters with/without preallocation, L1 shorter
//! than maximal, v2/v3, refcount widths, optional backing file name, unknown
//! header extensions).  It shares no code with the library.  Every image it
//! produces is validated by the Lean specification (`qvdrv valid`, `qvdrv guest`)
//! before it is used.
use crate::util::*;
use std::collections::BTreeMap;

#[derive(Clone, Debug, PartialEq)]
pub enum GState {
    Unalloc,
    Zero,
    ZeroPrealloc,
    Data,
    Compressed,
}

#[derive(Clone, Debug)]
pub struct Layout {
    pub cb: usize,
    pub ro: u8,
    pub version: u32,
    pub size: u64,
    pub backing_name: Option<String>,
    pub states: Vec<GState>,
    /// token base of guest cluster g (sector i of the cluster holds base + i)
    pub tok_base: Vec<u64>,
    pub short_l1: bool,
    pub extra_ext: bool,
    /// the backing file name ends exactly at the end of the first cluster (still inside it)
    pub name_at_end: bool,
}

pub struct Built {
    pub bytes: Vec<u8>,
    /// ground truth: token of every guest sector as the image alone defines it
    /// (None = falls through to the backing chain)
    pub content: Vec<Option<u64>>,
    /// guest clusters with their own uncompressed allocation (C11)
    pub own: Vec<bool>,
    /// compressed clusters: (host byte offset, plaintext token base)
    pub comp: Vec<(u64, u64)>,
    pub host_clusters: u64,
    /// host clusters preallocated behind zero-flagged entries
    pub prealloc: Vec<u64>,
}

fn put64(b: &mut [u8], off: usize, v: u64) {
    b[off..off + 8].copy_from_slice(&v.to_be_bytes());
}
fn put32(b: &mut [u8], off: usize, v: u32) {
    b[off..off + 4].copy_from_slice(&v.to_be_bytes());
}

fn rc_set(order: u8, bytes: &mut [u8], i: usize, v: u64) {
    let bits = 1usize << order;
    if bits >= 8 {
        let n = bits / 8;
        for k in 0..n {
            bytes[i * n + k] = (v >> (8 * (n - 1 - k))) as u8;
        }
    } else {
        let per = 8 / bits;
        let sh = (i % per) * bits;
        let mask = (((1u16 << bits) - 1) as u8) << sh;
        bytes[i / per] = (bytes[i / per] & !mask) | (((v as u8) << sh) & mask);
    }
}

pub fn gen_layout(rng: &mut Rng, with_backing: bool, allow_compressed: bool) -> Layout {
    let cb = *rng.pick(&[9usize, 9, 10, 11, 12, 12, 13, 16]);
    let cs = 1u64 << cb;
    let version = if rng.chance(1, 4) { 2 } else { 3 };
    let ro = if version == 2 { 4 } else { *rng.pick(&[0u8, 1, 2, 3, 4, 4, 5, 6]) };
    let maxg: u64 = match cb {
        9 => 160,
        10 => 128,
        11 => 96,
        12 => 96,
        13 => 64,
        _ => 24,
    };
    let n = rng.range(4, maxg);
    let tail = if rng.chance(1, 4) { rng.below(cs / 512) * 512 } else { 0 };
    let size = n * cs + tail;
    let ng = size.div_ceil(cs) as usize;
    let mut states = Vec::new();
    let mut tok_base = Vec::new();
    // refcount width 1 bit cannot count a host cluster shared by two compressed clusters
    // narrow refcounts cannot count a host cluster shared by many compressed clusters
    let allow_compressed = allow_compressed && ro >= 3;
    for g in 0..ng {
        let r = rng.below(100);
        let st = if r < 30 {
            GState::Unalloc
        } else if r < 60 {
            GState::Data
        } else if r < 70 && version == 3 {
            GState::Zero
        } else if r < 78 && version == 3 {
            GState::ZeroPrealloc
        } else if r < 95 && allow_compressed {
            GState::Compressed
        } else {
            GState::Data
        };
        states.push(st);
        tok_base.push(0x7000_0000_0000 + ((g as u64) << 16));
    }
    // holes: every guest cluster of some L2 tables unallocated, so that their L1 entries are 0
    // (derived from the layout, not drawn: the random stream of older seeds stays as it was)
    let l2e = (cs / 8) as usize;
    if ng > l2e && (size >> cb) % 3 != 0 {
        let tables = ng.div_ceil(l2e);
        for t in 0..tables {
            if (t + (size >> cb) as usize) % 2 == 0 {
                for g in t * l2e..((t + 1) * l2e).min(ng) {
                    states[g] = GState::Unalloc;
                }
            }
        }
    }
    Layout {
        cb,
        ro,
        version,
        size,
        backing_name: if with_backing { Some("backing.qcow2".into()) } else { None },
        states,
        tok_base,
        short_l1: rng.chance(1, 2),
        extra_ext: rng.chance(1, 2),
        // derived, not drawn: keeps the random stream of older seeds unchanged
        name_at_end: with_backing && (size >> cb) % 4 == 1,
    }
}

/// backing images use a different token prefix so that data is attributable
pub fn retag(l: &mut Layout, prefix: u64) {
    for (g, t) in l.tok_base.iter_mut().enumerate() {
        *t = prefix + ((g as u64) << 16);
    }
}

pub fn build(l: &Layout, rng: &mut Rng) -> Built {
    let cb = l.cb;
    let cs = 1usize << cb;
    let spc = cs / SECTOR;
    let ng = l.states.len();
    let l2e = cs / 8;
    let need_l1 = ng.div_ceil(l2e);
    // L1 entries: as many as the guest clusters that are mapped need (short) or all
    let last_mapped = l.states.iter().rposition(|s| *s != GState::Unalloc).map(|g| g / l2e + 1).unwrap_or(0);
    let l1_entries = if l.short_l1 { last_mapped.max(1) } else { need_l1 };
    let l1_clusters = (l1_entries * 8).div_ceil(cs).max(1);
    // which L2 tables exist
    let mut l2_needed: Vec<usize> = Vec::new();
    for i in 0..l1_entries {
        let lo = i * l2e;
        let hi = ((i + 1) * l2e).min(ng);
        if (lo..hi).any(|g| l.states[g] != GState::Unalloc) {
            l2_needed.push(i);
        }
    }
    // compressed payloads
    let mut payloads: BTreeMap<usize, Vec<u8>> = BTreeMap::new();
    let mut comp_bytes = 0usize;
    for g in 0..ng {
        if l.states[g] == GState::Compressed {
            let mut plain = vec![0u8; cs];
            fill_tokens(&mut plain, l.tok_base[g]);
            let c = miniz_oxide::deflate::compress_to_vec(&plain, 6);
            assert!(c.len() < cs, "compressed payload too large");
            comp_bytes += c.len() + 64;
            payloads.insert(g, c);
        }
    }
    let comp_clusters = (comp_bytes + 512).div_ceil(cs) + if comp_bytes > 0 { 1 } else { 0 };
    let n_data = l.states.iter().filter(|s| matches!(s, GState::Data | GState::ZeroPrealloc)).count();
    let rb_entries = (cs * 8) >> l.ro;
    // total host clusters: header + tables + data + slack (fragmentation)
    let base_need = 1 + l1_clusters + 1 + l2_needed.len() + n_data + comp_clusters;
    let slack = rng.range(0, (base_need as u64 / 2).max(2)) as usize;
    let mut total = base_need + slack + 2;
    let mut n_rb = total.div_ceil(rb_entries);
    total += n_rb;
    n_rb = total.div_ceil(rb_entries);
    let rt_clusters = (n_rb * 8).div_ceil(cs).max(1);
    total += rt_clusters + 2;
    // placement: shuffle free cluster indices 1..total; contiguous areas first
    let mut used = vec![false; total];
    used[0] = true;
    let mut alloc_contig = |rng: &mut Rng, n: usize, used: &mut Vec<bool>| -> usize {
        for _ in 0..1000 {
            let s = rng.range(1, (total - n) as u64) as usize;
            if (s..s + n).all(|c| !used[c]) {
                for c in s..s + n {
                    used[c] = true;
                }
                return s;
            }
        }
        // fallback: first fit
        let mut s = 1;
        loop {
            if (s..s + n).all(|c| c < used.len() && !used[c]) {
                for c in s..s + n {
                    used[c] = true;
                }
                return s;
            }
            s += 1;
            if s + n > used.len() {
                let add = s + n - used.len();
                used.extend(std::iter::repeat(false).take(add));
            }
        }
    };
    let rt_at = alloc_contig(rng, rt_clusters, &mut used);
    let l1_at = alloc_contig(rng, l1_clusters, &mut used);
    let comp_at = if comp_clusters > 0 { alloc_contig(rng, comp_clusters, &mut used) } else { 0 };
    let mut singles = |rng: &mut Rng, used: &mut Vec<bool>| -> usize { alloc_contig(rng, 1, used) };
    let mut l2_at: BTreeMap<usize, usize> = BTreeMap::new();
    for i in &l2_needed {
        l2_at.insert(*i, singles(rng, &mut used));
    }
    let mut data_at: BTreeMap<usize, usize> = BTreeMap::new();
    for g in 0..ng {
        if matches!(l.states[g], GState::Data | GState::ZeroPrealloc) {
            data_at.insert(g, singles(rng, &mut used));
        }
    }
    let total = used.len();
    let n_rb = total.div_ceil(rb_entries);
    let mut rb_at: Vec<usize> = Vec::new();
    for _ in 0..n_rb {
        rb_at.push(singles(rng, &mut used));
    }
    let total = used.len();
    assert!(total.div_ceil(rb_entries) <= n_rb && n_rb * 8 <= rt_clusters * cs);

    let mut img = vec![0u8; total * cs];
    let mut refs = vec![0u64; total];
    refs[0] = 1;
    for c in rt_at..rt_at + rt_clusters {
        refs[c] += 1;
    }
    for c in l1_at..l1_at + l1_clusters {
        refs[c] += 1;
    }
    for c in &rb_at {
        refs[*c] += 1;
    }
    // L1 / L2
    for (i, at) in &l2_at {
        refs[*at] += 1;
        put64(&mut img, l1_at * cs + i * 8, (1u64 << 63) | ((*at * cs) as u64));
    }
    let mut content: Vec<Option<u64>> = vec![None; ng * spc];
    let mut own = vec![false; ng];
    let mut comp: Vec<(u64, u64)> = Vec::new();
    let mut comp_cursor = comp_at * cs;
    let cob = 62 - (cb as u32 - 8);
    for g in 0..ng {
        let l2off = match l2_at.get(&(g / l2e)) {
            Some(a) => a * cs + (g % l2e) * 8,
            None => continue,
        };
        match l.states[g] {
            GState::Unalloc => {}
            GState::Zero => {
                put64(&mut img, l2off, 1);
                for s in 0..spc {
                    content[g * spc + s] = Some(0);
                }
            }
            GState::ZeroPrealloc => {
                let at = data_at[&g];
                refs[at] += 1;
                put64(&mut img, l2off, (1u64 << 63) | ((at * cs) as u64) | 1);
                // stale bytes in the preallocated cluster must never be read
                for b in &mut img[at * cs..(at + 1) * cs] {
                    *b = 0xEE;
                }
                for s in 0..spc {
                    content[g * spc + s] = Some(0);
                }
            }
            GState::Data => {
                let at = data_at[&g];
                refs[at] += 1;
                put64(&mut img, l2off, (1u64 << 63) | ((at * cs) as u64));
                fill_tokens(&mut img[at * cs..(at + 1) * cs], l.tok_base[g]);
                for s in 0..spc {
                    content[g * spc + s] = Some(l.tok_base[g] + s as u64);
                }
                own[g] = true;
            }
            GState::Compressed => {
                let p = &payloads[&g];
                // byte-granular packing with random small gaps
                comp_cursor += rng.below(64) as usize;
                let off = comp_cursor;
                img[off..off + p.len()].copy_from_slice(p);
                comp_cursor += p.len();
                let first_sector = off / 512;
                let last_sector = (off + p.len() - 1) / 512;
                let nsect = (last_sector - first_sector) as u64; // additional sectors
                put64(&mut img, l2off, (1u64 << 62) | (nsect << cob) | off as u64);
                let span_end = (first_sector + nsect as usize + 1) * 512 - 1;
                for c in off / cs..=span_end / cs {
                    refs[c] += 1;
                }
                comp.push((off as u64, l.tok_base[g]));
                for s in 0..spc {
                    content[g * spc + s] = Some(l.tok_base[g] + s as u64);
                }
            }
        }
    }
    // refcount structures
    for (i, at) in rb_at.iter().enumerate() {
        put64(&mut img, rt_at * cs + i * 8, (*at * cs) as u64);
        let lo = i * rb_entries;
        let hi = ((i + 1) * rb_entries).min(total);
        let (a, b) = (at * cs, (at + 1) * cs);
        for c in lo..hi {
            let mut tmp = img[a..b].to_vec();
            rc_set(l.ro, &mut tmp, c - lo, refs[c]);
            img[a..b].copy_from_slice(&tmp);
        }
    }
    // header
    put32(&mut img, 0, 0x514649fb);
    put32(&mut img, 4, l.version);
    put32(&mut img, 20, cb as u32);
    put64(&mut img, 24, l.size);
    put32(&mut img, 36, l1_entries as u32);
    put64(&mut img, 40, (l1_at * cs) as u64);
    put64(&mut img, 48, (rt_at * cs) as u64);
    put32(&mut img, 56, rt_clusters as u32);
    let mut ext_off = 72;
    if l.version == 3 {
        put32(&mut img, 96, l.ro as u32);
        put32(&mut img, 100, 104);
        ext_off = 104;
    }
    let mut exts: Vec<u8> = Vec::new();
    if l.backing_name.is_some() {
        exts.extend(crate::hdr::ext_bytes(0xe2792aca, b"qcow2"));
    }
    if l.extra_ext && cs >= 1024 {
        exts.extend(crate::hdr::ext_bytes(0x5eed_1234, &[1, 2, 3, 4, 5]));
    }
    exts.extend(crate::hdr::ext_bytes(0, &[]));
    img[ext_off..ext_off + exts.len()].copy_from_slice(&exts);
    if let Some(name) = &l.backing_name {
        let off = if l.name_at_end { cs - name.len() } else { ext_off + exts.len() };
        img[off..off + name.len()].copy_from_slice(name.as_bytes());
        put64(&mut img, 8, off as u64);
        put32(&mut img, 16, name.len() as u32);
    }
    let prealloc: Vec<u64> = (0..ng)
        .filter(|g| l.states[*g] == GState::ZeroPrealloc && l2_at.contains_key(&(g / l2e)))
        .map(|g| data_at[&g] as u64)
        .collect();
    Built { bytes: img, content, own, comp, host_clusters: total as u64, prealloc }
}
