//! Header differential (C15 round trip, C14 malformed input): `Qcow2Header::from_buf`
//! and `serialize_to_buf` on generated buffers, with `catch_unwind`.
use crate::util::*;
use qcow2_rs::meta::Qcow2Header;
use std::panic::{catch_unwind, AssertUnwindSafe};

pub fn resp_hdr(buf: &[u8]) -> String {
    let r = catch_unwind(AssertUnwindSafe(|| Qcow2Header::from_buf(buf)));
    match r {
        Err(_) => "hdr panic".into(),
        Ok(Err(_)) => "hdr err".into(),
        Ok(Ok(mut h)) => {
            let ser = match catch_unwind(AssertUnwindSafe(|| h.serialize_to_buf())) {
                Err(_) => "panic".to_string(),
                Ok(Err(_)) => "err".to_string(),
                Ok(Ok(v)) => hex(&v),
            };
            format!(
                "hdr ok ver={} cb={} size={} crypt={} l1off={} l1n={} rtoff={} rtc={} nsnap={} snapoff={} ro={} comp={} back={} bfmt={} ser={}",
                h.version(),
                h.cluster_bits(),
                h.size(),
                h.crypt_method(),
                h.l1_table_offset(),
                h.l1_table_entries(),
                h.reftable_offset(),
                h.reftable_clusters(),
                h.nb_snapshots(),
                h.snapshots_offset(),
                h.refcount_order(),
                h.compression_type(),
                h.backing_filename().map(|s| hex(s.as_bytes())).unwrap_or("-".into()),
                h.backing_format().map(|s| hex(s.as_bytes())).unwrap_or("-".into()),
                ser
            )
        }
    }
}

/// raw header field writer (big endian, fixed layout of `Qcow2RawHeader`)
#[derive(Clone, Debug)]
pub struct RawHdr {
    pub magic: u32,
    pub version: u32,
    pub backing_file_offset: u64,
    pub backing_file_size: u32,
    pub cluster_bits: u32,
    pub size: u64,
    pub crypt_method: u32,
    pub l1_size: u32,
    pub l1_table_offset: u64,
    pub refcount_table_offset: u64,
    pub refcount_table_clusters: u32,
    pub nb_snapshots: u32,
    pub snapshots_offset: u64,
    pub incompatible_features: u64,
    pub compatible_features: u64,
    pub autoclear_features: u64,
    pub refcount_order: u32,
    pub header_length: u32,
    pub compression_type: u8,
}

impl RawHdr {
    pub fn valid(cb: u32, ro: u32, size: u64) -> Self {
        let cs = 1u64 << cb;
        RawHdr {
            magic: 0x514649fb,
            version: 3,
            backing_file_offset: 0,
            backing_file_size: 0,
            cluster_bits: cb,
            size,
            crypt_method: 0,
            l1_size: 1,
            l1_table_offset: 3 * cs,
            refcount_table_offset: cs,
            refcount_table_clusters: 1,
            nb_snapshots: 0,
            snapshots_offset: 0,
            incompatible_features: 0,
            compatible_features: 0,
            autoclear_features: 0,
            refcount_order: ro,
            header_length: 112,
            compression_type: 0,
        }
    }

    pub fn bytes(&self) -> Vec<u8> {
        let mut v = Vec::new();
        v.extend_from_slice(&self.magic.to_be_bytes());
        v.extend_from_slice(&self.version.to_be_bytes());
        v.extend_from_slice(&self.backing_file_offset.to_be_bytes());
        v.extend_from_slice(&self.backing_file_size.to_be_bytes());
        v.extend_from_slice(&self.cluster_bits.to_be_bytes());
        v.extend_from_slice(&self.size.to_be_bytes());
        v.extend_from_slice(&self.crypt_method.to_be_bytes());
        v.extend_from_slice(&self.l1_size.to_be_bytes());
        v.extend_from_slice(&self.l1_table_offset.to_be_bytes());
        v.extend_from_slice(&self.refcount_table_offset.to_be_bytes());
        v.extend_from_slice(&self.refcount_table_clusters.to_be_bytes());
        v.extend_from_slice(&self.nb_snapshots.to_be_bytes());
        v.extend_from_slice(&self.snapshots_offset.to_be_bytes());
        v.extend_from_slice(&self.incompatible_features.to_be_bytes());
        v.extend_from_slice(&self.compatible_features.to_be_bytes());
        v.extend_from_slice(&self.autoclear_features.to_be_bytes());
        v.extend_from_slice(&self.refcount_order.to_be_bytes());
        v.extend_from_slice(&self.header_length.to_be_bytes());
        v.push(self.compression_type);
        assert!(v.len() == 105);
        v
    }
}

/// one extension: (type, data)
pub fn ext_bytes(t: u32, data: &[u8]) -> Vec<u8> {
    let mut v = Vec::new();
    v.extend_from_slice(&t.to_be_bytes());
    v.extend_from_slice(&(data.len() as u32).to_be_bytes());
    v.extend_from_slice(data);
    while v.len() % 8 != 0 {
        v.push(0);
    }
    v
}

/// a structured, mostly valid header buffer
pub fn gen_valid(rng: &mut Rng) -> Vec<u8> {
    let cb = rng.range(9, 21) as u32;
    let ro = rng.range(0, 6) as u32;
    let mut h = RawHdr::valid(cb, ro, rng.range(1, 1 << 40));
    if rng.chance(1, 4) {
        h.version = 2;
    }
    h.l1_size = rng.range(0, 1000) as u32;
    h.l1_table_offset = rng.range(1, 1000) << cb;
    h.refcount_table_offset = rng.range(1, 1000) << cb;
    h.refcount_table_clusters = rng.range(1, 8) as u32;
    h.compatible_features = if rng.chance(1, 4) { rng.below(4) } else { 0 };
    h.autoclear_features = if rng.chance(1, 4) { rng.below(4) } else { 0 };
    h.nb_snapshots = if rng.chance(1, 8) { rng.below(5) as u32 } else { 0 };
    h.snapshots_offset = if h.nb_snapshots > 0 { rng.range(1, 100) << cb } else { 0 };
    let mut exts = Vec::new();
    let n_ext = rng.below(4);
    for _ in 0..n_ext {
        match rng.below(4) {
            0 => exts.extend(ext_bytes(0xe2792aca, if rng.chance(1, 2) { b"qcow2" } else { b"raw" })),
            1 => {
                // feature name table with exactly one entry (HashMap order is not canonical)
                let mut d = vec![0u8; 48];
                d[0] = rng.below(3) as u8;
                d[1] = rng.below(8) as u8;
                let name = b"dirty bit";
                d[2..2 + name.len()].copy_from_slice(name);
                exts.extend(ext_bytes(0x6803f857, &d));
            }
            _ => {
                let len = rng.below(40) as usize;
                let mut d = vec![0u8; len];
                for b in d.iter_mut() {
                    *b = rng.next() as u8;
                }
                let t = 0x1000_0000 + rng.below(1000) as u32;
                exts.extend(ext_bytes(t, &d));
            }
        }
    }
    exts.extend(ext_bytes(0, &[]));
    let mut buf = h.bytes();
    buf.resize(112, 0);
    buf.extend(exts);
    if rng.chance(1, 3) {
        let name: &[u8] = if rng.chance(1, 2) { b"base.qcow2" } else { b"/images/parent-image.qcow2" };
        let off = buf.len() as u64;
        buf.extend_from_slice(name);
        let mut h2 = h.clone();
        h2.backing_file_offset = off;
        h2.backing_file_size = name.len() as u32;
        let hb = h2.bytes();
        buf[..105].copy_from_slice(&hb);
    }
    let total = *rng.pick(&[512usize, 4096, 4096, 4096]);
    if buf.len() < total {
        buf.resize(total, 0);
    }
    buf
}

/// single/multi-field mutation of a valid header, or random bytes
pub fn gen_malformed(rng: &mut Rng) -> Vec<u8> {
    match rng.below(10) {
        0 => {
            // random bytes of any length
            let len = rng.below(4097) as usize;
            (0..len).map(|_| rng.next() as u8).collect()
        }
        1 => {
            // truncated valid header
            let mut b = gen_valid(rng);
            let len = rng.below(b.len() as u64 + 1) as usize;
            b.truncate(len);
            b
        }
        2 => {
            // unsupported features
            let mut h = RawHdr::valid(rng.range(9, 21) as u32, 4, 1 << 30);
            match rng.below(8) {
                0 => h.crypt_method = rng.range(1, 2) as u32,
                1 => h.incompatible_features = 1 << rng.below(64),
                2 => {
                    h.compression_type = rng.range(1, 255) as u8;
                    if rng.chance(1, 2) {
                        h.incompatible_features = 1 << 3
                    }
                }
                3 => h.refcount_order = rng.range(7, 40) as u32,
                4 => h.cluster_bits = *rng.pick(&[0u32, 1, 8, 22, 30, 31, 32, 63, 64, 255, u32::MAX]),
                5 => h.version = *rng.pick(&[0u32, 1, 4, 5, u32::MAX]),
                6 => h.incompatible_features = 1 << 2,
                _ => h.incompatible_features = 1 << 4,
            }
            let mut b = h.bytes();
            b.resize(112, 0);
            b.extend(ext_bytes(0, &[]));
            b.resize(4096, 0);
            b
        }
        3 => {
            // extension length games
            let h = RawHdr::valid(rng.range(9, 21) as u32, 4, 1 << 30);
            let mut b = h.bytes();
            b.resize(112, 0);
            let kind = rng.below(5);
            match kind {
                0 => {
                    // feature table with length = 1 mod 48
                    let len = 48 * rng.below(3) as usize + 1;
                    b.extend(ext_bytes(0x6803f857, &vec![1u8; len]));
                }
                1 => {
                    // length beyond buffer
                    b.extend_from_slice(&0x12345678u32.to_be_bytes());
                    b.extend_from_slice(&(rng.next() as u32).to_be_bytes());
                }
                2 => {
                    // no end marker until the end of the buffer
                    while b.len() + 16 <= 4096 {
                        b.extend(ext_bytes(0x2000_0000, &[1, 2, 3]));
                    }
                }
                3 => {
                    // invalid utf-8 backing format
                    b.extend(ext_bytes(0xe2792aca, &[0xff, 0xfe, 0x80]));
                }
                _ => {
                    let len = rng.below(100) as usize;
                    b.extend(ext_bytes(0x6803f857, &vec![rng.next() as u8; len]));
                }
            }
            b.extend(ext_bytes(0, &[]));
            if b.len() < 4096 {
                b.resize(4096, 0);
            }
            b
        }
        4 => {
            // backing name games
            let mut h = RawHdr::valid(rng.range(9, 21) as u32, 4, 1 << 30);
            h.backing_file_offset = *rng.pick(&[1u64, 104, 4090, 4096, 1 << 20, u64::MAX, u64::MAX - 3]);
            h.backing_file_size = *rng.pick(&[0u32, 1, 6, 1023, 1024, u32::MAX]);
            let mut b = h.bytes();
            b.resize(112, 0);
            b.extend(ext_bytes(0, &[]));
            b.resize(4096, 0xc3);
            b
        }
        5 => {
            // header_length games
            let mut h = RawHdr::valid(rng.range(9, 21) as u32, 4, 1 << 30);
            h.header_length = *rng.pick(&[0u32, 8, 72, 104, 105, 111, 4088, 4089, 4096, 1 << 20, u32::MAX]);
            let mut b = h.bytes();
            b.resize(4096, 0);
            b
        }
        6 => {
            // unaligned table offsets
            let cb = rng.range(9, 21) as u32;
            let mut h = RawHdr::valid(cb, 4, 1 << 30);
            if rng.chance(1, 2) {
                h.l1_table_offset += 1 << rng.below(cb as u64);
            } else {
                h.refcount_table_offset += 1 << rng.below(cb as u64);
            }
            let mut b = h.bytes();
            b.resize(112, 0);
            b.extend(ext_bytes(0, &[]));
            b.resize(4096, 0);
            b
        }
        _ => {
            // byte-level mutations of a valid buffer
            let mut b = gen_valid(rng);
            let n = rng.range(1, 4);
            for _ in 0..n {
                let i = rng.below(std::cmp::min(b.len(), 160) as u64) as usize;
                if i < b.len() {
                    b[i] = rng.next() as u8;
                }
            }
            b
        }
    }
}
