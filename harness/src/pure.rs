//! Pure-layer differential (C15, parts of C09/C14): calls the public meta API
//! of the real code on generated inputs and prints one response line per
//! request line.  The Lean driver answers the same request lines from the model.
use crate::util::*;
use qcow2_rs::dev::{verif_host_cluster_split, verif_info_fields, Qcow2DevParams, Qcow2Info};
use qcow2_rs::meta::*;
use std::fmt::Write as _;
use std::panic::{catch_unwind, AssertUnwindSafe};

fn opt(v: Option<u64>) -> String {
    match v {
        Some(x) => x.to_string(),
        None => "-".into(),
    }
}

fn pair(v: Option<(u64, usize)>) -> String {
    match v {
        Some((a, b)) => format!("{},{}", a, b),
        None => "-".into(),
    }
}

/// a header buffer for (cb, ro, size) produced by the code's own formatter,
/// optionally with a backing file name patched in
pub fn header_bytes(cb: usize, ro: u8, size: u64, backing: bool) -> Vec<u8> {
    let mut h = crate::hdr::RawHdr::valid(cb as u32, ro as u32, size);
    let name = b"back";
    if backing {
        h.backing_file_offset = 200;
        h.backing_file_size = name.len() as u32;
    }
    let mut img = h.bytes();
    img.resize(112, 0);
    img.extend(crate::hdr::ext_bytes(0, &[]));
    img.resize(512, 0);
    if backing {
        img[200..200 + name.len()].copy_from_slice(name);
    }
    img
}

#[derive(Clone, Debug)]
pub struct GeoArgs {
    pub cb: usize,
    pub ro: u8,
    pub size: u64,
    pub bsb: u8,
    pub l2: Option<(u8, usize)>,
    pub rb: Option<(u8, usize)>,
    pub read_only: bool,
    pub backing_dev: bool,
    pub has_back_name: bool,
}

impl GeoArgs {
    pub fn text(&self) -> String {
        let c = |x: &Option<(u8, usize)>| match x {
            Some((b, s)) => format!("{},{}", b, s),
            None => "-".into(),
        };
        format!(
            "{} {} {} {} {} {} {} {} {}",
            self.cb,
            self.ro,
            self.size,
            self.bsb,
            c(&self.l2),
            c(&self.rb),
            self.read_only as u8,
            self.backing_dev as u8,
            self.has_back_name as u8
        )
    }

    pub fn params(&self) -> Qcow2DevParams {
        let mut p = Qcow2DevParams::new(self.bsb, self.rb, self.l2, self.read_only, false);
        if self.backing_dev {
            p.mark_backing_dev(Some(true));
        }
        p
    }

    /// Ok(info) / Err("err") / Err("panic")
    pub fn info(&self) -> Result<Qcow2Info, &'static str> {
        let hb = header_bytes(self.cb, self.ro, self.size, self.has_back_name);
        let h = Qcow2Header::from_buf(&hb).map_err(|_| "hdr-err")?;
        let p = self.params();
        match catch_unwind(AssertUnwindSafe(|| Qcow2Info::new(&h, &p))) {
            Ok(Ok(i)) => Ok(i),
            Ok(Err(_)) => Err("err"),
            Err(_) => Err("panic"),
        }
    }
}

pub fn plain_info(cb: usize) -> Qcow2Info {
    GeoArgs {
        cb,
        ro: 4,
        size: 1 << 30,
        bsb: 9,
        l2: Some((9, 1024)),
        rb: Some((9, 1024)),
        read_only: false,
        backing_dev: false,
        has_back_name: false,
    }
    .info()
    .unwrap()
}

fn src_name(s: &MappingSource) -> &'static str {
    match s {
        MappingSource::DataFile => "data",
        MappingSource::Backing => "backing",
        MappingSource::Zero => "zero",
        MappingSource::Compressed => "compressed",
        MappingSource::Unallocated => "unallocated",
    }
}

pub fn resp_l2(cb: usize, hb: bool, gcoff: u64, e: u64) -> String {
    // info with/without backing name decides has_back_file()
    let info = GeoArgs {
        cb,
        ro: 4,
        size: 1 << 30,
        bsb: 9,
        l2: Some((9, 1024)),
        rb: Some((9, 1024)),
        read_only: false,
        backing_dev: false,
        has_back_name: hb,
    }
    .info()
    .unwrap();
    let ent = L2Entry::verif_from_raw(e);
    let split = SplitGuestOffset(gcoff);
    let m = ent.into_mapping(&info, &split);
    let back = match catch_unwind(AssertUnwindSafe(|| L2Entry::from_mapping(m.clone(), cb as u32))) {
        Ok(x) => format!("{:x}", x.verif_raw()),
        Err(_) => "panic".into(),
    };
    let tr = L2Entry::try_from_plain(e, &info).is_ok();
    format!(
        "l2 src={} off={} len={} cp={} alloc={} cr={} rsv={:x} try={} back={} plain={}",
        src_name(&m.source),
        opt(m.cluster_offset),
        opt(m.compressed_length.map(|x| x as u64)),
        m.copied as u8,
        pair(ent.allocation(cb as u32)),
        pair(ent.compressed_range(cb as u32)),
        ent.reserved_bits(),
        tr as u8,
        back,
        opt(m.plain_offset(0)),
    )
}

pub fn resp_l1(cb: usize, e: u64) -> String {
    let info = plain_info(cb);
    let ent = L1Entry::verif_from_raw(e);
    format!(
        "l1 off={} cp={} z={} rsv={:x} try={}",
        ent.l2_offset(),
        ent.is_copied() as u8,
        ent.is_zero() as u8,
        ent.reserved_bits(),
        L1Entry::try_from_plain(e, &info).is_ok() as u8
    )
}

pub fn resp_rt(cb: usize, e: u64) -> String {
    let info = plain_info(cb);
    let ent = RefTableEntry(e);
    format!(
        "rt off={} z={} rsv={:x} try={}",
        ent.refblock_offset(),
        ent.is_zero() as u8,
        ent.reserved_bits(),
        RefTableEntry::try_from_plain(e, &info).is_ok() as u8
    )
}

fn mk_rb(order: u8, init: &[u8]) -> RefBlock {
    let mut rb = RefBlock::new(order, init.len(), None);
    let raw = unsafe { std::slice::from_raw_parts_mut(rb.as_mut_ptr(), rb.byte_size()) };
    raw.copy_from_slice(init);
    rb
}

fn rb_bytes(rb: &RefBlock) -> Vec<u8> {
    unsafe { std::slice::from_raw_parts(rb.as_ptr(), rb.byte_size()) }.to_vec()
}

pub fn resp_rc(order: u8, init: &[u8], op: &str, i: usize, v: u64) -> String {
    let mut rb = mk_rb(order, init);
    let info = plain_info(16);
    let r = catch_unwind(AssertUnwindSafe(|| match op {
        "get" => Ok(Some(rb.get(i).into_plain())),
        "set" => {
            rb.set(i, RefBlockEntry::try_from_plain(v, &info).unwrap());
            Ok(None)
        }
        "inc" => rb.increment(i).map(|_| None),
        "dec" => rb.decrement(i).map(|_| None),
        _ => unreachable!(),
    }));
    let (res, val) = match r {
        Ok(Ok(v)) => ("ok", v),
        Ok(Err(_)) => ("err", None),
        Err(_) => ("panic", None),
    };
    format!("rc res={} val={} bytes={}", res, opt(val), hex(&rb_bytes(&rb)))
}

pub fn resp_rcfree(order: u8, init: &[u8], start: usize, count: usize) -> String {
    let rb = mk_rb(order, init);
    let range = match catch_unwind(AssertUnwindSafe(|| rb.get_free_range(start, count))) {
        Ok(Some(r)) => format!("{},{}", r.start, r.end),
        Ok(None) => "-".into(),
        Err(_) => "panic".into(),
    };
    let tail = match catch_unwind(AssertUnwindSafe(|| rb.get_tail_free_range())) {
        Ok(Some(r)) => format!("{},{}", r.start, r.end),
        Ok(None) => "-".into(),
        Err(_) => "panic".into(),
    };
    format!("rcfree range={} tail={} entries={}", range, tail, rb.entries())
}

pub fn resp_geo(g: &GeoArgs, off: u64) -> String {
    match g.info() {
        Err(e) => format!("geo {}", e),
        Ok(info) => {
            let mut s = String::from("geo ok");
            for (k, v) in verif_info_fields(&info) {
                let _ = write!(s, " {}={}", k, v);
            }
            let sp = SplitGuestOffset(off);
            let r = catch_unwind(AssertUnwindSafe(|| {
                format!(
                    " l1={} l2={} si={} key={} oit={} ico={} co={}",
                    sp.l1_index(&info),
                    sp.l2_index(&info),
                    sp.l2_slice_index(&info),
                    sp.l2_slice_key(&info),
                    sp.l2_slice_off_in_table(&info),
                    sp.in_cluster_offset(&info),
                    sp.cluster_offset(&info)
                )
            }));
            s.push_str(&r.unwrap_or_else(|_| " split=panic".into()));
            let r = catch_unwind(AssertUnwindSafe(|| {
                let h = verif_host_cluster_split(&info, off);
                format!(
                    " rti={} rbi={} rsi={} rkey={} rss={} rse={} rbs={} rbe={} roit={}",
                    h.rt_index,
                    h.rb_index,
                    h.rb_slice_index,
                    h.rb_slice_key,
                    h.rb_slice_host_start,
                    h.rb_slice_host_end,
                    h.rb_host_start,
                    h.rb_host_end,
                    h.rb_slice_off_in_table
                )
            }));
            s.push_str(&r.unwrap_or_else(|_| " host=panic".into()));
            let _ = write!(
                s,
                " rbe_n={} l2e_n={} rbse_n={} maxl1={}",
                info.rb_entries(),
                info.l2_entries(),
                ((1u64 << (verif_field(&info, "rb_slice_bits") + 3)) >> info.refcount_order()),
                max_l1(&info)
            );
            s
        }
    }
}

fn verif_field(info: &Qcow2Info, name: &str) -> u64 {
    verif_info_fields(info)
        .into_iter()
        .find(|(k, _)| *k == name)
        .map(|(_, v)| v)
        .unwrap()
}

fn max_l1(info: &Qcow2Info) -> u64 {
    // public formula inputs only (the helper itself is crate-private)
    let l2e = info.l2_entries() as u64;
    let per = l2e << info.cluster_bits();
    std::cmp::min(info.virtual_size().div_ceil(per), (32u64 << 20) / 8)
}

/// generate the request stream for this run
pub fn gen_requests(seed: u64, n: usize) -> Vec<String> {
    let mut rng = Rng::derive(seed, 15, 0);
    let mut out = Vec::new();
    let cbs: Vec<usize> = (9..=21).collect();

    // ---- L2 entries: every class x every cluster_bits x boundary offsets ----
    for &cb in &cbs {
        let cs = 1u64 << cb;
        let cob = 62 - (cb as u32 - 8);
        let mut es: Vec<u64> = vec![
            0,
            1,
            1 << 63,
            (1 << 63) | 1,
            cs,
            cs | 1,
            (1 << 63) | cs,
            (1 << 63) | cs | 1,
            (1 << 63) | (cs * 7),
            0x00ff_ffff_ffff_fe00 & !(cs - 1),
            (1 << 63) | (0x00ff_ffff_ffff_fe00 & !(cs - 1)),
            1 << 62,
            (1 << 62) | 0x200,
            (1 << 62) | (cs + 511),
            (1 << 62) | ((1u64 << cob) - 1),
            (1 << 62) | (1u64 << cob),
            (1 << 62) | (1u64 << cob) | (cs - 1),
            (1 << 62) | (((cs / 512) - 1) << cob) | (cs * 3 + 17),
            (1 << 62) | (((cs / 512) - 1) << cob) | (cs * 3 + cs - 1),
            (1 << 62) | (3u64 << cob) | 1,
            0x3fff_ffff_ffff_ffff | (1 << 62),
            (1 << 63) | (1 << 62) | cs,
            cs | 0x2,
            cs | 0x100,
            cs | (1 << 56),
            cs | (1 << 61),
            cs + 512,
            u64::MAX,
        ];
        for _ in 0..(n / 13).max(8) {
            let r = rng.next();
            let e = match rng.below(6) {
                0 => (r & 0x00ff_ffff_ffff_fe00 & !(cs - 1)) | (rng.below(2) << 63) | rng.below(2),
                1 => (1 << 62) | (r & 0x3fff_ffff_ffff_ffff),
                2 => (1 << 62) | (rng.below(cs / 512) << cob) | (r & ((1u64 << 40) - 1)),
                3 => r,
                4 => (rng.below(1 << 20) * cs) | (1 << 63),
                _ => r & 0xc0ff_ffff_ffff_ffff,
            };
            es.push(e);
        }
        for e in es {
            let hb = rng.below(2);
            let g = rng.below(1 << 30) & !(cs - 1);
            out.push(format!("l2 {} {} {} {:x}", cb, hb, g, e));
        }
        for e in [
            0u64,
            cs,
            (1 << 63) | cs,
            cs | 1,
            cs + 512,
            1 << 62,
            0x7f00_0000_0000_0000,
            u64::MAX,
            rng.next(),
            rng.next() & 0x80ff_ffff_ffff_fe00 & !(cs - 1),
        ] {
            out.push(format!("l1 {} {:x}", cb, e));
            out.push(format!("rt {} {:x}", cb, e));
        }
    }

    // ---- refcount get/set: every width x every index of a slice x boundary values ----
    for order in 0u8..=6 {
        let bits = 1u32 << order;
        let max: u64 = if bits == 64 { u64::MAX } else { (1u64 << bits) - 1 };
        for size in [8usize, 16] {
            let entries = size * 8 / bits as usize;
            let mut init = vec![0u8; size];
            for b in init.iter_mut() {
                *b = rng.next() as u8;
            }
            let ih = hex(&init);
            for i in 0..entries {
                out.push(format!("rc {} {} get {} 0", order, ih, i));
                for v in [0u64, 1, max.wrapping_sub(1), max] {
                    out.push(format!("rc {} {} set {} {}", order, ih, i, v));
                }
                if bits < 64 {
                    out.push(format!("rc {} {} set {} {}", order, ih, i, max + 1));
                }
                out.push(format!("rc {} {} inc {} 0", order, ih, i));
                out.push(format!("rc {} {} dec {} 0", order, ih, i));
            }
            // saturated / empty entries for inc/dec bounds
            let ones = hex(&vec![0xffu8; size]);
            let zeros = hex(&vec![0u8; size]);
            for i in [0, entries - 1] {
                out.push(format!("rc {} {} inc {} 0", order, ones, i));
                out.push(format!("rc {} {} dec {} 0", order, zeros, i));
            }
            // out of range index
            out.push(format!("rc {} {} get {} 0", order, ih, entries));
            out.push(format!("rc {} {} set {} 0", order, ih, entries));
        }
        // free-range search
        for _ in 0..(n / 40).max(6) {
            let size = 8usize;
            let entries = size * 8 / bits as usize;
            let mut init = vec![0u8; size];
            let density = rng.below(4);
            for b in init.iter_mut() {
                *b = match density {
                    0 => 0,
                    1 => (rng.next() & rng.next() & rng.next()) as u8,
                    2 => rng.next() as u8,
                    _ => 0xff,
                };
            }
            let start = rng.below(entries as u64 + 1) as usize;
            let count = rng.below((entries - start.min(entries)) as u64 + 2) as usize;
            out.push(format!("rcfree {} {} {} {}", order, hex(&init), start, count));
        }
    }

    // ---- geometry + address split ----
    for &cb in &cbs {
        for ro in 0u8..=6 {
            let cs = 1u64 << cb;
            let size = match rng.below(4) {
                0 => cs * rng.range(1, 64),
                1 => (1u64 << 20) * rng.range(1, 4096),
                2 => cs * rng.range(1, 1 << 20) + rng.below(cs),
                _ => 1u64 << rng.range(20, 44),
            };
            let bsb = rng.range(9, 12.min(cb as u64)) as u8;
            let slice = |rng: &mut Rng| -> Option<(u8, usize)> {
                if rng.chance(1, 5) {
                    None
                } else {
                    let b = rng.range(bsb as u64, cb as u64) as u8;
                    let cnt = rng.range(2, 64) as usize;
                    Some((b, cnt << b))
                }
            };
            let g = GeoArgs {
                cb,
                ro,
                size,
                bsb,
                l2: slice(&mut rng),
                rb: slice(&mut rng),
                read_only: rng.chance(1, 4),
                backing_dev: false,
                has_back_name: rng.chance(1, 4),
            };
            let mut g = g;
            if rng.chance(1, 8) {
                g.backing_dev = true;
                g.read_only = true;
            }
            let l2cover = cs * cs / 8;
            let offs = [
                0,
                cs - 1,
                cs,
                l2cover - 1,
                l2cover,
                l2cover + cs * 3 + 5,
                size.saturating_sub(1),
                rng.below(size.max(1)),
                rng.below(1 << 40),
                (cs * 8 >> ro) * cs,
                (cs * 8 >> ro) * cs - 1,
            ];
            for off in offs {
                out.push(format!("geo {} {}", g.text(), off));
            }
        }
    }
    out
}

pub fn parse_geo(t: &[&str]) -> GeoArgs {
    let c = |s: &str| -> Option<(u8, usize)> {
        if s == "-" {
            None
        } else {
            let mut it = s.split(',');
            Some((it.next().unwrap().parse().unwrap(), it.next().unwrap().parse().unwrap()))
        }
    };
    GeoArgs {
        cb: t[0].parse().unwrap(),
        ro: t[1].parse().unwrap(),
        size: t[2].parse().unwrap(),
        bsb: t[3].parse().unwrap(),
        l2: c(t[4]),
        rb: c(t[5]),
        read_only: t[6] == "1",
        backing_dev: t[7] == "1",
        has_back_name: t[8] == "1",
    }
}

/// answer one request line with the real implementation
pub fn respond(line: &str) -> String {
    let t: Vec<&str> = line.split(' ').collect();
    let hx = |s: &str| u64::from_str_radix(s, 16).unwrap();
    match t[0] {
        "l2" => resp_l2(t[1].parse().unwrap(), t[2] == "1", t[3].parse().unwrap(), hx(t[4])),
        "l1" => resp_l1(t[1].parse().unwrap(), hx(t[2])),
        "rt" => resp_rt(t[1].parse().unwrap(), hx(t[2])),
        "rc" => resp_rc(
            t[1].parse().unwrap(),
            &unhex(t[2]),
            t[3],
            t[4].parse().unwrap(),
            t[5].parse().unwrap(),
        ),
        "rcfree" => resp_rcfree(
            t[1].parse().unwrap(),
            &unhex(t[2]),
            t[3].parse().unwrap(),
            t[4].parse().unwrap(),
        ),
        "geo" => resp_geo(&parse_geo(&t[1..10]), t[10].parse().unwrap()),
        "hdr" => crate::hdr::resp_hdr(&unhex(t[1])),
        "uset" => resp_uset(t[1], t[2]),
        _ => format!("unknown-request {}", t[0]),
    }
}


/// the used-cluster set of the leak check: `uset n,n,.. q,q,..`
fn resp_uset(nums: &str, qs: &str) -> String {
    let parse = |s: &str| -> Vec<u64> { s.split(',').filter(|x| !x.is_empty() && *x != "-").map(|x| x.parse().unwrap()).collect() };
    let (ranges, used) = qcow2_rs::dev::Qcow2Dev::<crate::sim::SimFile>::verif_used_set(&parse(nums), &parse(qs));
    format!(
        "uset ranges={} used={}",
        if ranges.is_empty() { "-".to_string() } else { ranges.iter().map(|(a, b)| format!("{}-{}", a, b)).collect::<Vec<_>>().join(",") },
        used.iter().map(|b| if *b { '1' } else { '0' }).collect::<String>()
    )
}

/// request stream for the used-set differential: distinct inserts, duplicates, ascending
/// overlapping windows (how compressed clusters are added), the witness of the old defect
pub fn gen_uset_requests(seed: u64, n: usize) -> Vec<String> {
    let mut rng = Rng::derive(seed, 16, 0);
    let mut out = vec!["uset 0,1,2,3,4,1,3 0,1,2,3,4,5".to_string(), "uset - 0,1".to_string()];
    for _ in 0..n {
        let span = *rng.pick(&[6u64, 10, 16, 40, 1000]);
        let len = rng.range(1, 24);
        let mut nums: Vec<u64> = Vec::new();
        let base = if rng.chance(1, 8) { (1u64 << 55) - span } else { rng.below(3) * 7 };
        for _ in 0..len {
            match rng.below(5) {
                0 if !nums.is_empty() => nums.push(*rng.pick(&nums)),
                1 => {
                    let a = base + rng.below(span);
                    let k = rng.range(1, 4);
                    for x in a..a.saturating_add(k) {
                        nums.push(x);
                    }
                }
                _ => nums.push(base + rng.below(span + 1)),
            }
        }
        let qs: Vec<String> = (0..12).map(|_| (base + rng.below(span + 2)).to_string()).collect();
        out.push(format!("uset {} {}", nums.iter().map(|x| x.to_string()).collect::<Vec<_>>().join(","), qs.join(",")));
    }
    out
}
