//! In-memory backend (`SimFile`) with the semantics of the Lean `Spec.HostFile`:
//! read is short at EOF, write extends (zero fill), punch keeps the length and
//! zeroes, fsync is the identity on contents.  Records every request, can fail
//! chosen requests, can reject unaligned requests (direct-I/O mode), and can
//! gate completion so that a scheduler decides the completion order.
//!
//! The contents are kept sparse (`SparseBuf`: 64 KiB chunks, absent = zeroes), like a
//! file with holes: a write through a corrupted pointer several hundred MiB past the end
//! extends the length without touching the gap.  (A dense `Vec<u8>` made such a case cost
//! a gigabyte of page faults, which a freshly restored sandbox served so slowly that the
//! C14 watchdog took it for a hang - DESIGN 10.21.)
use qcow2_rs::error::Qcow2Result;
use qcow2_rs::ops::Qcow2IoOps;
use std::cell::RefCell;
use std::collections::{BTreeMap, BTreeSet};
use std::future::Future;
use std::pin::Pin;
use std::rc::Rc;
use std::task::{Context, Poll, Waker};

#[derive(Clone, Copy, Debug, PartialEq, Eq)]
pub enum Kind {
    Read,
    Write,
    Punch,
    Sync,
}

impl Kind {
    pub fn ch(&self) -> char {
        match self {
            Kind::Read => 'R',
            Kind::Write => 'W',
            Kind::Punch => 'Z',
            Kind::Sync => 'S',
        }
    }
}

#[derive(Clone, Debug)]
pub struct Req {
    pub id: usize,
    pub kind: Kind,
    pub off: u64,
    pub len: usize,
    /// buffer address modulo 4096 (reads/writes), 0 otherwise
    pub align: usize,
    pub flags: u32,
    /// API call (operation index) that was current when the request was issued
    pub op: usize,
    /// write payload (kept for crash-state construction)
    pub payload: Option<Rc<Vec<u8>>>,
    pub failed: bool,
    /// global sequence numbers of issue and completion events
    pub issue_seq: usize,
    pub done_seq: Option<usize>,
    pub result_len: usize,
}

struct Pending {
    id: usize,
    waker: Option<Waker>,
    done: bool,
    read_data: Option<Vec<u8>>,
    ok: bool,
}

pub struct SimState {
    pub name: String,
    pub data: SparseBuf,
    pub log: Vec<Req>,
    pub fail_ids: BTreeSet<usize>,
    /// fail every punch request (so that `call_fallocate` falls back to zero writes)
    pub punch_unsupported: bool,
    /// reject requests whose offset/len/buffer are not multiples of `dio_bs`
    pub dio_bs: Option<usize>,
    pub cur_op: usize,
    pub seq: usize,
    pub gated: bool,
    pending: Vec<Pending>,
    /// number of requests that violated alignment (recorded even if dio is off)
    pub record_only: bool,
}

#[derive(Clone)]
pub struct SimFile(pub Rc<RefCell<SimState>>);

impl SimFile {
    pub fn new(name: &str, data: Vec<u8>) -> Self {
        SimFile(Rc::new(RefCell::new(SimState {
            name: name.to_string(),
            data: SparseBuf::from_vec(data),
            log: Vec::new(),
            fail_ids: BTreeSet::new(),
            punch_unsupported: false,
            dio_bs: None,
            cur_op: 0,
            seq: 0,
            gated: false,
            pending: Vec::new(),
            record_only: false,
        })))
    }

    pub fn set_op(&self, op: usize) {
        self.0.borrow_mut().cur_op = op;
    }

    pub fn snapshot(&self) -> Vec<u8> {
        self.0.borrow().data.to_vec()
    }

    pub fn len(&self) -> usize {
        self.0.borrow().data.len()
    }

    pub fn log_len(&self) -> usize {
        self.0.borrow().log.len()
    }

    /// ids of requests issued but not completed (gated mode)
    pub fn pending_ids(&self) -> Vec<usize> {
        self.0
            .borrow()
            .pending
            .iter()
            .filter(|p| !p.done)
            .map(|p| p.id)
            .collect()
    }

    /// complete a pending request: apply its effect now and wake its future
    pub fn complete(&self, id: usize) {
        let waker = {
            let mut st = self.0.borrow_mut();
            let seq = st.seq;
            st.seq += 1;
            let req = st.log[id].clone();
            let fail = req.failed;
            let mut read_data = None;
            let mut result_len = 0;
            if !fail {
                match req.kind {
                    Kind::Read => {
                        let (d, n) = do_read(&st.data, req.off, req.len);
                        read_data = Some(d);
                        result_len = n;
                    }
                    Kind::Write => {
                        let p = req.payload.clone().unwrap();
                        do_write(&mut st.data, req.off, &p);
                    }
                    Kind::Punch => do_punch(&mut st.data, req.off, req.len),
                    Kind::Sync => {}
                }
            }
            st.log[id].done_seq = Some(seq);
            st.log[id].result_len = result_len;
            let p = st.pending.iter_mut().find(|p| p.id == id).unwrap();
            p.done = true;
            p.read_data = read_data;
            p.ok = !fail;
            p.waker.take()
        };
        if let Some(w) = waker {
            w.wake();
        }
    }
}

const CHUNK_BITS: u32 = 16;
const CHUNK: usize = 1 << CHUNK_BITS;

/// byte string of length `len`; chunks not in the map are all zero
pub struct SparseBuf {
    len: usize,
    chunks: BTreeMap<usize, Box<[u8]>>,
}

impl SparseBuf {
    pub fn from_vec(v: Vec<u8>) -> Self {
        let mut b = SparseBuf { len: 0, chunks: BTreeMap::new() };
        b.write(0, &v);
        b
    }

    pub fn len(&self) -> usize {
        self.len
    }

    pub fn to_vec(&self) -> Vec<u8> {
        let mut v = vec![0u8; self.len];
        for (i, c) in &self.chunks {
            let off = i << CHUNK_BITS;
            if off < self.len {
                let n = CHUNK.min(self.len - off);
                v[off..off + n].copy_from_slice(&c[..n]);
            }
        }
        v
    }

    /// `f(chunk index, offset in the chunk, offset in the request, length)` for every piece of `[off, off+len)`
    fn pieces(off: usize, len: usize, mut f: impl FnMut(usize, usize, usize, usize)) {
        let mut done = 0;
        while done < len {
            let pos = off + done;
            let inner = pos & (CHUNK - 1);
            let n = (CHUNK - inner).min(len - done);
            f(pos >> CHUNK_BITS, inner, done, n);
            done += n;
        }
    }

    /// short at the end of the file
    fn read(&self, off: usize, len: usize) -> Vec<u8> {
        if off >= self.len {
            return Vec::new();
        }
        let n = len.min(self.len - off);
        let mut out = vec![0u8; n];
        Self::pieces(off, n, |ci, inner, at, k| {
            if let Some(c) = self.chunks.get(&ci) {
                out[at..at + k].copy_from_slice(&c[inner..inner + k]);
            }
        });
        out
    }

    /// extends the file (zero fill) when it ends past the current length
    fn write(&mut self, off: usize, buf: &[u8]) {
        if buf.is_empty() {
            return;
        }
        self.len = self.len.max(off + buf.len());
        Self::pieces(off, buf.len(), |ci, inner, at, k| {
            let c = self.chunks.entry(ci).or_insert_with(|| vec![0u8; CHUNK].into_boxed_slice());
            c[inner..inner + k].copy_from_slice(&buf[at..at + k]);
        });
    }

    /// zeroes the part of the range inside the file; the length is kept
    fn punch(&mut self, off: usize, len: usize) {
        if off >= self.len {
            return;
        }
        let n = len.min(self.len - off);
        Self::pieces(off, n, |ci, inner, _, k| {
            if k == CHUNK {
                self.chunks.remove(&ci);
            } else if let Some(c) = self.chunks.get_mut(&ci) {
                c[inner..inner + k].fill(0);
            }
        });
    }
}

fn do_read(data: &SparseBuf, off: u64, len: usize) -> (Vec<u8>, usize) {
    let d = data.read(off as usize, len);
    let n = d.len();
    (d, n)
}

fn do_write(data: &mut SparseBuf, off: u64, buf: &[u8]) {
    data.write(off as usize, buf);
}

fn do_punch(data: &mut SparseBuf, off: u64, len: usize) {
    data.punch(off as usize, len);
}

#[cfg(test)]
mod tests {
    use super::*;

    // the sparse store against the dense reference it replaced
    fn dense_write(d: &mut Vec<u8>, off: usize, buf: &[u8]) {
        if buf.is_empty() {
            return;
        }
        if d.len() < off + buf.len() {
            d.resize(off + buf.len(), 0);
        }
        d[off..off + buf.len()].copy_from_slice(buf);
    }

    #[test]
    fn sparse_equals_dense() {
        let mut rng = crate::util::Rng::new(7);
        for _ in 0..200 {
            let init: Vec<u8> = (0..rng.below(200_000)).map(|_| rng.next() as u8).collect();
            let mut d = init.clone();
            let mut s = SparseBuf::from_vec(init);
            for _ in 0..60 {
                let off = rng.below(400_000) as usize;
                let len = if rng.chance(1, 4) { rng.below(200_000) } else { rng.below(5000) } as usize;
                match rng.below(3) {
                    0 => {
                        let buf: Vec<u8> = (0..len).map(|_| rng.next() as u8 | 1).collect();
                        dense_write(&mut d, off, &buf);
                        s.write(off, &buf);
                    }
                    1 => {
                        if off < d.len() {
                            let end = d.len().min(off + len);
                            d[off..end].fill(0);
                        }
                        s.punch(off, len);
                    }
                    _ => {
                        let want = if off >= d.len() { Vec::new() } else { d[off..d.len().min(off + len)].to_vec() };
                        assert_eq!(s.read(off, len), want);
                    }
                }
                assert_eq!(s.len(), d.len());
            }
            assert_eq!(s.to_vec(), d);
        }
    }
}

struct IoFut {
    st: Rc<RefCell<SimState>>,
    id: usize,
}

impl Future for IoFut {
    type Output = (bool, Option<Vec<u8>>);
    fn poll(self: Pin<&mut Self>, cx: &mut Context<'_>) -> Poll<Self::Output> {
        let mut st = self.st.borrow_mut();
        let idx = st.pending.iter().position(|p| p.id == self.id).unwrap();
        if st.pending[idx].done {
            let p = st.pending.remove(idx);
            Poll::Ready((p.ok, p.read_data))
        } else {
            st.pending[idx].waker = Some(cx.waker().clone());
            Poll::Pending
        }
    }
}

impl SimFile {
    /// register a request; returns (id, should_fail)
    fn issue(
        &self,
        kind: Kind,
        off: u64,
        len: usize,
        align: usize,
        flags: u32,
        payload: Option<Rc<Vec<u8>>>,
    ) -> (usize, bool) {
        let mut st = self.0.borrow_mut();
        let id = st.log.len();
        let mut failed = st.fail_ids.contains(&id);
        if kind == Kind::Punch && st.punch_unsupported {
            failed = true;
        }
        if let Some(bs) = st.dio_bs {
            if kind != Kind::Sync && !st.record_only {
                if off as usize % bs != 0 || len % bs != 0 || (kind != Kind::Punch && align % bs != 0)
                {
                    failed = true;
                }
            }
        }
        let seq = st.seq;
        st.seq += 1;
        let op = st.cur_op;
        st.log.push(Req {
            id,
            kind,
            off,
            len,
            align,
            flags,
            op,
            payload,
            failed,
            issue_seq: seq,
            done_seq: None,
            result_len: 0,
        });
        if st.gated {
            st.pending.push(Pending {
                id,
                waker: None,
                done: false,
                read_data: None,
                ok: false,
            });
        }
        (id, failed)
    }

    fn finish_now(&self, id: usize, result_len: usize) {
        let mut st = self.0.borrow_mut();
        let seq = st.seq;
        st.seq += 1;
        st.log[id].done_seq = Some(seq);
        st.log[id].result_len = result_len;
    }

    fn gated(&self) -> bool {
        self.0.borrow().gated
    }
}

impl Qcow2IoOps for SimFile {
    async fn read_to(&self, offset: u64, buf: &mut [u8]) -> Qcow2Result<usize> {
        let align = (buf.as_ptr() as usize) % 4096;
        let (id, failed) = self.issue(Kind::Read, offset, buf.len(), align, 0, None);
        if self.gated() {
            let (ok, data) = IoFut {
                st: self.0.clone(),
                id,
            }
            .await;
            if !ok {
                return Err("sim: injected read failure".into());
            }
            let d = data.unwrap();
            buf[..d.len()].copy_from_slice(&d);
            return Ok(d.len());
        }
        if failed {
            self.finish_now(id, 0);
            return Err("sim: injected read failure".into());
        }
        let (d, n) = {
            let st = self.0.borrow();
            do_read(&st.data, offset, buf.len())
        };
        buf[..n].copy_from_slice(&d);
        self.finish_now(id, n);
        Ok(n)
    }

    async fn write_from(&self, offset: u64, buf: &[u8]) -> Qcow2Result<()> {
        let align = (buf.as_ptr() as usize) % 4096;
        let payload = Rc::new(buf.to_vec());
        let (id, mut failed) = self.issue(
            Kind::Write,
            offset,
            buf.len(),
            align,
            0,
            Some(payload.clone()),
        );
        // like EFBIG of a real file system: a write far beyond any sane file size
        // (a corrupt pointer) fails instead of allocating the gap
        if offset.saturating_add(buf.len() as u64) > (1 << 30) {
            failed = true;
            self.0.borrow_mut().log[id].failed = true;
        }
        if self.gated() {
            let (ok, _) = IoFut {
                st: self.0.clone(),
                id,
            }
            .await;
            return if ok {
                Ok(())
            } else {
                Err("sim: injected write failure".into())
            };
        }
        if failed {
            self.finish_now(id, 0);
            return Err("sim: injected write failure".into());
        }
        do_write(&mut self.0.borrow_mut().data, offset, &payload);
        self.finish_now(id, buf.len());
        Ok(())
    }

    async fn fallocate(&self, offset: u64, len: usize, flags: u32) -> Qcow2Result<()> {
        let (id, mut failed) = self.issue(Kind::Punch, offset, len, 0, flags, None);
        // fallocate(2) rejects a zero length with EINVAL
        if len == 0 {
            failed = true;
            self.0.borrow_mut().log[id].failed = true;
        }
        if self.gated() {
            let (ok, _) = IoFut {
                st: self.0.clone(),
                id,
            }
            .await;
            return if ok {
                Ok(())
            } else {
                Err("sim: injected punch failure".into())
            };
        }
        if failed {
            self.finish_now(id, 0);
            return Err("sim: injected punch failure".into());
        }
        do_punch(&mut self.0.borrow_mut().data, offset, len);
        self.finish_now(id, len);
        Ok(())
    }

    async fn fsync(&self, offset: u64, len: usize, flags: u32) -> Qcow2Result<()> {
        let (id, failed) = self.issue(Kind::Sync, offset, len, 0, flags, None);
        if self.gated() {
            let (ok, _) = IoFut {
                st: self.0.clone(),
                id,
            }
            .await;
            return if ok {
                Ok(())
            } else {
                Err("sim: injected fsync failure".into())
            };
        }
        self.finish_now(id, 0);
        if failed {
            return Err("sim: injected fsync failure".into());
        }
        Ok(())
    }
}
