import Qv.Base.Outcome
/-
Mirror of `RefBlock::{get_free_range, get_tail_free_range}` (src/meta/refcount.rs)
over an abstract entry getter `get : Nat → Nat` (refcount of entry i) and the
number of entries of the slice.
-/
namespace Qv.Model

/-- first index in `[i, i+count)` whose refcount is non-zero
    (`(i..i + count).find(|&j| !self.get(j).is_zero())`) -/
def firstUsed (get : Nat → Nat) (i : Nat) : Nat → Option Nat
  | 0 => none
  | count + 1 => if get i ≠ 0 then some i else firstUsed get (i + 1) count

/-- the `while i <= max_start` loop of `get_free_range`; `fuel` bounds the
    iterations (each iteration strictly increases `i`; `entries + 1` suffices). -/
def freeRangeLoop (get : Nat → Nat) (maxStart count : Nat) : Nat → Nat → Option (Nat × Nat)
  | 0, _ => none
  | fuel + 1, i =>
    if i ≤ maxStart then
      match firstUsed get i count with
      | none => some (i, i + count)
      | some j => freeRangeLoop get maxStart count fuel (j + 1)
    else none

/-- `RefBlock::get_free_range(start, count)`; the `assert!` is a panic. -/
def getFreeRange (get : Nat → Nat) (entries start count : Nat) : Outcome (Option (Nat × Nat)) :=
  if start + count ≤ entries then
    .ok (freeRangeLoop get (entries - count) count (entries + 1) start)
  else .panic "refcount.rs:get_free_range:assert"

/-- largest index below `n` whose refcount is non-zero -/
def lastUsed (get : Nat → Nat) : Nat → Option Nat
  | 0 => none
  | n + 1 => if get n ≠ 0 then some n else lastUsed get n

/-- `RefBlock::get_tail_free_range()` -/
def getTailFreeRange (get : Nat → Nat) (entries : Nat) : Option (Nat × Nat) :=
  match lastUsed get entries with
  | none => none
  | some i => if i + 1 = entries then none else some (i + 1, entries)

end Qv.Model
