import Qv.Model.Format
import Qv.Spec.Image
/-
Opening a device on an arbitrary image file (`qcow2_alloc_dev` + `Qcow2Dev::new`
+ `qcow2_prep_io`): the model state whose metadata view is exactly what the file
holds.  Table contents are taken word by word from the file; the data plane is
the file's sectors decoded to tokens.
-/
namespace Qv.Model
open Qv.Codec

def mixedTok : Nat := 0xEEEEEEEEEEEEEEEE

/-- tokens of every sector of the file -/
def fileSectors (b : ByteArray) : FMap Nat :=
  (List.range ((b.size + 511) / 512)).foldl (fun acc s =>
    match Spec.sectorTok b (s * 512) with
    | some 0 => acc
    | some t => acc.set s t
    | none => acc.set s mixedTok) (FMap.empty 0)

def openImage (m : Spec.Img) (p : Params) (comp : FMap (FMap Nat)) (back : Option Back) : Outcome Dev := do
  let h := m.h
  let info ← Info.new { clusterBits := h.cb, refcountOrder := h.ro, size := h.size,
                        hasBackingName := h.backingOff ≠ 0 } p
  let cs := 2^h.cb
  -- `Qcow2Dev::new` refuses images without L1 table (size 0) or refcount table
  if ramL1Len h.size h.cb p.bsBits = 0 ∨ h.rtClusters = 0 then .err .invalid else
  let l1Len := ramL1Len h.size h.cb p.bsBits
  let l1 := (List.range l1Len).foldl (fun acc i =>
    let w := m.word (h.l1Off + i * 8)
    if w = 0 then acc else acc.set i (BitVec.ofNat 64 w)) (FMap.empty 0#64)
  let rtLen := h.rtClusters * cs / 8
  let rt := (List.range rtLen).foldl (fun acc i =>
    let w := m.word (h.rtOff + i * 8)
    if w = 0 then acc else acc.set i (BitVec.ofNat 64 w)) (FMap.empty 0#64)
  -- L2 tables reachable from the RAM L1 table
  let l2 := (List.range l1Len).foldl (fun acc i =>
    let off := (L1.l2Offset (l1.get i)).toNat
    if off = 0 then acc else
    acc.set off ((List.range (cs / 8)).foldl (fun t j =>
      let w := m.word (off + j * 8)
      if w = 0 then t else t.set j (BitVec.ofNat 64 w)) (FMap.empty 0#64))) (FMap.empty (FMap.empty 0#64))
  -- refcounts of every cluster covered by an existing refblock
  let rbEntries := cs * 8 / 2^h.ro
  let rc := (List.range rtLen).foldl (fun acc i =>
    let rbOff := (RT.refblockOffset (rt.get i)).toNat
    if rbOff = 0 then acc else
    (List.range rbEntries).foldl (fun a j =>
      let v := m.rcField rbOff j
      if v = 0 then a else a.set (i * rbEntries + j) v) acc) (FMap.empty 0)
  .ok { info := info, version := h.version,
        hdrL1Off := h.l1Off, hdrL1Entries := h.l1Size, hdrRtOff := h.rtOff, hdrRtClusters := h.rtClusters,
        l1 := l1, l1Len := l1Len, l1HdrEntries := h.l1Size, l2 := l2, rt := rt, rtLen := rtLen,
        rc := rc, newData := [], hint := 0, needFlush := false,
        data := fileSectors m.b, comp := comp, back := back }

/-- the content a top device sees when it reads sector `s` of a backing device
    (`read_at` on a device opened as backing image) -/
def backOf (bd : Dev) : Back :=
  { vsize := bd.info.vsize,
    sec := fun s =>
      match doRead bd (bd.l2Entry (s * 512)) (s * 512) 1 with
      | .ok [t] => t
      | _ => 0 }

end Qv.Model
