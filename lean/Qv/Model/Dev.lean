import Qv.Base.Outcome
import Qv.Base.FMap
import Qv.Codec.L2
import Qv.Codec.Info
import Qv.Model.FreeRange
/-
Sequential model of `Qcow2Dev` at the level of the *metadata view*: what the
running device sees through its caches (cached slice, else zeros for a still-new
cluster, else the file) plus the data plane at sector (512 B) granularity with
tokens instead of bytes.  Caches, slice loads, evictions and write-back are not
state of this model: they are transparent to the view, and that transparency is
what the correspondence check (RAM view via hooks, file image after flush)
validates on every run.

Mirrors, function by function: dev/alloc.rs (`ensure_refblock_offset`,
`try_alloc_from_rb_slice`, `try_allocate_from`, `allocate_clusters`,
`free_clusters`), dev/write.rs (`ensure_l2_offset`, `alloc_and_map_cluster`,
`need_make_mapping`, `make_single_write_mapping`, `__make_multiple_write_mapping`,
`make_multiple_write_mappings`, `populate_*`, `do_write*`, `__write_at`),
dev/read.rs (`get_l2_entry`, `do_read*`, `__read_at`), dev/discard.rs.
-/
namespace Qv.Model
open Qv.Codec

/-- flattened guest content of the (read-only) backing chain -/
structure Back where
  vsize : Nat
  sec : Nat → Nat                 -- guest sector → token

instance : Inhabited Back := ⟨{ vsize := 0, sec := fun _ => 0 }⟩

def poison : Nat := 0xA5A5A5A5A5A5A5A5

structure Dev where
  info : Info
  version : Nat
  hdrL1Off : Nat
  hdrL1Entries : Nat
  hdrRtOff : Nat
  hdrRtClusters : Nat
  l1 : FMap E64                   -- RAM L1 table
  l1Len : Nat                     -- entries of the RAM table
  l1HdrEntries : Nat              -- `L1Table::header_entries`
  l2 : FMap (FMap E64)            -- L2 table at host offset → entry index → entry
  rt : FMap E64                   -- RAM refcount table
  rtLen : Nat
  rc : FMap Nat                   -- host cluster index → refcount
  newData : List Nat              -- data clusters (index) allocated and not yet zeroed
  hint : Nat                      -- `free_cluster_offset`
  needFlush : Bool
  data : FMap Nat                 -- host sector → token
  comp : FMap (FMap Nat)          -- plaintext of compressed data at host byte offset → sector → token
  back : Option Back
  deriving Inhabited

/-- state + outcome; the state survives an `Err` (side effects stay, as in Rust) -/
def M (α : Type) := Dev → Dev × Outcome α

namespace M
@[inline] def pure {α} (a : α) : M α := fun s => (s, .ok a)
@[inline] def bind {α β} (x : M α) (f : α → M β) : M β := fun s =>
  match x s with
  | (s', .ok a) => f a s'
  | (s', .err e) => (s', .err e)
  | (s', .panic p) => (s', .panic p)
instance : Monad M where
  pure := pure
  bind := bind
@[inline] def get : M Dev := fun s => (s, .ok s)
@[inline] def modify (f : Dev → Dev) : M Unit := fun s => (f s, .ok ())
@[inline] def fail {α} (e : Err) : M α := fun s => (s, .err e)
@[inline] def panic {α} (p : String) : M α := fun s => (s, .panic p)
@[inline] def lift {α} (o : Outcome α) : M α := fun s => (s, o)
end M

namespace Dev
variable (d : Dev)

def cs : Nat := d.info.clusterSize
def spc : Nat := d.info.clusterSize / 512          -- sectors per cluster

/-- `get_l1_entry` -/
def l1Entry (off : Nat) : E64 :=
  let i := Split.l1Index d.info off
  if i < d.l1Len then d.l1.get i else 0#64      -- `Table::get` returns 0 out of range

/-- `get_l2_entry(virtual_offset)` through the view -/
def l2Entry (off : Nat) : E64 :=
  let l1e := d.l1Entry off
  if L1.isZero l1e then 0#64
  else (d.l2.get (L1.l2Offset l1e).toNat).get (Split.l2Index d.info off)

/-- `get_mapping(virtual_offset)` -/
def mapping (off : Nat) : Mapping :=
  let base := d.info.clusterRoundDown off
  L2.intoMapping d.info.cb d.info.hasBack (Split.clusterOffset d.info base) (d.l2Entry off)

def setL2 (off : Nat) (e : E64) : Dev :=
  let l1e := d.l1Entry off
  let t := (L1.l2Offset l1e).toNat
  { d with l2 := d.l2.set t ((d.l2.get t).set (Split.l2Index d.info off) e) }

end Dev

/-! ### allocator (dev/alloc.rs) -/

/-- `free_clusters(host_cluster, count)`; decrementing a refcount that is already 0 is
    reported as an error (`Err invalid`), the state is left as it was. -/
def freeClusters : Nat → Nat → Bool → M Unit
  | _, 0, _ => M.pure ()
  | host, n + 1, firstZero => fun d =>
    let i := d.info
    let c := host / i.clusterSize
    let rtIdx := Host.rtIndex i host
    let e := if rtIdx < d.rtLen then d.rt.get rtIdx else 0#64
    if RT.isZero e then (d, .err .other) else     -- no refblock: outside the modelled (valid-image) domain
    let v := d.rc.get c
    if v = 0 then (d, .err .invalid) else
    let d1 := { d with rc := d.rc.set c (v - 1), needFlush := true }
    let (d2, fz) := if firstZero ∧ v - 1 = 0 then ({ d1 with hint := min d1.hint host }, false) else (d1, firstZero)
    freeClusters (host + i.clusterSize) n fz d2

/-- `RefTable::clone_and_grow(rt_index, rt_clusters, cluster_size)` followed, when the
    table has to move, by `grow_reftable`: the new table (at least one cluster bigger
    than the on-disk one, covering `rtIdx`) and a new refblock that counts itself and
    the new table are placed at the start of the first host region the old table does
    not cover; the header is switched.  Returns the old table's clusters, which the
    caller releases.  (What is written when, and the syncs in between, are the subject
    of the crash checks, not of this view model.) -/
def growReftable (rtIdx : Nat) : M (Option (Nat × Nat)) := fun d =>
  let i := d.info
  let cs := i.clusterSize
  let ramSize := d.rtLen * 8
  let diskSize := d.hdrRtClusters * cs
  let needed := (rtIdx + 1) * 8
  if ramSize < diskSize ∧ needed ≤ diskSize then
    -- the table in ram did not reach the end of the table on disk: nothing moves
    ({ d with rtLen := diskSize / 8 }, .ok none)
  else
    let newSize := max ((needed + cs - 1) / cs * cs) (diskSize + cs)
    let newCl := newSize / cs
    if newCl ≥ i.rbEntries - 1 then (d, .err .unsupported) else
    if newCl + 1 > i.rbSliceEntries then (d, .err .unsupported) else
    let r := d.rtLen * i.rbEntries * cs
    let c0 := r / cs
    let rc := (List.range (newCl + 1)).foldl (fun rc k => rc.set (c0 + k) 1) d.rc
    let oldCl := (ramSize + cs - 1) / cs
    ({ d with rc := rc, rt := d.rt.set d.rtLen (BitVec.ofNat 64 r), rtLen := newSize / 8,
              hdrRtOff := r + cs, hdrRtClusters := newCl, needFlush := true },
     .ok (some (d.hdrRtOff, oldCl)))

/-- the part of `ensure_refblock_offset` after the bounds check: the entry exists, or a
    new refblock is put at the start of the region it covers -/
def ensureRefblockIn (rtIdx : Nat) : M Unit := fun d =>
  let i := d.info
  let e := if rtIdx < d.rtLen then d.rt.get rtIdx else 0#64
  if ¬ RT.isZero e then (d, .ok ())
  else if ¬ (rtIdx < d.rtLen) then (d, .err .unsupported)
  else
    let rbOff := rtIdx * i.rbEntries * i.clusterSize
    ({ d with rt := d.rt.set rtIdx (BitVec.ofNat 64 rbOff),
              rc := d.rc.set (rbOff / i.clusterSize) 1,
              needFlush := true }, .ok ())

/-- `ensure_refblock_offset(cls)`: when the reftable does not reach the index it is
    grown first (`growReftable`), and the old table's clusters are released at the end -/
def ensureRefblock (off : Nat) : M Unit := fun d =>
  let i := d.info
  let rtIdx := Host.rtIndex i off
  if rtIdx < d.rtLen then ensureRefblockIn rtIdx d
  else
    match growReftable rtIdx d with
    | (d1, .ok old) =>
      match ensureRefblockIn rtIdx d1 with
      | (d2, .ok ()) =>
        match old with
        | some (o, n) => freeClusters o n true d2
        | none => (d2, .ok ())
      | r => r
    | (d1, .err x) => (d1, .err x)
    | (d1, .panic p) => (d1, .panic p)

/-- `alloc_range(s, e)` on the slice whose first cluster is `c0`: increment each
    entry; `__set` refuses values that do not fit the width. -/
def allocRange (c0 : Nat) : Nat → Nat → M Unit
  | _, 0 => M.pure ()
  | s, n + 1 => fun d =>
    let v := d.rc.get (c0 + s)
    if d.info.ro < 6 ∧ v + 1 > 2^(2^d.info.ro) - 1 then (d, .err .invalid)
    else allocRange c0 (s + 1) n { d with rc := d.rc.set (c0 + s) (v + 1) }

/-- `try_alloc_from_rb_slice(rt_e, cls, count, fixed_start)` -/
def tryAllocFromRbSlice (off count : Nat) (fixed : Bool) : M (Option (Nat × Nat)) := fun d =>
  let i := d.info
  let se := i.rbSliceEntries
  let idx := Host.rbSliceIndex i off
  if idx + count > se then (d, .ok none) else
  let c0 := Host.rbSliceHostStart i off / i.clusterSize
  let get := fun k => d.rc.get (c0 + k)
  match getFreeRange get se idx count with
  | .panic p => (d, .panic p)
  | .err e => (d, .err e)
  | .ok r =>
    let range := match r with
      | some x => some x
      | none => if fixed then none else getTailFreeRange get se
    match range with
    | none => (d, .ok none)
    | some (s, e) =>
      match allocRange c0 s (e - s) d with
      | (d', .ok ()) => ({ d' with needFlush := true }, .ok (some (Host.clusterOffFromSlice i off s, e - s)))
      | (d', .err x) => (d', .err x)
      | (d', .panic p) => (d', .panic p)

/-- the `while count > 0 && host_cluster < rb_host_end` loop of `try_allocate_from` -/
def tryAllocateLoop (rbEnd allocCnt : Nat) : Nat → Nat → Nat → Nat → Nat → M (Option (Nat × Nat))
  | 0, _, _, _, _ => M.fail .nospace      -- fuel exhausted (see `tryAllocate_fuel`)
  | fuel + 1, host, count, outOff, done => fun d =>
    let i := d.info
    if ¬ (count > 0 ∧ host < rbEnd) then
      (d, .ok (if done ≠ 0 then some (outOff, done) else none))
    else
      let curr := min count i.rbSliceEntries
      match tryAllocFromRbSlice host curr (done ≠ 0) d with
      | (d1, .ok (some (o, n))) =>
        if done ≠ 0 ∧ host ≠ o then
          -- fragment: free both parts and retry from `host` with a fresh count
          match freeClusters outOff done true d1 with
          | (d2, .ok ()) =>
            match freeClusters o n true d2 with
            | (d3, .ok ()) => tryAllocateLoop rbEnd allocCnt fuel host allocCnt 0 0 d3
            | (d3, .err e) => (d3, .err e)
            | (d3, .panic p) => (d3, .panic p)
          | (d2, .err e) => (d2, .err e)
          | (d2, .panic p) => (d2, .panic p)
        else
          let out := if done = 0 then o else outOff
          if n > count then (d1, .panic "alloc.rs:try_allocate_from:count-underflow") else
          tryAllocateLoop rbEnd allocCnt fuel (o + n * i.clusterSize) (count - n) out (done + n) d1
      | (d1, .ok none) =>
        if done = 0 then tryAllocateLoop rbEnd allocCnt fuel (Host.rbSliceHostEnd i host) count outOff done d1
        else (d1, .ok (some (outOff, done)))
      | (d1, .err e) => (d1, .err e)
      | (d1, .panic p) => (d1, .panic p)

/-- `try_allocate_from(host_cluster, alloc_cnt)` -/
def tryAllocateFrom (host allocCnt : Nat) : M (Option (Nat × Nat)) := fun d =>
  if allocCnt = 0 then (d, .panic "alloc.rs:try_allocate_from:assert") else
  match ensureRefblock host d with
  | (d1, .ok ()) =>
    let i := d1.info
    let slices := i.rbEntries / (max i.rbSliceEntries 1) + 2
    tryAllocateLoop (Host.rbHostEnd i host) allocCnt (2 * (slices + allocCnt) + 4) host allocCnt 0 0 d1
  | (d1, .err e) => (d1, .err e)
  | (d1, .panic p) => (d1, .panic p)

/-- `allocate_clusters(count)`: walk refblock ranges from the hint; the loop has
    no exit of its own, it ends by an error of `ensure_refblock_offset` once the
    reftable is exhausted. -/
def allocateLoop (count : Nat) : Nat → Nat → M (Option (Nat × Nat))
  | 0, _ => M.fail .nospace
  | fuel + 1, hostOff => fun d =>
    match tryAllocateFrom hostOff count d with
    | (d1, .ok (some (o, n))) =>
      let d2 := if count = 1 then { d1 with hint := max d1.hint (o + d1.info.clusterSize) } else d1
      (d2, .ok (some (o, n)))
    | (d1, .ok none) => allocateLoop count fuel (Host.rbHostEnd d1.info hostOff) d1
    | (d1, .err e) => (d1, .err e)
    | (d1, .panic p) => (d1, .panic p)

def allocateClusters (count : Nat) : M (Option (Nat × Nat)) := fun d =>
  allocateLoop count (d.rtLen + 2) d.hint d

/-! ### mapping for writes (dev/write.rs) -/

def markNewData (hostOff : Nat) : M Unit :=
  M.modify fun d => { d with newData := (hostOff / d.info.clusterSize) :: d.newData }

/-- `ensure_l2_offset(split)`; relocation of the L1 table (index beyond the RAM
    table) cannot happen for in-range offsets because the RAM table is sized for
    the whole virtual size; reported as unsupported. -/
def ensureL2 (off : Nat) : M Unit := fun d =>
  let i := d.info
  if ¬ L1.isZero (d.l1Entry off) then (d, .ok ()) else
  let idx := Split.l1Index i off
  -- header lists fewer entries than needed: update the header's l1_size
  let r : Dev × Outcome Unit :=
    if idx < d.l1HdrEntries then (d, .ok ())
    else if idx ≥ d.l1Len then (d, .err .unsupported)
    else
      let n := min i.maxL1Entries d.l1Len
      if n > i.maxL1Entries then (d, .panic "write.rs:flush_header_for_l1_table:assert") else
      ({ d with hdrL1Entries := n, l1HdrEntries := n }, .ok ())
  match r with
  | (d0, .ok ()) =>
    if ¬ L1.isZero (d0.l1Entry off) then (d0, .ok ()) else
    match allocateClusters 1 d0 with
    | (d1, .ok (some (l2off, _))) =>
      -- new L2 table: zeros in the view ("built from inflight"), L1 entry mapped
      ({ d1 with l2 := d1.l2.set l2off (FMap.empty 0#64),
                 l1 := d1.l1.set idx (L1.mapEntry l2off),
                 needFlush := true }, .ok ())
    | (d1, .ok none) => (d1, .err .nospace)
    | (d1, .err e) => (d1, .err e)
    | (d1, .panic p) => (d1, .panic p)
  | (d0, .err e) => (d0, .err e)
  | (d0, .panic p) => (d0, .panic p)

/-- `need_make_mapping(mapping, info)` -/
def needMakeMapping (i : Info) (m : Mapping) : Bool :=
  if (L2.plainOffset m 0).isSome then false
  else if m.source = .compressed then false
  else if i.hasBack ∧ (m.source = .backing ∨ m.source = .unallocated) then false
  else true

/-- release of the preallocated cluster of a replaced zero-flagged entry.  NOT
    called by the code at present: `alloc_and_map_cluster` drops the old
    allocation (`let _ = map_cluster(..)`), which leaks the cluster — known
    finding C03/leak-of-zero-prealloc-cluster.  Kept for the statement of what a
    repair has to do (release only after the new mapping is durable). -/
def releaseZeroPrealloc (old : E64) : M Unit := fun d =>
  if ¬ L2.isCompressed old ∧ L2.isZero old then
    match L2.allocation d.info.cb old with
    | some (o, n) => freeClusters o n true d
    | none => (d, .ok ())
  else (d, .ok ())

/-- `alloc_and_map_cluster(split, l2_table)`; the old allocation returned by
    `map_cluster` is dropped by the caller (`let _ =`), as in the code. -/
def allocAndMap (off : Nat) : M Unit := do
  match ← allocateClusters 1 with
  | some (h, _) =>
    markNewData h
    M.modify fun d => (d.setL2 off (L2.mapClusterEntry h))
  | none => M.fail .nospace

/-- `make_single_write_mapping(virt_off)` -/
def makeSingleWriteMapping (off : Nat) : M E64 := do
  ensureL2 off
  let d ← M.get
  if (L2.plainOffset (d.mapping off) 0).isNone then
    allocAndMap off
    M.modify fun d => { d with needFlush := true }
  let d ← M.get
  pure (d.l2Entry off)

/-- `populate_single_write_mapping(virt_off)` -/
def populateSingle (off : Nat) : M E64 := do
  let d ← M.get
  if needMakeMapping d.info (d.mapping off) then makeSingleWriteMapping off
  else pure (d.l2Entry off)

/-- map clusters `this, this+cs, …` below `stop` that need a mapping to the run
    `(cstart, ccnt)`; returns (entries pushed in order, next offset, mapped count) -/
def mapRun (cstart ccnt stop : Nat) : Nat → Nat → Nat → List E64 → M (List E64 × Nat × Nat)
  | 0, this, idx, acc => M.pure (acc.reverse, this, idx)
  | fuel + 1, this, idx, acc => fun d =>
    if ¬ (this < stop) then (d, .ok (acc.reverse, this, idx)) else
    let i := d.info
    let e := d.l2Entry this
    let m := d.mapping this
    if needMakeMapping i m then
      let h := cstart + idx * i.clusterSize
      let d1 := { d with newData := (h / i.clusterSize) :: d.newData }
      let d2 := d1.setL2 this (L2.mapClusterEntry h)
      let acc' := d2.l2Entry this :: acc
      let idx' := idx + 1
      if idx' ≥ ccnt then (d2, .ok (acc'.reverse, this + i.clusterSize, idx'))
      else mapRun cstart ccnt stop fuel (this + i.clusterSize) idx' acc' d2
    else
      -- `if idx >= cluster_cnt { break }` is evaluated after every iteration
      if idx ≥ ccnt then (d, .ok ((e :: acc).reverse, this + i.clusterSize, idx))
      else mapRun cstart ccnt stop fuel (this + i.clusterSize) idx (e :: acc) d

/-- `__make_multiple_write_mapping(start, end, l2_entries)`: returns the entries
    it pushed and the number of clusters it covered. -/
def makeMultiple (start stop : Nat) : M (List E64 × Nat) := do
  ensureL2 start
  let d ← M.get
  let i := d.info
  let cs := i.clusterSize
  let sliceIdx := Split.l2SliceIndex i start
  let stop' := min stop (start + (i.l2SliceEntries - sliceIdx) * cs)
  let n := (stop' - start) / cs
  let offs := (List.range n).map (fun k => start + k * cs)
  let need := (offs.filter (fun o => needMakeMapping i (d.mapping o))).length
  if need = 0 then
    pure (offs.map (fun o => d.l2Entry o), n)
  else
    let r ← allocateClusters need
    let (cstart, ccnt) ← (match r with
      | some x => pure x
      | none => do
        match ← allocateClusters 1 with
        | some x => pure x
        | none => M.fail .nospace)
    if ccnt = 0 then pure ([], 0) else
    let (es, next, done) ← mapRun cstart ccnt stop' (n + 1) start 0 []
    if done > 0 then M.modify fun d => { d with needFlush := true }
    pure (es, (next - start) / cs)

/-- `make_multiple_write_mappings(start, end)` -/
def makeMultiples (stop : Nat) : Nat → Nat → List E64 → M (List E64)
  | 0, _, acc => M.pure acc
  | fuel + 1, start, acc => fun d =>
    if ¬ (start < stop) then (d, .ok acc) else
    let i := d.info
    if needMakeMapping i (d.mapping start) then
      match makeMultiple start stop d with
      | (d1, .ok (es, done)) =>
        if done = 0 then (d1, .err .nospace)      -- the code would spin; cannot happen when allocation succeeds
        else makeMultiples stop fuel (start + done * i.clusterSize) (acc ++ es) d1
      | (d1, .err e) => (d1, .err e)
      | (d1, .panic p) => (d1, .panic p)
    else makeMultiples stop fuel (start + i.clusterSize) (acc ++ [d.l2Entry start]) d

/-! ### data plane -/

def zeroCluster (hostOff : Nat) : M Unit :=
  M.modify fun d => { d with data := d.data.setRange (hostOff / 512) d.spc (fun _ => 0) }

def writeSectors (hostOff : Nat) (toks : List Nat) : M Unit :=
  M.modify fun d => { d with data := d.data.setRange (hostOff / 512) toks.length (fun k => toks.getD k 0) }

/-- plaintext of the compressed cluster described by `m` (whole cluster) -/
def compressedPlain (d : Dev) (m : Mapping) : List Nat :=
  let t := d.comp.get (m.clusterOffset.getD 0)
  (List.range d.spc).map (fun k => t.get k)

/-- sectors `[off, off+n*512)` of the backing chain as the top device reads
    them (`read_at` of a backing device: zeros beyond its end) -/
def backRead (b : Back) (off n : Nat) : List Nat :=
  (List.range n).map (fun k => if off + k * 512 + 512 ≤ b.vsize then b.sec (off / 512 + k) else 0)

/-- `do_write_data_file(virt_off, mapping, cow_mapping, buf)` -/
def doWriteDataFile (off : Nat) (m : Mapping) (cow : Option Mapping) (toks : List Nat) : M Unit := fun d =>
  match m.clusterOffset with
  | none => (d, .err .other)
  | some host =>
    let i := d.info
    let inCl := i.inClusterOffset off
    let key := host / i.clusterSize
    if d.newData.contains key then
      -- zero-once of a new cluster, then (COW) whole-cluster copy
      let d1 := (zeroCluster host d).1
      let d2 : Dev := match cow with
        | some cm =>
          let base : List Nat :=
            if cm.source = .compressed then compressedPlain d1 cm
            else if cm.source = .backing then
              match d1.back with
              | some b => backRead b (off - inCl) d1.spc
              | none => []
            else []
          if cm.source = .compressed ∨ cm.source = .backing then
            let merged := (List.range d1.spc).map (fun k =>
              if inCl / 512 ≤ k ∧ k < inCl / 512 + toks.length then toks.getD (k - inCl / 512) 0
              else base.getD k 0)
            (writeSectors host merged d1).1
          else d1
        | none => d1
      let d3 := { d2 with newData := d2.newData.filter (· ≠ key) }
      if cow.isSome then
        -- `return cow_res` (the plain data write future is dropped)
        match cow with
        | some cm => if cm.source = .backing ∧ d3.back.isNone then (d3, .err .other) else (d3, .ok ())
        | none => (d3, .ok ())
      else (writeSectors (host + inCl) toks d3).1 |> fun s => (s, .ok ())
    else
      ((writeSectors (host + inCl) toks d).1, .ok ())

/-- number of host clusters `do_write_cow` releases for a compressed mapping -/
def compressedReleaseCount (i : Info) (off len : Nat) : Nat :=
  (i.clusterRoundDown (off + len - 1) - i.clusterRoundDown off) / i.clusterSize + 1

/-- `do_write_cow(off, mapping, buf)` (sequential: the mapping read a moment ago
    is still current, so the re-check under the slice lock always sees it) -/
def doWriteCow (off : Nat) (m : Mapping) (toks : List Nat) : M Unit := do
  let compressed := m.source = .compressed
  if ¬ compressed then ensureL2 off
  let d ← M.get
  let cur := d.mapping off
  if cur.source = .compressed ∨ cur.source = .backing then
    allocAndMap off
    M.modify fun d => { d with needFlush := true }
    let d ← M.get
    let dm := d.mapping off
    doWriteDataFile off dm (some m) toks
    if compressed then
      match m.clusterOffset, m.compressedLength with
      | some o, some l =>
        freeClusters (d.info.clusterRoundDown o) (compressedReleaseCount d.info o l) true
      | _, _ => pure ()
  else
    M.fail .other      -- unreachable sequentially (see docstring)

/-- `do_write(l2_e, off, buf)` -/
def doWrite (e : E64) (off : Nat) (toks : List Nat) : M Unit := fun d =>
  let i := d.info
  let base := i.clusterRoundDown off
  let m := L2.intoMapping i.cb i.hasBack (Split.clusterOffset i base) e
  match m.source with
  | .dataFile => doWriteDataFile off m none toks d
  | .compressed => doWriteCow off m toks d
  | .backing => if i.hasBack then doWriteCow off m toks d else (d, .err .other)
  | .unallocated => if i.hasBack then doWriteCow off m toks d else (d, .err .other)
  | .zero => (d, .err .other)

/-- split `[off, off+len)` at cluster boundaries: list of (offset, sector count) -/
def pieces (cs : Nat) : Nat → Nat → Nat → List (Nat × Nat)
  | 0, _, _ => []
  | fuel + 1, off, len =>
    if len = 0 then [] else
    let cur := min (cs - off % cs) len
    (off, cur / 512) :: pieces cs fuel (off + cur) (len - cur)

def doWrites : List (Nat × Nat) → List E64 → List Nat → M Unit
  | [], _, _ => M.pure ()
  | (off, n) :: ps, es, toks => fun d =>
    match es with
    | [] => (d, .panic "write.rs:__write_at:l2_entries-index")
    | e :: es' =>
      -- every piece is executed even if an earlier one failed (FuturesUnordered)
      let (d1, r1) := doWrite e off (toks.take n) d
      let (d2, r2) := doWrites ps es' (toks.drop n) d1
      match r1, r2 with
      | .panic p, _ => (d2, .panic p)
      | _, .panic p => (d2, .panic p)
      | .err e, _ => (d2, .err e)
      | _, .err e => (d2, .err e)
      | .ok (), .ok () => (d2, .ok ())

/-- the validation prologue of `__write_at`: `some e` = rejected with `Err` -/
def writeCheck (i : Info) (off len : Nat) : Option Err :=
  if ¬ (off + len < 2^64 ∧ off + len ≤ i.vsize) then some .beyondEnd else
  if len % i.bs ≠ 0 then some .unaligned else
  if off % i.bs ≠ 0 then some .unaligned else
  if i.readOnly then some .readOnly else none

/-- `__write_at(buf, offset)`; `toks` are the sector tokens of `buf`
    (`len = 512 * toks.length`; unaligned lengths are passed as `len`). -/
def writeAt (off len : Nat) (toks : List Nat) : M Unit := fun d =>
  let i := d.info
  match writeCheck i off len with
  | some e => (d, .err e)
  | none =>
  if len = 0 then (d, .ok ()) else
  let single := off / i.clusterSize = (off + len - 1) / i.clusterSize
  if single then
    match populateSingle off d with
    | (d1, .ok e) => doWrite e off toks d1
    | (d1, .err e) => (d1, .err e)
    | (d1, .panic p) => (d1, .panic p)
  else
    let start := i.clusterRoundDown off
    let stop := (off + len + i.clusterSize - 1) / i.clusterSize * i.clusterSize
    let n := (stop - start) / i.clusterSize
    match makeMultiples stop (n + 1) start [] d with
    | (d1, .ok es) =>
      match doWrites (pieces i.clusterSize (n + 1) off len) es toks d1 with
      | (d2, .ok ()) => (d2, .ok ())
      | (d2, .err _) => (d2, .err .other)
      | (d2, .panic p) => (d2, .panic p)
    | (d1, .err e) => (d1, .err e)
    | (d1, .panic p) => (d1, .panic p)

/-! ### reads (dev/read.rs) -/

/-- `do_read(entry, offset, buf)` for one in-cluster piece of `n` sectors -/
def doRead (d : Dev) (e : E64) (off n : Nat) : Outcome (List Nat) :=
  let i := d.info
  let inCl := i.inClusterOffset off
  let base := off - inCl
  let m := L2.intoMapping i.cb i.hasBack (Split.clusterOffset i base) e
  match m.source with
  | .dataFile =>
    match m.clusterOffset with
    | some h => .ok ((List.range n).map (fun k => d.data.get ((h + inCl) / 512 + k)))
    | none => .err .other
  | .zero => .ok (List.replicate n 0)
  | .unallocated => .ok (List.replicate n 0)
  | .backing =>
    match d.back with
    | some b => .ok (backRead b off n)
    | none => .ok (List.replicate n 0)
  | .compressed => .ok (((compressedPlain d m).drop (inCl / 512)).take n)

def doReads (d : Dev) : List (Nat × Nat) → Outcome (List Nat)
  | [] => .ok []
  | (off, n) :: ps =>
    match doRead d (d.l2Entry off) off n, doReads d ps with
    | .ok a, .ok b => .ok (a ++ b)
    | .panic p, _ => .panic p
    | _, .panic p => .panic p
    | .err e, _ => .err e
    | _, .err e => .err e

/-- outcome of the validation/clamp prologue of `__read_at` (top device) -/
inductive ReadPlan where
  | reject (e : Err)
  | empty                      -- `Ok(0)`
  | run (clen : Nat)           -- read `clen` bytes (clamped, block multiple)
  deriving Repr, DecidableEq

/-- the prologue of `__read_at` for a device that is not a backing image -/
def readPlan (i : Info) (off len : Nat) : ReadPlan :=
  if off ≥ i.vsize then .reject .eof else
  if len = 0 then .empty else
  if len % i.bs ≠ 0 then .reject .unaligned else
  if off % i.bs ≠ 0 then .reject .unaligned else
  .run (if len > i.vsize - off then (i.vsize - off) / i.bs * i.bs else len)

/-- `__read_at(buf, offset)` on the top device: returns the byte count and the
    sector tokens of the whole buffer (`poison` where the buffer is not touched). -/
def readAt (d : Dev) (off len : Nat) : Outcome (Nat × List Nat) :=
  let i := d.info
  match readPlan i off len with
  | .reject e => .err e
  | .empty => .ok (0, [])
  | .run clen =>
    if clen = 0 then .ok (0, List.replicate (len / 512) poison) else
    let n := (clen + i.clusterSize - 1) / i.clusterSize + 2
    match doReads d (pieces i.clusterSize n off clen) with
    | .ok toks => .ok (clen, toks ++ List.replicate ((len - clen) / 512) poison)
    | .err e => .err e
    | .panic p => .panic p

/-! ### discard (dev/discard.rs) -/

/-- `__discard_one_cluster(guest_offset)` -/
def discardOne (g : Nat) : M Unit := fun d =>
  let i := d.info
  if L1.isZero (d.l1Entry g) then (d, .ok ()) else
  let e := d.l2Entry g
  if L2.isCompressed e then (d, .ok ()) else
  match L2.allocation i.cb e with
  | none => (d, .ok ())
  | some (host, cnt) =>
    -- with a backing file the cleared entry keeps the zero flag so that the
    -- cluster reads as zeros instead of exposing backing data; version 2 has
    -- no zero flag: the cluster stays allocated and only its content is zeroed
    if i.hasBack ∧ d.version < 3 then
      ({ d with data := d.data.setRange (host / 512) (cnt * d.spc) (fun _ => 0) }, .ok ())
    else
    let cleared : E64 := if i.hasBack then 1#64 else 0#64
    let d1 := { d.setL2 g cleared with needFlush := true }
    match freeClusters host cnt true d1 with
    | (d2, .ok ()) =>
      -- hole punch of the released clusters
      ({ d2 with data := d2.data.setRange (host / 512) (cnt * d2.spc) (fun _ => 0),
                 newData := d2.newData.filter (fun c => ¬ (host / i.clusterSize ≤ c ∧ c < host / i.clusterSize + cnt)) }, .ok ())
    | (d2, .err x) => (d2, .err x)
    | (d2, .panic p) => (d2, .panic p)

def discardLoop (stop : Nat) : Nat → Nat → M Unit
  | 0, _ => M.pure ()
  | fuel + 1, g => fun d =>
    if ¬ (g < stop) then (d, .ok ()) else
    match discardOne g d with
    | (d1, .ok ()) => discardLoop stop fuel (g + d1.info.clusterSize) d1
    | (d1, .err e) => (d1, .err e)
    | (d1, .panic p) => (d1, .panic p)

/-- end of the discarded byte range: `saturating_add`, clipped to the virtual size -/
def clipEnd (vsize off len : Nat) : Nat := min (min (off + len) (2^64 - 1)) vsize

/-- the clip / round-inward prologue of `discard`: `ok none` = nothing to do,
    `ok (some (start, stop))` = whole clusters `[start, stop)` -/
def discardRange (i : Info) (off len : Nat) : Outcome (Option (Nat × Nat)) :=
  if len = 0 then .ok none else
  let e := clipEnd i.vsize off len
  if off ≥ e then .ok none else
  match i.clusterRoundUp off with
  | .panic p => .panic p
  | .err x => .err x
  | .ok start =>
    let stop := i.clusterRoundDown e
    if start ≥ stop then .ok none else .ok (some (start, stop))

/-- `discard(virtual_offset, len)` -/
def discard (off len : Nat) : M Unit := fun d =>
  let i := d.info
  if i.readOnly then (d, .err .readOnly) else
  match discardRange i off len with
  | .panic p => (d, .panic p)
  | .err x => (d, .err x)
  | .ok none => (d, .ok ())
  | .ok (some (start, stop)) => discardLoop stop ((stop - start) / i.clusterSize + 1) start d

/-! ### flush -/

/-- `flush_meta()` in the view model: nothing changes in the view; the flag is
    cleared.  (What reaches the file, and in which order, is the subject of the
    flush machine `Qv.Model.Flush` and of the crash monitors.) -/
def flushMeta : M Unit := M.modify fun d => { d with needFlush := false }

end Qv.Model
