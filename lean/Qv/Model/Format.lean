import Qv.Model.Dev
/-
Mirror of `Qcow2Header::calculate_meta_params` / `format_qcow2` (src/meta/header.rs)
and of device construction (`Qcow2Dev::new`, `qcow2_prep_io`): the model state of
a freshly formatted image opened with parameters `p`.
-/
namespace Qv.Model
open Qv.Codec

structure MetaParams where
  rtOff : Nat
  rtClusters : Nat
  rbOff : Nat
  l1Off : Nat
  l1Clusters : Nat
  l1Entries : Nat          -- header l1_size
  deriving Repr, DecidableEq

/-- `calculate_meta_params(size, cluster_bits, refcount_order, block_size)` plus
    the `l1_size` that `format_qcow2` writes into the header -/
def metaParams (size cb ro bs : Nat) : MetaParams :=
  let cs := 2^cb
  let rtSize := Info.maxRefcountTableSize size cs ro bs
  let rtClusters := (rtSize + cs - 1) / cs
  let rbOff := cs + rtClusters * cs
  let l1Off := rbOff + cs
  let l1e := Info.maxL1EntriesOf size cb
  let l1Size := Info.maxL1Size l1e bs
  let per := (cs / 8) * cs
  { rtOff := cs, rtClusters := rtClusters, rbOff := rbOff, l1Off := l1Off,
    l1Clusters := (l1Size + cs - 1) / cs, l1Entries := (size + per - 1) / per }

/-- refcounts written by `format_qcow2`: header, reftable clusters, the refblock
    itself, L1 clusters; `none` when an increment would index beyond the single
    refblock (the code panics there). -/
def formatRefcounts (mp : MetaParams) (cb ro : Nat) : Option (FMap Nat) :=
  let cs := 2^cb
  let rbEntries := cs * 8 / 2^ro
  let used := 1 + mp.rtClusters + 1 + mp.l1Clusters
  if used > rbEntries then none else
  some ((List.range used).foldl (fun acc c => acc.set c 1) (FMap.empty 0))

/-- geometry-independent part of opening: `Qcow2Dev::new` sizes of the RAM tables -/
def ramL1Len (size cb bsb : Nat) : Nat :=
  Info.maxL1Size (Info.maxL1EntriesOf size cb) (2^bsb) / 8

/-- a formatted image (version 3, no backing) opened with `p` -/
def formatDev (size cb ro : Nat) (fmtBs : Nat) (p : Params) : Outcome Dev := do
  let mp := metaParams size cb ro fmtBs
  let rc ← (match formatRefcounts mp cb ro with
    | some r => .ok r
    | none => .err .invalid)   -- the initial meta data exceeds one refcount block
  let info ← Info.new { clusterBits := cb, refcountOrder := ro, size := size, hasBackingName := false } p
  -- `Qcow2Dev::new` refuses images without L1 table (size 0) or refcount table
  if ramL1Len size cb p.bsBits = 0 ∨ mp.rtClusters = 0 then .err .invalid else
  .ok { info := info, version := 3,
        hdrL1Off := mp.l1Off, hdrL1Entries := mp.l1Entries,
        hdrRtOff := mp.rtOff, hdrRtClusters := mp.rtClusters,
        l1 := FMap.empty 0#64, l1Len := ramL1Len size cb p.bsBits, l1HdrEntries := mp.l1Entries,
        l2 := FMap.empty (FMap.empty 0#64),
        rt := (FMap.empty 0#64).set 0 (BitVec.ofNat 64 mp.rbOff),
        rtLen := mp.rtClusters * 2^cb / 8,
        rc := rc, newData := [], hint := 0, needFlush := false,
        data := FMap.empty 0, comp := FMap.empty (FMap.empty 0), back := none }

/-- drop the device and open a new one on the flushed file with parameters `p`:
    caches, the new-cluster set and the allocation hint start afresh; the tables
    are what was flushed (= the view, by cache transparency). -/
def reopenDev (d : Dev) (p : Params) : Outcome Dev := do
  let info ← Info.new { clusterBits := d.info.cb, refcountOrder := d.info.ro, size := d.info.vsize,
                        hasBackingName := d.info.hasBack } p
  .ok { d with info := info, l1Len := ramL1Len d.info.vsize d.info.cb p.bsBits,
               l1HdrEntries := d.hdrL1Entries, newData := [], hint := 0, needFlush := false }

end Qv.Model
