/-
Mirror of the used-cluster set of the leak check (src/dev/check.rs):
`add_used_cluster_to_set`, `sorted_ranges`, `is_allocated_cluster_in_use`.
The Rust `HashMap<u64, RangeInclusive<u64>>` is an association list with unique
keys; what `sorted_ranges` returns is compared as a sorted, deduplicated list.

`insertOld` is the algorithm as it was found (kept for the negative witness in
Qv/Props/C20.lean); `insert` is the algorithm of the repaired code.
-/
namespace Qv.Model.UsedSet

abbrev RMap := List (Nat × (Nat × Nat))

def get? (m : RMap) (k : Nat) : Option (Nat × Nat) := (m.find? (fun p => p.1 == k)).map (·.2)
def erase (m : RMap) (k : Nat) : RMap := m.filter (fun p => p.1 != k)
def put (m : RMap) (k : Nat) (v : Nat × Nat) : RMap := erase m k ++ [(k, v)]

/-- `ranges.remove(&k)` -/
def remove (m : RMap) (k : Nat) : Option (Nat × Nat) × RMap := (get? m k, erase m k)

/-- `add_used_cluster_to_set(ranges, num)` as found: every range is stored under its
    start and under its end; the neighbours `num - 1` and `num + 1` are looked up by key -/
def insertOld (m : RMap) (num : Nat) : RMap :=
  let (start, m) :=
    if num > 0 then
      match remove m (num - 1) with
      | (some r, m1) => (r.1, erase m1 r.1)
      | (none, m1) => (num, m1)
    else (num, m)
  let (end_, m) :=
    match remove m (num + 1) with
    | (some r, m1) => (r.2, erase m1 r.2)
    | (none, m1) => (num, m1)
  let (start, end_, m) :=
    match remove m num with
    | (some r, m1) => (min start r.1, max end_ r.2, m1)
    | (none, m1) => (start, end_, m1)
  put (put m start (start, end_)) end_ (start, end_)

/-- the clusters a map stands for -/
def covers (m : RMap) (c : Nat) : Bool := m.any (fun p => p.2.1 ≤ c && c ≤ p.2.2)

/-- `sorted_ranges`: the values, sorted by start, consecutive duplicates removed -/
def sortedRanges (m : RMap) : List (Nat × Nat) :=
  let vs := (m.map (·.2)).toArray.qsort (fun a b => a.1 < b.1 || (a.1 == b.1 && a.2 < b.2))
  vs.toList.eraseDups

/-- `is_allocated_cluster_in_use(set, cluster)` -/
def inUse (rs : List (Nat × Nat)) (c : Nat) : Bool := rs.any (fun r => r.1 ≤ c && c ≤ r.2)

def buildOld (nums : List Nat) : RMap := nums.foldl insertOld []

/-! ### the repaired algorithm: disjoint, non-adjacent ranges keyed by their start
(`BTreeMap<u64, u64>`: start -> end); a number that is already covered changes nothing -/

abbrev SMap := List (Nat × Nat)      -- (start, end) with unique starts

/-- `ranges.range(..=c).next_back()`: the range with the greatest start `≤ c` -/
def floor? (m : SMap) (c : Nat) : Option (Nat × Nat) :=
  m.foldl (fun acc r => if r.1 ≤ c then (match acc with
    | some a => if a.1 ≤ r.1 then some r else some a
    | none => some r) else acc) none

def sget? (m : SMap) (k : Nat) : Option Nat := (m.find? (fun p => p.1 == k)).map (·.2)
def serase (m : SMap) (k : Nat) : SMap := m.filter (fun p => p.1 != k)
/-- `ranges.insert(start, end)` -/
def sput (m : SMap) (k v : Nat) : SMap := serase m k ++ [(k, v)]

/-- `add_used_cluster_to_set(ranges, num)` of the repaired code -/
def insert (m : SMap) (num : Nat) : SMap :=
  let fl := floor? m num
  if (match fl with | some (_, e) => decide (e ≥ num) | none => false) then m else
  let start := match fl with
    | some (s, e) => if e + 1 = num then s else num
    | none => num
  let (end_, m1) := match sget? m (num + 1) with
    | some e => (e, serase m (num + 1))
    | none => (num, m)
  sput m1 start end_

def build (nums : List Nat) : SMap := nums.foldl insert []

/-- `sorted_ranges` of the repaired code -/
def sortedS (m : SMap) : List (Nat × Nat) := (m.toArray.qsort (fun a b => a.1 < b.1)).toList

def scovers (m : SMap) (c : Nat) : Bool := m.any (fun r => r.1 ≤ c && c ≤ r.2)

end Qv.Model.UsedSet
