import Qv.Codec.Info
/-
The (offset, length) arithmetic of every site that sends a request to the
backend (`call_read`, `call_write`, `call_fallocate`), as pure functions.
Mirror of: dev/cache.rs (`load_top_table`, `add_cache_slice` via dev/alloc.rs,
`flush_table`, `flush_top_table`, `flush_cache_entries`, `commit_header`),
dev/read.rs (`do_read_data_file`, `do_read_compressed`), dev/write.rs
(`do_write_data_file`, `do_compressed_cow`, `do_back_cow`), dev/discard.rs,
dev/alloc.rs (`grow_reftable`).  C16 states that each is block aligned.
-/
namespace Qv.Model.Req
open Qv.Codec

/-- a request: byte offset and byte length in the host file -/
abbrev R := Nat × Nat

/-- data read/write of `len` bytes at in-cluster offset `inCl` of host cluster `host` -/
def data (host inCl len : Nat) : R := (host + inCl, len)

/-- `do_read_compressed`: bounce-buffer read covering `[off, off+len)` -/
def compressed (bs off len : Nat) : R :=
  (off / bs * bs, Info.alignUp (off % bs + len) bs)

/-- slice `sliceNo` (of `2^sliceBits` bytes) of the table at `tableOff`:
    `add_cache_slice` (read) and `flush_table` of a cached slice (write) -/
def slice (tableOff sliceNo sliceBits : Nat) : R := (tableOff + sliceNo * 2^sliceBits, 2^sliceBits)

/-- block `idx` of a top table (L1 / reftable): `flush_top_table`, `flush_meta_generic` -/
def topBlock (tableOff idx bsb : Nat) : R := (tableOff + idx * 2^bsb, 2^bsb)

/-- whole top table load: `load_top_table` reads the RAM size of the table -/
def topLoad (tableOff ramBytes : Nat) : R := (tableOff, ramBytes)

/-- zero-once / hole punch of whole clusters -/
def zeroClusters (i : Info) (hostOff cnt : Nat) : R := (i.clusterRoundDown hostOff, cnt * i.clusterSize)

/-- whole-cluster COW copy -/
def cowCluster (i : Info) (host : Nat) : R := (host, i.clusterSize)

/-- header read in `qcow2_alloc_dev` (4096, then 65536 on failure) -/
def headerRead (n : Nat) : R := (0, n)

/-- `commit_header`: the serialized header (raw header 112 + extensions + backing
    name) copied into an aligned buffer padded to the block size -/
def headerWrite (bs serializedLen : Nat) : R := (0, (serializedLen + bs - 1) / bs * bs)

def aligned (bs : Nat) (r : R) : Prop := r.1 % bs = 0 ∧ r.2 % bs = 0

end Qv.Model.Req
