import Qv.Model.LruCache
/-
The slice protocol on top of `AsyncLruCache`: how `add_cache_slice`,
`get_l2_slice` / `get_refblock`, `flush_cache_entries`, `flush_cache` and
`shrink_caches` (src/dev/alloc.rs, src/dev/cache.rs) use the cache while several
tasks interleave.  One `Step` is the code between two suspension points of one
task; the cache methods themselves are atomic (`Qv.Model.Lru`).

State besides the cache:
* `disk k`      the slice content on disk (a version number);
* `val i`       the content of cache entry `i`, `loaded i` whether it has been
                populated (`Table::is_update`), `keyOf i` its key;
* `held`        references tasks hold on entries for using them;
* `wbq`         references handed to a task for write-back (the `to_kill` vector of
                `add_*_slice`, the result of `get_dirty_entries`), not yet started;
* `inflight`    write-backs whose write request is in flight: (key, id, snapshot);
                the flusher holds the entry's read lock, so the entry cannot be
                modified meanwhile;
* `latest k`    ghost: the last version stored for key `k` by a `modify`.

`policy` selects the eviction rule: `.fixed` is `commit_wmap` as it is now
(`Lru.legalVictims` / `Lru.commit`), `.old` the rule before the repair
(victims leave rmap at once, dirty ones too, and when nothing is unreferenced the
least recently used entry is taken although it is in use).
-/
namespace Qv.Model.Slice
open Qv.Model.Lru

inductive Policy where
  | fixed | old
  deriving DecidableEq, Repr

structure Sys where
  cache : Cache
  disk : Nat → Nat
  val : Nat → Nat
  loaded : Nat → Bool
  keyOf : Nat → Nat
  held : List Nat
  wbq : List (Nat × Nat)
  inflight : List (Nat × Nat × Nat)
  latest : Nat → Nat
  nextVer : Nat

def Sys.init (limit : Nat) : Sys :=
  { cache := Cache.new limit, disk := fun _ => 0, val := fun _ => 0, loaded := fun _ => false,
    keyOf := fun _ => 0, held := [], wbq := [], inflight := [], latest := fun _ => 0, nextVer := 1 }

def upd (f : Nat → α) (k : Nat) (v : α) : Nat → α := fun x => if x = k then v else f x

/-- entry `i` as the cache sees it (rmap first, then wmap) -/
def entryOf (c : Cache) (i : Nat) : Option (Nat × Entry) :=
  match c.rmap.find? (fun p => p.2.id == i) with
  | some p => some p
  | none => c.wmap.find? (fun p => p.2.id == i)

def inWmap (c : Cache) (i : Nat) : Bool := c.wmap.any (fun p => p.2.id == i)
def inCache (c : Cache) (i : Nat) : Bool := (entryOf c i).isSome
def isDirty (c : Cache) (i : Nat) : Bool := match entryOf c i with | some p => p.2.dirty | none => false

/-- the eviction of the code before the repair: victims (any rmap keys the LRU rule
    of that code could pick: unreferenced first, else anything) leave rmap at once;
    the dirty ones are handed to the caller -/
def commitOld (c : Cache) (vs : List Nat) : Cache × List (Nat × Nat) :=
  let dirtyVs := vs.filterMap (fun k => match lookup c.rmap k with
    | some e => if e.dirty then some (k, e.id) else none
    | none => none)
  let r1 := c.rmap.filter (fun p => !vs.contains p.1)
  let r2 := c.wmap.foldl (fun r p => erase r p.1 ++ [p]) r1
  ({ c with rmap := r2, wmap := [] }, dirtyVs)

/-- victims the old code could pick: `over` distinct rmap keys (or all of rmap),
    unreferenced entries before referenced ones -/
def legalVictimsOld (c : Cache) (vs : List Nat) : Bool :=
  vs.length == min (over c) c.rmap.length && vs.Nodup &&
  vs.all (fun k => (lookup c.rmap k).isSome) &&
  -- a referenced victim only if every unreferenced entry is a victim too
  (vs.all (fun k => match lookup c.rmap k with
      | some e => e.refs == 0 || (unreferenced c).all (fun p => vs.contains p.1)
      | none => false))

inductive Step where
  /-- `cache.get(k)` hit: the task gets a reference -/
  | hit (k : Nat)
  /-- `cache.get(k)` missed: `put_into_wmap_with(k)`; the task gets a reference to the
      (possibly new, not yet loaded) entry -/
  | miss (k : Nat)
  /-- the loader of entry `i` (not loaded; in wmap, or already moved to rmap by somebody
      else's commit) completes its disk read and
      commits: `val i := disk k`, `commit_wmap()` with victims `vs` -/
  | load (i : Nat) (vs : List Nat)
  /-- the load of entry `i` failed: `remove_from_wmap`, the loader drops its reference -/
  | loadFail (i : Nat)
  /-- a task holding loaded entry `i` stores a new version into it and marks it dirty
      (slice write lock held: no write-back of `i` in flight) -/
  | modify (i : Nat)
  /-- write-back of `i` starts: read lock, `set_dirty(false)`, the write request carries
      a snapshot of the content -/
  | wbStart (i : Nat)
  /-- `i` was handed over for write-back but is clean by now: skipped, reference dropped -/
  | wbSkip (i : Nat)
  /-- the write request of `i` completes (`ok`) or fails (re-dirtied); reference dropped -/
  | wbDone (i : Nat) (ok : Bool)
  /-- `get_dirty_entries(s, e)` of a flush: the dirty entries are queued for write-back -/
  | flush (s e : Nat)
  /-- a task drops a reference it holds -/
  | release (i : Nat)
  /-- `shrink()` -/
  | shrink
  deriving Repr

def removeFirst (l : List Nat) (i : Nat) : List Nat := l.erase i

/-- one step; `none` = the step is not enabled in this state -/
def step (pol : Policy) (s : Sys) : Step → Option Sys
  | .hit k =>
    match get s.cache k with
    | (c, some i) => some { s with cache := c, held := i :: s.held }
    | (_, none) => none
  | .miss k =>
    -- (if the key reached rmap since the failed `get`, `put` returns that entry)
    let (c, i, new) := put s.cache k
    if new then
      some { s with cache := c, held := i :: s.held, keyOf := upd s.keyOf i k,
                    loaded := upd s.loaded i false }
    else some { s with cache := c, held := i :: s.held }
  | .load i vs =>
    if !(inCache s.cache i) || s.loaded i || !(s.held.contains i) then none else
    let k := s.keyOf i
    match pol with
    | .fixed =>
      if !legalVictims s.cache vs then none else
      let (c, dv) := commit s.cache vs
      some { s with cache := c, val := upd s.val i (s.disk k), loaded := upd s.loaded i true,
                    wbq := s.wbq ++ dv }
    | .old =>
      if !legalVictimsOld s.cache vs then none else
      let (c, dv) := commitOld s.cache vs
      some { s with cache := c, val := upd s.val i (s.disk k), loaded := upd s.loaded i true,
                    wbq := s.wbq ++ dv }
  | .loadFail i =>
    if !(inCache s.cache i) || s.loaded i || !(s.held.contains i) then none else
    some { s with cache := release (removeFromWmap s.cache (s.keyOf i)) i, held := removeFirst s.held i }
  | .modify i =>
    if !(s.held.contains i) || !(s.loaded i) || s.inflight.any (fun w => w.2.1 == i) then none else
    let v := s.nextVer
    some { s with cache := setDirty s.cache i true, val := upd s.val i v,
                  latest := upd s.latest (s.keyOf i) v, nextVer := v + 1 }
  | .wbStart i =>
    match s.wbq.find? (fun p => p.2 == i) with
    | none => none
    | some p =>
      if !(isDirty s.cache i) || !(s.loaded i) then none else
      some { s with cache := setDirty s.cache i false, wbq := s.wbq.erase p,
                    inflight := s.inflight ++ [(p.1, i, s.val i)] }
  | .wbSkip i =>
    match s.wbq.find? (fun p => p.2 == i) with
    | none => none
    | some p =>
      if isDirty s.cache i then none else
      some { s with cache := release s.cache i, wbq := s.wbq.erase p }
  | .wbDone i ok =>
    match s.inflight.find? (fun w => w.2.1 == i) with
    | none => none
    | some w =>
      let c := if ok then s.cache else setDirty s.cache i true
      some { s with cache := release c i, inflight := s.inflight.erase w,
                    disk := if ok then upd s.disk w.1 w.2.2 else s.disk }
  | .flush a b =>
    let (c, d) := dirtyEntries s.cache a b
    some { s with cache := c, wbq := s.wbq ++ d }
  | .release i =>
    if !(s.held.contains i) then none else
    some { s with cache := release s.cache i, held := removeFirst s.held i }
  | .shrink => some { s with cache := shrink s.cache }

/-- run a trace; `none` if some step is not enabled -/
def run (pol : Policy) (s : Sys) : List Step → Option Sys
  | [] => some s
  | st :: rest => match step pol s st with
    | some s' => run pol s' rest
    | none => none

/-- what a task sees when it uses the entry it holds -/
def observe (s : Sys) (i : Nat) : Nat := s.val i

end Qv.Model.Slice
