/-
Mirror of `AsyncLruCache` (src/cache.rs).  Every method of the Rust type takes
its std locks, runs without suspension point and releases them: each method is
one atomic step, which is what a function on `Cache` is.

An entry (`Arc<AsyncLruCacheEntryInner<V>>`) is identified by its allocation
number `id`; `refs` is the Arc strong count minus the reference of the map
itself (references held by tasks); the cached value `V` is not interpreted by
the cache and is left out here (the slice protocol on top of the cache,
`Qv.Model.SliceProto`, carries it).

The one nondeterministic choice of the Rust code is the tie-break among
entries with equal `lru` stamp (HashMap iteration order): `commit` takes the
victims as an argument and `legalVictims` says which lists the Rust code may
pick.
-/
namespace Qv.Model.Lru

structure Entry where
  id : Nat
  lru : Nat
  dirty : Bool
  refs : Nat
  deriving Repr, DecidableEq, Inhabited

abbrev Map := List (Nat × Entry)

structure Cache where
  limit : Nat
  timer : Nat
  rmap : Map
  wmap : Map
  nextId : Nat
  deriving Repr, DecidableEq, Inhabited

def Cache.new (limit : Nat) : Cache := { limit := limit, timer := 0, rmap := [], wmap := [], nextId := 0 }

def lookup (m : Map) (k : Nat) : Option Entry := (m.find? (fun p => p.1 == k)).map (·.2)
def erase (m : Map) (k : Nat) : Map := m.filter (fun p => p.1 != k)
def update (m : Map) (k : Nat) (f : Entry → Entry) : Map :=
  m.map (fun p => if p.1 == k then (p.1, f p.2) else p)
def updateId (m : Map) (i : Nat) (f : Entry → Entry) : Map :=
  m.map (fun p => if p.2.id == i then (p.1, f p.2) else p)

/-- `put_into_wmap_with(key, f)`: the entry for `key` (from rmap, else from wmap,
    else a new one parked in wmap); the caller gets a reference.  Returns the
    entry id and whether it was created. -/
def put (c : Cache) (k : Nat) : Cache × Nat × Bool :=
  match lookup c.rmap k with
  | some e => ({ c with rmap := update c.rmap k (fun e => { e with refs := e.refs + 1 }) }, e.id, false)
  | none =>
    match lookup c.wmap k with
    | some e => ({ c with wmap := update c.wmap k (fun e => { e with refs := e.refs + 1 }) }, e.id, false)
    | none =>
      let e : Entry := { id := c.nextId, lru := 0, dirty := false, refs := 1 }
      ({ c with wmap := c.wmap ++ [(k, e)], nextId := c.nextId + 1 }, e.id, true)

/-- `remove_from_wmap(key)` (the references tasks hold survive; the entry is
    just not reachable through the cache any more) -/
def removeFromWmap (c : Cache) (k : Nat) : Cache := { c with wmap := erase c.wmap k }

/-- keys of rmap nobody holds a reference to (`Arc::strong_count(entry) <= 1`) -/
def unreferenced (c : Cache) : List (Nat × Entry) := c.rmap.filter (fun p => p.2.refs == 0)

/-- how many victims `commit_wmap` looks for -/
def over (c : Cache) : Nat := (c.rmap.length + c.wmap.length) - c.limit

/-- the victim lists `commit_wmap` may pick: `min over #unreferenced` distinct
    unreferenced keys, in non-decreasing `lru` order, each with an `lru` stamp not
    above that of any unreferenced entry left unpicked.  (`__find_lru` is called
    `over` times or until it finds nothing; a dirty victim picked earlier has
    been cloned, so it is referenced and not picked again.) -/
def legalVictims (c : Cache) (vs : List Nat) : Bool :=
  let un := unreferenced c
  vs.length == min (over c) un.length &&
  vs.Nodup &&
  vs.all (fun k => (lookup un k).isSome) &&
  vs.all (fun k => un.all (fun p => vs.contains p.1 || (match lookup un k with
      | some e => e.lru ≤ p.2.lru
      | none => false)))

/-- `commit_wmap()` with the victims `vs`: clean victims leave rmap, dirty victims
    stay and are returned with a reference each; wmap is drained into rmap.
    Returns the dirty victims (key, id). -/
def commit (c : Cache) (vs : List Nat) : Cache × List (Nat × Nat) :=
  let dirtyVs := vs.filterMap (fun k => match lookup c.rmap k with
    | some e => if e.dirty then some (k, e.id) else none
    | none => none)
  let r1 := c.rmap.filterMap (fun p =>
    if vs.contains p.1 then
      (if p.2.dirty then some (p.1, { p.2 with refs := p.2.refs + 1 }) else none)
    else some p)
  -- `r.insert(key, value)` for every drained pair (replaces an rmap entry of the same key)
  let r2 := c.wmap.foldl (fun r p => erase r p.1 ++ [p]) r1
  ({ c with rmap := r2, wmap := [] }, dirtyVs)

/-- `get(key)`: rmap only; stamps the entry and hands out a reference -/
def get (c : Cache) (k : Nat) : Cache × Option Nat :=
  match lookup c.rmap k with
  | some e =>
    ({ c with rmap := update c.rmap k (fun e => { e with lru := c.timer + 1, refs := e.refs + 1 }),
              timer := c.timer + 1 }, some e.id)
  | none => (c, none)

def isEmpty (c : Cache) : Bool := c.rmap.isEmpty

/-- `shrink()`: drops rmap entries that are clean and unreferenced -/
def shrink (c : Cache) : Cache :=
  { c with rmap := c.rmap.filter (fun p => !(p.2.refs == 0 && !p.2.dirty)) }

/-- `get_dirty_entries(start, end)`: dirty rmap entries with `start ≤ key < end`,
    a reference each.  Returns (key, id) pairs (in rmap order here; the Rust order
    is the HashMap's: compare as sets). -/
def dirtyEntries (c : Cache) (s e : Nat) : Cache × List (Nat × Nat) :=
  let sel := fun (p : Nat × Entry) => p.1 ≥ s && p.1 < e && p.2.dirty
  ({ c with rmap := c.rmap.map (fun p => if sel p then (p.1, { p.2 with refs := p.2.refs + 1 }) else p) },
   (c.rmap.filter sel).map (fun p => (p.1, p.2.id)))

/-- entry level: `set_dirty(b)` on the entry with id `i` (wherever it is) -/
def setDirty (c : Cache) (i : Nat) (b : Bool) : Cache :=
  { c with rmap := updateId c.rmap i (fun e => { e with dirty := b }),
           wmap := updateId c.wmap i (fun e => { e with dirty := b }) }

/-- a task drops a reference to entry `i` -/
def release (c : Cache) (i : Nat) : Cache :=
  { c with rmap := updateId c.rmap i (fun e => { e with refs := e.refs - 1 }),
           wmap := updateId c.wmap i (fun e => { e with refs := e.refs - 1 }) }

end Qv.Model.Lru
