import Qv.Spec.FlushRetry
/-
C17 (retry part, abstract) — a failed flush can be retried without losing anything,
provided a dirty item stays dirty until its write has succeeded; and the original
order (dirty mark cleared before the write) provably loses data.
Model and proofs: Qv/Spec/FlushRetry.lean.
-/
namespace Qv.Props.C17
open Qv.Spec.FlushRetry

/-- a flush attempt that reports `ok` left nothing dirty, and the disk holds every
    value that was dirty (and nothing else changed) -/
theorem flushOnce_ok_clean (fails : Nat → Bool) (c : Cache) (d : Disk) (hd : Distinct c.items)
    (hok : (flushOnce fails (c, d)).2 = true) :
    (flushOnce fails (c, d)).1.1.items = [] ∧
    (∀ l v, (l, v) ∈ c.items → (flushOnce fails (c, d)).1.2 l = v) ∧
    (∀ l, l ∉ c.items.map (·.1) → (flushOnce fails (c, d)).1.2 l = d l) :=
  Qv.Spec.FlushRetry.flushOnce_ok_clean fails c d hd hok

/-- after a (failed) attempt: what is still dirty was not written, and every item is
    still dirty or on disk -/
theorem flushOnce_keeps_failed (fails : Nat → Bool) (c : Cache) (d : Disk) (hd : Distinct c.items) :
    (∀ l v, (l, v) ∈ (flushOnce fails (c, d)).1.1.items →
        (l, v) ∈ c.items ∧ (flushOnce fails (c, d)).1.2 l = d l) ∧
    (∀ l v, (l, v) ∈ c.items →
        (l, v) ∈ (flushOnce fails (c, d)).1.1.items ∨ (flushOnce fails (c, d)).1.2 l = v) ∧
    Distinct (flushOnce fails (c, d)).1.1.items :=
  Qv.Spec.FlushRetry.flushOnce_keeps_failed fails c d hd

/-- a flush that leaves something dirty says so -/
theorem flushOnce_reports (fails : Nat → Bool) (c : Cache) (d : Disk)
    (h : (flushOnce fails (c, d)).1.1.items ≠ []) : (flushOnce fails (c, d)).2 = false :=
  Qv.Spec.FlushRetry.flushOnce_reports fails c d h

/-- once the backend works again (from attempt `a0` on), repeating the flush until it
    returns `ok` takes one attempt; the cache is then clean and stays clean, and every
    initially dirty value is on the disk, whatever failed before -/
theorem retry_converges (fails : Nat → Nat → Bool) (a0 : Nat)
    (hgood : ∀ a pos, a0 ≤ a → fails a pos = false)
    (c : Cache) (d : Disk) (hd : Distinct c.items) (k : Nat) :
    (flushOnce (fails a0) (retry fails a0 0 (c, d))).2 = true ∧
    (retry fails (a0 + 1 + k) 0 (c, d)).1.items = [] ∧
    (∀ l, (retry fails (a0 + 1 + k) 0 (c, d)).2 l = target c.items d l) ∧
    (∀ l v, (l, v) ∈ c.items → (retry fails (a0 + 1 + k) 0 (c, d)).2 l = v) :=
  Qv.Spec.FlushRetry.retry_converges fails a0 hgood c d hd k

/-- the defect: with the dirty mark cleared before the write, a failed write is
    forgotten — the retry returns `ok` and the value is not on the disk -/
theorem clear_before_write_loses :
    (flushOnceBuggy (lossFaults 0) (lossCache, lossDisk)).2 = false ∧
    (flushOnceBuggy (lossFaults 1) (flushOnceBuggy (lossFaults 0) (lossCache, lossDisk)).1).2 = true ∧
    (retryBuggy lossFaults 2 0 (lossCache, lossDisk)).1.items = [] ∧
    (retryBuggy lossFaults 2 0 (lossCache, lossDisk)).2 7 = 0 ∧
    target lossCache.items lossDisk 7 = 42 :=
  Qv.Spec.FlushRetry.clear_before_write_loses

-- non-vacuity: the same input under the repaired order
example : (retry lossFaults 2 0 (lossCache, lossDisk)).1.items = [] ∧
    (retry lossFaults 2 0 (lossCache, lossDisk)).2 7 = 42 :=
  ⟨keep_until_written_recovers.2.1, keep_until_written_recovers.2.2⟩

example : Distinct lossCache.items := by unfold Distinct lossCache; simp

/-- two items, the second write of the first attempt fails: one further attempt suffices -/
example : (retry (fun a p => a == 0 && p == 1) 2 0 ({ items := [(1, 10), (2, 20)] }, fun _ => 0)).2 2 = 20 := rfl

end Qv.Props.C17
