import Qv.Proofs.Alloc
/-
C08 — cluster allocator: free-window search (`RefBlock::get_free_range`,
`get_tail_free_range`), slice-level allocation / release on the device model
(`alloc_range`, `try_alloc_from_rb_slice`, `free_clusters`), and fuel
(termination) of the allocator loops.  Helper lemmas live in
`Qv/Proofs/Alloc.lean`.
-/
namespace Qv.Props.C08
open Qv Qv.Codec Qv.Model
open Qv.Props.C15 (Geom)

/-! ## 1. Free-window search -/

theorem firstUsed_none_iff (get : Nat → Nat) (i n : Nat) :
    firstUsed get i n = none ↔ ∀ j, i ≤ j → j < i + n → get j = 0 :=
  Model.firstUsed_none_iff get i n

theorem firstUsed_some (get : Nat → Nat) (i n j : Nat) (h : firstUsed get i n = some j) :
    i ≤ j ∧ j < i + n ∧ get j ≠ 0 ∧ ∀ k, i ≤ k → k < j → get k = 0 :=
  Model.firstUsed_some h

/-- a returned window has the requested length, starts at or after `start`,
    lies inside the slice and is all-zero -/
theorem getFreeRange_sound (get : Nat → Nat) (entries start count s e : Nat)
    (h : getFreeRange get entries start count = .ok (some (s, e))) :
    e = s + count ∧ start ≤ s ∧ e ≤ entries ∧ ∀ j, s ≤ j → j < e → get j = 0 := by
  unfold getFreeRange at h
  split at h
  · rename_i hle
    simp only [Outcome.ok.injEq] at h
    obtain ⟨a, b, c, d⟩ := freeRangeLoop_sound h
    exact ⟨a, b, by omega, d⟩
  · simp at h

/-- the returned window is the first one at or after `start` -/
theorem getFreeRange_first (get : Nat → Nat) (entries start count s e : Nat)
    (h : getFreeRange get entries start count = .ok (some (s, e))) :
    ∀ s', start ≤ s' → s' < s → ∃ j, s' ≤ j ∧ j < s' + count ∧ get j ≠ 0 := by
  unfold getFreeRange at h
  split at h
  · simp only [Outcome.ok.injEq] at h
    exact freeRangeLoop_first h
  · simp at h

/-- `None` is returned only if there is no all-zero window of the requested
    length at or after `start` inside the slice.  Contains the termination
    argument of the `while` loop: the fuel `entries + 1` of the model suffices. -/
theorem getFreeRange_complete (get : Nat → Nat) (entries start count : Nat)
    (h : getFreeRange get entries start count = .ok none) :
    ¬ ∃ s, start ≤ s ∧ s + count ≤ entries ∧ ∀ j, s ≤ j → j < s + count → get j = 0 := by
  unfold getFreeRange at h
  split at h
  · simp only [Outcome.ok.injEq] at h
    rintro ⟨s, h1, h2, h3⟩
    obtain ⟨j, a, b, c⟩ := freeRangeLoop_complete (by omega) h s h1 (by omega)
    exact c (h3 j a b)
  · simp at h

/-- the search panics exactly when the `assert!(start + count <= entries)` fails;
    it never returns `Err` -/
theorem getFreeRange_panics_iff (get : Nat → Nat) (entries start count : Nat) :
    (∃ p, getFreeRange get entries start count = .panic p) ↔ start + count > entries := by
  unfold getFreeRange
  split
  · simp; omega
  · simp; omega

theorem getFreeRange_never_err (get : Nat → Nat) (entries start count : Nat) (x : Err) :
    getFreeRange get entries start count ≠ .err x := by
  unfold getFreeRange; split <;> simp

/-- the tail range is non-empty, ends at the slice end, is all-zero and is
    maximal (the entry just before it is in use) -/
theorem getTailFreeRange_sound (get : Nat → Nat) (entries s e : Nat)
    (h : getTailFreeRange get entries = some (s, e)) :
    e = entries ∧ s < e ∧ 0 < s ∧ get (s - 1) ≠ 0 ∧ ∀ j, s ≤ j → j < e → get j = 0 := by
  unfold getTailFreeRange at h
  cases hl : lastUsed get entries with
  | none => simp [hl] at h
  | some i =>
    simp only [hl] at h
    split at h
    · simp at h
    · rename_i hne
      simp only [Option.some.injEq, Prod.mk.injEq] at h
      obtain ⟨rfl, rfl⟩ := h
      obtain ⟨a, b, c⟩ := lastUsed_some hl
      refine ⟨rfl, by omega, by omega, by simpa using b, ?_⟩
      intro j h1 h2; exact c j (by omega) h2

/-- no tail range iff the slice is entirely free (!) or its last entry is in use -/
theorem getTailFreeRange_none (get : Nat → Nat) (entries : Nat) :
    getTailFreeRange get entries = none ↔
      (∀ j, j < entries → get j = 0) ∨ (0 < entries ∧ get (entries - 1) ≠ 0) := by
  unfold getTailFreeRange
  cases hl : lastUsed get entries with
  | none =>
    simp only [true_iff]
    exact Or.inl ((lastUsed_none_iff get entries).1 hl)
  | some i =>
    obtain ⟨a, b, c⟩ := lastUsed_some hl
    simp only
    split
    · rename_i he
      simp only [true_iff]
      right
      refine ⟨by omega, ?_⟩
      have : entries - 1 = i := by omega
      rw [this]; exact b
    · rename_i hne
      simp only [reduceCtorEq, false_iff, not_or, not_and, Decidable.not_not]
      refine ⟨fun H => b (H i a), fun _ => c (entries - 1) (by omega) (by omega)⟩


/-! ## 2. Slice-level allocation and release on the device model -/

/-- `alloc_range`: every refcount in `[c0+s, c0+s+n)` is incremented by exactly
    one, nothing else changes (neither other refcounts nor any other field). -/
theorem allocRange_spec (c0 s n : Nat) (d d' : Dev)
    (h : allocRange c0 s n d = (d', .ok ())) :
    (∀ k, d'.rc.get k = if c0 + s ≤ k ∧ k < c0 + s + n then d.rc.get k + 1 else d.rc.get k) ∧
    d' = { d with rc := d'.rc } :=
  allocRange_ok h

/-- on an all-zero window `alloc_range` cannot fail (the value 1 fits every
    refcount width, including `refcount_order = 0`) -/
theorem allocRange_zero_window_succeeds (c0 s n : Nat) (d : Dev)
    (hz : ∀ k, c0 + s ≤ k → k < c0 + s + n → d.rc.get k = 0) :
    ∃ d', allocRange c0 s n d = (d', .ok ()) :=
  allocRange_succeeds c0 s n d hz

/-- `try_alloc_from_rb_slice` hands out only clusters whose refcount is zero,
    as one contiguous cluster-aligned run, no longer than requested, inside the
    refblock slice of `off`; their refcounts become 1, everything else (other
    refcounts, L1/L2, reftable, data, hint, …) is unchanged except `needFlush`. -/
theorem tryAlloc_sound (off count : Nat) (fixed : Bool) (d d' : Dev) (host n : Nat)
    (h : tryAllocFromRbSlice off count fixed d = (d', .ok (some (host, n)))) :
    (1 ≤ count → 1 ≤ n) ∧ n ≤ count ∧ (fixed = true → n = count) ∧
    host % d.info.clusterSize = 0 ∧
    (∀ c, host / d.info.clusterSize ≤ c → c < host / d.info.clusterSize + n →
        d.rc.get c = 0 ∧ d'.rc.get c = 1) ∧
    (∀ c, ¬ (host / d.info.clusterSize ≤ c ∧ c < host / d.info.clusterSize + n) →
        d'.rc.get c = d.rc.get c) ∧
    (Host.rbSliceHostStart d.info off ≤ host ∧
      host + n * d.info.clusterSize ≤ Host.rbSliceHostEnd d.info off) ∧
    d'.needFlush = true ∧
    d' = { d with rc := d'.rc, needFlush := true } := by
  obtain ⟨s, h1, h2, h3, h4, h5, rfl, h7, h8, h9, h10⟩ := tryAlloc_some h
  have hdiv := clusterOffFromSlice_div d.info off s
  rw [hdiv]
  refine ⟨h4, ?_, ?_, clusterOffFromSlice_mod d.info off s, ?_, ?_, ⟨?_, ?_⟩, ?_, h10⟩
  · rcases h5 with h5 | ⟨_, _, h5, _⟩ <;> omega
  · intro hf
    rcases h5 with h5 | ⟨h5, _⟩
    · exact h5
    · rw [hf] at h5; cases h5
  · intro c c1 c2
    have hz : d.rc.get c = 0 := by
      have := h7 (c - sliceC0 d.info off) (by unfold sliceC0; omega) (by unfold sliceC0; omega)
      have e : sliceC0 d.info off + (c - sliceC0 d.info off) = c := by unfold sliceC0; omega
      rw [e] at this; exact this
    refine ⟨hz, ?_⟩
    rw [h9 c, if_pos (by unfold sliceC0; omega), hz]
  · intro c hc
    rw [h9 c, if_neg (by unfold sliceC0; omega)]
  · unfold Host.clusterOffFromSlice; omega
  · unfold Host.clusterOffFromSlice Host.rbSliceHostEnd Info.clusterSize
    rw [Nat.add_assoc, ← Nat.add_mul]
    exact Nat.add_le_add_left (Nat.mul_le_mul_right _ h3) _
  · rw [h10]

/-- position of the run: it starts at or after the cluster of `off`, the slice
    does contain `off`, and it is the *first* fit — every earlier start in the
    slice has a non-free cluster in its window. -/
theorem tryAlloc_first_fit (off count : Nat) (fixed : Bool) (d d' : Dev) (host n : Nat)
    (g : Geom d.info)
    (h : tryAllocFromRbSlice off count fixed d = (d', .ok (some (host, n)))) :
    off / d.info.clusterSize * d.info.clusterSize ≤ host ∧
    (Host.rbSliceHostStart d.info off ≤ off ∧ off < Host.rbSliceHostEnd d.info off) ∧
    (∀ c, off / d.info.clusterSize ≤ c → c < host / d.info.clusterSize →
      ∃ c', c ≤ c' ∧ c' < c + count ∧ d.rc.get c' ≠ 0) := by
  obtain ⟨s, h1, h2, h3, h4, h5, rfl, h7, h8, h9, h10⟩ := tryAlloc_some h
  obtain ⟨_, hp2, hp3, hp4, _⟩ := Qv.Props.C15.host_partition g off
  have hdiv := clusterOffFromSlice_div d.info off s
  have hdiv0 := clusterOffFromSlice_div d.info off (Host.rbSliceIndex d.info off)
  rw [hp4] at hdiv0
  have hoc : off / d.info.clusterSize * d.info.clusterSize / d.info.clusterSize
      = off / d.info.clusterSize := by
    unfold Info.clusterSize
    exact Nat.mul_div_cancel _ (Nat.two_pow_pos _)
  change off / d.info.clusterSize * d.info.clusterSize / d.info.clusterSize = _ at hdiv0
  rw [hoc] at hdiv0
  refine ⟨?_, hp3, ?_⟩
  · change off / 2^d.info.cb * 2^d.info.cb ≤ _
    rw [← hp4]
    unfold Host.clusterOffFromSlice
    exact Nat.add_le_add_left (Nat.mul_le_mul_right _ h2) _
  · intro c c1 c2
    rw [hdiv] at c2
    rw [hdiv0] at c1
    obtain ⟨j, j1, j2, j3⟩ := h8 (c - sliceC0 d.info off) (by unfold sliceC0; omega)
      (by unfold sliceC0; omega)
    exact ⟨sliceC0 d.info off + j, by unfold sliceC0 at *; omega, by unfold sliceC0 at *; omega, j3⟩

/-- `Ok(None)` leaves the whole state unchanged -/
theorem tryAlloc_none_frame (off count : Nat) (fixed : Bool) (d d' : Dev)
    (h : tryAllocFromRbSlice off count fixed d = (d', .ok none)) : d' = d :=
  (tryAlloc_none h).1

/-- `Ok(None)` is returned only if the request does not fit behind `off` in the
    slice, or no window of `count` free clusters exists at or after the cluster of
    `off` in the slice (and then, for `fixed = false`, there is no free tail either) -/
theorem tryAlloc_none_complete (off count : Nat) (fixed : Bool) (d d' : Dev)
    (h : tryAllocFromRbSlice off count fixed d = (d', .ok none))
    (hfit : Host.rbSliceIndex d.info off + count ≤ d.info.rbSliceEntries) :
    ∀ s, Host.rbSliceIndex d.info off ≤ s → s + count ≤ d.info.rbSliceEntries →
      ∃ j, s ≤ j ∧ j < s + count ∧
        d.rc.get (Host.rbSliceHostStart d.info off / d.info.clusterSize + j) ≠ 0 :=
  (tryAlloc_none h).2 hfit

/-- `try_alloc_from_rb_slice` never fails and never panics in the model: the
    `assert!` of `get_free_range` is guarded by the early return, and
    `alloc_range` only increments zero entries. -/
theorem tryAlloc_total (off count : Nat) (fixed : Bool) (d : Dev) :
    ∃ d' r, tryAllocFromRbSlice off count fixed d = (d', .ok r) :=
  Model.tryAlloc_total off count fixed d

/-- `free_clusters`: each of the `n` clusters starting at the cluster of `host`
    had refcount ≥ 1 and is decremented by exactly one; other refcounts are
    unchanged; the allocation hint never increases, and with `first_zero = true`
    it ends at or below the byte offset of every freed cluster that reached 0 (in
    particular the first one), so that freed clusters are found again by the
    allocator; no other field changes.  (Needs no alignment of `host`; for an
    aligned `host`, `host + k * cs` is the byte offset of cluster `host/cs + k`.) -/
theorem freeClusters_spec (host n : Nat) (fz : Bool) (d d' : Dev)
    (h : freeClusters host n fz d = (d', .ok ())) :
    (∀ k, k < n → 1 ≤ d.rc.get (host / d.info.clusterSize + k) ∧
        d'.rc.get (host / d.info.clusterSize + k) = d.rc.get (host / d.info.clusterSize + k) - 1) ∧
    (∀ c, ¬ (host / d.info.clusterSize ≤ c ∧ c < host / d.info.clusterSize + n) →
        d'.rc.get c = d.rc.get c) ∧
    d'.hint ≤ d.hint ∧
    (fz = true → ∀ k, k < n → d.rc.get (host / d.info.clusterSize + k) = 1 →
        d'.hint ≤ host + k * d.info.clusterSize) ∧
    (fz = false → d'.hint = d.hint) ∧
    (0 < n → d'.needFlush = true) ∧
    d' = { d with rc := d'.rc, hint := d'.hint, needFlush := d'.needFlush } := by
  obtain ⟨a, b, _, e, f, g⟩ := freeClusters_ok h
  have hfr := freeClusters_frame host n fz d
  rw [h] at hfr
  refine ⟨?_, ?_, hfr.2, e, f, g, hfr.1⟩
  · intro k hk
    refine ⟨b _ (by omega) (by omega), ?_⟩
    rw [a, if_pos (by omega)]
  · intro c hc
    rw [a, if_neg hc]

/-- a refcount is never taken below zero: on a zero entry `free_clusters` fails with
    `Err invalid` and the state is untouched.
    CHANGED (was `freeClusters_zero_panics`, result `.panic "…decrement-unwrap"`): the
    code now returns an error there instead of panicking. -/
theorem freeClusters_zero_invalid (host n : Nat) (fz : Bool) (d : Dev)
    (hrt : ¬ RT.isZero (rtEntryAt d host)) (h0 : d.rc.get (host / d.info.clusterSize) = 0) :
    freeClusters host (n + 1) fz d = (d, .err .invalid) := by
  rw [freeClusters_succ, if_neg hrt, if_pos h0]

/-- NEW (consequence of the same change): `free_clusters` never panics, and its only
    errors are `other` (a cluster without refblock) and `invalid` (refcount already 0) -/
theorem freeClusters_never_panics (host n : Nat) (fz : Bool) (d : Dev) :
    (∀ p, (freeClusters host n fz d).2 ≠ .panic p) ∧
    (∀ e, (freeClusters host n fz d).2 = .err e → e = .other ∨ e = .invalid) := by
  refine ⟨fun p => freeClusters_nopanic host n fz d p, fun e he => ?_⟩
  exact freeClusters_err (host := host) (n := n) (fz := fz) (d := d)
    (d' := (freeClusters host n fz d).1) (by rw [← he])

/-- `free_clusters` succeeds iff every cluster has a refblock (non-zero reftable
    entry) and a refcount ≥ 1 -/
theorem freeClusters_ok_iff (host n : Nat) (fz : Bool) (d : Dev) :
    (∃ d', freeClusters host n fz d = (d', .ok ())) ↔
      (∀ k, k < n → ¬ RT.isZero (rtEntryAt d (host + k * d.info.clusterSize))) ∧
      (∀ k, k < n → 1 ≤ d.rc.get (host / d.info.clusterSize + k)) := by
  constructor
  · rintro ⟨d', h⟩
    obtain ⟨_, b, c, _⟩ := freeClusters_ok h
    exact ⟨c, fun k hk => b _ (by omega) (by omega)⟩
  · rintro ⟨h1, h2⟩
    apply freeClusters_succeeds host n fz d h1
    intro k k1 k2
    have := h2 (k - host / d.info.clusterSize) (by omega)
    have e : host / d.info.clusterSize + (k - host / d.info.clusterSize) = k := by omega
    rw [e] at this; exact this

/-- allocate a run, then free exactly that run: all refcounts are restored -/
theorem alloc_then_free_roundtrip (off count : Nat) (fixed fz : Bool) (d d1 d2 : Dev) (host n : Nat)
    (ha : tryAllocFromRbSlice off count fixed d = (d1, .ok (some (host, n))))
    (hf : freeClusters host n fz d1 = (d2, .ok ())) :
    ∀ k, d2.rc.get k = d.rc.get k := by
  obtain ⟨s, _, _, _, _, _, rfl, _, _, h9, h10⟩ := tryAlloc_some ha
  obtain ⟨a, _⟩ := freeClusters_ok hf
  have hi : d1.info = d.info := by rw [h10]
  intro k
  rw [a k, hi, clusterOffFromSlice_div, h9 k]
  unfold sliceC0
  by_cases hk : Host.rbSliceHostStart d.info off / d.info.clusterSize + s ≤ k ∧
      k < Host.rbSliceHostStart d.info off / d.info.clusterSize + s + n
  · rw [if_pos hk, if_pos hk]; omega
  · rw [if_neg hk, if_neg hk]

/-- … and the release does succeed when the refblock of the slice exists and
    the slice is not larger than a refblock (`rb_slice_bits ≤ cluster_bits`;
    otherwise a slice spans several reftable entries, cf. C15
    `info_new_rb_slice_exceeds_cluster`) -/
theorem alloc_then_free_succeeds (off count : Nat) (fixed fz : Bool) (d d1 : Dev) (host n : Nat)
    (g : Geom d.info) (hsl : d.info.rbSliceBits ≤ d.info.cb)
    (hrt : ¬ RT.isZero (rtEntryAt d off))
    (ha : tryAllocFromRbSlice off count fixed d = (d1, .ok (some (host, n)))) :
    ∃ d2, freeClusters host n fz d1 = (d2, .ok ()) ∧ ∀ k, d2.rc.get k = d.rc.get k := by
  have hs := tryAlloc_sound off count fixed d d1 host n ha
  obtain ⟨_, _, _, _, h5, _, ⟨h7a, h7b⟩, _, h9⟩ := hs
  have hi : d1.info = d.info := by rw [h9]
  have hex : ∃ d2, freeClusters host n fz d1 = (d2, .ok ()) := by
    apply freeClusters_succeeds
    · intro k hk
      have hidx : Host.rtIndex d.info (host + k * d.info.clusterSize) = Host.rtIndex d.info off := by
        apply rtIndex_of_slice g hsl
        · exact Nat.le_trans h7a (Nat.le_add_right _ _)
        · have : (k + 1) * d.info.clusterSize ≤ n * d.info.clusterSize :=
            Nat.mul_le_mul_right _ hk
          rw [Nat.add_mul, Nat.one_mul] at this
          have hpos : 0 < d.info.clusterSize := Nat.two_pow_pos _
          omega
      have : rtEntryAt d1 (host + k * d1.info.clusterSize) = rtEntryAt d off := by
        rw [hi]
        unfold rtEntryAt
        rw [hi, hidx, h9]
      rw [this]; exact hrt
    · intro k k1 k2
      rw [hi] at k1 k2
      rw [(h5 k k1 k2).2]
      exact Nat.le_refl _
  obtain ⟨d2, hd2⟩ := hex
  exact ⟨d2, hd2, alloc_then_free_roundtrip off count fixed fz d d1 d2 host n ha hd2⟩


/-! ## 3. Termination: the fuel of the allocator loops is sufficient

`tryAllocateLoop` (the `while` loop of `try_allocate_from`) and `allocateLoop`
(the `loop` of `allocate_clusters`) take fuel; running out of it is reported as
`Err nospace`, a value no other path of these functions produces.  Under the
geometry equations the fuel the model passes is sufficient: the loops return
before it runs out, so the result is the same for every larger fuel.
(CHANGED with reftable growth: for the outer loop this now needs a hypothesis —
`ensure_refblock_offset` grows the table instead of failing at its end, so the loop can
run past the `rtLen + 2` iterations the model provides; see
`allocateClusters_fuel_sufficient`.  The inner loop is unaffected.)

The measure of `tryAllocateLoop` (`Qv.Model.loopMeasure`) is
`2 * (refblock slices from the slice of host up to rbEnd) + (done ≠ 0 ? 1 : 0)`:
an iteration either returns, or moves `host` to the next slice (no fit / partial
tail run / a whole slice consumed), or consumes the whole remaining count (then
the loop ends), or is the fragmentation retry, which keeps `host`, resets `count`
and clears `done` — and can therefore not be followed by another retry on the
same slice. -/

/-- one iteration = `loopStep`; this ties the step function to the model loop -/
theorem tryAllocateLoop_unfold (rbEnd allocCnt fuel host count outOff done : Nat) (d : Dev) :
    tryAllocateLoop rbEnd allocCnt (fuel + 1) host count outOff done d =
      match loopStep rbEnd allocCnt host count outOff done d with
      | .ret r => r
      | .cont h c o dn d' => tryAllocateLoop rbEnd allocCnt fuel h c o dn d' :=
  tryAllocateLoop_succ rbEnd allocCnt fuel host count outOff done d

/-- every iteration either returns (never with the fuel error) or strictly
    decreases the measure; `info`, `rtLen`, `rt` (and, since the reftable-growth change,
    the header's `refcount_table_clusters`: `SameMeta` was strengthened) are never touched -/
theorem tryAllocateLoop_step_progress (rbEnd allocCnt host count outOff done : Nat) (d : Dev)
    (g : Geom d.info) :
    match loopStep rbEnd allocCnt host count outOff done d with
    | .ret r => r.2 ≠ .err .nospace ∧ SameMeta d r.1
    | .cont h c _ dn d' =>
      loopMeasure d.info rbEnd h c dn < loopMeasure d.info rbEnd host count done ∧ SameMeta d d' := by
  have h1 := loopStep_measure rbEnd allocCnt host count outOff done d g
  have h2 := loopStep_sameMeta rbEnd allocCnt host count outOff done d
  cases hs : loopStep rbEnd allocCnt host count outOff done d with
  | ret r => rw [hs] at h1 h2; exact ⟨h1, h2⟩
  | cont h c o dn d' => rw [hs] at h1 h2; exact ⟨h1, h2⟩

/-- above the measure the result of the loop does not depend on the fuel -/
theorem tryAllocateLoop_fuel_irrelevant (rbEnd allocCnt f1 f2 host count outOff done : Nat) (d : Dev)
    (g : Geom d.info)
    (h1 : loopMeasure d.info rbEnd host count done < f1)
    (h2 : loopMeasure d.info rbEnd host count done < f2) :
    tryAllocateLoop rbEnd allocCnt f1 host count outOff done d
      = tryAllocateLoop rbEnd allocCnt f2 host count outOff done d :=
  (tryAllocateLoop_fuel_aux rbEnd allocCnt f1 host count outOff done d g h1).1 f2 h2

/-- … and the fuel-exhaustion branch is not taken -/
theorem tryAllocateLoop_never_exhausts (rbEnd allocCnt f host count outOff done : Nat) (d : Dev)
    (g : Geom d.info) (h : loopMeasure d.info rbEnd host count done < f) :
    (tryAllocateLoop rbEnd allocCnt f host count outOff done d).2 ≠ .err .nospace :=
  (tryAllocateLoop_fuel_aux rbEnd allocCnt f host count outOff done d g h).2

/-- the fuel `2 * (slices + alloc_cnt) + 4` passed by `tryAllocateFrom` exceeds
    the measure of the initial loop state -/
theorem tryAllocateFrom_fuel_bound (i : Info) (g : Geom i) (host allocCnt : Nat) :
    loopMeasure i (Host.rbHostEnd i host) host allocCnt 0
      < 2 * (i.rbEntries / (max i.rbSliceEntries 1) + 2 + allocCnt) + 4 :=
  loopMeasure_init_lt g host allocCnt

/-- `try_allocate_from`: any fuel at least the model's gives the same result -/
theorem tryAllocateFrom_fuel_sufficient (host allocCnt : Nat) (d d1 : Dev) (g : Geom d.info)
    (h0 : allocCnt ≠ 0) (he : ensureRefblock host d = (d1, .ok ()))
    (f : Nat) (hf : 2 * (d.info.rbEntries / max d.info.rbSliceEntries 1 + 2 + allocCnt) + 4 ≤ f) :
    tryAllocateFrom host allocCnt d
      = tryAllocateLoop (Host.rbHostEnd d.info host) allocCnt f host allocCnt 0 0 d1 :=
  tryAllocateFrom_fuel_irrelevant host allocCnt d d1 g h0 he f hf

theorem tryAllocateFrom_never_nospace (host allocCnt : Nat) (d : Dev) (g : Geom d.info) :
    (tryAllocateFrom host allocCnt d).2 ≠ .err .nospace :=
  tryAllocateFrom_no_nospace host allocCnt d g

/-- outer loop of `allocate_clusters`: one reftable entry per iteration, so
    `rtCap - rtIndex(hostOff) + 1` iterations suffice.
    CHANGED (reftable growth): the bound was `d.rtLen - rtIndex hostOff`; the loop now
    continues beyond the end of the table (`ensure_refblock_offset` grows it) until the
    growth is refused, so the bound is taken against `rtCap d`, the length the table can
    reach (`Qv/Proofs/Grow.lean`; `rtCap d = d.rtLen` when it cannot grow). -/
theorem allocateLoop_fuel_irrelevant (count f1 f2 hostOff : Nat) (d : Dev) (g : Geom d.info)
    (h1 : rtCap d - Host.rtIndex d.info hostOff < f1)
    (h2 : rtCap d - Host.rtIndex d.info hostOff < f2) :
    allocateLoop count f1 hostOff d = allocateLoop count f2 hostOff d :=
  (allocateLoop_fuel_aux count f1 hostOff d g h1).1 f2 h2

/-- … and with that much fuel the fuel-exhaustion branch is not taken -/
theorem allocateLoop_never_exhausts (count f hostOff : Nat) (d : Dev) (g : Geom d.info)
    (h : rtCap d - Host.rtIndex d.info hostOff < f) :
    (allocateLoop count f hostOff d).2 ≠ .err .nospace :=
  (allocateLoop_fuel_aux count f hostOff d g h).2

/-- `allocate_clusters`: the fuel `rtLen + 2` is sufficient.
    CHANGED (reftable growth): FALSE as it was stated (for every `d`): the fuel counts
    the entries of the present table, and the loop can now run past them.  It holds
    when the entries between the hint and the growth bound are no more than the fuel
    (hypothesis `hcap`), in particular when the table cannot grow
    (`allocateClusters_fuel_sufficient_noGrow`). -/
theorem allocateClusters_fuel_sufficient (count : Nat) (d : Dev) (g : Geom d.info)
    (hcap : rtCap d - Host.rtIndex d.info d.hint < d.rtLen + 2)
    (f : Nat) (hf : d.rtLen + 2 ≤ f) :
    allocateClusters count d = allocateLoop count f d.hint d := by
  unfold allocateClusters
  exact (allocateLoop_fuel_aux count (d.rtLen + 2) d.hint d g hcap).1 f (by omega)

/-- the statement as it was before reftable growth, for a table that cannot grow -/
theorem allocateClusters_fuel_sufficient_noGrow (count : Nat) (d : Dev) (g : Geom d.info)
    (hn : NoGrow d) (f : Nat) (hf : d.rtLen + 2 ≤ f) :
    allocateClusters count d = allocateLoop count f d.hint d :=
  allocateClusters_fuel_sufficient count d g (by rw [rtCap_of_noGrow hn]; omega) f hf

/-- hence the model's `allocateClusters` does not report fuel exhaustion: it ends
    with a result, or an error of `ensure_refblock_offset` / `free_clusters`.
    CHANGED: needs `hcap`, see `allocateClusters_fuel_sufficient`. -/
theorem allocateClusters_never_nospace (count : Nat) (d : Dev) (g : Geom d.info)
    (hcap : rtCap d - Host.rtIndex d.info d.hint < d.rtLen + 2) :
    (allocateClusters count d).2 ≠ .err .nospace := by
  unfold allocateClusters
  exact (allocateLoop_fuel_aux count (d.rtLen + 2) d.hint d g hcap).2

theorem allocateClusters_never_nospace_noGrow (count : Nat) (d : Dev) (g : Geom d.info)
    (hn : NoGrow d) : (allocateClusters count d).2 ≠ .err .nospace :=
  allocateClusters_never_nospace count d g (by rw [rtCap_of_noGrow hn]; omega)

/-- NEW: the table never shrinks under `allocate_clusters`, and the growth bound never rises -/
theorem allocateLoop_rtLen_mono (count f hostOff : Nat) (d : Dev) :
    (allocateLoop count f hostOff d).1.info = d.info ∧
    d.rtLen ≤ (allocateLoop count f hostOff d).1.rtLen ∧
    rtCap (allocateLoop count f hostOff d).1 ≤ rtCap d :=
  Model.allocateLoop_rtLen_mono count f hostOff d

/-- fuel monotonicity without any geometry assumption: whenever a loop did not
    run out of fuel, more fuel gives the same result -/
theorem tryAllocateLoop_fuel_mono (rbEnd allocCnt f f' host count outOff done : Nat) (d : Dev)
    (h : (tryAllocateLoop rbEnd allocCnt f host count outOff done d).2 ≠ .err .nospace)
    (hle : f ≤ f') :
    tryAllocateLoop rbEnd allocCnt f' host count outOff done d
      = tryAllocateLoop rbEnd allocCnt f host count outOff done d := by
  have := tryAllocateLoop_fuel_mono_aux rbEnd allocCnt f host count outOff done d h (f' - f)
  rwa [show f + (f' - f) = f' by omega] at this

theorem allocateLoop_fuel_mono (count f f' hostOff : Nat) (d : Dev)
    (h : (allocateLoop count f hostOff d).2 ≠ .err .nospace) (hle : f ≤ f') :
    allocateLoop count f' hostOff d = allocateLoop count f hostOff d := by
  have := allocateLoop_fuel_mono_aux count f hostOff d h (f' - f)
  rwa [show f + (f' - f) = f' by omega] at this

/-- the allocator loops never change `info`, `rtLen`, `rt` -/
theorem tryAllocateLoop_frame (rbEnd allocCnt fuel host count outOff done : Nat) (d : Dev) :
    SameMeta d (tryAllocateLoop rbEnd allocCnt fuel host count outOff done d).1 :=
  tryAllocateLoop_sameMeta rbEnd allocCnt fuel host count outOff done d

/-- `allocate_clusters` never returns `Ok(None)`: the loop has no exit of its
    own, so the `None` arms of its callers (`ensureL2`, `allocAndMap`,
    `makeMultiple`) are dead in the model -/
theorem allocateLoop_never_none (count f hostOff : Nat) (d : Dev) :
    (allocateLoop count f hostOff d).2 ≠ .ok none := by
  induction f generalizing hostOff d with
  | zero => simp [allocateLoop, M.fail]
  | succ f ih =>
    rw [allocateLoop]
    dsimp only
    generalize tryAllocateFrom hostOff count d = r
    rcases r with ⟨d1, (_ | ⟨o, n⟩) | e | p⟩
    all_goals (try dsimp only)
    · exact ih _ d1
    all_goals simp

/-! ## 4. Non-vacuity -/

/-- 8 entries, entries 2 and 5 in use -/
def getEx : Nat → Nat := fun j => if j = 2 ∨ j = 5 then 1 else 0

example : firstUsed getEx 0 2 = none ∧ firstUsed getEx 0 4 = some 2 ∧ firstUsed getEx 3 4 = some 5 :=
  ⟨by rfl, by rfl, by rfl⟩
example : getFreeRange getEx 8 0 2 = .ok (some (0, 2)) := by rfl
example : getFreeRange getEx 8 1 2 = .ok (some (3, 5)) := by rfl
example : getFreeRange getEx 8 0 3 = .ok none := by rfl
example : getFreeRange getEx 8 7 2 = .panic "refcount.rs:get_free_range:assert" := by rfl
example : getTailFreeRange getEx 8 = some (6, 8) := by rfl
example : getTailFreeRange (fun _ => 0) 8 = none ∧ getTailFreeRange (fun j => if j = 7 then 1 else 0) 8 = none :=
  ⟨by rfl, by rfl⟩
/-- hypotheses of the search theorems are satisfiable -/
example : (5 = 3 + 2 ∧ 1 ≤ 3 ∧ 5 ≤ 8 ∧ ∀ j, 3 ≤ j → j < 5 → getEx j = 0) :=
  getFreeRange_sound getEx 8 1 2 3 5 (by rfl)
example : ∃ j, 1 ≤ j ∧ j < 1 + 2 ∧ getEx j ≠ 0 :=
  getFreeRange_first getEx 8 1 2 3 5 (by rfl) 1 (by decide) (by decide)
example : ¬ ∃ s, 0 ≤ s ∧ s + 3 ≤ 8 ∧ ∀ j, s ≤ j → j < s + 3 → getEx j = 0 :=
  getFreeRange_complete getEx 8 0 3 (by rfl)
example : (8 = 8 ∧ 6 < 8 ∧ 0 < 6 ∧ getEx (6 - 1) ≠ 0 ∧ ∀ j, 6 ≤ j → j < 8 → getEx j = 0) :=
  getTailFreeRange_sound getEx 8 6 8 (by rfl)

open Qv.Props.C15 (infoEx infoEx_new info_geometry_of_params)

theorem geomEx : Geom infoEx :=
  (info_geometry_of_params infoEx_new (by decide) (by decide) (by decide) (by decide)).1

/-- 64 KiB clusters, 16-bit refcounts; one refblock (cluster 1) registered in a
    one-entry reftable; clusters 0, 1, 3 in use, everything else free. -/
def devEx : Dev :=
  { (default : Dev) with
    info := infoEx, rtLen := 1,
    rt := (FMap.empty 0#64).set 0 0x10000#64,
    rc := (((FMap.empty 0).set 0 1).set 1 1).set 3 1,
    hint := 0x50000 }

theorem devEx_rc (k : Nat) : devEx.rc.get k = if k = 0 ∨ k = 1 ∨ k = 3 then 1 else 0 := by
  simp only [devEx, FMap.get_set, FMap.get_empty]
  by_cases h3 : 3 = k
  · subst h3; simp
  · by_cases h1 : 1 = k
    · subst h1; simp
    · by_cases h0 : 0 = k
      · subst h0; simp
      · simp [h3, h1, h0]; omega

/-- asking for 2 clusters from offset 0 yields exactly the first fit: clusters 4
    and 5 (cluster 2 is a hole of length 1) -/
theorem devEx_alloc2 : ∃ d', tryAllocFromRbSlice 0 2 false devEx = (d', .ok (some (0x40000, 2))) := by
  obtain ⟨d', r, h⟩ := tryAlloc_total 0 2 false devEx
  have hc0 : sliceC0 devEx.info 0 = 0 := by decide
  cases r with
  | none =>
    exfalso
    obtain ⟨j, j1, j2, j3⟩ :=
      tryAlloc_none_complete 0 2 false devEx d' h (by decide) 4 (by decide) (by decide)
    apply j3
    have : Host.rbSliceHostStart devEx.info 0 / devEx.info.clusterSize = 0 := by decide
    rw [this, devEx_rc, if_neg (by omega)]
  | some x =>
    obtain ⟨host, n⟩ := x
    obtain ⟨s, a1, a2, a3, a4, a5, rfl, a7, a8, _⟩ := tryAlloc_some h
    rw [hc0] at a7 a8
    have hn1 := a4 (by decide)
    have hs4 : s ≤ 4 := by
      apply Classical.byContradiction; intro hgt
      obtain ⟨j, j1, j2, j3⟩ := a8 4 (by decide) (by omega)
      apply j3; rw [devEx_rc, if_neg (by omega)]
    have hse : devEx.info.rbSliceEntries = 2048 := by decide
    have hn : n = 2 := by
      rcases a5 with a5 | ⟨_, a5, a6, _⟩
      · exact a5
      · omega
    subst hn
    have hz0 := a7 s (by omega) (by omega)
    have hz1 := a7 (s + 1) (by omega) (by omega)
    rw [devEx_rc] at hz0 hz1
    have hs : s = 4 := by
      have : s = 0 ∨ s = 1 ∨ s = 2 ∨ s = 3 ∨ s = 4 := by omega
      rcases this with rfl | rfl | rfl | rfl | rfl <;> simp at hz0 hz1 ⊢
    subst hs
    exact ⟨d', h⟩

/-- `tryAlloc_sound` is not vacuous -/
example : ∃ d', tryAllocFromRbSlice 0 2 false devEx = (d', .ok (some (0x40000, 2))) ∧
    (∀ c, 4 ≤ c → c < 6 → devEx.rc.get c = 0 ∧ d'.rc.get c = 1) ∧
    (∀ c, ¬ (4 ≤ c ∧ c < 6) → d'.rc.get c = devEx.rc.get c) ∧ d'.needFlush = true := by
  obtain ⟨d', h⟩ := devEx_alloc2
  obtain ⟨_, _, _, _, e, f, _, g, _⟩ := tryAlloc_sound 0 2 false devEx d' 0x40000 2 h
  exact ⟨d', h, e, f, g⟩

/-- a full slice tail cannot be handed out when `fixed_start` is set and the
    window at `off` is occupied: `Ok(None)`, state unchanged -/
example : ∃ d', tryAllocFromRbSlice 0 2048 true devEx = (d', .ok none) ∧ d' = devEx := by
  obtain ⟨d', r, h⟩ := tryAlloc_total 0 2048 true devEx
  cases r with
  | none => exact ⟨d', h, tryAlloc_none_frame 0 2048 true devEx d' h⟩
  | some x =>
    exfalso
    obtain ⟨host, n⟩ := x
    obtain ⟨s, a1, a2, a3, _, a5, _, a7, _⟩ := tryAlloc_some h
    have hn : n = 2048 := by
      rcases a5 with a5 | ⟨a5, _⟩
      · exact a5
      · cases a5
    have hse : devEx.info.rbSliceEntries = 2048 := by decide
    have hs : s = 0 := by omega
    have := a7 0 (by omega) (by omega)
    have hc0 : sliceC0 devEx.info 0 = 0 := by decide
    rw [hc0, devEx_rc] at this
    simp at this

theorem devEx_rt (off : Nat) (h : off < 2^31) : ¬ RT.isZero (rtEntryAt devEx off) := by
  have hidx : Host.rtIndex devEx.info off = 0 := by
    show off / 2^(15 + 16) = 0
    exact Nat.div_eq_of_lt h
  unfold rtEntryAt
  rw [hidx]
  have : (0 : Nat) < devEx.rtLen := by decide
  rw [if_pos this]
  have : devEx.rt.get 0 = 0x10000#64 := by simp [devEx]
  rw [this]; decide

/-- `freeClusters_spec` is not vacuous: freeing clusters 0 and 1 succeeds, both
    reach 0, and the hint drops to offset 0 -/
example : ∃ d', freeClusters 0 2 true devEx = (d', .ok ()) ∧ d'.rc.get 0 = 0 ∧ d'.rc.get 1 = 0 ∧
    d'.rc.get 3 = 1 ∧ d'.hint = 0 := by
  obtain ⟨d', h⟩ := (freeClusters_ok_iff 0 2 true devEx).2 ⟨fun k hk => by
      apply devEx_rt
      have : devEx.info.clusterSize = 65536 := by decide
      rw [this]; omega,
    fun k hk => by
      have : 0 / devEx.info.clusterSize = 0 := by decide
      rw [this, devEx_rc, if_pos (by omega)]; exact Nat.le_refl _⟩
  obtain ⟨a, b, _, e, _⟩ := freeClusters_spec 0 2 true devEx d' h
  have h0 : (0 : Nat) / devEx.info.clusterSize = 0 := by decide
  rw [h0] at a b e
  refine ⟨d', h, ?_, ?_, ?_, ?_⟩
  · have := (a 0 (by omega)).2
    rw [devEx_rc] at this; simpa using this
  · have := (a 1 (by omega)).2
    rw [devEx_rc] at this; simpa using this
  · rw [b 3 (by omega), devEx_rc]; simp
  · have := e rfl 0 (by omega) (by rw [devEx_rc]; simp)
    omega

/-- freeing a free cluster (cluster 2) fails with `invalid` and changes nothing -/
example : freeClusters 0x20000 1 true devEx = (devEx, .err .invalid) :=
  freeClusters_zero_invalid 0x20000 0 true devEx (devEx_rt _ (by decide)) (by
    have : 0x20000 / devEx.info.clusterSize = 2 := by decide
    rw [this, devEx_rc]; simp)

/-- allocate-then-free round trip, with the release guaranteed to succeed -/
example : ∃ d1 d2, tryAllocFromRbSlice 0 2 false devEx = (d1, .ok (some (0x40000, 2))) ∧
    freeClusters 0x40000 2 true d1 = (d2, .ok ()) ∧ ∀ k, d2.rc.get k = devEx.rc.get k := by
  obtain ⟨d1, h⟩ := devEx_alloc2
  obtain ⟨d2, h2, h3⟩ := alloc_then_free_succeeds 0 2 false true devEx d1 0x40000 2 geomEx
    (by decide) (devEx_rt 0 (by decide)) h
  exact ⟨d1, d2, h, h2, h3⟩

/-- the fuel theorems apply to the example device: its table (1 entry, nothing on
    disk) can grow, up to `rtCap` entries -/
example : rtCap devEx = 268419072 ∧ ¬ NoGrow devEx := by decide
example : (allocateLoop 3 (rtCap devEx + 1) devEx.hint devEx).2 ≠ .err .nospace :=
  allocateLoop_never_exhausts 3 _ devEx.hint devEx geomEx (by omega)
/-- a table of the largest size the relocation supports cannot grow, and there the
    model's fuel `rtLen + 2` is sufficient -/
def devFull : Dev := { devEx with rtLen := 268427264, hdrRtClusters := 32767 }
example : NoGrow devFull := by decide
example : (allocateClusters 3 devFull).2 ≠ .err .nospace :=
  allocateClusters_never_nospace_noGrow 3 devFull geomEx (by decide)
example : loopMeasure infoEx (Host.rbHostEnd infoEx 0x50000) 0x50000 3 0 = 32 := by decide
example : 2 * (infoEx.rbEntries / max infoEx.rbSliceEntries 1 + 2 + 3) + 4 = 46 := by decide

end Qv.Props.C08
