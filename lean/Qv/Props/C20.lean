import Qv.Proofs.UsedSet
import Qv.Proofs.UsedSetOld
import Qv.Proofs.Convert
/-
C20 — `rqcow2 check` / `rqcow2 convert`.

Part A: the used-cluster set of the leak check (`Qv.Model.UsedSet`, mirror of
`add_used_cluster_to_set` / `sorted_ranges` / `is_allocated_cluster_in_use` in
src/dev/check.rs).  The repaired algorithm (`insert`, `build`, `sortedS`) stands
for exactly the clusters that were added, for every input; the algorithm as it was
found (`insertOld`, `buildOld`, `sortedRanges`) loses a member on a concrete input
with repeated clusters.

Part B: the copy loops of `rqcow2 convert` (`Qv.Spec.Convert`): the chunk loop
visits exactly `[0, total)`, the padding arithmetic keeps the padded tail inside
the device, and raw → qcow2 → raw returns the source followed by zeros.

Helper lemmas: `Qv/Proofs/UsedSet.lean`, `Qv/Proofs/UsedSetOld.lean` (old vs. repaired map), `Qv/Proofs/QSortPerm.lean`
(`Array.qsort` is a permutation), `Qv/Proofs/Convert.lean`.
-/
namespace Qv.Props.C20
open Qv Qv.Spec

/-! ## A. The used-cluster set -/
section UsedSet
open Qv.Model.UsedSet

/- The invariant (`Qv.Model.UsedSet.WF`, in `Qv/Proofs/UsedSet.lean`):
   `nodup : (m.map (·.1)).Nodup`,
   `le    : ∀ r ∈ m, r.1 ≤ r.2`,
   `sep   : ∀ r1 ∈ m, ∀ r2 ∈ m, r1 ≠ r2 → r1.2 + 1 < r2.1 ∨ r2.2 + 1 < r1.1`. -/

/-- A.1 the empty map is well formed -/
theorem wf_nil : WF [] := WFp_nil.toWF

/-- A.1 `insert` keeps the map well formed: unique starts, `start ≤ end`, ranges
    pairwise disjoint and not adjacent -/
theorem wf_insert (m : SMap) (num : Nat) (h : WF m) : WF (insert m num) :=
  (WFp_insert h.toWFp num).toWF

/-- A.1 every map the leak check builds is well formed -/
theorem wf_build (nums : List Nat) : WF (build nums) := (WFp_build nums).toWF

/-- A.2 `insert` adds exactly `num` to the clusters the map stands for -/
theorem insert_covers (m : SMap) (num c : Nat) (h : WF m) :
    scovers (insert m num) c = true ↔ (scovers m c = true ∨ c = num) := by
  rw [scovers_iff, scovers_iff]
  exact insert_covers_p h.toWFp num c

/-- A.3 MAIN: the set built from `nums` stands for exactly the members of `nums`
    (any order, any repetitions) -/
theorem usedSet_correct (nums : List Nat) (c : Nat) :
    scovers (build nums) c = true ↔ c ∈ nums := by
  unfold build
  suffices ∀ m, WF m → (scovers (nums.foldl insert m) c = true ↔ (scovers m c = true ∨ c ∈ nums)) by
    rw [this [] wf_nil]; simp [scovers]
  induction nums with
  | nil => intro m _; simp
  | cons x xs ih =>
    intro m h
    rw [List.foldl_cons, ih _ (wf_insert m x h), insert_covers m x c h, List.mem_cons, or_assoc]

/-- A.4 sorting (`Array.qsort`) does not change which clusters are in use -/
theorem inUse_sortedS (m : SMap) (c : Nat) : inUse (sortedS m) c = scovers m c :=
  (sortedS_perm m).any_eq

/-- A.4 what `sorted_ranges` returns is a rearrangement of the map -/
theorem sortedS_perm (m : SMap) : (sortedS m).Perm m := Qv.Model.UsedSet.sortedS_perm m

/-- A.5 the leak verdict is exact: a cluster is "in use" iff it was added -/
theorem leak_verdict_exact (nums : List Nat) (c : Nat) :
    inUse (sortedS (build nums)) c = true ↔ c ∈ nums := by
  rw [inUse_sortedS, usedSet_correct]

/-- A.6 adding a member again changes nothing -/
theorem insert_idempotent (m : SMap) (num : Nat) (h : WF m) (hc : scovers m num = true) :
    insert m num = m := by
  rcases insert_cases h.toWFp num with ⟨_, e⟩ | ⟨hnc, _⟩
  · exact e
  · rw [scovers_iff] at hc
    obtain ⟨r, hr, h1, h2⟩ := hc
    exact absurd ⟨h1, h2⟩ (hnc r hr)

/-- A.7 the algorithm as found loses cluster 2 when 1 and 3 are added a second time:
    the map no longer covers it … -/
theorem old_usedSet_loses_member_covers :
    2 ∈ [0, 1, 2, 3, 4, 1, 3] ∧ covers (buildOld [0, 1, 2, 3, 4, 1, 3]) 2 = false := by decide

/-- A.7 … and the leak check reports it as not in use -/
theorem old_usedSet_loses_member :
    2 ∈ [0, 1, 2, 3, 4, 1, 3] ∧ inUse (sortedRanges (buildOld [0, 1, 2, 3, 4, 1, 3])) 2 = false := by
  rw [inUse_sortedRanges]; decide

/-- A.7 the repaired algorithm on the same input -/
theorem new_usedSet_keeps_member : sortedS (build [0, 1, 2, 3, 4, 1, 3]) = [(0, 4)] := by
  have h : build [0, 1, 2, 3, 4, 1, 3] = [(0, 4)] := by decide
  rw [h]
  exact List.perm_singleton.1 (Qv.Model.UsedSet.sortedS_perm [(0, 4)])

/-- A.7 for the old code too, sorting is not where the member is lost -/
theorem old_inUse_sortedRanges (m : RMap) (c : Nat) : inUse (sortedRanges m) c = covers m c :=
  inUse_sortedRanges m c

/-- A.7 the defect of the old algorithm needs a repetition: as long as no cluster is
    added twice, the map as found stands for exactly the clusters that were added … -/
theorem old_usedSet_correct_of_nodup (nums : List Nat) (c : Nat) (h : nums.Nodup) :
    covers (buildOld nums) c = true ↔ c ∈ nums := by
  rw [(buildOld_sim nums h).covers, usedSet_correct]

/-- A.7 … and so does the old leak verdict -/
theorem old_leak_verdict_of_nodup (nums : List Nat) (c : Nat) (h : nums.Nodup) :
    inUse (sortedRanges (buildOld nums)) c = true ↔ c ∈ nums := by
  rw [inUse_sortedRanges, old_usedSet_correct_of_nodup nums c h]

end UsedSet

/-! ## B. The copy loops of `convert` -/
section Convert
open Qv.Spec.Convert

/-- B.1 nothing to copy: no iteration -/
theorem chunkList_zero (chunk : Nat) : chunkList 0 chunk = [] := rfl

/-- B.1 the loop terminates having visited exactly `[0, total)`, in order, without gaps -/
theorem chunkList_complete (total chunk : Nat) (hc : 0 < chunk) :
    chunksComplete total (chunkList total chunk) = true := by
  unfold chunksComplete
  have := chunkList_induct total chunk hc
    (fun off l => l.foldl (fun acc c => if acc == c.1 then c.1 + c.2 else total + 1) off = total)
    rfl ?_
  · rw [this]; simp
  · intro off len rest _ _ _ ih
    rw [List.foldl_cons]
    simpa using ih

/-- B.1 every chunk is non-empty, at most `chunk` long and inside `[0, total)` -/
theorem chunkList_bounds (total chunk : Nat) (hc : 0 < chunk) (off len : Nat)
    (h : (off, len) ∈ chunkList total chunk) : 0 < len ∧ len ≤ chunk ∧ off + len ≤ total := by
  have := chunkList_induct total chunk hc
    (fun _ l => ∀ p ∈ l, 0 < p.2 ∧ p.2 ≤ chunk ∧ p.1 + p.2 ≤ total) (by simp) ?_ (off, len) h
  · exact this
  · intro off len rest h1 h2 h3 ih p hp
    rw [List.mem_cons] at hp
    rcases hp with rfl | hp
    · dsimp only; omega
    · exact ih p hp

/-- B.2 the virtual size is a whole number of clusters -/
theorem padUp_dvd (size cs : Nat) : cs ∣ padUp size cs := by
  unfold padUp
  rw [Nat.max_def]
  split
  · exact Nat.dvd_refl _
  · exact Nat.dvd_mul_left _ _

theorem le_padUp (size cs : Nat) (hcs : 0 < cs) : size ≤ padUp size cs := by
  have := (ceil_mul_bounds size cs hcs).1
  unfold padUp; omega

/-- B.2 at least one cluster -/
theorem cs_le_padUp (size cs : Nat) : cs ≤ padUp size cs := Nat.le_max_right _ _

theorem padUp_lt (size cs : Nat) (hcs : 0 < cs) (hs : 0 < size) : padUp size cs < size + cs := by
  have := (ceil_mul_bounds size cs hcs).2
  unfold padUp; omega

theorem padTail_dvd (res bs : Nat) : bs ∣ padTail res bs := Nat.dvd_mul_left _ _

theorem le_padTail (res bs : Nat) (hbs : 0 < bs) : res ≤ padTail res bs :=
  (ceil_mul_bounds res bs hbs).1

theorem padTail_lt (res bs : Nat) (hbs : 0 < bs) : padTail res bs < res + bs :=
  (ceil_mul_bounds res bs hbs).2

/-- B.2 what `copy_to_qcow2` relies on: the zero-padded tail of the last chunk still
    fits into the device -/
theorem padTail_fits (size cs off res bs : Nat) (hcs : 0 < cs) (hbs : 0 < bs) (hdvd : bs ∣ cs)
    (hoff : bs ∣ off) (hres : off + res ≤ size) :
    off + padTail res bs ≤ padUp size cs := by
  apply le_of_multiples (b := bs)
  · exact (Nat.dvd_add_right hoff).2 (padTail_dvd res bs)
  · exact Nat.dvd_trans hdvd (padUp_dvd size cs)
  · have := padTail_lt res bs hbs
    have := le_padUp size cs hcs
    omega

/-- B.3 sector by sector: after `copyIn` the image holds the source, then zeros -/
theorem copyIn_sector (data : List Nat) (vsize cs chunkSecs : Nat) (hc : 0 < chunkSecs) (s : Nat) :
    (copyIn (blank vsize cs) data chunkSecs).sec.get s = data.getD s 0 := by
  have := (copyIn_fold data chunkSecs hc (blank vsize cs)).2.2 s
  unfold copyIn
  dsimp only at this ⊢
  rw [this]
  split
  · rfl
  · rename_i h
    simp [blank, List.getD_eq_getElem?_getD, List.getElem?_eq_none (Nat.le_of_not_lt h)]

/-- B.3 reading the device in chunks is reading it at once -/
theorem copyOut_eq_read (f : Flat) (chunkSecs : Nat) (hc : 0 < chunkSecs) :
    copyOut f chunkSecs = f.read 0 (f.vsize / 512) := Qv.Spec.Convert.copyOut_eq_read f chunkSecs hc

/-- B.3 MAIN: raw → qcow2 → raw returns the source, followed by the zeros the image was
    padded with up to a whole number of clusters; the chunk sizes of the two copies are
    arbitrary (positive) and independent -/
theorem convert_roundtrip (data : List Nat) (cs chunkSecs chunkSecs' : Nat)
    (hcs : 0 < cs) (hc : 0 < chunkSecs) (hc' : 0 < chunkSecs') :
    copyOut (copyIn (blank (padUp (data.length * 512) cs) cs) data chunkSecs) chunkSecs' =
      data ++ List.replicate (padUp (data.length * 512) cs / 512 - data.length) 0 := by
  have hv : (copyIn (blank (padUp (data.length * 512) cs) cs) data chunkSecs).vsize =
      padUp (data.length * 512) cs :=
    (copyIn_fold data chunkSecs hc (blank _ cs)).1
  have hn : data.length ≤ padUp (data.length * 512) cs / 512 := by
    have := le_padUp (data.length * 512) cs hcs
    omega
  rw [copyOut_eq_read _ _ hc', hv]
  apply List.ext_getElem
  · simp [Flat.read]; omega
  · intro i h1 h2
    simp only [Flat.read, List.getElem_map, List.getElem_range, Nat.zero_div, Nat.zero_add]
    rw [copyIn_sector data _ cs chunkSecs hc i]
    by_cases hi : i < data.length
    · rw [List.getElem_append_left hi]; simp [List.getD_eq_getElem?_getD, hi]
    · rw [List.getElem_append_right (Nat.le_of_not_lt hi), List.getElem_replicate]
      simp [List.getD_eq_getElem?_getD, List.getElem?_eq_none (Nat.le_of_not_lt hi)]

/-- B.3 with a cluster size that is a multiple of 512 the padding is a whole number of
    sectors: nothing is cut off when the size is counted in sectors -/
theorem padUp_sectors (n cs : Nat) (h512 : 512 ∣ cs) : 512 ∣ padUp (n * 512) cs :=
  Nat.dvd_trans h512 (padUp_dvd _ _)

/-! ### B.4 the statements are not vacuous -/

example : chunkList 5 2 = [(0, 2), (2, 2), (4, 1)] := by decide
example : chunksComplete 5 (chunkList 5 2) = true := by decide
example : chunksComplete 5 [(0, 2), (2, 2)] = false := by decide          -- stopped early
example : chunksComplete 5 [(0, 2), (3, 2)] = false := by decide          -- a gap
example : padUp (5 * 512) 1024 = 3072 ∧ padUp 0 1024 = 1024 ∧ padUp 1024 1024 = 1024 := by decide
example : padTail 700 512 = 1024 ∧ padTail 512 512 = 512 ∧ padTail 0 512 = 0 := by decide
/-- 5 sectors of data, 1 KiB clusters, 2 sectors per chunk: 6 sectors come back -/
example : copyOut (copyIn (blank (padUp (5 * 512) 1024) 1024) [11, 12, 13, 14, 15] 2) 4 =
    [11, 12, 13, 14, 15, 0] :=
  convert_roundtrip [11, 12, 13, 14, 15] 1024 2 4 (by decide) (by decide) (by decide)

end Convert
end Qv.Props.C20
