import Qv.Proofs.GrowAcct
import Qv.Props.C03
/-
C12 — growth of the refcount table (`RefTable::clone_and_grow`, `grow_reftable`, and
`ensure_refblock_offset` for an index beyond the table), on the device model
`Qv.Model.growReftable` / `ensureRefblockIn` / `ensureRefblock`.

  (a) the three outcomes of `growReftable`: in place, relocation, unsupported;
  (b) a successful growth covers the index, never shrinks the table, keeps its entries;
  (c) where the relocation puts the new table and its refblock, and which refcount-table
      entry describes those clusters;
  (d) refcount accounting through the relocation: nothing is under-counted at any
      point, and after the release of the old table the accounting is exact again;
  (e) `ensure_refblock_offset` as a whole; non-vacuity on a formatted image.

Helper lemmas: `Qv/Proofs/Grow.lean` (no accounting) and `Qv/Proofs/GrowAcct.lean`.

The pieces the statements are phrased with (all in `Qv/Proofs/Grow.lean`):
  `growNewSize d rtIdx` = max (⌈(rtIdx+1)·8 / cs⌉·cs) (hdrRtClusters·cs + cs)   bytes of the new table
  `growNewCl d rtIdx`   = growNewSize / cs                                       its clusters
  `growOldCl d`         = ⌈rtLen·8 / cs⌉                                         clusters handed back
  `GrowInPlace d rtIdx` = rtLen·8 < hdrRtClusters·cs ∧ (rtIdx+1)·8 ≤ hdrRtClusters·cs
  `GrowFits d rtIdx`    = growNewCl < rbEntries − 1 ∧ growNewCl + 1 ≤ rbSliceEntries
-/
namespace Qv.Props.C12
open Qv Qv.Codec Qv.Model
open Qv.Props.C15 (Geom)

/-! ## (a) the outcomes of `growReftable` -/

/-- the definitions above, spelled out (they are definitional unfoldings) -/
theorem grow_defs (d : Dev) (rtIdx : Nat) :
    growNewSize d rtIdx =
      max (((rtIdx + 1) * 8 + d.info.clusterSize - 1) / d.info.clusterSize * d.info.clusterSize)
        (d.hdrRtClusters * d.info.clusterSize + d.info.clusterSize) ∧
    growNewCl d rtIdx = growNewSize d rtIdx / d.info.clusterSize ∧
    growOldCl d = (d.rtLen * 8 + d.info.clusterSize - 1) / d.info.clusterSize ∧
    (GrowInPlace d rtIdx ↔ d.rtLen * 8 < d.hdrRtClusters * d.info.clusterSize ∧
      (rtIdx + 1) * 8 ≤ d.hdrRtClusters * d.info.clusterSize) ∧
    (GrowFits d rtIdx ↔ growNewCl d rtIdx < d.info.rbEntries - 1 ∧
      growNewCl d rtIdx + 1 ≤ d.info.rbSliceEntries) :=
  ⟨rfl, rfl, rfl, Iff.rfl, Iff.rfl⟩

/-- the new size is a whole number of clusters, has room for entry `rtIdx`, and is at
    least one cluster more than the table on disk -/
theorem growNewSize_facts (d : Dev) (rtIdx : Nat) :
    growNewCl d rtIdx * d.info.clusterSize = growNewSize d rtIdx ∧
    (rtIdx + 1) * 8 ≤ growNewSize d rtIdx ∧ d.hdrRtClusters + 1 ≤ growNewCl d rtIdx :=
  ⟨growNewCl_mul d rtIdx, growNewSize_covers d rtIdx, growNewCl_gt d rtIdx⟩

/-- **in place**: the table on disk is longer than the one in RAM and reaches the index:
    only `rtLen` changes (to the number of entries of the disk table) -/
theorem growReftable_inplace (rtIdx : Nat) (d : Dev) (h : GrowInPlace d rtIdx) :
    growReftable rtIdx d =
      ({ d with rtLen := d.hdrRtClusters * d.info.clusterSize / 8 }, .ok none) :=
  growReftable_inplace' h

/-- **relocation**: every field of the resulting state.  The new refblock is put at the
    first cluster `c0 = rtLen · rbEntries` of the first region the old table does not
    cover, the new table right behind it; `rt[rtLen]` points to the refblock, the header
    to the new table; clusters `c0 … c0 + newCl` get refcount 1; the old table's offset
    and cluster count are returned. -/
theorem growReftable_relocate (rtIdx : Nat) (d : Dev) (h1 : ¬ GrowInPlace d rtIdx)
    (h2 : GrowFits d rtIdx) :
    ∃ d', growReftable rtIdx d = (d', .ok (some (d.hdrRtOff, growOldCl d))) ∧
      d'.rtLen = growNewSize d rtIdx / 8 ∧
      d'.hdrRtOff = d.rtLen * d.info.rbEntries * d.info.clusterSize + d.info.clusterSize ∧
      d'.hdrRtClusters = growNewCl d rtIdx ∧
      d'.rt = d.rt.set d.rtLen (BitVec.ofNat 64 (d.rtLen * d.info.rbEntries * d.info.clusterSize)) ∧
      (∀ k, d'.rc.get k =
        if d.rtLen * d.info.rbEntries ≤ k ∧ k ≤ d.rtLen * d.info.rbEntries + growNewCl d rtIdx
        then 1 else d.rc.get k) ∧
      d'.needFlush = true ∧
      d' = { d with rc := d'.rc, rt := d'.rt, rtLen := d'.rtLen, hdrRtOff := d'.hdrRtOff,
                    hdrRtClusters := d'.hdrRtClusters, needFlush := true } := by
  refine ⟨growRelocated d rtIdx, growReftable_relocate' h1 h2, rfl, rfl, rfl, rfl, ?_, rfl, rfl⟩
  intro k
  show (growRc d.rc _ _).get k = _
  rw [growRc_get]
  by_cases hk : d.rtLen * d.info.rbEntries ≤ k ∧ k ≤ d.rtLen * d.info.rbEntries + growNewCl d rtIdx
  · rw [if_pos hk, if_pos (by omega)]
  · rw [if_neg hk, if_neg (by omega)]

/-- **unsupported**: neither branch applies; the only error, and the state is unchanged -/
theorem growReftable_err (rtIdx : Nat) (d d' : Dev) (e : Err)
    (h : growReftable rtIdx d = (d', .err e)) :
    e = .unsupported ∧ d' = d ∧ ¬ GrowInPlace d rtIdx ∧ ¬ GrowFits d rtIdx := by
  rcases growReftable_cases h with ⟨_, _, hr⟩ | ⟨_, _, _, hr⟩ | ⟨a, b, c, hr⟩
  · cases hr
  · cases hr
  · simp only [Outcome.err.injEq] at hr
    exact ⟨hr, c, a, b⟩

theorem growReftable_unsupported (rtIdx : Nat) (d : Dev) (h1 : ¬ GrowInPlace d rtIdx)
    (h2 : ¬ GrowFits d rtIdx) : growReftable rtIdx d = (d, .err .unsupported) :=
  growReftable_unsupported' h1 h2

theorem growReftable_nopanic (rtIdx : Nat) (d : Dev) (p : String) :
    (growReftable rtIdx d).2 ≠ .panic p := by
  rw [growReftable_eq]
  split
  · simp
  · split <;> simp

/-- the three cases are exhaustive and exclusive -/
theorem growReftable_trichotomy (rtIdx : Nat) (d : Dev) :
    (GrowInPlace d rtIdx ∧ (growReftable rtIdx d).2 = .ok none) ∨
    (¬ GrowInPlace d rtIdx ∧ GrowFits d rtIdx ∧
      (growReftable rtIdx d).2 = .ok (some (d.hdrRtOff, growOldCl d))) ∨
    (¬ GrowInPlace d rtIdx ∧ ¬ GrowFits d rtIdx ∧ growReftable rtIdx d = (d, .err .unsupported)) := by
  rcases growReftable_cases (d' := (growReftable rtIdx d).1) (r := (growReftable rtIdx d).2) rfl with
    ⟨a, _, c⟩ | ⟨a, b, _, c⟩ | ⟨a, b, _, _⟩
  · exact Or.inl ⟨a, c⟩
  · exact Or.inr (Or.inl ⟨a, b, c⟩)
  · exact Or.inr (Or.inr ⟨a, b, growReftable_unsupported' a b⟩)

/-- no outcome touches anything but `rc`, `rt`, `rtLen`, the header's reftable fields
    and `needFlush` (in particular not `info`, `version`, `l1`, `l2`, `data`, `comp`,
    `back`, `newData`, `hint`) -/
theorem growReftable_frame (rtIdx : Nat) (d : Dev) :
    (growReftable rtIdx d).1 =
      { d with rc := (growReftable rtIdx d).1.rc, rt := (growReftable rtIdx d).1.rt,
               rtLen := (growReftable rtIdx d).1.rtLen,
               hdrRtOff := (growReftable rtIdx d).1.hdrRtOff,
               hdrRtClusters := (growReftable rtIdx d).1.hdrRtClusters,
               needFlush := (growReftable rtIdx d).1.needFlush } :=
  Model.growReftable_frame rtIdx d

/-! ## (b) a successful growth covers the index -/

/-- on success the new table reaches `rtIdx` — so the retry `ensureRefblockIn` never
    takes its out-of-bounds branch —, a call for an index beyond the table never shrinks
    it, and the entries of the old table are kept -/
theorem growReftable_covers (rtIdx : Nat) (d d' : Dev) (old : Option (Nat × Nat))
    (h : growReftable rtIdx d = (d', .ok old)) :
    rtIdx < d'.rtLen ∧ (d.rtLen ≤ rtIdx → d.rtLen ≤ d'.rtLen) ∧
    (∀ j, j < d.rtLen → d'.rt.get j = d.rt.get j) ∧ d'.info = d.info :=
  growReftable_ok_len h

/-- … hence the retry succeeds and keeps the table's length and the header -/
theorem ensureRefblockIn_after_growth (rtIdx : Nat) (d d1 : Dev) (old : Option (Nat × Nat))
    (h : growReftable rtIdx d = (d1, .ok old)) :
    ∃ d2, ensureRefblockIn rtIdx d1 = (d2, .ok ()) ∧ d2.info = d.info ∧ d2.rtLen = d1.rtLen ∧
      d2.hdrRtClusters = d1.hdrRtClusters ∧ d2.hdrRtOff = d1.hdrRtOff := by
  obtain ⟨hl, _, _, hi⟩ := growReftable_ok_len h
  obtain ⟨d2, h2, a, b, c, e, _⟩ := ensureRefblockIn_inb hl
  exact ⟨d2, h2, a.trans hi, b, c, e⟩

/-- the growth bound `rtCap` (`Qv/Proofs/Grow.lean`) is not raised by a growth: the
    measure of the outer allocator loop (C08 `allocateLoop_fuel_irrelevant`) -/
theorem growReftable_cap (rtIdx : Nat) (d d' : Dev) (old : Option (Nat × Nat))
    (h : growReftable rtIdx d = (d', .ok old)) : rtCap d' ≤ rtCap d ∧ d'.rtLen ≤ rtCap d' :=
  ⟨Model.growReftable_cap h, rtLen_le_rtCap d'⟩

/-! ## (c) the clusters of the new table -/

/-- the clusters set to 1 by the relocation are `c0 … c0 + newCl` with
    `c0 = rtLen · rbEntries`; `c0 · cs` (the new refblock's offset) is cluster aligned;
    and — under the geometry equations, `newCl + 1 ≤ rbEntries` being part of `GrowFits`
    — every byte of every one of them is described by refcount-table entry `rtLen`, the
    entry the relocation points to the new refblock: the new refblock counts itself and
    the new table. -/
theorem growReftable_new_region (rtIdx : Nat) (d : Dev) (g : Geom d.info) (hf : GrowFits d rtIdx) :
    (d.rtLen * d.info.rbEntries * d.info.clusterSize) % d.info.clusterSize = 0 ∧
    (d.rtLen * d.info.rbEntries * d.info.clusterSize) / d.info.clusterSize
      = d.rtLen * d.info.rbEntries ∧
    growNewCl d rtIdx + 1 ≤ d.info.rbEntries ∧
    (∀ k x, k ≤ growNewCl d rtIdx →
      (d.rtLen * d.info.rbEntries + k) * d.info.clusterSize ≤ x →
      x < (d.rtLen * d.info.rbEntries + k + 1) * d.info.clusterSize →
      Host.rtIndex d.info x = d.rtLen) ∧
    Host.rtIndex d.info (d.rtLen * d.info.rbEntries * d.info.clusterSize + d.info.clusterSize)
      = d.rtLen := by
  have hle : growNewCl d rtIdx + 1 ≤ d.info.rbEntries := by have := hf.1; omega
  refine ⟨Nat.mul_mod_left _ _, Nat.mul_div_cancel _ (cs_pos _), hle, ?_, ?_⟩
  · intro k x hk h1 h2
    exact rtIndex_of_region g d.rtLen k x (by omega) h1 h2
  · have hN := growNewCl_gt d rtIdx
    apply rtIndex_of_region g d.rtLen 1 _ (by omega)
    · rw [Nat.add_mul, Nat.one_mul]; exact Nat.le_refl _
    · have := cs_pos d.info
      have e : (d.rtLen * d.info.rbEntries + 1 + 1) * d.info.clusterSize
          = d.rtLen * d.info.rbEntries * d.info.clusterSize + d.info.clusterSize + d.info.clusterSize := by
        rw [Nat.add_mul, Nat.add_mul, Nat.one_mul]
      omega

/-! ## (d) accounting -/

/-- **no under-count after the relocation, before the old table is released**: every
    reference is counted, and the only surplus is one on each cluster of the old table
    (which is still allocated, as it has to be until the header switch is durable).
    Hypotheses: exact accounting before; entries of the RAM table beyond `rtLen` are zero
    (the model reads `rt` there after the growth; `clone_and_grow` zero-fills); the
    clusters the new refblock and table are put on are free; the refblock offset fits
    64 bits. -/
theorem growth_noUnder (rtIdx : Nat) (d d1 : Dev) (o n : Nat) (h9 : 9 ≤ d.info.cb) (hA : Acct d)
    (hle : d.rtLen ≤ rtIdx) (htail : ∀ i, d.rtLen < i → d.rt.get i = 0#64)
    (hfree : ∀ c, d.rtLen * d.info.rbEntries ≤ c →
      c ≤ d.rtLen * d.info.rbEntries + growNewCl d rtIdx → d.rc.get c = 0)
    (h64 : d.rtLen * d.info.rbEntries * d.info.clusterSize < 2^64)
    (hg : growReftable rtIdx d = (d1, .ok (some (o, n)))) :
    (∀ c, d1.rc.get c = d1.refs c + d.refsRtTable c) ∧ NoUnder d1 := by
  rcases growReftable_cases hg with ⟨_, _, hr⟩ | ⟨_, _, rfl, _⟩ | ⟨_, _, _, hr⟩
  · cases hr
  · have := growRelocated_acctPlus h9 hA hle htail hfree h64
    exact ⟨this, this.noUnder⟩
  · cases hr

/-- the new refblock and the clusters of the new table have refcount exactly 1 and are
    referenced exactly once: the refblock by `rt[rtLen]`, the table by the header -/
theorem growth_new_clusters (rtIdx : Nat) (d d1 : Dev) (o n : Nat) (h9 : 9 ≤ d.info.cb) (hA : Acct d)
    (hle : d.rtLen ≤ rtIdx) (htail : ∀ i, d.rtLen < i → d.rt.get i = 0#64)
    (hfree : ∀ c, d.rtLen * d.info.rbEntries ≤ c →
      c ≤ d.rtLen * d.info.rbEntries + growNewCl d rtIdx → d.rc.get c = 0)
    (h64 : d.rtLen * d.info.rbEntries * d.info.clusterSize < 2^64)
    (hg : growReftable rtIdx d = (d1, .ok (some (o, n)))) :
    ∀ c, d.rtLen * d.info.rbEntries ≤ c → c ≤ d.rtLen * d.info.rbEntries + growNewCl d rtIdx →
      d1.rc.get c = 1 ∧ d1.refs c = 1 ∧
      d1.refsRefblocks c = (if c = d.rtLen * d.info.rbEntries then 1 else 0) ∧
      d1.refsRtTable c = (if c = d.rtLen * d.info.rbEntries then 0 else 1) := by
  intro c c1 c2
  obtain ⟨hP, _⟩ := growth_noUnder rtIdx d d1 o n h9 hA hle htail hfree h64 hg
  rcases growReftable_cases hg with ⟨_, _, hr⟩ | ⟨_, _, rfl, _⟩ | ⟨_, _, _, hr⟩
  · cases hr
  · have h0 := hfree c c1 c2
    obtain ⟨n1, n2, n3, n4, n5⟩ := acct_free_no_refs hA h0
    have hpos := acct_free_ne_zero hA h0
    have hrc : (growRelocated d rtIdx).rc.get c = 1 := by
      show (growRc d.rc _ _).get c = 1
      rw [growRc_get, if_pos (by omega)]
    have hPc := hP c
    rw [hrc, n2] at hPc
    have hT : (growRelocated d rtIdx).refsRtTable c =
        if d.rtLen * d.info.rbEntries + 1 ≤ c ∧
          c < d.rtLen * d.info.rbEntries + 1 + growNewCl d rtIdx then 1 else 0 := by
      show (if (d.rtLen * d.info.rbEntries * d.info.clusterSize + d.info.clusterSize)
          / d.info.clusterSize ≤ c ∧
        c < (d.rtLen * d.info.rbEntries * d.info.clusterSize + d.info.clusterSize) / d.info.clusterSize
          + growNewCl d rtIdx then 1 else 0) = _
      rw [add_cs_div, Nat.mul_div_cancel _ (cs_pos d.info)]
    have hL1 : (growRelocated d rtIdx).refsL1Table c = d.refsL1Table c := rfl
    have hL2 : (growRelocated d rtIdx).refsL2Tables c = d.refsL2Tables c := rfl
    have hD : (growRelocated d rtIdx).refsData c = d.refsData c := rfl
    have hsum : (growRelocated d rtIdx).refs c = 1 := by omega
    refine ⟨hrc, hsum, ?_, ?_⟩
    · unfold Dev.refs Dev.refsHeader at hsum
      rw [hT, hL1, hL2, hD, n1, n4, n5, if_neg (by omega)] at hsum
      by_cases hc : c = d.rtLen * d.info.rbEntries
      · rw [if_pos hc]; rw [if_neg (by omega)] at hsum; omega
      · rw [if_neg hc]; rw [if_pos (by omega)] at hsum; omega
    · rw [hT]
      by_cases hc : c = d.rtLen * d.info.rbEntries
      · rw [if_pos hc, if_neg (by omega)]
      · rw [if_neg hc, if_pos (by omega)]
  · cases hr

/-- **accounting through the relocation**: exact accounting before, the RAM table as
    long as the table on disk (`hsync`; then the clusters handed back are exactly the old
    table's), zero entries beyond the table, the new region free ⟹ after
    `grow_reftable` and the release of the old table the accounting is exact again:
    the relocation neither leaks nor under-counts. -/
theorem growth_acct (rtIdx : Nat) (d d1 d2 : Dev) (o n : Nat) (h9 : 9 ≤ d.info.cb) (hA : Acct d)
    (hle : d.rtLen ≤ rtIdx)
    (hsync : d.rtLen * 8 = d.hdrRtClusters * d.info.clusterSize)
    (htail : ∀ i, d.rtLen < i → d.rt.get i = 0#64)
    (hfree : ∀ c, d.rtLen * d.info.rbEntries ≤ c →
      c ≤ d.rtLen * d.info.rbEntries + growNewCl d rtIdx → d.rc.get c = 0)
    (h64 : d.rtLen * d.info.rbEntries * d.info.clusterSize < 2^64)
    (hg : growReftable rtIdx d = (d1, .ok (some (o, n))))
    (hf : freeClusters o n true d1 = (d2, .ok ())) : Acct d2 :=
  growth_acct_aux h9 hA hle hsync htail hfree h64 hg hf

/-- without `hsync` the clusters handed back are not the old table's: when the RAM table
    is shorter than the table on disk and the relocation is taken because the index lies
    beyond the disk table, fewer clusters are released than the header referenced — the
    rest of the old table stays allocated and unreferenced (a leak, not an under-count) -/
theorem growth_partial_release (d : Dev)
    (hshort : d.rtLen * 8 + d.info.clusterSize ≤ d.hdrRtClusters * d.info.clusterSize) :
    growOldCl d < d.hdrRtClusters := by
  unfold growOldCl
  rw [Nat.div_lt_iff_lt_mul (cs_pos _)]
  have := cs_pos d.info
  omega

/-- **`ensure_refblock_offset` with relocation keeps exact accounting**, and it does
    succeed when the old table's clusters have refblocks (`hcov`).  `hfree2`: for an
    index beyond `rtLen` the refblock of the index is created too, on a free cluster. -/
theorem ensureRefblock_growth_acct (off : Nat) (d : Dev) (h9 : 9 ≤ d.info.cb) (hA : Acct d)
    (hoob : d.rtLen ≤ Host.rtIndex d.info off)
    (hsync : d.rtLen * 8 = d.hdrRtClusters * d.info.clusterSize)
    (hfit : GrowFits d (Host.rtIndex d.info off))
    (htail : ∀ i, d.rtLen < i → d.rt.get i = 0#64)
    (hfree : ∀ c, d.rtLen * d.info.rbEntries ≤ c →
      c ≤ d.rtLen * d.info.rbEntries + growNewCl d (Host.rtIndex d.info off) → d.rc.get c = 0)
    (hfree2 : Host.rtIndex d.info off ≠ d.rtLen →
      d.rc.get (Host.rtIndex d.info off * d.info.rbEntries) = 0)
    (h64 : Host.rtIndex d.info off * d.info.rbEntries * d.info.clusterSize < 2^64) :
    (∀ d', ensureRefblock off d = (d', .ok ()) → Acct d') ∧
    ((∀ k, k < d.hdrRtClusters → ¬ RT.isZero (rtEntryAt d (d.hdrRtOff + k * d.info.clusterSize))) →
      ∃ d', ensureRefblock off d = (d', .ok ()) ∧ Acct d' ∧
        d'.rtLen = growNewSize d (Host.rtIndex d.info off) / 8 ∧
        d'.hdrRtOff = d.rtLen * d.info.rbEntries * d.info.clusterSize + d.info.clusterSize ∧
        d'.hdrRtClusters = growNewCl d (Host.rtIndex d.info off) ∧
        ¬ RT.isZero (rtEntryAt d' off) ∧
        (∀ c, d'.rc.get c =
          (if (d.rtLen * d.info.rbEntries ≤ c ∧
              c ≤ d.rtLen * d.info.rbEntries + growNewCl d (Host.rtIndex d.info off)) ∨
             c = Host.rtIndex d.info off * d.info.rbEntries then 1 else d.rc.get c)
          - d.refsRtTable c)) := by
  obtain ⟨d2, he, hP, hi, hl, ho, hc, hkeep, hnz, hrc2⟩ :=
    ensureRefblock_growth_mid h9 hA hoob hsync hfit htail hfree hfree2 h64
  have hold : growOldCl d = d.hdrRtClusters := by
    unfold growOldCl; rw [hsync]; exact ceil_of_mul _ _ (cs_pos _)
  have hlen : Host.rtIndex d.info off < d2.rtLen := by
    rw [hl]; have := growNewSize_covers d (Host.rtIndex d.info off); omega
  refine ⟨fun d' h => ?_, fun hcov => ?_⟩
  · rw [he] at h
    exact acct_of_release_old hsync hi hP h
  · have hex : ∃ d', freeClusters d.hdrRtOff (growOldCl d) true d2 = (d', .ok ()) := by
      apply freeClusters_succeeds
      · intro k hk
        rw [hold] at hk
        have := hcov k hk
        rw [hi]
        unfold rtEntryAt at this ⊢
        rw [hi]
        by_cases hx : Host.rtIndex d.info (d.hdrRtOff + k * d.info.clusterSize) < d.rtLen
        · rw [if_pos hx] at this
          rw [if_pos (by omega), hkeep _ hx]; exact this
        · rw [if_neg hx] at this
          exact absurd rt_isZero_zero' this
      · intro k k1 k2
        rw [hi] at k1 k2
        rw [hold] at k2
        have := hP k
        unfold Dev.refsRtTable at this
        rw [if_pos (show d.hdrRtOff / d.cs ≤ k ∧ k < d.hdrRtOff / d.cs + d.hdrRtClusters from ⟨k1, k2⟩)]
          at this
        omega
    obtain ⟨d', hd'⟩ := hex
    have hfr := (freeClusters_frame d.hdrRtOff (growOldCl d) true d2).1
    rw [hd'] at hfr
    dsimp only at hfr
    refine ⟨d', he.trans hd', acct_of_release_old hsync hi hP hd', ?_, ?_, ?_, ?_, ?_⟩
    · rw [hfr]; exact hl
    · rw [hfr]; exact ho
    · rw [hfr]; exact hc
    · rw [hfr]
      unfold rtEntryAt
      show ¬ RT.isZero (if Host.rtIndex d2.info off < d2.rtLen then d2.rt.get (Host.rtIndex d2.info off)
        else 0#64) = true
      rw [hi, if_pos hlen]
      exact hnz
    · intro c
      obtain ⟨a, _⟩ := freeClusters_ok hd'
      rw [a c, hi, hold, ← hrc2 c]
      unfold Dev.refsRtTable
      show _ = d2.rc.get c - (if d.hdrRtOff / d.info.clusterSize ≤ c ∧
        c < d.hdrRtOff / d.info.clusterSize + d.hdrRtClusters then 1 else 0)
      split <;> rfl

/-! ## (e) `ensure_refblock_offset` as a whole -/

/-- in bounds nothing of the growth machinery runs: success, `info` / `rtLen` / header
    unchanged, the state is `d` or `d` with the refblock of the index created -/
theorem ensureRefblock_in_bounds (off : Nat) (d : Dev) (hlt : Host.rtIndex d.info off < d.rtLen) :
    ∃ d', ensureRefblock off d = (d', .ok ()) ∧ d'.info = d.info ∧ d'.rtLen = d.rtLen ∧
      d'.hdrRtClusters = d.hdrRtClusters ∧ d'.hdrRtOff = d.hdrRtOff ∧
      (d' = d ∨ d' = withRefblockAt d (Host.rtIndex d.info off)) := by
  rw [ensureRefblock_inb hlt]
  exact ensureRefblockIn_inb hlt

/-- any call: `info` kept; `rtLen` never decreases; the growth bound never rises; after
    success the index is inside the table; no panic; the error is `unsupported` (growth
    refused), or — only after a relocation — an error of the release of the old table -/
theorem ensureRefblock_summary (off : Nat) (d : Dev) :
    (ensureRefblock off d).1.info = d.info ∧ d.rtLen ≤ (ensureRefblock off d).1.rtLen ∧
    rtCap (ensureRefblock off d).1 ≤ rtCap d ∧
    (∀ u, (ensureRefblock off d).2 = .ok u →
      Host.rtIndex d.info off < (ensureRefblock off d).1.rtLen) ∧
    (∀ e, (ensureRefblock off d).2 = .err e → e = .unsupported ∨
      (¬ Host.rtIndex d.info off < d.rtLen ∧ ¬ NoGrow d ∧ (e = .other ∨ e = .invalid))) ∧
    (∀ p, (ensureRefblock off d).2 ≠ .panic p) :=
  ensureRefblock_facts off d

/-- a call for an index beyond the table is refused without any change, or makes the
    table strictly longer (even if it then fails while releasing the old table) -/
theorem ensureRefblock_beyond (off : Nat) (d : Dev) (h : ¬ Host.rtIndex d.info off < d.rtLen) :
    ensureRefblock off d = (d, .err .unsupported) ∨ d.rtLen < (ensureRefblock off d).1.rtLen :=
  ensureRefblock_oob_grows h

/-- when the table cannot grow (`NoGrow`: RAM table as long as the disk table and no room
    for one more cluster) the behaviour is the one before the growth code existed -/
theorem ensureRefblock_noGrow (off : Nat) (d : Dev) (hn : NoGrow d) :
    (ensureRefblock off d).1.info = d.info ∧ (ensureRefblock off d).1.rtLen = d.rtLen ∧
    (ensureRefblock off d).1.hdrRtClusters = d.hdrRtClusters ∧
    (∀ u, (ensureRefblock off d).2 = .ok u → Host.rtIndex d.info off < d.rtLen) ∧
    (∀ e, (ensureRefblock off d).2 = .err e → e = .unsupported) ∧
    (∀ p, (ensureRefblock off d).2 ≠ .panic p) :=
  ensureRefblock_facts_noGrow off d hn

/-! ## non-vacuity

`fmtEx` (C03): 1 GiB, 64 KiB clusters, 16-bit refcounts, freshly formatted: header,
reftable (1 cluster = 8192 entries, at 0x10000), refblock, L1 table in clusters 0..3;
`Acct fmtEx` is proved there.  Entry 8192 is the first one beyond the table; the host
range it describes starts at 8192 · 32768 · 64 KiB = 2^44. -/

open Qv.Props.C03 (fmtEx fmtEx_acct fmtEx_rc)
open Qv.Props.C08 (geomEx)

/-- the arithmetic of the relocation for index 8192: new table of 2 clusters (16384
    entries), one old cluster handed back, new refblock at cluster 2^28 -/
example : ¬ GrowInPlace fmtEx 8192 ∧ GrowFits fmtEx 8192 ∧ growNewSize fmtEx 8192 = 131072 ∧
    growNewCl fmtEx 8192 = 2 ∧ growOldCl fmtEx = 1 ∧ fmtEx.rtLen * fmtEx.info.rbEntries = 2^28 ∧
    Host.rtIndex fmtEx.info (2^44) = 8192 ∧ ¬ NoGrow fmtEx ∧ rtCap fmtEx = 268419072 := by decide

/-- `growReftable` takes the relocate branch on `fmtEx` -/
example : ∃ d', growReftable 8192 fmtEx = (d', .ok (some (0x10000, 1))) ∧ d'.rtLen = 16384 ∧
    d'.hdrRtOff = 2^44 + 0x10000 ∧ d'.hdrRtClusters = 2 ∧
    d'.rc.get (2^28) = 1 ∧ d'.rc.get (2^28 + 2) = 1 ∧ d'.rc.get (2^28 + 3) = 0 ∧ d'.rc.get 1 = 1 := by
  obtain ⟨d', h, a, b, c, _, e, _⟩ := growReftable_relocate 8192 fmtEx (by decide) (by decide)
  have e0 : fmtEx.rtLen * fmtEx.info.rbEntries = 2^28 := by decide
  have eN : growNewCl fmtEx 8192 = 2 := by decide
  rw [e0, eN] at e
  refine ⟨d', h, ?_, ?_, ?_, ?_, ?_, ?_, ?_⟩
  · rw [a]; decide
  · rw [b]; decide
  · rw [c]; decide
  · rw [e, if_pos (by omega)]
  · rw [e, if_pos (by omega)]
  · rw [e, if_neg (by omega), fmtEx_rc]; rfl
  · rw [e, if_neg (by omega), fmtEx_rc]; rfl

/-- the in-place branch: the same image opened with a RAM table of 4096 entries -/
example : growReftable 5000 { fmtEx with rtLen := 4096 } =
    ({ fmtEx with rtLen := 8192 }, .ok none) :=
  growReftable_inplace 5000 _ (by decide)

/-- the unsupported branch: an index whose table would not fit one refblock slice -/
example : growReftable (2^24) fmtEx = (fmtEx, .err .unsupported) :=
  growReftable_unsupported _ _ (by decide) (by decide)

theorem fmtEx_rt_tail (i : Nat) (h : fmtEx.rtLen < i) : fmtEx.rt.get i = 0#64 := by
  have h1 : fmtEx.rtLen = 8192 := rfl
  show ((FMap.empty 0#64).set 0 0x20000#64).get i = 0#64
  rw [FMap.get_set_other _ _ _ _ (by omega), FMap.get_empty]

/-- `ensureRefblock_growth_acct` / `growth_acct` are not vacuous: the first allocation
    beyond the 2^44 bytes the table of `fmtEx` covers relocates the table, succeeds, and
    the accounting is exact afterwards; the old table's cluster 1 is free again -/
example : ∃ d', ensureRefblock (2^44) fmtEx = (d', .ok ()) ∧ Acct d' ∧ d'.rtLen = 16384 ∧
    d'.hdrRtOff = 2^44 + 0x10000 ∧ d'.hdrRtClusters = 2 ∧ ¬ RT.isZero (rtEntryAt d' (2^44)) ∧
    d'.rc.get 1 = 0 ∧ d'.rc.get (2^28) = 1 := by
  have hidx : Host.rtIndex fmtEx.info (2^44) = 8192 := by decide
  obtain ⟨_, hsucc⟩ := ensureRefblock_growth_acct (2^44) fmtEx (by decide) fmtEx_acct (by decide)
    (by decide) (by decide) fmtEx_rt_tail
    (by intro c c1 c2
        have e0 : fmtEx.rtLen * fmtEx.info.rbEntries = 2^28 := by decide
        rw [e0] at c1
        rw [fmtEx_rc, if_neg (by omega)])
    (by intro hne; exact absurd (by decide) hne) (by decide)
  obtain ⟨d', h, hA, a, b, c, e, hrc⟩ := hsucc (by
    intro k hk
    have hk0 : k = 0 := by have : fmtEx.hdrRtClusters = 1 := rfl; omega
    subst hk0
    exact Qv.Props.C03.fmt_rt fmtEx rfl rfl rfl _ (by decide))
  refine ⟨d', h, hA, ?_, ?_, ?_, e, ?_, ?_⟩
  · rw [a]; decide
  · rw [b]; decide
  · rw [c]; decide
  · -- cluster 1 was the old table
    have e0 : fmtEx.rtLen * fmtEx.info.rbEntries = 2^28 := by decide
    rw [hrc 1, hidx, e0, if_neg (by omega), fmtEx_rc]
    decide
  · have e0 : fmtEx.rtLen * fmtEx.info.rbEntries = 2^28 := by decide
    rw [hrc (2^28), hidx, e0, if_pos (by omega)]
    decide

end Qv.Props.C12
