import Qv.Proofs.Frames
/-
C10 — read-only sources are never written.

The sources a qcow2 device reads but must never modify are the backing chain
(`Dev.back`: its flattened guest content) and the compressed clusters
(`Dev.comp`: their plaintext); with them the geometry (`info`) and the format
version are immutable.  `SameBack d d'` (Qv/Proofs/Frames.lean) says exactly
that these four components are equal.

1. frame: every state-changing function of the model keeps `SameBack`, whatever
   its outcome (`ok`, `err`, `panic` — side effects of a failed operation
   included); hence every history of writes / discards / flushes does.
2. a read-only device never changes at all.
3. the COW merge: what a copy-on-write from the backing image / from a
   compressed cluster leaves in the new data cluster, and that nothing else
   of the data plane is touched.
-/
namespace Qv.Props.C10
open Qv Qv.Model Qv.Codec

/-! ## 1. frame of every function (bottom-up, as in dev/alloc.rs, dev/write.rs, dev/discard.rs) -/

theorem ensureRefblock_sameBack (off : Nat) (d : Dev) : SameBack d (ensureRefblock off d).1 :=
  (ensureRefblock_fr off).same d
theorem allocRange_sameBack (c0 s n : Nat) (d : Dev) : SameBack d (allocRange c0 s n d).1 :=
  (allocRange_fr c0 s n).same d
theorem tryAllocFromRbSlice_sameBack (off count : Nat) (fixed : Bool) (d : Dev) :
    SameBack d (tryAllocFromRbSlice off count fixed d).1 := (tryAlloc_fr off count fixed).same d
theorem freeClusters_sameBack (host n : Nat) (fz : Bool) (d : Dev) :
    SameBack d (freeClusters host n fz d).1 := (freeClusters_fr host n fz).same d
theorem tryAllocateLoop_sameBack (rbEnd allocCnt fuel host count outOff done : Nat) (d : Dev) :
    SameBack d (tryAllocateLoop rbEnd allocCnt fuel host count outOff done d).1 :=
  (tryAllocateLoop_fr rbEnd allocCnt fuel host count outOff done).same d
theorem tryAllocateFrom_sameBack (host allocCnt : Nat) (d : Dev) :
    SameBack d (tryAllocateFrom host allocCnt d).1 := (tryAllocateFrom_fr host allocCnt).same d
theorem allocateLoop_sameBack (count fuel hostOff : Nat) (d : Dev) :
    SameBack d (allocateLoop count fuel hostOff d).1 := (allocateLoop_fr count fuel hostOff).same d
theorem allocateClusters_sameBack (count : Nat) (d : Dev) : SameBack d (allocateClusters count d).1 :=
  (allocateClusters_fr count).same d
theorem markNewData_sameBack (h : Nat) (d : Dev) : SameBack d (markNewData h d).1 :=
  (markNewData_fr h).same d
theorem ensureL2_sameBack (off : Nat) (d : Dev) : SameBack d (ensureL2 off d).1 :=
  (ensureL2_fr off).same d
theorem releaseZeroPrealloc_sameBack (old : E64) (d : Dev) : SameBack d (releaseZeroPrealloc old d).1 :=
  (releaseZeroPrealloc_fr old).same d
theorem allocAndMap_sameBack (off : Nat) (d : Dev) : SameBack d (allocAndMap off d).1 :=
  (allocAndMap_fr off).same d
theorem makeSingleWriteMapping_sameBack (off : Nat) (d : Dev) :
    SameBack d (makeSingleWriteMapping off d).1 := (makeSingleWriteMapping_fr off).same d
theorem populateSingle_sameBack (off : Nat) (d : Dev) : SameBack d (populateSingle off d).1 :=
  (populateSingle_fr off).same d
theorem mapRun_sameBack (cstart ccnt stop fuel this idx : Nat) (acc : List E64) (d : Dev) :
    SameBack d (mapRun cstart ccnt stop fuel this idx acc d).1 :=
  (mapRun_fr cstart ccnt stop fuel this idx acc).same d
theorem makeMultiple_sameBack (start stop : Nat) (d : Dev) : SameBack d (makeMultiple start stop d).1 :=
  (makeMultiple_fr start stop).same d
theorem makeMultiples_sameBack (stop fuel start : Nat) (acc : List E64) (d : Dev) :
    SameBack d (makeMultiples stop fuel start acc d).1 := (makeMultiples_fr stop fuel start acc).same d
theorem zeroCluster_sameBack (h : Nat) (d : Dev) : SameBack d (zeroCluster h d).1 :=
  (zeroCluster_fr h).same d
theorem writeSectors_sameBack (h : Nat) (toks : List Nat) (d : Dev) : SameBack d (writeSectors h toks d).1 :=
  (writeSectors_fr h toks).same d
theorem doWriteDataFile_sameBack (off : Nat) (m : Mapping) (cow : Option Mapping) (toks : List Nat) (d : Dev) :
    SameBack d (doWriteDataFile off m cow toks d).1 := (doWriteDataFile_fr off m cow toks).same d
theorem doWriteCow_sameBack (off : Nat) (m : Mapping) (toks : List Nat) (d : Dev) :
    SameBack d (doWriteCow off m toks d).1 := (doWriteCow_fr off m toks).same d
theorem doWrite_sameBack (e : E64) (off : Nat) (toks : List Nat) (d : Dev) :
    SameBack d (doWrite e off toks d).1 := (doWrite_fr e off toks).same d
theorem doWrites_sameBack (ps : List (Nat × Nat)) (es : List E64) (toks : List Nat) (d : Dev) :
    SameBack d (doWrites ps es toks d).1 := (doWrites_fr ps es toks).same d
theorem discardOne_sameBack (g : Nat) (d : Dev) : SameBack d (discardOne g d).1 :=
  (discardOne_fr g).same d
theorem discardLoop_sameBack (stop fuel g : Nat) (d : Dev) : SameBack d (discardLoop stop fuel g d).1 :=
  (discardLoop_fr stop fuel g).same d

/-- a write — accepted, rejected, failed half-way or panicked — leaves the backing
    chain, the compressed plaintext, the geometry and the version alone -/
theorem writeAt_sameBack (off len : Nat) (toks : List Nat) (d : Dev) :
    SameBack d (writeAt off len toks d).1 := (writeAt_fr off len toks).same d

theorem discard_sameBack (off len : Nat) (d : Dev) : SameBack d (Model.discard off len d).1 :=
  (discard_fr off len).same d

theorem flushMeta_sameBack (d : Dev) : SameBack d (flushMeta d).1 := flushMeta_fr.same d

/-- no history of operations on the top device changes the backing content -/
theorem run_sameBack (d : Dev) (ops : List Op) : SameBack d (run d ops) := run_sameBack_aux d ops

/-- hence whatever is read *from a read-only source* (every mapping that is not
    a data-file mapping: backing, compressed, zero, unallocated) reads the same
    after any history, through the same entry -/
theorem doRead_readonly_source_stable (d d' : Dev) (h : SameBack d d') (e : E64) (off n : Nat)
    (hsrc : (L2.intoMapping d.info.cb d.info.hasBack
              (Split.clusterOffset d.info (off - d.info.inClusterOffset off)) e).source ≠ .dataFile) :
    doRead d' e off n = doRead d e off n := by
  obtain ⟨hb, hc, hi, _⟩ := h
  unfold doRead compressedPlain Dev.spc
  dsimp only
  rw [hi, hb, hc]
  split
  · rename_i hs; exact absurd hs hsrc
  all_goals rfl

theorem run_readonly_source_stable (d : Dev) (ops : List Op) (e : E64) (off n : Nat)
    (hsrc : (L2.intoMapping d.info.cb d.info.hasBack
              (Split.clusterOffset d.info (off - d.info.inClusterOffset off)) e).source ≠ .dataFile) :
    doRead (run d ops) e off n = doRead d e off n :=
  doRead_readonly_source_stable d _ (run_sameBack d ops) e off n hsrc

/-! ## 2. a read-only device (every backing image is one) never changes -/

theorem ro_step (d : Dev) (op : Op) (h : d.info.readOnly = true) :
    step d op = d ∨ (op = .flush ∧ step d op = { d with needFlush := false }) := by
  cases op with
  | write off len toks =>
    obtain ⟨e, he⟩ := Qv.Props.C13.ro_rejects_write d off len toks h
    left; show (writeAt off len toks d).1 = d; rw [he]
  | discard off len =>
    left; show (Model.discard off len d).1 = d; rw [Qv.Props.C13.ro_rejects_discard d off len h]
  | flush => right; exact ⟨rfl, rfl⟩

/-- every field except possibly `needFlush` is unchanged by any history, and the
    flag can only be cleared (by a flush), never set -/
theorem ro_device_never_changes (d : Dev) (ops : List Op) (h : d.info.readOnly = true) :
    run d ops = { d with needFlush := (run d ops).needFlush } ∧
    ((run d ops).needFlush = true → d.needFlush = true) := by
  induction ops generalizing d with
  | nil => exact ⟨rfl, id⟩
  | cons op ops ih =>
    show run (step d op) ops = { d with needFlush := (run (step d op) ops).needFlush } ∧
      ((run (step d op) ops).needFlush = true → d.needFlush = true)
    rcases ro_step d op h with h1 | ⟨_, h1⟩
    · rw [h1]; exact ih d h
    · rw [h1]
      obtain ⟨a, b⟩ := ih { d with needFlush := false } h
      refine ⟨?_, fun hx => absurd (b hx) (by simp)⟩
      rw [a]

/-- with a clean flag to start with: full equality -/
theorem ro_device_never_changes_clean (d : Dev) (ops : List Op) (h : d.info.readOnly = true)
    (hnf : d.needFlush = false) : run d ops = d := by
  obtain ⟨a, b⟩ := ro_device_never_changes d ops h
  have : (run d ops).needFlush = false := by
    cases hx : (run d ops).needFlush with
    | false => rfl
    | true => rw [b hx] at hnf; cases hnf
  rw [a, this, ← hnf]

/-! ## 3. the COW merge -/

/-- sectors of the backing image whose end lies beyond its virtual size read as
    zeros ("zeros beyond a shorter backing image") … -/
theorem backRead_beyond (b : Back) (off n k : Nat) (h : b.vsize < off + k * 512 + 512) :
    (backRead b off n).getD k 0 = 0 := by
  rw [getD_backRead]
  have : ¬ (k < n ∧ off + k * 512 + 512 ≤ b.vsize) := by omega
  rw [if_neg this]

/-- … and those inside are the backing content -/
theorem backRead_inside (b : Back) (off n k : Nat) (hk : k < n) (h : off + k * 512 + 512 ≤ b.vsize) :
    (backRead b off n).getD k 0 = b.sec (off / 512 + k) := by
  rw [getD_backRead, if_pos ⟨hk, h⟩]

/-- common part: COW into a still-new cluster `host` from source `cm`
    (compressed or backing) produces, in the data plane, exactly the source cluster
    with the request laid over it, in `[host/512, host/512 + spc)`, and nothing
    else; the cluster leaves the new-cluster set; no other field changes -/
theorem cow_merge (d : Dev) (off host : Nat) (m cm : Mapping) (toks : List Nat)
    (hm : m.clusterOffset = some host)
    (hnew : d.newData.contains (host / d.cs) = true)
    (hsrc : cm.source = .compressed ∨ cm.source = .backing) :
    let d' := (doWriteDataFile off m (some cm) toks d).1
    let inSec := d.info.inClusterOffset off / 512
    (∀ k, k < d.spc → d'.data.get (host / 512 + k) =
        if inSec ≤ k ∧ k < inSec + toks.length then toks.getD (k - inSec) 0
        else (cowBase d off cm).getD k 0) ∧
    (∀ j, j < host / 512 ∨ host / 512 + d.spc ≤ j → d'.data.get j = d.data.get j) ∧
    d'.newData = d.newData.filter (· ≠ host / d.cs) ∧
    d' = { d with data := d'.data, newData := d'.newData } ∧
    (doWriteDataFile off m (some cm) toks d).2
      = (if cm.source = .backing ∧ d.back.isNone then .err .other else .ok ()) := by
  unfold Dev.cs at hnew ⊢
  rw [doWriteDataFile_cow_state d off host m cm toks hm hnew hsrc]
  dsimp only
  refine ⟨?_, ?_, rfl, rfl, rfl⟩
  · intro k hk
    rw [FMap.get_setRange_inside _ _ _ _ _ hk, getD_cowMerged _ _ _ _ _ hk]
  · intro j hj
    rw [FMap.get_setRange_outside' _ _ _ _ _ hj, FMap.get_setRange_outside' _ _ _ _ _ hj]

/-- COW from the backing image: the new cluster holds the request over the
    backing content of the guest cluster (zeros beyond a shorter backing image,
    by `backRead_beyond`); the backing image itself is only read -/
theorem cow_source_backing (d : Dev) (off host : Nat) (m cm : Mapping) (toks : List Nat) (b : Back)
    (hm : m.clusterOffset = some host)
    (hnew : d.newData.contains (host / d.cs) = true)
    (hsrc : cm.source = .backing) (hb : d.back = some b) :
    let d' := (doWriteDataFile off m (some cm) toks d).1
    let inCl := d.info.inClusterOffset off
    (∀ k, k < d.spc → d'.data.get (host / 512 + k) =
        if inCl / 512 ≤ k ∧ k < inCl / 512 + toks.length then toks.getD (k - inCl / 512) 0
        else (backRead b (off - inCl) d.spc).getD k 0) ∧
    (∀ j, j < host / 512 ∨ host / 512 + d.spc ≤ j → d'.data.get j = d.data.get j) ∧
    d'.newData = d.newData.filter (· ≠ host / d.cs) ∧
    d'.back = some b ∧ SameBack d d' ∧
    (doWriteDataFile off m (some cm) toks d).2 = .ok () := by
  obtain ⟨h1, h2, h3, h4, h5⟩ := cow_merge d off host m cm toks hm hnew (Or.inr hsrc)
  have hbase : cowBase d off cm = backRead b (off - d.info.inClusterOffset off) d.spc := by
    unfold cowBase
    rw [hsrc, hb]; rfl
  rw [hbase] at h1
  refine ⟨h1, h2, h3, ?_, doWriteDataFile_sameBack _ _ _ _ _, ?_⟩
  · rw [(doWriteDataFile_sameBack off m (some cm) toks d).1, hb]
  · rw [h5, hb]; simp

/-- COW from a compressed cluster: the new cluster holds the request over the
    decompressed plaintext; the compressed data is only read -/
theorem cow_source_compressed (d : Dev) (off host : Nat) (m cm : Mapping) (toks : List Nat)
    (hm : m.clusterOffset = some host)
    (hnew : d.newData.contains (host / d.cs) = true)
    (hsrc : cm.source = .compressed) :
    let d' := (doWriteDataFile off m (some cm) toks d).1
    let inCl := d.info.inClusterOffset off
    (∀ k, k < d.spc → d'.data.get (host / 512 + k) =
        if inCl / 512 ≤ k ∧ k < inCl / 512 + toks.length then toks.getD (k - inCl / 512) 0
        else (compressedPlain d cm).getD k 0) ∧
    (∀ j, j < host / 512 ∨ host / 512 + d.spc ≤ j → d'.data.get j = d.data.get j) ∧
    d'.newData = d.newData.filter (· ≠ host / d.cs) ∧
    d'.comp = d.comp ∧ SameBack d d' ∧
    (doWriteDataFile off m (some cm) toks d).2 = .ok () := by
  obtain ⟨h1, h2, h3, h4, h5⟩ := cow_merge d off host m cm toks hm hnew (Or.inl hsrc)
  have hbase : cowBase d off cm = compressedPlain d cm := by
    unfold cowBase; rw [if_pos hsrc]
  rw [hbase] at h1
  refine ⟨h1, h2, h3, (doWriteDataFile_sameBack _ _ _ _ _).2.1, doWriteDataFile_sameBack _ _ _ _ _, ?_⟩
  rw [h5, hsrc]; simp

/-! ## non-vacuity -/
open Qv.Props.C15 (infoEx)

example : SameBack exDev (run exDev [.write 0x10200 1024 [7, 8], .discard 0 0x20000, .flush]) :=
  run_sameBack _ _

/-- the example device: 64 KiB clusters, a backing image of 64 KiB + 1 sector
    whose sector `k` holds token `100 + k`, host cluster 5 freshly allocated -/
example : exDev.back = some exBack ∧ exDev.newData.contains (0x50000 / exDev.cs) = true ∧ exDev.spc = 128 :=
  ⟨rfl, by decide, by decide⟩

/-- COW of guest cluster 1 (guest sectors 128…255) into host cluster 5 with a
    2-sector request at in-cluster sector 1: sector 0 comes from the backing
    image (token 228), sectors 1–2 from the request, sector 3 lies beyond the end
    of the backing image and is zero; the sector before the cluster is untouched -/
example :
    let d' := (doWriteDataFile 0x10200 exMap (some exCow) [7, 8] exDev).1
    d'.data.get (0x50000 / 512 + 0) = 228 ∧ d'.data.get (0x50000 / 512 + 1) = 7 ∧ d'.data.get (0x50000 / 512 + 2) = 8 ∧
    d'.data.get (0x50000 / 512 + 3) = 0 ∧ d'.data.get 0x27f = exDev.data.get 0x27f ∧ d'.newData = [] ∧
    d'.back = some exBack := by
  dsimp only
  obtain ⟨h1, h2, h3, h4, _⟩ :=
    cow_source_backing exDev 0x10200 0x50000 exMap exCow [7, 8] exBack rfl (by decide) rfl rfl
  refine ⟨?_, ?_, ?_, ?_, h2 _ (Or.inl (by decide)), ?_, h4⟩
  · rw [h1 0 (by decide), getD_backRead]; decide
  · rw [h1 1 (by decide)]; decide
  · rw [h1 2 (by decide)]; decide
  · rw [h1 3 (by decide), getD_backRead]; decide
  · rw [h3]; decide

example : (backRead exBack 0x10000 128).getD 3 0 = 0 := backRead_beyond _ _ _ _ (by decide)
example : (backRead exBack 0x10000 128).getD 0 0 = 228 := by
  rw [backRead_inside _ _ _ _ (by decide) (by decide)]; decide

/-- COW from a compressed cluster whose plaintext sector `k` is `50 + k` -/
example :
    let d' := (doWriteDataFile 0x10200 exMap (some exCowC) [7, 8] exDev).1
    d'.data.get (0x50000 / 512 + 0) = 50 ∧ d'.data.get (0x50000 / 512 + 1) = 7 ∧ d'.data.get (0x50000 / 512 + 127) = 177 ∧
    d'.comp = exDev.comp := by
  dsimp only
  obtain ⟨h1, _, _, h4, _⟩ :=
    cow_source_compressed exDev 0x10200 0x50000 exMap exCowC [7, 8] rfl (by decide) rfl
  refine ⟨?_, ?_, ?_, h4⟩
  · rw [h1 0 (by decide), if_neg (by decide), getD_compressedPlain, if_pos (by decide)]
    exact exDev_comp 0 (by decide)
  · rw [h1 1 (by decide)]; decide
  · rw [h1 127 (by decide), if_neg (by decide), getD_compressedPlain, if_pos (by decide)]
    exact exDev_comp 127 (by decide)

/-- a read-only device and a history with all three kinds of operation -/
example : run exRo [.write 0 512 [1], .discard 0 0x20000, .flush, .write 512 512 [2]] = exRo :=
  ro_device_never_changes_clean _ _ rfl rfl
example : (run { exRo with needFlush := true } [.write 0 512 [1], .flush]).data = exRo.data := by
  rw [(ro_device_never_changes { exRo with needFlush := true } _ rfl).1]

end Qv.Props.C10
