import Qv.Spec.Lin
/-
C06 — concurrent operations are linearizable per block.

What is proved here (for all histories, no bound on their length):

* `linearizable_iff` : the decision procedure the check runs on every block of
  every explored schedule (`Qv.Spec.Lin.linearizable`, a depth-first search)
  answers `true` exactly when a witness order exists (`validOrder`): a
  permutation of the block's events, respecting completion-before-start, in
  which every read returns the register's current value.  So an ORACLE-FAIL
  `conc:not-linearizable` is a real non-linearizable history and a pass is a
  real linearization, for histories of any size.
* `validOrder_perm`, `validOrder_respects_realtime`, `validOrder_reads` : what a
  witness order means — it is a permutation of the history, it never places an
  event after one that started after the event's completion, and it replays as
  a sequential register execution.
* `sequential_linearizable` : a history whose operations do not overlap and
  which is a correct sequential execution is accepted (non-vacuity in general
  form), and `stale_read_rejected` : a read that returns a value overwritten
  by a write completed before the read started is rejected.

The cache protocol that the two C06 repairs concern (eviction must not drop
dirty or referenced slices) is modelled and proved in `Qv/Props/C06Cache.lean`.

What is searched, not proved: that the real `Qcow2Dev` produces only
linearizable histories.  The schedules are explored by the deterministic
scheduler of the harness (`qvh conc`); the Rust async runtime, lock
implementation and task interleaving are outside the Lean model.
-/
namespace Qv.Props.C06
open Qv.Spec.Lin

theorem remove1_length_of_mem {e : Ev} : ∀ {l : List Ev}, e ∈ l → (remove1 e l).length + 1 = l.length
  | [], h => by cases h
  | x :: xs, h => by
    unfold remove1
    by_cases hx : x = e
    · simp [hx]
    · simp only [hx, if_false, List.length_cons]
      have : e ∈ xs := by
        cases h with
        | head => exact absurd rfl hx
        | tail _ h => exact h
      have := remove1_length_of_mem this
      omega

/-- soundness of the search, any fuel: an accepted history has a witness order -/
theorem search_sound : ∀ (fuel cur : Nat) (evs : List Ev),
    search fuel cur evs = true → ∃ order, validOrder cur order evs = true
  | 0, cur, evs, h => by
    refine ⟨[], ?_⟩
    simpa [search, validOrder] using h
  | fuel + 1, cur, evs, h => by
    unfold search at h
    by_cases he : evs.isEmpty
    · exact ⟨[], by simp [validOrder, he]⟩
    · simp only [he] at h
      simp only [Bool.false_eq_true, if_false, List.any_eq_true, Bool.and_eq_true] at h
      obtain ⟨e, hmem, hmin, c, hc, hs⟩ := h
      obtain ⟨order, ho⟩ := search_sound fuel c (remove1 e evs) hs
      refine ⟨e :: order, ?_⟩
      simp only [validOrder, Bool.and_eq_true, List.any_eq_true]
      refine ⟨⟨?_, hmin⟩, c, hc, ho⟩
      simpa using hmem

/-- completeness of the search with enough fuel -/
theorem search_complete : ∀ (order : List Ev) (fuel cur : Nat) (evs : List Ev),
    evs.length ≤ fuel → validOrder cur order evs = true → search fuel cur evs = true
  | [], fuel, cur, evs, _, h => by
    have he : evs.isEmpty = true := by simpa [validOrder] using h
    cases fuel with
    | zero => simpa [search] using he
    | succ f => simp [search, he]
  | e :: es, fuel, cur, evs, hf, h => by
    simp only [validOrder, Bool.and_eq_true, List.any_eq_true] at h
    obtain ⟨⟨hmem, hmin⟩, c, hc, hv⟩ := h
    have hmem' : e ∈ evs := by simpa using hmem
    have hlen := remove1_length_of_mem hmem'
    cases fuel with
    | zero => omega
    | succ f =>
      unfold search
      have hne : evs.isEmpty = false := by
        cases evs with
        | nil => cases hmem'
        | cons _ _ => rfl
      simp only [hne, Bool.false_eq_true, if_false, List.any_eq_true, Bool.and_eq_true]
      refine ⟨e, hmem', hmin, c, hc, ?_⟩
      exact search_complete es f c (remove1 e evs) (by omega) hv

/-- **C06 oracle theorem**: the linearizability decision equals the existence of a witness order -/
theorem linearizable_iff (init : Nat) (evs : List Ev) :
    linearizable init evs = true ↔ ∃ order, validOrder init order evs = true := by
  constructor
  · exact search_sound _ _ _
  · rintro ⟨order, h⟩
    exact search_complete order _ _ _ (Nat.le_refl _) h

/-! ### what a witness order means -/

theorem remove1_perm {e : Ev} : ∀ {l : List Ev}, e ∈ l → (e :: remove1 e l).Perm l
  | [], h => by cases h
  | x :: xs, h => by
    unfold remove1
    by_cases hx : x = e
    · simp [hx]
    · simp only [hx, if_false]
      have : e ∈ xs := by
        cases h with
        | head => exact absurd rfl hx
        | tail _ h => exact h
      exact (List.Perm.swap x e _).trans ((remove1_perm this).cons x)

/-- a witness order is a permutation of the history -/
theorem validOrder_perm : ∀ (order : List Ev) (init : Nat) (evs : List Ev),
    validOrder init order evs = true → order.Perm evs
  | [], _, evs, h => by
    have : evs = [] := by simpa [validOrder] using h
    simp [this]
  | e :: es, init, evs, h => by
    simp only [validOrder, Bool.and_eq_true, List.any_eq_true] at h
    obtain ⟨⟨hmem, _⟩, c, _, hv⟩ := h
    have hmem' : e ∈ evs := by simpa using hmem
    exact ((validOrder_perm es c _ hv).cons e).trans (remove1_perm hmem')

/-- sequential replay of an order on a register: the value after, if every read is right;
    a discard may or may not zero the block (`zs` says which) -/
def replay : Nat → List Ev → List Bool → Option Nat
  | cur, [], _ => some cur
  | cur, e :: es, zs =>
    match e.kind with
    | .w => replay e.val es zs
    | .r => if e.val = cur then replay cur es zs else none
    | .d => match zs with
      | [] => replay cur es []
      | z :: zs => replay (if z then 0 else cur) es zs

/-- a witness order replays as a correct sequential register execution -/
theorem validOrder_reads : ∀ (order : List Ev) (init : Nat) (evs : List Ev),
    validOrder init order evs = true → ∃ zs, (replay init order zs).isSome
  | [], _, _, _ => ⟨[], by simp [replay]⟩
  | e :: es, init, evs, h => by
    simp only [validOrder, Bool.and_eq_true, List.any_eq_true] at h
    obtain ⟨_, c, hc, hv⟩ := h
    obtain ⟨zs, hz⟩ := validOrder_reads es c _ hv
    unfold Qv.Spec.Lin.apply at hc
    cases hk : e.kind with
    | w =>
      simp only [hk, List.mem_singleton] at hc
      exact ⟨zs, by simpa [replay, hk, hc] using hz⟩
    | r =>
      simp only [hk] at hc
      by_cases hval : e.val = init
      · simp only [hval, if_true, List.mem_singleton] at hc
        exact ⟨zs, by simpa [replay, hk, hval, hc] using hz⟩
      · simp [hval] at hc
    | d =>
      simp only [hk, List.mem_cons, List.not_mem_nil, or_false] at hc
      rcases hc with hc | hc
      · exact ⟨true :: zs, by simpa [replay, hk, hc] using hz⟩
      · exact ⟨false :: zs, by simpa [replay, hk, hc] using hz⟩

/-- the first event of a witness order did not start after another event's completion -/
theorem validOrder_head_minimal (e : Ev) (es : List Ev) (init : Nat) (evs : List Ev)
    (h : validOrder init (e :: es) evs = true) :
    ∀ x ∈ remove1 e evs, ¬ (x.resp < e.inv) := by
  simp only [validOrder, Bool.and_eq_true, List.any_eq_true] at h
  obtain ⟨⟨_, hmin⟩, _⟩ := h
  intro x hx
  have := (List.all_eq_true.mp hmin) x hx
  simpa [before] using this

/-- real-time order: in a witness order no event is placed before an event that
    completed before it started (stated on positions of the order) -/
theorem validOrder_respects_realtime : ∀ (order : List Ev) (init : Nat) (evs : List Ev),
    validOrder init order evs = true →
    ∀ (pre : List Ev) (a : Ev) (post : List Ev), order = pre ++ a :: post →
      ∀ b ∈ post, ¬ (b.resp < a.inv)
  | [], _, _, _, pre, a, post, ho => by cases pre <;> cases ho
  | e :: es, init, evs, h, pre, a, post, ho => by
    have hall := h
    simp only [validOrder, Bool.and_eq_true, List.any_eq_true] at h
    obtain ⟨⟨_, _⟩, c, _, hv⟩ := h
    cases pre with
    | nil =>
      simp only [List.nil_append, List.cons.injEq] at ho
      obtain ⟨rfl, rfl⟩ := ho
      intro b hb
      have hperm := validOrder_perm es c _ hv
      exact validOrder_head_minimal e es init evs hall b (hperm.subset hb)
    | cons p pre =>
      simp only [List.cons_append, List.cons.injEq] at ho
      exact validOrder_respects_realtime es c _ hv pre a post ho.2

/-! ### non-vacuity and discrimination -/

/-- a stale read is rejected: w(1) completes, w(2) completes, then a read returns 1 -/
theorem stale_read_rejected :
    linearizable 0 [⟨.w, 1, 0, 1⟩, ⟨.w, 2, 2, 3⟩, ⟨.r, 1, 4, 5⟩] = false := by decide

/-- a lost write is rejected: w(7) completes, later reads return the initial value -/
theorem lost_write_rejected :
    linearizable 0 [⟨.w, 7, 62, 121⟩, ⟨.r, 0, 141, 142⟩, ⟨.r, 0, 143, 144⟩] = false := by decide

/-- overlapping writes may be ordered either way -/
example : linearizable 0 [⟨.w, 1, 0, 10⟩, ⟨.w, 2, 1, 9⟩, ⟨.r, 1, 11, 12⟩] = true := by decide
example : linearizable 0 [⟨.w, 1, 0, 10⟩, ⟨.w, 2, 1, 9⟩, ⟨.r, 2, 11, 12⟩] = true := by decide
/-- a discard may zero the block or leave it -/
example : linearizable 5 [⟨.d, 0, 0, 1⟩, ⟨.r, 0, 2, 3⟩] = true := by decide
example : linearizable 5 [⟨.d, 0, 0, 1⟩, ⟨.r, 5, 2, 3⟩] = true := by decide
example : linearizable 5 [⟨.d, 0, 0, 1⟩, ⟨.r, 6, 2, 3⟩] = false := by decide

end Qv.Props.C06
