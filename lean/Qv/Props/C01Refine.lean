import Qv.Proofs.RefineWriteMulti
import Qv.Props.C09
/-
C01, model side: the refinement step of the device model `Qv.Model.Dev` against the flat
reference disk `Qv.Spec.Flat` for EVERY successful write — in place, allocating, or mixed —
of an image without backing file and without compressed clusters, when the reftable does
not grow; and the history theorem that follows from it.
Helper lemmas: `Qv/Proofs/RefineWrite.lean`, `Qv/Proofs/RefineWriteMulti.lean`.

* `WF`                      the well-formedness invariant (`Static`, `TabOK`, `MapOK`, `NewOK`);
* T1 `write_single_refines` a write inside one cluster (path `populate_single_write_mapping`
                            → `do_write`): already mapped, or unallocated / zero-flagged
                            (allocation, zero-once, payload), with or without L2 table;
* T2 `write_multi_refines`  a write spanning several clusters (`make_multiple_write_mappings`
                            → `do_writes`), every mixture of mapped and unmapped clusters;
*    `write_refines`        both, and the empty write;
* T3 `history_refines`      for a list of writes / reads / flushes from any well-formed state,
     `history_refines_flat` from a freshly formatted image: every read returns what the
                            flat disk returns;
*    `write_single_succeeds` a success criterion (the hypotheses "returned `Ok`, did not grow
                            the reftable" of T1 follow from the two allocations succeeding);
* non-vacuity: an allocating write on `withL2` (L2 table present) and a history on the
  formatted image `fmtEx` (L2 table missing);
*    `write_noncopied_loses_data`: the hypothesis "data clusters carry the COPIED flag" is
                            necessary — without it the step is false for the model as written.

Not covered: discards (C11 has no `Refines` statement for `discard`), backing files,
compressed clusters, writes that fail or grow the reftable, clamped reads.
-/
namespace Qv.Props.C01Refine
open Qv Qv.Codec Qv.Model Qv.Model.RW
open Qv.Props.C15 (Geom)
open Qv.Props.C11 (L1Distinct)
open Qv.Spec (Flat)

/-- Well-formedness of a device without backing file and without compressed clusters.

    * `st` (`Static`): the geometry equations `Geom d.info`; `9 ≤ block bits ≤ cluster_bits`;
      `rb_slice_bits ≤ cluster_bits`; no backing file (`has_back_file = false`, `back = none`);
      the area covered by the reftable is at most 2^56 bytes (so that every host offset
      handed out fits an L2 entry); the RAM L1 table covers the virtual size.
    * `tab` (`TabOK`): distinct L1 slots point to distinct L2 tables (`L1Distinct`), and
      the cluster of every L2 table has refcount ≥ 1.
    * `map` (`MapOK`): for every guest offset inside the virtual disk the L2 entry is not
      compressed, and if it maps to the data file then it is COPIED, cluster aligned, and
      its host cluster has refcount ≥ 1 (zero-flagged entries, with or without preallocation,
      are allowed); `MapInj`; cluster 0 (the header) has a non-zero refcount.
    * `new` (`NewOK`): no mapped cluster is still in the new-cluster list. -/
structure WF (d : Dev) : Prop where
  st : Static d
  tab : TabOK d
  map : MapOK d
  new : NewOK d

theorem mod512_of_mod_bs {i : Info} (h9 : 9 ≤ i.bsb) {x : Nat} (h : x % i.bs = 0) : x % 512 = 0 := by
  have hd : 512 ∣ i.bs := by
    unfold Info.bs
    have : i.bsb = 9 + (i.bsb - 9) := by omega
    rw [this, Nat.pow_add]
    exact Nat.dvd_mul_right _ _
  have := Nat.mod_mod_of_dvd x hd
  rw [h] at this
  simpa using this.symm

theorem WF.mInv {d : Dev} (wf : WF d) {f : Flat} (hr : Refines d f) (a b : Nat) : MInv f a b d :=
  ⟨wf.st, wf.tab, wf.map, refinesN_of_refines wf.new hr, fun o ho hn => absurd hn (wf.new o ho)⟩

/-! ## T1. a write inside one cluster -/

/-- **T1.**  `Refines d f`, `WF d`, an accepted non-empty request that stays inside one
    cluster, the write returned `Ok` and did not grow the reftable: then the device shows
    `f.write off toks`, and it is well-formed again.  The target cluster may be mapped
    already (in-place write) or not (unallocated or zero-flagged: `allocate_clusters`,
    zero-once of the new cluster, payload); its L2 table may be missing
    (`ensure_l2_offset` allocates it); the allocations may create refblocks. -/
theorem write_single_refines (d d' : Dev) (f : Flat) (off len : Nat) (toks : List Nat)
    (wf : WF d) (hr : Refines d f)
    (hc : writeCheck d.info off len = none) (hl : len ≠ 0)
    (hsingle : off / d.info.clusterSize = (off + len - 1) / d.info.clusterSize)
    (htoks : toks.length = len / 512)
    (hw : writeAt off len toks d = (d', .ok ())) (hng : d'.rtLen = d.rtLen) :
    WF d' ∧ Refines d' (f.write off toks) ∧ d'.info = d.info := by
  have hcs := cs_pos d.info
  obtain ⟨hv, hlb, hob, _⟩ := writeCheck_none hc
  have ho512 := mod512_of_mod_bs wf.st.bsb9 hob
  have hl512 := mod512_of_mod_bs wf.st.bsb9 hlb
  have hfit := single_cluster_fits hcs hsingle
  unfold writeAt at hw
  dsimp only at hw
  rw [hc] at hw
  dsimp only at hw
  rw [if_neg hl, if_pos hsingle] at hw
  generalize hps : populateSingle off d = r at hw
  obtain ⟨d1, (e | e | p)⟩ := r
  · dsimp only at hw
    have hm1 := (populateSingle_mono off).of_eq hps
    have hm2 := (doWrite_mono e off toks).of_eq hw
    generalize hrd : off / d.info.clusterSize * d.info.clusterSize = rd
    have hrdal : rd % d.info.clusterSize = 0 := by rw [← hrd]; exact Nat.mul_mod_left _ _
    have hrdal' : (rd + d.info.clusterSize) % d.info.clusterSize = 0 := by
      rw [Nat.add_mod_right]; exact hrdal
    have hrd1 : rd ≤ off := by rw [← hrd]; exact Nat.div_mul_le_self _ _
    have hrd2 : off < rd + d.info.clusterSize := by rw [← hrd]; exact Arith.lt_round_down_add off _ hcs
    obtain ⟨inv1, hi1, he, ho, hp⟩ := populateSingle_step (wf.mInv hr rd (rd + d.info.clusterSize))
      (by omega) hrdal hrdal' ⟨hrd1, hrd2⟩ hps (by omega)
    obtain ⟨D', hw', hfr, hmem, hr'⟩ := doWrite_piece (f := f) (toks := toks) inv1.st inv1.map ho512
      (by rw [hi1]; omega) (by rw [hi1]; omega) hp inv1.ref
    rw [← he, hw] at hw'
    simp only [Prod.mk.injEq, and_true] at hw'
    subst hw'
    obtain ⟨_, _, hco⟩ := plainOffset_some hp
    have hnew : NewOK d' := by
      intro o' ho'v hnw
      rw [hfr.info, hi1] at ho'v
      obtain ⟨hnw0, hne⟩ := isNewAt_after_piece hfr hmem hco hnw
      obtain ⟨b1, b2⟩ := inv1.new o' (by rw [hi1]; exact ho'v) hnw0
      apply hne
      rw [hi1]
      have e1 : off / d.info.clusterSize = rd / d.info.clusterSize := by
        rw [← hrd, Nat.mul_div_cancel _ hcs]
      rw [e1]
      obtain ⟨q, hq⟩ := Nat.dvd_of_mod_eq_zero hrdal
      rw [hq, Nat.mul_div_cancel_left _ hcs]
      apply Nat.div_eq_of_lt_le
      · rw [Nat.mul_comm]; omega
      · rw [Nat.add_mul, Nat.one_mul, Nat.mul_comm]; omega
    exact ⟨⟨hfr.static inv1.st, hfr.tabOK inv1.tab, hfr.mapOK inv1.map, hnew⟩,
      refines_of_refinesN hnew hr', hfr.info.trans hi1⟩
  · simp at hw
  · simp at hw

/-! ## T2. a write spanning several clusters -/

theorem multi_arith {cs off len : Nat} (hcs : 0 < cs) :
    (off / cs * cs) % cs = 0 ∧ ((off + len + cs - 1) / cs * cs) % cs = 0 ∧
    off / cs * cs ≤ (off + len + cs - 1) / cs * cs ∧
    (off + len + cs - 1) / cs * cs =
      off / cs * cs + ((off + len + cs - 1) / cs * cs - off / cs * cs) / cs * cs ∧
    (off + len + cs - 1) / cs * cs < off + len + cs ∧
    off % cs + len ≤ ((off + len + cs - 1) / cs * cs - off / cs * cs) / cs * cs ∧
    ((off + len + cs - 1) / cs * cs - off / cs * cs) / cs * cs < off % cs + len + cs := by
  have h1 : (off / cs * cs) % cs = 0 := Nat.mul_mod_left _ _
  have h2 : ((off + len + cs - 1) / cs * cs) % cs = 0 := Nat.mul_mod_left _ _
  have hq : off / cs ≤ (off + len + cs - 1) / cs := Nat.div_le_div_right (by omega)
  have h3 : off / cs * cs ≤ (off + len + cs - 1) / cs * cs := Nat.mul_le_mul_right _ hq
  have h4 := (aligned_sub_div h1 h2 h3).symm
  have e1 := Nat.div_add_mod off cs
  have e2 := Nat.div_add_mod (off + len + cs - 1) cs
  have m2 := Nat.mod_lt (off + len + cs - 1) hcs
  rw [Nat.mul_comm] at e1 e2
  generalize off / cs * cs = start at *
  generalize (off + len + cs - 1) / cs * cs = stop at *
  generalize (stop - start) / cs * cs = ncs at *
  refine ⟨h1, h2, h3, h4, by omega, by omega, by omega⟩

/-- **T2.**  The same for an accepted request that spans several clusters; every mixture
    of already mapped, unallocated and zero-flagged target clusters, with or without
    their L2 tables. -/
theorem write_multi_refines (d d' : Dev) (f : Flat) (off len : Nat) (toks : List Nat)
    (wf : WF d) (hr : Refines d f)
    (hc : writeCheck d.info off len = none) (hl : len ≠ 0)
    (hmulti : ¬ off / d.info.clusterSize = (off + len - 1) / d.info.clusterSize)
    (htoks : toks.length = len / 512)
    (hw : writeAt off len toks d = (d', .ok ())) (hng : d'.rtLen = d.rtLen) :
    WF d' ∧ Refines d' (f.write off toks) ∧ d'.info = d.info := by
  have hcs := cs_pos d.info
  obtain ⟨hv, hlb, hob, _⟩ := writeCheck_none hc
  have ho512 := mod512_of_mod_bs wf.st.bsb9 hob
  have hl512 := mod512_of_mod_bs wf.st.bsb9 hlb
  have h512 : d.info.clusterSize % 512 = 0 := by have := cs512 wf.st; omega
  unfold writeAt at hw
  dsimp only at hw
  rw [hc] at hw
  dsimp only at hw
  rw [if_neg hl, if_neg hmulti] at hw
  unfold Info.clusterRoundDown at hw
  obtain ⟨a1, a2, a3, a4, a5, a6, a7⟩ := multi_arith (off := off) (len := len) hcs
  generalize hstart : off / d.info.clusterSize * d.info.clusterSize = start at *
  generalize hstop : (off + len + d.info.clusterSize - 1) / d.info.clusterSize * d.info.clusterSize = stop at *
  generalize hn : (stop - start) / d.info.clusterSize = n at *
  generalize hmm : makeMultiples stop (n + 1) start [] d = r at hw
  obtain ⟨d1, (es | e | p)⟩ := r
  · dsimp only at hw
    have hm1 := (makeMultiples_mono stop (n + 1) start []).of_eq hmm
    generalize hdw : doWrites (pieces d.info.clusterSize (n + 1) off len) es toks d1 = r2 at hw
    obtain ⟨d2, (_ | e | p)⟩ := r2
    · dsimp only at hw
      simp only [Prod.mk.injEq, and_true] at hw
      subst hw
      have hm2 := (doWrites_mono _ es toks).of_eq hdw
      obtain ⟨es', he, inv1, hent, hk⟩ := makeMultiples_step f start stop stop d.info a2 a1 a2 (Nat.le_refl _)
        (by omega) (n + 1) start n [] d d1 es rfl (wf.mInv hr start stop) a1 (Nat.le_refl _) a4 (by omega)
        hmm (by omega)
      rw [List.nil_append] at he
      subst he
      have hi1 : d1.info = d.info := hk.1
      obtain ⟨D', hw', hfr, hr', hnew⟩ := doWrites_step d.info (n + 1) off len n toks es d1 f hi1
        inv1.st inv1.map inv1.ref ho512 hl512 hl hv htoks
        (by rw [Nat.add_mul, Nat.one_mul]; omega) a7 a6
        (by rw [hstart]; exact hent)
        (by rw [hstart, ← a4]; exact inv1.new)
      rw [hdw] at hw'
      simp only [Prod.mk.injEq, and_true] at hw'
      subst hw'
      refine ⟨⟨hfr.static inv1.st, hfr.tabOK inv1.tab, hfr.mapOK inv1.map, hnew⟩, ?_, hfr.info.trans hi1⟩
      apply refines_of_refinesN hnew
      refine refinesN_sec_congr ?_ hr'
      intro s
      exact (flatAfter_sec hcs h512 (n + 1) f off len toks ho512 hl512
        (by rw [Nat.add_mul, Nat.one_mul]; omega) htoks s).symm
    · simp at hw
    · simp at hw
  · simp at hw
  · simp at hw

/-- **the refinement step for writes**: every accepted write that returns `Ok` and does
    not grow the reftable takes a well-formed device showing `f` to a well-formed device
    showing `f.write off toks` (`toks`: the `len / 512` sector tokens of the buffer). -/
theorem write_refines (d d' : Dev) (f : Flat) (off len : Nat) (toks : List Nat)
    (wf : WF d) (hr : Refines d f)
    (hc : writeCheck d.info off len = none) (htoks : toks.length = len / 512)
    (hw : writeAt off len toks d = (d', .ok ())) (hng : d'.rtLen = d.rtLen) :
    WF d' ∧ Refines d' (f.write off toks) ∧ d'.info = d.info := by
  by_cases hl : len = 0
  · subst hl
    have ht : toks = [] := List.eq_nil_of_length_eq_zero (by simpa using htoks)
    subst ht
    unfold writeAt at hw
    dsimp only at hw
    rw [hc] at hw
    simp only [if_true, Prod.mk.injEq, and_true] at hw
    subst hw
    rw [Qv.Spec.Flat.write_nil]
    exact ⟨wf, hr, rfl⟩
  · by_cases hs : off / d.info.clusterSize = (off + len - 1) / d.info.clusterSize
    · exact write_single_refines d d' f off len toks wf hr hc hl hs htoks hw hng
    · exact write_multi_refines d d' f off len toks wf hr hc hl hs htoks hw hng

/-! ## T3. histories -/

/-- operations of a history.  (Discards are not included: the existing discard
    statements of C11 — `discardOne_reads_zero_any_backing`, `discard_clears_range` — are
    about one cluster / the entries of the range, not a `Refines` step.) -/
inductive Op where
  | write (off len : Nat) (toks : List Nat)
  | read (off len : Nat)
  | flush

def stepDev (d : Dev) : Op → Dev
  | .write off len toks => (writeAt off len toks d).1
  | .read _ _ => d
  | .flush => (flushMeta d).1

def stepFlat (f : Flat) : Op → Flat
  | .write off _ toks => f.write off toks
  | .read _ _ => f
  | .flush => f

/-- the operation is valid in state `d`: a write is accepted by the validation prologue
    (`writeCheck`: inside the virtual disk, block aligned, not read-only), carries `len / 512`
    sector tokens, returns `Ok` and does not grow the reftable; a read is inside the
    virtual disk, non-empty and block aligned -/
def OpOK (d : Dev) : Op → Prop
  | .write off len toks => writeCheck d.info off len = none ∧ toks.length = len / 512 ∧
      (writeAt off len toks d).2 = .ok () ∧ (writeAt off len toks d).1.rtLen = d.rtLen
  | .read off len => off + len ≤ d.info.vsize ∧ len ≠ 0 ∧ len % d.info.bs = 0 ∧ off % d.info.bs = 0
  | .flush => True

/-- every operation of the history is valid in the state it is issued in -/
def RunOK : Dev → List Op → Prop
  | _, [] => True
  | d, op :: ops => OpOK d op ∧ RunOK (stepDev d op) ops

/-- the result of a read on the flat disk -/
def flatRead (f : Flat) (off len : Nat) : Outcome (Nat × List Nat) := .ok (len, f.read off (len / 512))

/-- every read of the history returns on the device what it returns on the flat disk -/
def ReadsAgree : Dev → Flat → List Op → Prop
  | _, _, [] => True
  | d, f, op :: ops =>
    (match op with
     | .read off len => readAt d off len = flatRead f off len
     | _ => True) ∧ ReadsAgree (stepDev d op) (stepFlat f op) ops

theorem newOK_of_viewStep {d d' : Dev} (v : ViewStep d d') (h : NewOK d) : NewOK d' := by
  intro o ho hn
  rw [v.info] at ho
  exact h o ho ((isNewAt_congr v.info v.newData (v.l2 o)).1 hn)

theorem refines_of_viewStep {d d' : Dev} {f : Flat} (v : ViewStep d d') (h : Refines d f) : Refines d' f := by
  intro s hs
  rw [v.info] at hs
  rw [guestSec_congr v.info v.data v.back v.comp (v.l2 _)]
  exact h s hs

/-- one step of a history keeps well-formedness and refinement -/
theorem step_refines (d : Dev) (f : Flat) (op : Op) (wf : WF d) (hr : Refines d f) (ok : OpOK d op) :
    WF (stepDev d op) ∧ Refines (stepDev d op) (stepFlat f op) := by
  cases op with
  | write off len toks =>
    obtain ⟨hc, htoks, hok, hng⟩ := ok
    have hw : writeAt off len toks d = ((writeAt off len toks d).1, .ok ()) := Prod.ext rfl hok
    obtain ⟨a, b, _⟩ := write_refines d _ f off len toks wf hr hc htoks hw hng
    exact ⟨a, b⟩
  | read off len => exact ⟨wf, hr⟩
  | flush =>
    have v : ViewStep d (flushMeta d).1 := needFlush_viewStep d false
    exact ⟨⟨v.static wf.st, wf.tab.transfer rfl (fun _ h => h) (fun _ => rfl), v.mapOK wf.map,
      newOK_of_viewStep v wf.new⟩, refines_of_viewStep v hr⟩

/-- **T3, general form.**  From any well-formed device that shows the flat disk `f`:
    along every history of valid writes, reads and flushes, every read returns what the
    flat disk returns. -/
theorem history_refines (ops : List Op) : ∀ (d : Dev) (f : Flat), WF d → Refines d f → RunOK d ops →
    ReadsAgree d f ops := by
  induction ops with
  | nil => intro _ _ _ _ _; trivial
  | cons op ops ih =>
    intro d f wf hr hrun
    obtain ⟨ok, hrest⟩ := hrun
    obtain ⟨wf', hr'⟩ := step_refines d f op wf hr ok
    refine ⟨?_, ih _ _ wf' hr' hrest⟩
    cases op with
    | write off len toks => trivial
    | flush => trivial
    | read off len =>
      obtain ⟨hv, hl, hlb, hob⟩ := ok
      have h512 : d.info.clusterSize % 512 = 0 := by have := cs512 wf.st; omega
      exact Qv.Props.C01Model.refines_read d f hr off len h512 hv hl hlb hob
        (mod512_of_mod_bs wf.st.bsb9 hob) (mod512_of_mod_bs wf.st.bsb9 hlb)

/-! ### a freshly formatted image -/

/-- the blank flat disk -/
def blank (size cb : Nat) : Flat :=
  { vsize := size, cs := 2^cb, sec := FMap.empty 0, own := FMap.empty false }

theorem formatDev_more {size cb ro fmtBs : Nat} {p : Params} {d : Dev}
    (h : formatDev size cb ro fmtBs p = .ok d) :
    d.back = none ∧ d.l1Len = ramL1Len size cb p.bsBits ∧ d.newData = [] := by
  unfold formatDev at h
  cases hr : formatRefcounts (metaParams size cb ro fmtBs) cb ro with
  | none => simp [hr] at h
  | some rc =>
    cases hn : Info.new { clusterBits := cb, refcountOrder := ro, size := size, hasBackingName := false } p with
    | ok info =>
      simp only [hr, hn, Outcome.bind_ok] at h
      split at h
      · cases h
      · simp only [Outcome.ok.injEq] at h
        subst h
        exact ⟨rfl, rfl, rfl⟩
    | err e => simp [hr, hn] at h
    | panic s => simp [hr, hn] at h

/-- a freshly formatted image (cluster bits 9..21, refcount order ≤ 6, block bits between 9
    and the cluster bits, virtual size within the 32 MiB L1 limit, reftable area at most
    2^56 bytes) is well-formed and shows the blank disk -/
theorem format_wf {size cb ro fmtBs : Nat} {p : Params} {d : Dev}
    (h : formatDev size cb ro fmtBs p = .ok d)
    (h9 : 9 ≤ cb) (h21 : cb ≤ 21) (hro : ro ≤ 6) (hbs9 : 9 ≤ p.bsBits) (hbscb : p.bsBits ≤ cb)
    (hcap : (size + 2^cb / 8 * 2^cb - 1) / (2^cb / 8 * 2^cb) ≤ 32 * 2^20 / 8)
    (hrt56 : d.rtLen * d.info.rbEntries * d.info.clusterSize ≤ 2^56) :
    WF d ∧ Refines d (blank size cb) := by
  obtain ⟨rc, info, _, hinfo, e1, _, _, _, _, _, e7, _, _⟩ := formatDev_ok h
  obtain ⟨g, c1, _, hvs, _⟩ := Qv.Props.C09.format_geometry h h9 h21 hro (by omega) hcap
  obtain ⟨_, _, _, _, _, hslice, _⟩ :=
    Qv.Props.C15.info_geometry_of_params hinfo (by exact h9) (by exact h21) (by exact hro) (by omega)
  obtain ⟨_, _, _, _, _, _, _, _, _, _, _, hi⟩ := Info.new_ok hinfo
  obtain ⟨hback, hl1Len, hnd⟩ := formatDev_more h
  have hbsb : d.info.bsb = p.bsBits := by rw [e1, hi]
  have hhb : d.info.hasBack = false := by rw [e1, hi]
  have hl1z : ∀ o, d.l1Entry o = 0#64 := by
    intro o
    unfold Dev.l1Entry
    dsimp only
    rw [e7, FMap.get_empty]
    split <;> rfl
  have hmap := fun off => Qv.Props.C09.format_mapping_empty h off
  refine ⟨⟨⟨g, by omega, by omega, by omega, by rw [← e1] at hslice; exact hslice, hhb, hback, hrt56, ?_⟩,
    ⟨?_, ?_⟩, ⟨?_, ?_, ?_⟩, ?_⟩, ?_⟩
  · intro o ho
    rw [hl1Len, ← c1]
    exact l1Index_lt_ramL1Len g size p.bsBits o (by rw [← hvs]; exact ho) (by rw [c1]; exact hcap)
  · intro a b _ ha _
    rw [hl1z, l1_isZero_zero] at ha
    cases ha
  · intro o ho
    rw [hl1z, l1_isZero_zero] at ho
    cases ho
  · intro o _
    refine ⟨by rw [(hmap o).2.1]; decide, fun hh hs _ => ?_⟩
    rw [(hmap o).2.1] at hs
    cases hs
  · intro a b ha hb _ _ _ sa _ _ _
    rw [(hmap a).2.1] at sa
    cases sa
  · rw [Qv.Props.C09.format_refcounts h 0, if_pos (by omega)]
    decide
  · intro o _ hn
    obtain ⟨_, hs, _⟩ := hn
    rw [(hmap o).2.1] at hs
    cases hs
  · intro s _
    unfold guestSec
    rw [Qv.Props.C09.format_reads_zero h]
    show 0 = (FMap.empty 0).get s
    rw [FMap.get_empty]

/-- **T3.**  Start from a freshly formatted image (`formatDev`; hypotheses of `format_wf`).
    For every list of operations — writes accepted by the validation prologue that return
    `Ok` and do not grow the reftable, reads inside the virtual disk, flushes (`RunOK`) —
    every read returns exactly what the flat reference disk, started blank, returns.

    Excluded (by hypothesis, not proved away): discards; images with backing file or
    compressed clusters; writes that fail (`Err`) or grow the refcount table; reads that are
    clamped at the end of the disk or rejected. -/
theorem history_refines_flat {size cb ro fmtBs : Nat} {p : Params} {d0 : Dev}
    (hfmt : formatDev size cb ro fmtBs p = .ok d0)
    (h9 : 9 ≤ cb) (h21 : cb ≤ 21) (hro : ro ≤ 6) (hbs9 : 9 ≤ p.bsBits) (hbscb : p.bsBits ≤ cb)
    (hcap : (size + 2^cb / 8 * 2^cb - 1) / (2^cb / 8 * 2^cb) ≤ 32 * 2^20 / 8)
    (hrt56 : d0.rtLen * d0.info.rbEntries * d0.info.clusterSize ≤ 2^56)
    (ops : List Op) (hrun : RunOK d0 ops) : ReadsAgree d0 (blank size cb) ops := by
  obtain ⟨wf, hr⟩ := format_wf hfmt h9 h21 hro hbs9 hbscb hcap hrt56
  exact history_refines ops d0 _ wf hr hrun

/-! ## Non-vacuity -/

open Qv.Props.C03 (withL2 withL2_l1At withL2_distinct withL2_rc withL2_alloc allocateClusters_one withL2_l1Entry)
open Qv.Props.C15 (infoEx)

/-- `withL2` (C03): the formatted 1 GiB image `fmtEx` plus an empty L2 table (cluster 4) for
    L1 slot 0; host clusters 0–4 in use.  Every guest cluster is unallocated. -/
theorem withL2_l2Entry_all (o : Nat) : withL2.l2Entry o = 0#64 := by
  rw [Dev.l2Entry_eq_slot]
  unfold Dev.slot
  rw [withL2_l1At]
  by_cases h : Split.l1Index withL2.info o = 0
  · rw [if_pos h]
    have h0 : L1.isZero (L1.mapEntry 0x40000) = false := by decide
    have h3 : (L1.l2Offset (L1.mapEntry 0x40000)).toNat = 0x40000 := by decide
    rw [if_neg (by simp [h0]), h3]
    show ((Qv.Props.C03.fmtEx.l2.set 0x40000 (FMap.empty 0#64)).get 0x40000).get _ = 0#64
    simp
  · rw [if_neg h, if_pos (by decide)]

theorem withL2_mapping (o : Nat) : (withL2.mapping o).source = .unallocated := by
  unfold Dev.mapping
  rw [withL2_l2Entry_all]
  show (L2.intoMapping 16 false _ 0#64).source = _
  rw [intoMapping_zero_entry]

theorem withL2_wf : WF withL2 := by
  refine ⟨⟨Qv.Props.C08.geomEx, by decide, by decide, by decide, by decide, rfl, rfl, by decide, ?_⟩,
    ⟨withL2_distinct, ?_⟩, ⟨?_, ?_, ?_⟩, ?_⟩
  · intro o ho
    have hv : withL2.info.vsize = 2^30 := rfl
    rw [hv] at ho
    show o / 2^(16 + 13) < 64
    omega
  · intro o ho
    rw [Dev.l1Entry_eq, withL2_l1At] at ho ⊢
    by_cases h : Split.l1Index withL2.info o = 0
    · rw [if_pos h]
      have h3 : (L1.l2Offset (L1.mapEntry 0x40000)).toNat = 0x40000 := by decide
      have h4 : 0x40000 / withL2.info.clusterSize = 4 := by decide
      rw [h3, h4, withL2_rc]; decide
    · rw [if_neg h] at ho
      exact absurd ho (by decide)
  · intro o _
    refine ⟨by rw [withL2_mapping]; decide, fun hh hs _ => ?_⟩
    rw [withL2_mapping] at hs
    cases hs
  · intro a b ha hb _ _ _ sa _ _ _
    rw [withL2_mapping] at sa
    cases sa
  · rw [withL2_rc]; decide
  · intro o _ hn
    obtain ⟨_, hs, _⟩ := hn
    rw [withL2_mapping] at hs
    cases hs

theorem withL2_refines : Refines withL2 (blank (2^30) 16) := by
  intro s _
  rw [guestSec_unallocated withL2 s (withL2_mapping _)]
  show 0 = (FMap.empty 0).get s
  rw [FMap.get_empty]

/-- **the hypotheses of T1 hold for an allocating write**: the first write (one sector,
    token 7, at guest offset 0) into the unallocated guest cluster 0 of `withL2`.  The write
    needs a mapping, succeeds without growing the reftable, and T1 applies: the device
    then shows the blank disk with token 7 in sector 0 and is well-formed again. -/
example : ∃ d', needMakeMapping withL2.info (withL2.mapping 0) = true ∧
    writeAt 0 512 [7] withL2 = (d', .ok ()) ∧ d'.rtLen = withL2.rtLen ∧
    WF d' ∧ Refines d' ((blank (2^30) 16).write 0 [7]) ∧
    readAt d' 0 1024 = .ok (1024, [7, 0]) := by
  obtain ⟨d1, h, n, ha⟩ := withL2_alloc
  obtain ⟨halloc, _⟩ := allocateClusters_one (d := withL2) Qv.Props.C08.geomEx (by decide)
    (by have : withL2.rt.get (Host.rtIndex withL2.info withL2.hint) = 0x20000#64 := by
          show Qv.Props.C03.fmtEx.rt.get 0 = _; simp [Qv.Props.C03.fmtEx]
        rw [this]; decide) ha
  have hs := Qv.Props.C08.tryAlloc_sound withL2.hint 1 false withL2 d1 h n ha
  have h56 : h < 2^56 := by
    have := hs.2.2.2.2.2.2.1.2
    have e : Host.rbSliceHostEnd withL2.info withL2.hint = 2^27 := by decide
    rw [e] at this
    have : h < 2^27 + 1 := by omega
    omega
  have hrt1 : d1.rtLen = withL2.rtLen := (tryAlloc_rcFrame ha).rtLen
  have hneed : needMakeMapping withL2.info (withL2.mapping 0) = true :=
    needMakeMapping_unallocated rfl (withL2_mapping 0)
  obtain ⟨hw, _⟩ := write_new_cluster withL2 _ 0 512 h 1 [7] (by decide) (by decide) (by decide) rfl
    (withL2_mapping 0) (by rw [withL2_l1Entry]; decide) (by decide) (by rw [withL2_rc]; decide)
    halloc hrt1 h56
  have hng : (zeroedWrite (newMapped { d1 with hint := max d1.hint (h + d1.info.clusterSize) }
      ((h / withL2.info.clusterSize) :: withL2.newData) 0 h) 0 h [7]).rtLen = withL2.rtLen := hrt1
  obtain ⟨wf', hr', hi'⟩ := write_single_refines withL2 _ (blank (2^30) 16) 0 512 [7] withL2_wf withL2_refines
    (by decide) (by decide) (by decide) rfl hw hng
  refine ⟨_, hneed, hw, hng, wf', hr', ?_⟩
  have hrd := Qv.Props.C01Model.refines_read _ _ hr' 0 1024 (by rw [hi']; decide) (by rw [hi']; decide)
    (by decide) (by rw [hi']; decide) (by rw [hi']; decide) (by decide) (by decide)
  rw [hrd]
  have e : ((blank (2^30) 16).write 0 [7]).read 0 (1024 / 512) = [7, 0] := by
    show (List.range 2).map (fun i => ((blank (2^30) 16).write 0 [7]).sec.get (0 / 512 + i)) = [7, 0]
    have l : List.range 2 = [0, 1] := rfl
    rw [l]
    simp only [List.map_cons, List.map_nil, flat_write_sec]
    simp [blank]
  rw [e]

/-! ### a success criterion, and a history on the formatted image -/

/-- when the two allocations of an allocating single-cluster write succeed without growing
    the reftable (`ensure_l2_offset`, then `allocate_clusters(1)` for the data cluster),
    the write returns `Ok` and does not grow the reftable: the hypotheses `hw`, `hng` of T1
    can be discharged from the allocator alone -/
theorem write_single_succeeds {d dA dB : Dev} {f : Flat} {off len h n : Nat} (toks : List Nat)
    (wf : WF d) (hr : Refines d f)
    (hc : writeCheck d.info off len = none) (hl : len ≠ 0)
    (hsingle : off / d.info.clusterSize = (off + len - 1) / d.info.clusterSize)
    (hneed : needMakeMapping d.info (d.mapping off) = true)
    (hen : ensureL2 off d = (dA, .ok ())) (hngA : dA.rtLen = d.rtLen)
    (hal : allocateClusters 1 dA = (dB, .ok (some (h, n)))) (hngB : dB.rtLen = dA.rtLen) :
    ∃ d', writeAt off len toks d = (d', .ok ()) ∧ d'.rtLen = d.rtLen := by
  have hcs := cs_pos d.info
  obtain ⟨hv, _, _, _⟩ := writeCheck_none hc
  have hov : off < d.info.vsize := by omega
  obtain ⟨vA, tA, hl1A⟩ := ensureL2_step wf.st wf.tab wf.map hov hen hngA
  generalize hrd : off / d.info.clusterSize * d.info.clusterSize = rd
  have hrdal : rd % d.info.clusterSize = 0 := by rw [← hrd]; exact Nat.mul_mod_left _ _
  have hrdal' : (rd + d.info.clusterSize) % d.info.clusterSize = 0 := by
    rw [Nat.add_mod_right]; exact hrdal
  have hrd1 : rd ≤ off := by rw [← hrd]; exact Nat.div_mul_le_self _ _
  have hrd2 : off < rd + d.info.clusterSize := by rw [← hrd]; exact Arith.lt_round_down_add off _ hcs
  have iA := vA.mInv tA (wf.mInv hr rd (rd + d.info.clusterSize))
  have hneedA : needMakeMapping dA.info (dA.mapping off) = true := by
    rw [vA.info, vA.mapping]; exact hneed
  have hpl := needMake_plain_none hneedA
  generalize hB' : (({ dB with newData := (h / dB.info.clusterSize) :: dB.newData } : Dev).setL2 off
    (L2.mapClusterEntry h)) = dB'
  have ham : allocAndMap off dA = (dB', .ok ()) := by
    rw [allocAndMap_eq, hal, ← hB']
  have hrtB' : dB'.rtLen = dB.rtLen := by rw [← hB']; rfl
  obtain ⟨iC, _, ho, hp⟩ := allocAndMap_step iA (by rw [vA.info]; exact hov) (by rw [vA.info]; exact hrdal)
    (by rw [vA.info]; exact hrdal') ⟨hrd1, hrd2⟩ hl1A hneedA ham (by omega)
  have hps : populateSingle off d =
      ({ dB' with needFlush := true }, .ok (({ dB' with needFlush := true } : Dev).l2Entry off)) := by
    rw [populateSingle_eq, if_pos hneed, makeSingle_eq, hen]
    dsimp only
    rw [if_pos hpl, ham]
  unfold writeAt
  dsimp only
  rw [hc]
  dsimp only
  rw [if_neg hl, if_pos hsingle, hps]
  dsimp only
  rw [doWrite_plain _ off ho toks hp]
  refine ⟨_, rfl, ?_⟩
  have : ∀ x : Dev, (if ({ dB' with needFlush := true } : Dev).newData.contains
        (ho / ({ dB' with needFlush := true } : Dev).info.clusterSize) = true
      then zeroedWrite { dB' with needFlush := true } off ho toks
      else afterWrite { dB' with needFlush := true } off ho toks).rtLen = dB'.rtLen := by
    intro _; split <;> rfl
  rw [this d]
  omega

open Qv.Props.C03 (fmtEx fmtEx_format fmtEx_rc fmtEx_alloc fmtEx_l1At)

theorem fmtEx_wf : WF fmtEx ∧ Refines fmtEx (blank (2^30) 16) :=
  format_wf fmtEx_format (by decide) (by decide) (by decide) (by decide) (by decide) (by decide) (by decide)

/-- `ensure_l2_offset(0)` on the fresh image: cluster 4 becomes the L2 table of L1 slot 0 -/
theorem fmtEx_ensureL2 : ∃ dA, ensureL2 0 fmtEx = (dA, .ok ()) ∧ dA.info = infoEx ∧ dA.rtLen = 8192 ∧
    dA.hint = 0x50000 ∧ dA.rt = fmtEx.rt ∧ dA.rc.get 5 = 0 := by
  obtain ⟨d1, h, n, ha⟩ := fmtEx_alloc
  obtain ⟨halloc, hone⟩ := allocateClusters_one (d := fmtEx) Qv.Props.C08.geomEx (by decide)
    (by have : fmtEx.rt.get (Host.rtIndex fmtEx.info fmtEx.hint) = 0x20000#64 := by
          show fmtEx.rt.get 0 = _; simp [fmtEx]
        rw [this]; decide) ha
  obtain ⟨_, _, _, s4, s5, s6, _, _, s9⟩ := Qv.Props.C08.tryAlloc_sound fmtEx.hint 1 false fmtEx d1 h n ha
  have hn : n = 1 := (allocOne_of_tryAlloc ha).1
  subst hn
  have hff := (Qv.Props.C08.tryAlloc_first_fit fmtEx.hint 1 false fmtEx d1 h 1 Qv.Props.C08.geomEx ha).2.2
  have hcsv : fmtEx.info.clusterSize = 65536 := rfl
  rw [hcsv] at s4 s5 s6 hff
  have hq : h / 65536 = 4 := by
    have z := (s5 (h / 65536) (Nat.le_refl _) (by omega)).1
    rw [fmtEx_rc] at z
    have h4 : 4 ≤ h / 65536 := by
      apply Classical.byContradiction; intro hc
      rw [if_pos (by omega)] at z; cases z
    apply Classical.byContradiction; intro hne
    obtain ⟨c', c1, c2, c3⟩ := hff 4 (by decide) (by omega)
    have : c' = 4 := by omega
    subst this
    rw [fmtEx_rc] at c3
    exact c3 (by decide)
  have hh : h = 0x40000 := by omega
  subst hh
  have hz : L1.isZero (fmtEx.l1Entry 0) = true := by rw [Dev.l1Entry_eq, fmtEx_l1At]; decide
  have he := ensureL2_new_table (off := 0) hz (by decide) halloc
  have hi1 : d1.info = infoEx := by rw [s9]; rfl
  have hh1 : d1.hint = 0 := by rw [s9]; rfl
  refine ⟨_, he, hi1, by rw [s9]; rfl, ?_, by rw [s9], ?_⟩
  · show max d1.hint (0x40000 + d1.info.clusterSize) = 0x50000
    rw [hh1, hi1]; decide
  · show d1.rc.get 5 = 0
    rw [s6 5 (by omega), fmtEx_rc]; decide

/-- **T3 is not vacuous, and covers the case where the L2 table does not exist yet**: on the
    freshly formatted 1 GiB image the history "write one sector (token 7) at offset 0, read
    two sectors, flush, read one sector" is valid — the write allocates the L2 table
    (cluster 4) and the data cluster (cluster 5) — and the reads return `[7, 0]` and `[7]`,
    as on the flat disk. -/
example : ∃ d', writeAt 0 512 [7] fmtEx = (d', .ok ()) ∧
    RunOK fmtEx [.write 0 512 [7], .read 0 1024, .flush, .read 0 512] ∧
    readAt d' 0 1024 = .ok (1024, [7, 0]) := by
  obtain ⟨wf, hr⟩ := fmtEx_wf
  obtain ⟨dA, hen, hiA, hrtA, hhintA, hrtA', hrcA⟩ := fmtEx_ensureL2
  obtain ⟨dB, hal, hngB⟩ := allocateClusters_one_free_hint dA (by rw [hiA]; exact Qv.Props.C08.geomEx)
    (by rw [hiA, hhintA, hrtA]; decide)
    (by
      have : dA.rt.get (Host.rtIndex dA.info dA.hint) = 0x20000#64 := by
        rw [hiA, hhintA, hrtA']
        show fmtEx.rt.get 0 = _; simp [fmtEx]
      rw [this]; decide)
    (by
      have : dA.hint / dA.info.clusterSize = 5 := by rw [hiA, hhintA]; decide
      rw [this]; exact hrcA)
  have hneed : needMakeMapping fmtEx.info (fmtEx.mapping 0) = true :=
    needMakeMapping_unallocated rfl (Qv.Props.C09.format_mapping_empty fmtEx_format 0).2.1
  obtain ⟨d', hw, hng⟩ := write_single_succeeds [7] wf hr (off := 0) (len := 512) (by decide) (by decide)
    (by decide) hneed hen hrtA hal hngB
  obtain ⟨wf', hr', hi'⟩ := write_refines fmtEx d' _ 0 512 [7] wf hr (by decide) rfl hw hng
  have hrun : RunOK fmtEx [.write 0 512 [7], .read 0 1024, .flush, .read 0 512] := by
    refine ⟨⟨by decide, rfl, by rw [hw], by rw [hw]; exact hng⟩, ?_⟩
    show RunOK (writeAt 0 512 [7] fmtEx).1 _
    rw [hw]
    refine ⟨?_, trivial, ?_, trivial⟩
    · show 0 + 1024 ≤ d'.info.vsize ∧ 1024 ≠ 0 ∧ 1024 % d'.info.bs = 0 ∧ 0 % d'.info.bs = 0
      rw [hi']; decide
    · show 0 + 512 ≤ d'.info.vsize ∧ 512 ≠ 0 ∧ 512 % d'.info.bs = 0 ∧ 0 % d'.info.bs = 0
      rw [hi']; decide
  refine ⟨d', hw, hrun, ?_⟩
  have hag := history_refines _ fmtEx _ wf hr hrun
  have h1 := hag.2.1
  dsimp only [stepDev, stepFlat] at h1
  rw [hw] at h1
  rw [h1]
  unfold flatRead
  have e : ((blank (2^30) 16).write 0 [7]).read 0 (1024 / 512) = [7, 0] := by
    show (List.range 2).map (fun i => ((blank (2^30) 16).write 0 [7]).sec.get (0 / 512 + i)) = [7, 0]
    have l : List.range 2 = [0, 1] := rfl
    rw [l]
    simp only [List.map_cons, List.map_nil, flat_write_sec]
    simp [blank]
  rw [e]

/-! ### the hypothesis "data clusters are COPIED" is necessary -/

/-- `withL2` with guest cluster 0 mapped to host cluster 5 by an entry WITHOUT the COPIED flag
    (refcount 2, as after an internal snapshot); guest sector 1 holds token 99; the allocator
    hint is at the free cluster 6.  No backing file. -/
def devNC : Dev :=
  { withL2 with rc := withL2.rc.set 5 2, hint := 0x60000,
                l2 := (withL2.setL2 0 (BitVec.ofNat 64 0x50000)).l2,
                data := (FMap.empty 0).set 0x281 99 }

theorem intoMapping_noncopied (g : Nat) :
    L2.intoMapping 16 false g (BitVec.ofNat 64 0x50000) =
      { source := .dataFile, clusterOffset := some 0x50000, compressedLength := none, copied := false } := by
  rw [L2.intoMapping_plain 16 false g _ (by decide) (by decide) (by decide)]
  decide

theorem devNC_mapping (o : Nat) (ho : o / 65536 = 0) :
    devNC.mapping o =
      { source := .dataFile, clusterOffset := some 0x50000, compressedLength := none, copied := false } := by
  have h0 : devNC.l2Entry 0 = BitVec.ofNat 64 0x50000 :=
    (l2Entry_setL2_distinct (d := withL2) (d' := devNC) withL2_distinct
      (by rw [withL2_l1Entry]; decide) rfl rfl rfl rfl).1
  have : devNC.l2Entry o = BitVec.ofNat 64 0x50000 := by
    rw [← h0]
    apply l2Entry_congr
    show o / 65536 = 0 / 65536
    rw [ho]
  unfold Dev.mapping
  rw [this]
  exact intoMapping_noncopied _

/-- **T1 is false without the COPIED hypothesis** (`MapOK.ent`): on an image without backing
    file, a one-sector write into a data cluster whose L2 entry lacks the COPIED flag
    succeeds, but `need_make_mapping` is true for it, a fresh cluster is allocated, zeroed
    and mapped, and nothing is copied (`do_write` passes no COW source for a data-file
    mapping): guest sector 1, which the write does not touch, changes from 99 to 0. -/
theorem write_noncopied_loses_data :
    ∃ d', writeAt 0 512 [7] devNC = (d', .ok ()) ∧ d'.rtLen = devNC.rtLen ∧
      guestSec devNC 1 = 99 ∧ guestSec d' 1 = 0 := by
  have hi : devNC.info = infoEx := rfl
  have hm0 := devNC_mapping 0 (by decide)
  have hm1 := devNC_mapping (1 * 512) (by decide)
  have hl1 : L1.isZero (devNC.l1Entry 0) = false := by
    show L1.isZero (withL2.l1Entry 0) = false
    rw [withL2_l1Entry]; decide
  have hneed : needMakeMapping devNC.info (devNC.mapping 0) = true := by rw [hm0]; rfl
  obtain ⟨dB, hal, hngB⟩ := allocateClusters_one_free_hint devNC Qv.Props.C08.geomEx (by decide)
    (by
      have : devNC.rt.get (Host.rtIndex devNC.info devNC.hint) = 0x20000#64 := by
        show Qv.Props.C03.fmtEx.rt.get 0 = _; simp [Qv.Props.C03.fmtEx]
      rw [this]; decide)
    (by
      have : devNC.hint / devNC.info.clusterSize = 6 := by decide
      rw [this]
      show (withL2.rc.set 5 2).get 6 = 0
      rw [FMap.get_set_other _ _ _ _ (by decide), withL2_rc]; decide)
  have hh : devNC.hint / devNC.info.clusterSize * devNC.info.clusterSize = 0x60000 := by decide
  rw [hh] at hal
  obtain ⟨⟨f1, _, _, _, _, _, f7, f8, _⟩, _, _⟩ := Qv.Props.C01Model.allocateClusters_frame 1 devNC dB _ hal
  have hiB : dB.info = infoEx := f7
  have hl1B : L1.isZero (dB.l1Entry 0) = false := by
    have : dB.l1Entry 0 = devNC.l1Entry 0 := by unfold Dev.l1Entry; rw [f1, f7, f8]
    rw [this]; exact hl1
  have hps := populateSingle_new hl1 hneed hal
  have hent : (mappedNew dB 0 0x60000).l2Entry 0 = L2.mapClusterEntry 0x60000 :=
    newMapped_l2Entry dB ((0x60000 / dB.info.clusterSize) :: dB.newData) 0 0x60000 hl1B
  generalize hD : mappedNew dB 0 0x60000 = D at hps hent
  have hDi : D.info = infoEx := by rw [← hD]; exact hiB
  have hDn : D.newData = (0x60000 / dB.info.clusterSize) :: dB.newData := by rw [← hD]; rfl
  have hdec : ∀ gc, L2.intoMapping D.info.cb D.info.hasBack gc (L2.mapClusterEntry 0x60000) =
      { source := .dataFile, clusterOffset := some 0x60000, compressedLength := none, copied := true } :=
    fun gc => L2.mapClusterEntry_intoMapping _ _ gc 0x60000 (by decide) (by decide) (by decide)
  have hw : writeAt 0 512 [7] devNC = (zeroedWrite D 0 0x60000 [7], .ok ()) := by
    unfold writeAt
    dsimp only
    have hc : writeCheck devNC.info 0 512 = none := by decide
    rw [hc]
    dsimp only
    rw [if_neg (by decide), if_pos (by decide), hps]
    dsimp only
    rw [hent]
    apply doWrite_new D 0 0x60000 [7] (hdec _)
    rw [hDn, hDi, hiB]
    simp
  refine ⟨_, hw, ?_, ?_, ?_⟩
  · show D.rtLen = devNC.rtLen
    rw [← hD]; exact hngB
  · rw [guestSec_dataFile devNC 1 0x50000 (by rw [hm1]) (by rw [hm1])]
    have : (0x50000 + 1 * 512 % devNC.info.clusterSize) / 512 = 0x281 := by decide
    rw [this]
    show ((FMap.empty 0).set 0x281 99).get 0x281 = 99
    rw [FMap.get_set_same]
  · have hl2 : (zeroedWrite D 0 0x60000 [7]).l2Entry (1 * 512) = L2.mapClusterEntry 0x60000 := by
      show D.l2Entry (1 * 512) = _
      rw [← hent]
      apply l2Entry_congr
      rw [hDi]; decide
    have hmap : (zeroedWrite D 0 0x60000 [7]).mapping (1 * 512) =
        { source := .dataFile, clusterOffset := some 0x60000, compressedLength := none, copied := true } := by
      unfold Dev.mapping
      rw [hl2]
      exact hdec _
    rw [guestSec_dataFile _ 1 0x60000 (by rw [hmap]) (by rw [hmap])]
    show ((D.data.setRange (0x60000 / 512) D.spc (fun _ => 0)).setRange
      ((0x60000 + 0 % D.info.clusterSize) / 512) [7].length (fun k => [7].getD k 0)).get
        ((0x60000 + 1 * 512 % D.info.clusterSize) / 512) = 0
    have hspc : D.spc = 128 := by unfold Dev.spc; rw [hDi]; decide
    rw [FMap.setRange_get, FMap.setRange_get, hDi, hspc, if_neg (by decide), if_pos (by decide)]

end Qv.Props.C01Refine

/-! ## axioms -/
#print axioms Qv.Props.C01Refine.write_single_refines
#print axioms Qv.Props.C01Refine.write_multi_refines
#print axioms Qv.Props.C01Refine.write_refines
#print axioms Qv.Props.C01Refine.history_refines
#print axioms Qv.Props.C01Refine.format_wf
#print axioms Qv.Props.C01Refine.history_refines_flat
#print axioms Qv.Props.C01Refine.withL2_wf
#print axioms Qv.Props.C01Refine.write_single_succeeds
#print axioms Qv.Props.C01Refine.fmtEx_ensureL2
#print axioms Qv.Props.C01Refine.write_noncopied_loses_data
