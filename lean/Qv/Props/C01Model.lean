import Qv.Proofs.Refine
/-
C01 / C08, model side.  Statements about the sequential device model
`Qv.Model.Dev` (helper lemmas live in `Qv/Proofs/Refine.lean`):

* T1  `allocateClusters_sound` (no reftable growth), `allocateClusters_sound_general`,
      `allocateClusters_frame`, `allocateClusters_err_frame`,
      `allocateClusters_in_reftable`: what `allocate_clusters` guarantees about the
      final state (only free clusters are handed out; frame; location);
* T2  `write_inplace_read_back`, T3 `write_inplace_frame`: read-your-writes and
      frame for a single-cluster in-place write;
* T4  `makeMultiples_noalloc`, `write_inplace_multi_read_back`,
      `write_inplace_multi_frame`: the same for the multi-cluster path;
* T5  `write_new_cluster_zeroes_rest(')`: first write into an unallocated cluster
      (zero-once);
* summary `inplace_write_ryw_frame`, and the refinement step against the flat
  reference disk `Qv.Spec.Flat`: `inplace_write_refines`, `refines_read`.

`MapInj`, `PlainRange`, `Refines`, `afterWrite(s)`, `guestSec` are defined in
`Qv/Proofs/Refine.lean` (namespace `Qv.Model`).  The last section instantiates every
hypothesis on a concrete device (`devW`).
-/
namespace Qv.Props.C01Model
open Qv Qv.Codec Qv.Model
open Qv.Props.C15 (Geom)

/-! ## T1. `allocate_clusters` hands out only free clusters -/

/-- Soundness of `allocate_clusters(count)` on the model, final state only (the
    fragmentation retry inside `try_allocate_from` frees and re-allocates).

    A successful call returns a cluster-aligned run of `1 ≤ n ≤ count` clusters,
    every one of which had refcount 0 before and has refcount 1 after.  Every
    other refcount is unchanged, except for the cluster of a refcount block that
    `ensure_refblock_offset` created during the call (reftable entry without a
    refblock before, `idx * rbEntries * cs` after): that cluster ends with
    refcount 1.  L1, L2 tables, data plane, new-cluster list, backing, compressed
    store and `info` are untouched; the reftable changes only at entries that had
    no refblock.  Needs no hypothesis on the geometry or on `count`.

    CHANGED (reftable growth): hypothesis `hng` added — the call did not grow the
    refcount table.  (`rtLen` never decreases and every growth raises it, so
    `d'.rtLen = d.rtLen` says exactly that; it holds whenever the allocation is
    satisfied inside the present table, e.g. `allocateClusters_one_free_hint`.)
    When the table is relocated the statement is false as it stands: the refcounts of
    the new table and its refblock are written, the old table's are decremented, and
    `rtLen` changes.  What holds for every successful call is
    `allocateClusters_sound_general`; the accounting through the relocation is C12. -/
theorem allocateClusters_sound (count : Nat) (d d' : Dev) (host n : Nat)
    (h : allocateClusters count d = (d', .ok (some (host, n))))
    (hng : d'.rtLen = d.rtLen) :
    1 ≤ n ∧ n ≤ count ∧ host % d.info.clusterSize = 0 ∧
    (∀ c, host / d.info.clusterSize ≤ c → c < host / d.info.clusterSize + n →
      d.rc.get c = 0 ∧ d'.rc.get c = 1) ∧
    (∀ c, ¬ (host / d.info.clusterSize ≤ c ∧ c < host / d.info.clusterSize + n) →
      d'.rc.get c = d.rc.get c ∨
      ∃ idx, idx < d.rtLen ∧ RT.isZero (d.rt.get idx) = true ∧
        d'.rt.get idx = BitVec.ofNat 64 (idx * d.info.rbEntries * d.info.clusterSize) ∧
        c = idx * d.info.rbEntries * d.info.clusterSize / d.info.clusterSize ∧ d'.rc.get c = 1) ∧
    (d'.l1 = d.l1 ∧ d'.l2 = d.l2 ∧ d'.data = d.data ∧ d'.newData = d.newData ∧
      d'.back = d.back ∧ d'.comp = d.comp ∧ d'.info = d.info ∧
      d'.l1Len = d.l1Len ∧ d'.l1HdrEntries = d.l1HdrEntries ∧ d'.rtLen = d.rtLen ∧
      d'.version = d.version) ∧
    (∀ idx, RT.isZero (d.rt.get idx) = false → d'.rt.get idx = d.rt.get idx) ∧
    (∀ idx, d'.rt.get idx = d.rt.get idx ∨
      (idx < d.rtLen ∧ RT.isZero (d.rt.get idx) = true ∧
        d'.rt.get idx = BitVec.ofNat 64 (idx * d.info.rbEntries * d.info.clusterSize))) := by
  have post := allocateClusters_post count d (by rw [h]; exact hng)
  rw [h] at post
  obtain ⟨⟨fr, rt⟩, a, b, c, e, f⟩ := post
  refine ⟨a, b, c, e, ?_, ?_, ?_, rt⟩
  · intro c hc
    rcases f c hc with e | ⟨idx, cr, h1, h2⟩
    · exact Or.inl e
    · exact Or.inr ⟨idx, cr.1, cr.2.1, cr.2.2, h1, h2⟩
  · obtain ⟨_, _, _, _, rfl⟩ := fr
    exact ⟨rfl, rfl, rfl, rfl, rfl, rfl, rfl, rfl, rfl, rfl, rfl⟩
  · intro idx hz
    rcases rt idx with e | c
    · exact e
    · rw [c.2.1] at hz; cases hz

/-- NEW: what every successful `allocate_clusters` guarantees, whether or not the
    reftable grew: the run is non-empty, at most `count` long, cluster aligned, its
    clusters end with refcount 1; and the frame of `allocateClusters_frame`. -/
theorem allocateClusters_sound_general (count : Nat) (d d' : Dev) (host n : Nat)
    (h : allocateClusters count d = (d', .ok (some (host, n)))) :
    1 ≤ n ∧ n ≤ count ∧ host % d.info.clusterSize = 0 ∧
    (∀ c, host / d.info.clusterSize ≤ c → c < host / d.info.clusterSize + n → d'.rc.get c = 1) := by
  have := allocateClusters_runOk count d
  rw [h] at this
  exact this host n rfl

/-- The frame facts hold on every outcome (`Ok`, `Err`, panic, and the unreachable
    `Ok(None)`): the state survives errors in `M`, and whatever the allocator did
    before failing stays inside `rt`, `rc`, `hint`, `needFlush` and — CHANGED (reftable
    growth) — `rtLen`, `hdrRtOff`, `hdrRtClusters`.
    CHANGED: was `allocateClusters_err_frame` with `d'.rtLen = d.rtLen` and the reftable
    statements for every index.  Now `rtLen` is non-decreasing, and the statements about
    reftable entries are for the entries of the original table (`idx < d.rtLen`): the
    relocation writes entry `d.rtLen`, and the grown table has further entries. -/
theorem allocateClusters_frame (count : Nat) (d d' : Dev) (r : Outcome (Option (Nat × Nat)))
    (h : allocateClusters count d = (d', r)) :
    (d'.l1 = d.l1 ∧ d'.l2 = d.l2 ∧ d'.data = d.data ∧ d'.newData = d.newData ∧
      d'.back = d.back ∧ d'.comp = d.comp ∧ d'.info = d.info ∧
      d'.l1Len = d.l1Len ∧ d'.l1HdrEntries = d.l1HdrEntries ∧ d.rtLen ≤ d'.rtLen ∧
      d'.version = d.version ∧ d'.hdrL1Off = d.hdrL1Off ∧ d'.hdrL1Entries = d.hdrL1Entries) ∧
    (∀ idx, idx < d.rtLen → RT.isZero (d.rt.get idx) = false → d'.rt.get idx = d.rt.get idx) ∧
    (∀ idx, idx < d.rtLen → d'.rt.get idx = d.rt.get idx ∨
      (RT.isZero (d.rt.get idx) = true ∧
        d'.rt.get idx = BitVec.ofNat 64 (idx * d.info.rbEntries * d.info.clusterSize))) := by
  have g := allocateClusters_growFrame count d
  rw [h] at g
  obtain ⟨fr, len, rt⟩ := g
  dsimp only at fr len rt
  refine ⟨?_, ?_, ?_⟩
  · obtain ⟨_, _, _, _, _, _, _, rfl⟩ := fr
    exact ⟨rfl, rfl, rfl, rfl, rfl, rfl, rfl, rfl, rfl, len, rfl, rfl, rfl⟩
  · intro idx hidx hz
    rcases rt idx hidx with e | c
    · exact e
    · rw [c.2.1] at hz; cases hz
  · intro idx hidx
    rcases rt idx hidx with e | c
    · exact Or.inl e
    · exact Or.inr ⟨c.2.1, c.2.2⟩

/-- the statement as it was before reftable growth, for calls that did not grow the
    table (any outcome) -/
theorem allocateClusters_err_frame (count : Nat) (d d' : Dev) (r : Outcome (Option (Nat × Nat)))
    (h : allocateClusters count d = (d', r)) (hng : d'.rtLen = d.rtLen) :
    (d'.l1 = d.l1 ∧ d'.l2 = d.l2 ∧ d'.data = d.data ∧ d'.newData = d.newData ∧
      d'.back = d.back ∧ d'.comp = d.comp ∧ d'.info = d.info ∧
      d'.l1Len = d.l1Len ∧ d'.l1HdrEntries = d.l1HdrEntries ∧ d'.rtLen = d.rtLen ∧
      d'.version = d.version) ∧
    (∀ idx, RT.isZero (d.rt.get idx) = false → d'.rt.get idx = d.rt.get idx) ∧
    (∀ idx, d'.rt.get idx = d.rt.get idx ∨
      (idx < d.rtLen ∧ RT.isZero (d.rt.get idx) = true ∧
        d'.rt.get idx = BitVec.ofNat 64 (idx * d.info.rbEntries * d.info.clusterSize))) := by
  have post := allocateClusters_post count d (by rw [h]; exact hng)
  rw [h] at post
  have g : RtGrow d d' := by
    rcases r with (_ | ⟨o, n⟩) | e | p
    · exact post.toRtGrow
    · exact post.toRtGrow
    · exact post
    · exact post
  obtain ⟨fr, rt⟩ := g
  refine ⟨?_, ?_, rt⟩
  · obtain ⟨_, _, _, _, rfl⟩ := fr
    exact ⟨rfl, rfl, rfl, rfl, rfl, rfl, rfl, rfl, rfl, rfl, rfl⟩
  · intro idx hz
    rcases rt idx with e | c
    · exact e
    · rw [c.2.1] at hz; cases hz

/-- Location of the run: under the geometry equations and `rb_slice_bits ≤
    cluster_bits` the run starts inside the area covered by the reftable (the scan
    never leaves the refblock range of an in-range reftable index).
    CHANGED (reftable growth): "the reftable" is the one after the call (`d'.rtLen`,
    was `d.rtLen`; the same when the call did not grow it). -/
theorem allocateClusters_in_reftable (count : Nat) (d d' : Dev) (g : Geom d.info)
    (hsl : d.info.rbSliceBits ≤ d.info.cb) (host n : Nat)
    (h : allocateClusters count d = (d', .ok (some (host, n)))) :
    Host.rtIndex d.info host < d'.rtLen ∧
    host < d'.rtLen * d.info.rbEntries * d.info.clusterSize :=
  allocateClusters_range count d d' g hsl host n h

/-- `Ok(None)` is never returned (restated from C08 for `allocateClusters`).  Note
    that on `Err` nothing is claimed about refcounts: a failed fragmentation retry
    (`free_clusters` error) may leave a partial run allocated. -/
theorem allocateClusters_never_none (count : Nat) (d : Dev) :
    (allocateClusters count d).2 ≠ .ok none :=
  Qv.Props.C08.allocateLoop_never_none count _ _ d

/-! ## T2. in-place overwrite: read-your-writes -/

/-- In-place overwrite inside one cluster that is already mapped DataFile/COPIED
    and is not a still-unzeroed new cluster: `__write_at` succeeds, changes nothing
    but the written sectors of the data plane (all metadata unchanged), and a read
    of the same range returns exactly the written tokens.
    (512-alignment of `off`/`len` is not needed beyond `toks.length = len / 512`;
    the block-size alignment is part of `writeCheck`.) -/
theorem write_inplace_read_back (d : Dev) (off len h : Nat) (toks : List Nat)
    (hc : writeCheck d.info off len = none) (hl : len ≠ 0)
    (hsingle : off / d.info.clusterSize = (off + len - 1) / d.info.clusterSize)
    (htoks : toks.length = len / 512)
    (hp : L2.plainOffset (d.mapping off) 0 = some h)
    (hnew : h / d.info.clusterSize ∉ d.newData) :
    writeAt off len toks d = (afterWrite d off h toks, .ok ()) ∧
    readAt (afterWrite d off h toks) off len = .ok (len, toks) := by
  have hnew' : d.newData.contains (h / d.info.clusterSize) = false := by
    simpa using hnew
  refine ⟨writeAt_inplace d off len toks h hc hl hsingle hp hnew', ?_⟩
  obtain ⟨hv, hlb, hob, _⟩ := writeCheck_none hc
  obtain ⟨hs, _, hco⟩ := plainOffset_some hp
  have hfit := single_cluster_fits (cs_pos d.info) hsingle
  rw [readAt_single (afterWrite d off h toks) off len hv hl hlb hob hfit]
  have hr : doRead (afterWrite d off h toks) (d.l2Entry off) off (len / 512) =
      .ok ((List.range (len / 512)).map (fun k =>
        (afterWrite d off h toks).data.get ((h + off % d.info.clusterSize) / 512 + k))) :=
    doRead_dataFile (afterWrite d off h toks) off (len / 512) h hs hco
  show (match doRead (afterWrite d off h toks) (d.l2Entry off) off (len / 512) with
    | .ok a => Outcome.ok (len, a) | .err e => .err e | .panic p => .panic p) = _
  rw [hr]
  dsimp only
  congr 2
  rw [← htoks]
  refine Eq.trans ?_ (range_map_getD toks)
  apply List.map_congr_left
  intro k hk
  have hk' := List.mem_range.mp hk
  show (d.data.setRange _ _ _).get _ = _
  rw [FMap.setRange_get, if_pos ⟨Nat.le_add_right _ _, by omega⟩]
  show toks.getD ((h + off % d.info.clusterSize) / 512 + k - (h + off % d.info.clusterSize) / 512) 0
    = toks.getD k 0
  rw [Nat.add_sub_cancel_left]

/-- field-wise version of the state equation of `write_inplace_read_back` -/
theorem write_inplace_meta (d : Dev) (off h : Nat) (toks : List Nat) :
    let d' := afterWrite d off h toks
    d'.info = d.info ∧ d'.l1 = d.l1 ∧ d'.l2 = d.l2 ∧ d'.rt = d.rt ∧ d'.rc = d.rc ∧
    d'.newData = d.newData ∧ d'.hint = d.hint ∧ d'.needFlush = d.needFlush ∧ d'.comp = d.comp ∧
    d'.back = d.back ∧ d'.l1Len = d.l1Len ∧ d'.rtLen = d.rtLen ∧
    (∀ s, d'.data.get s =
      if (h + off % d.info.clusterSize) / 512 ≤ s ∧
          s < (h + off % d.info.clusterSize) / 512 + toks.length
      then toks.getD (s - (h + off % d.info.clusterSize) / 512) 0 else d.data.get s) :=
  ⟨rfl, rfl, rfl, rfl, rfl, rfl, rfl, rfl, rfl, rfl, rfl, rfl, fun s => FMap.setRange_get _ _ _ _ s⟩

/-! ## T3. in-place overwrite: frame -/

/-- Frame of an in-place single-cluster write: under `MapInj` (guest clusters
    mapped to the data file occupy non-overlapping host clusters) every read —
    of any length, clamped or not, accepted or rejected — whose byte range is
    disjoint from the written range returns what it returned before. -/
theorem write_inplace_frame (d : Dev) (off len h : Nat) (toks : List Nat)
    (hc : writeCheck d.info off len = none) (hl : len ≠ 0)
    (hsingle : off / d.info.clusterSize = (off + len - 1) / d.info.clusterSize)
    (htoks : toks.length = len / 512)
    (hp : L2.plainOffset (d.mapping off) 0 = some h)
    (hinj : MapInj d)
    (off' len' : Nat) (hdisj : off' + len' ≤ off ∨ off + len ≤ off') :
    readAt (afterWrite d off h toks) off' len' = readAt d off' len' := by
  obtain ⟨hv, _, _, _⟩ := writeCheck_none hc
  obtain ⟨hs, _, hco⟩ := plainOffset_some hp
  have hfit := single_cluster_fits (cs_pos d.info) hsingle
  apply readAt_congr d (afterWrite d off h toks) off' len' rfl
  intro fuel clen hcl hcv
  apply doReads_congr d (afterWrite d off h toks) _ (fun _ => rfl)
  intro p hp'
  obtain ⟨p1, p2, p3⟩ := pieces_spec (cs_pos d.info) fuel off' clen p hp'
  apply doRead_congr_data
  intro hb hs' hco' k hk
  exact piece_disjoint d hinj off len h toks.length _ (by omega) hfit (by omega) hs hco
    p.1 p.2 (by omega) p2 (by omega) hb hs' hco' k hk

/-! ## T5. first write into an unallocated cluster: zero-once -/

/-- Single-cluster write into an unallocated cluster of an image without backing
    file whose L2 table already exists, given that `allocate_clusters(1)` returns
    the cluster at host offset `h`: the write succeeds; reading the whole guest
    cluster afterwards returns the written tokens at their place and zeros
    elsewhere (zero-once of the new cluster); the cluster handed out was free
    before (T1) and has refcount 1; it is now mapped DataFile/COPIED and is no
    longer in the new-cluster list, so T2/T3 apply to later writes.

    Hypotheses beyond the task statement: `9 ≤ cluster_bits` and `h < 2^56` (so that
    the L2 entry can hold `h`), cluster 0 (the header) is in use (so that `h ≠ 0`),
    `block bits ≤ cluster_bits` and the guest cluster lies inside the virtual disk
    (so that the whole-cluster read is accepted unclamped).

    CHANGED (reftable growth): hypothesis `hng` added (the allocation did not grow the
    reftable), needed for "was free before" and for `h ≠ 0` from `hhdr`.  Without it:
    `write_new_cluster_zeroes_rest_grow`. -/
theorem write_new_cluster_zeroes_rest (d d1 : Dev) (off len h n : Nat) (toks : List Nat)
    (hc : writeCheck d.info off len = none) (hl : len ≠ 0)
    (hsingle : off / d.info.clusterSize = (off + len - 1) / d.info.clusterSize)
    (hback : d.info.hasBack = false)
    (hun : (d.mapping off).source = .unallocated)
    (hl1 : L1.isZero (d.l1Entry off) = false)
    (hcb : 9 ≤ d.info.cb) (hbs : d.info.bsb ≤ d.info.cb)
    (hhdr : d.rc.get 0 ≠ 0)
    (ha : allocateClusters 1 d = (d1, .ok (some (h, n))))
    (hng : d1.rtLen = d.rtLen)
    (h56 : h < 2^56)
    (hv : off / d.info.clusterSize * d.info.clusterSize + d.info.clusterSize ≤ d.info.vsize) :
    ∃ d', writeAt off len toks d = (d', .ok ()) ∧
      readAt d' (off / d.info.clusterSize * d.info.clusterSize) d.info.clusterSize =
        .ok (d.info.clusterSize, (List.range (d.info.clusterSize / 512)).map (fun k =>
          if off % d.info.clusterSize / 512 ≤ k ∧ k < off % d.info.clusterSize / 512 + toks.length
          then toks.getD (k - off % d.info.clusterSize / 512) 0 else 0)) ∧
      d.rc.get (h / d.info.clusterSize) = 0 ∧ d'.rc.get (h / d.info.clusterSize) = 1 ∧
      h % d.info.clusterSize = 0 ∧
      h / d.info.clusterSize ∉ d'.newData ∧
      L2.plainOffset (d'.mapping off) 0 = some h ∧
      d'.info = d.info := by
  obtain ⟨hw, h512, hpos, hi1, hdata, hdec⟩ :=
    write_new_cluster d d1 off len h n toks hc hl hsingle hback hun hl1 hcb hhdr ha hng h56
  obtain ⟨n1, _, hal, hrun, _⟩ := allocateClusters_sound 1 d d1 h n ha hng
  obtain ⟨z1, z2⟩ := hrun (h / d.info.clusterSize) (Nat.le_refl _) (by omega)
  have hfr : AllocFrame d d1 := by
    have post := allocateClusters_post 1 d (by rw [ha]; exact hng)
    rw [ha] at post
    exact post.frame
  have hl11 : d1.l1Entry off = d.l1Entry off := by
    obtain ⟨_, _, _, _, rfl⟩ := hfr; rfl
  generalize hD : newMapped d1 ((h / d.info.clusterSize) :: d.newData) off h = D at hw
  have hDi : D.info = d.info := by rw [← hD]; exact hi1
  have hDe : D.l2Entry off = L2.mapClusterEntry h := by
    rw [← hD]; exact newMapped_l2Entry _ _ _ _ (by rw [hl11]; exact hl1)
  have hDn : D.newData = (h / d.info.clusterSize) :: d.newData := by rw [← hD]; rfl
  have hDrc : D.rc = d1.rc := by rw [← hD]; rfl
  refine ⟨zeroedWrite D off h toks, hw, ?_, z1, ?_, hal, ?_, ?_, hDi⟩
  · have := read_zeroedWrite D off h toks hDe (by rw [hDi]; exact hdec) h512
      (by rw [hDi]; exact hv) (by rw [hDi]; exact hbs)
    rw [hDi] at this
    exact this
  · show D.rc.get _ = 1
    rw [hDrc]; exact z2
  · show h / d.info.clusterSize ∉ D.newData.filter (· ≠ h / D.info.clusterSize)
    rw [hDi]
    simp
  · show L2.plainOffset (L2.intoMapping D.info.cb D.info.hasBack _ (D.l2Entry off)) 0 = some h
    rw [hDe, hDi, hdec]
    rfl

/-- T5 with the bound on `h` derived from T1 (`allocateClusters_in_reftable`):
    instead of `h < 2^56` it suffices that the reftable covers less than 2^56 bytes. -/
theorem write_new_cluster_zeroes_rest' (d d1 : Dev) (off len h n : Nat) (toks : List Nat)
    (g : Geom d.info) (hsl : d.info.rbSliceBits ≤ d.info.cb)
    (hc : writeCheck d.info off len = none) (hl : len ≠ 0)
    (hsingle : off / d.info.clusterSize = (off + len - 1) / d.info.clusterSize)
    (hback : d.info.hasBack = false)
    (hun : (d.mapping off).source = .unallocated)
    (hl1 : L1.isZero (d.l1Entry off) = false)
    (hcb : 9 ≤ d.info.cb) (hbs : d.info.bsb ≤ d.info.cb)
    (hhdr : d.rc.get 0 ≠ 0)
    (ha : allocateClusters 1 d = (d1, .ok (some (h, n))))
    (hng : d1.rtLen = d.rtLen)
    (hrt56 : d.rtLen * d.info.rbEntries * d.info.clusterSize ≤ 2^56)
    (hv : off / d.info.clusterSize * d.info.clusterSize + d.info.clusterSize ≤ d.info.vsize) :
    ∃ d', writeAt off len toks d = (d', .ok ()) ∧
      readAt d' (off / d.info.clusterSize * d.info.clusterSize) d.info.clusterSize =
        .ok (d.info.clusterSize, (List.range (d.info.clusterSize / 512)).map (fun k =>
          if off % d.info.clusterSize / 512 ≤ k ∧ k < off % d.info.clusterSize / 512 + toks.length
          then toks.getD (k - off % d.info.clusterSize / 512) 0 else 0)) ∧
      d.rc.get (h / d.info.clusterSize) = 0 ∧ d'.rc.get (h / d.info.clusterSize) = 1 ∧
      h % d.info.clusterSize = 0 ∧
      h / d.info.clusterSize ∉ d'.newData ∧
      L2.plainOffset (d'.mapping off) 0 = some h ∧
      d'.info = d.info :=
  write_new_cluster_zeroes_rest d d1 off len h n toks hc hl hsingle hback hun hl1 hcb hbs hhdr ha hng
    (Nat.lt_of_lt_of_le (hng ▸ (allocateClusters_in_reftable 1 d d1 g hsl h n ha).2) hrt56) hv

/-- NEW: T5 for an allocation that may have grown the reftable.  `0 < h` is a
    hypothesis (instead of "cluster 0 is in use"), and "the cluster was free before"
    is not claimed: both need the accounting invariant once the relocation has rewritten
    refcounts (C12).  Everything about the data plane and the mapping is as in T5. -/
theorem write_new_cluster_zeroes_rest_grow (d d1 : Dev) (off len h n : Nat) (toks : List Nat)
    (hc : writeCheck d.info off len = none) (hl : len ≠ 0)
    (hsingle : off / d.info.clusterSize = (off + len - 1) / d.info.clusterSize)
    (hback : d.info.hasBack = false)
    (hun : (d.mapping off).source = .unallocated)
    (hl1 : L1.isZero (d.l1Entry off) = false)
    (hcb : 9 ≤ d.info.cb) (hbs : d.info.bsb ≤ d.info.cb)
    (hpos : 0 < h)
    (ha : allocateClusters 1 d = (d1, .ok (some (h, n))))
    (h56 : h < 2^56)
    (hv : off / d.info.clusterSize * d.info.clusterSize + d.info.clusterSize ≤ d.info.vsize) :
    ∃ d', writeAt off len toks d = (d', .ok ()) ∧
      readAt d' (off / d.info.clusterSize * d.info.clusterSize) d.info.clusterSize =
        .ok (d.info.clusterSize, (List.range (d.info.clusterSize / 512)).map (fun k =>
          if off % d.info.clusterSize / 512 ≤ k ∧ k < off % d.info.clusterSize / 512 + toks.length
          then toks.getD (k - off % d.info.clusterSize / 512) 0 else 0)) ∧
      d'.rc.get (h / d.info.clusterSize) = 1 ∧
      h % d.info.clusterSize = 0 ∧
      h / d.info.clusterSize ∉ d'.newData ∧
      L2.plainOffset (d'.mapping off) 0 = some h ∧
      d'.info = d.info := by
  obtain ⟨hw, h512, hi1, hdata, hdec⟩ :=
    write_new_cluster_grow d d1 off len h n toks hc hl hsingle hback hun hl1 hcb hpos ha h56
  obtain ⟨n1, _, hal, hrun⟩ := allocateClusters_sound_general 1 d d1 h n ha
  have z2 := hrun (h / d.info.clusterSize) (Nat.le_refl _) (by omega)
  have hl11 : d1.l1Entry off = d.l1Entry off := by
    obtain ⟨⟨e1, _⟩, _⟩ := allocateClusters_frame 1 d d1 _ ha
    have e8 := (allocateClusters_frame 1 d d1 _ ha).1.2.2.2.2.2.2.2.1
    unfold Dev.l1Entry
    rw [e1, e8, hi1]
  generalize hD : newMapped d1 ((h / d.info.clusterSize) :: d.newData) off h = D at hw
  have hDi : D.info = d.info := by rw [← hD]; exact hi1
  have hDe : D.l2Entry off = L2.mapClusterEntry h := by
    rw [← hD]; exact newMapped_l2Entry _ _ _ _ (by rw [hl11]; exact hl1)
  have hDn : D.newData = (h / d.info.clusterSize) :: d.newData := by rw [← hD]; rfl
  have hDrc : D.rc = d1.rc := by rw [← hD]; rfl
  refine ⟨zeroedWrite D off h toks, hw, ?_, ?_, hal, ?_, ?_, hDi⟩
  · have := read_zeroedWrite D off h toks hDe (by rw [hDi]; exact hdec) h512
      (by rw [hDi]; exact hv) (by rw [hDi]; exact hbs)
    rw [hDi] at this
    exact this
  · show D.rc.get _ = 1
    rw [hDrc]; exact z2
  · show h / d.info.clusterSize ∉ D.newData.filter (· ≠ h / D.info.clusterSize)
    rw [hDi]
    simp
  · show L2.plainOffset (L2.intoMapping D.info.cb D.info.hasBack _ (D.l2Entry off)) 0 = some h
    rw [hDe, hDi, hdec]
    rfl

/-! ## T4. multi-cluster in-place overwrite -/

/-- `make_multiple_write_mappings` over clusters that are all mapped already returns
    the existing entries, allocates nothing and leaves the state unchanged -/
theorem makeMultiples_noalloc (d : Dev) (m fuel start : Nat) (acc : List E64) (hf : m ≤ fuel)
    (h : ∀ k, k < m → needMakeMapping d.info (d.mapping (start + k * d.info.clusterSize)) = false) :
    makeMultiples (start + m * d.info.clusterSize) fuel start acc d =
      (d, .ok (acc ++ (List.range m).map (fun k => d.l2Entry (start + k * d.info.clusterSize)))) :=
  Model.makeMultiples_noalloc d m fuel start acc hf h

/-- Multi-cluster in-place overwrite (every touched cluster already mapped
    DataFile/COPIED and not new): `__write_at` succeeds without allocating and changes
    only the data plane; under `MapInj`, with sector-aligned `off`/`len` and
    `cluster_bits ≥ 9`, reading the range back returns exactly the written tokens. -/
theorem write_inplace_multi_read_back (d : Dev) (off len : Nat) (toks : List Nat)
    (hc : writeCheck d.info off len = none) (hl : len ≠ 0)
    (hmulti : ¬ off / d.info.clusterSize = (off + len - 1) / d.info.clusterSize)
    (H : PlainRange d off len) (hinj : MapInj d)
    (hcb : 9 ≤ d.info.cb) (ho : off % 512 = 0) (hlen : len % 512 = 0)
    (htoks : toks.length = len / 512) :
    writeAt off len toks d = (afterWrites d off len toks, .ok ()) ∧
    readAt (afterWrites d off len toks) off len = .ok (len, toks) := by
  have hcs := cs_pos d.info
  refine ⟨writeAt_inplace_multi d off len toks hc hl hmulti H _ (fuel_enough hcs), ?_⟩
  obtain ⟨hv, hlb, hob, _⟩ := writeCheck_none hc
  rw [readAt_full (afterWrites d off len toks) off len hv hl hlb hob]
  have hfuel : pieces d.info.clusterSize ((len + d.info.clusterSize - 1) / d.info.clusterSize + 2) off len
      = pieces d.info.clusterSize (len / d.info.clusterSize + 2) off len :=
    pieces_fuel hcs _ _ _ _ (fuel_enough' hcs) (fuel_enough hcs)
  show (match doReads (afterWrites d off len toks) (pieces d.info.clusterSize
      ((len + d.info.clusterSize - 1) / d.info.clusterSize + 2) off len) with
    | .ok a => Outcome.ok (len, a) | .err e => .err e | .panic p => .panic p) = _
  rw [hfuel]
  have h512 : d.info.clusterSize % 512 = 0 := by
    have : d.info.clusterSize % d.info.clusterSize = 0 := Nat.mod_self _
    exact mod512_of_mod_cs hcb this
  have hr := doReads_dataAfter d hinj _ toks d.data
    (pieces_good d off len (len / d.info.clusterSize + 2) H hv)
    (pieces_pairwise hcs _ off len)
    (by rw [pieces_sum hcs h512 _ off len ho hlen (fuel_enough hcs)]; exact htoks)
  unfold afterWrites
  rw [hr]

/-- Frame of a multi-cluster in-place write: every read whose byte range is disjoint
    from the written range returns what it returned before. -/
theorem write_inplace_multi_frame (d : Dev) (off len : Nat) (toks : List Nat)
    (hc : writeCheck d.info off len = none)
    (H : PlainRange d off len) (hinj : MapInj d)
    (off' len' : Nat) (hdisj : off' + len' ≤ off ∨ off + len ≤ off') :
    readAt (afterWrites d off len toks) off' len' = readAt d off' len' := by
  obtain ⟨hv, _, _, _⟩ := writeCheck_none hc
  have hcs := cs_pos d.info
  apply readAt_congr d (afterWrites d off len toks) off' len' rfl
  intro fuel clen hcl hcv
  apply doReads_congr d (afterWrites d off len toks) _ (fun _ => rfl)
  intro q hq
  obtain ⟨q1, q2, q3⟩ := pieces_spec hcs fuel off' clen q hq
  apply doRead_congr_data
  intro hb hs' hco' k hk
  have hgq : GoodPiece d q := ⟨q2, by omega, hs', hb, hco'⟩
  have := dataAfter_get_disjoint d hinj
    (pieces d.info.clusterSize (len / d.info.clusterSize + 2) off len) toks d.data q hgq
    (pieces_good d off len _ H hv)
    (fun p hp => by
      obtain ⟨p1, _, p3⟩ := pieces_spec hcs _ off len p hp
      omega) k hk
  rw [hostSec_eq hco'] at this
  exact this

/-! ## Summary: read-your-writes, frame and refinement for any in-place write -/

/-- Any accepted, non-empty, sector-aligned write over clusters that are all mapped
    DataFile/COPIED and not new (single- or multi-cluster path of `__write_at`)
    succeeds, changes only the data plane (`afterWrites` = `d.withData …`), reads
    back as written, and leaves every disjoint read unchanged. -/
theorem inplace_write_ryw_frame (d : Dev) (off len : Nat) (toks : List Nat)
    (hc : writeCheck d.info off len = none) (hl : len ≠ 0)
    (H : PlainRange d off len) (hinj : MapInj d)
    (hcb : 9 ≤ d.info.cb) (ho : off % 512 = 0) (hlen : len % 512 = 0)
    (htoks : toks.length = len / 512) :
    writeAt off len toks d = (afterWrites d off len toks, .ok ()) ∧
    readAt (afterWrites d off len toks) off len = .ok (len, toks) ∧
    ∀ off' len', off' + len' ≤ off ∨ off + len ≤ off' →
      readAt (afterWrites d off len toks) off' len' = readAt d off' len' := by
  by_cases hsingle : off / d.info.clusterSize = (off + len - 1) / d.info.clusterSize
  · obtain ⟨h, hp, hnew⟩ := H off (Nat.le_refl _) (by omega)
    obtain ⟨_, _, hco⟩ := plainOffset_some hp
    have hfit := single_cluster_fits (cs_pos d.info) hsingle
    have heq : afterWrites d off len toks = afterWrite d off h toks :=
      afterWrites_single d off len h toks hl hfit htoks hco
    rw [heq]
    obtain ⟨h1, h2⟩ := write_inplace_read_back d off len h toks hc hl hsingle htoks hp hnew
    exact ⟨h1, h2, fun off' len' hd =>
      write_inplace_frame d off len h toks hc hl hsingle htoks hp hinj off' len' hd⟩
  · obtain ⟨h1, h2⟩ := write_inplace_multi_read_back d off len toks hc hl hsingle H hinj hcb ho hlen htoks
    exact ⟨h1, h2, fun off' len' hd =>
      write_inplace_multi_frame d off len toks hc H hinj off' len' hd⟩

/-- in-place writes change nothing the hypotheses of this file depend on: the
    theorems can be chained over a sequence of in-place writes -/
theorem inplace_write_preserves (d : Dev) (D : FMap Nat) :
    (MapInj (d.withData D) ↔ MapInj d) ∧
    (∀ off len, PlainRange (d.withData D) off len ↔ PlainRange d off len) ∧
    (d.withData D).info = d.info ∧ (d.withData D).rc = d.rc ∧ (d.withData D).l1 = d.l1 ∧
    (d.withData D).l2 = d.l2 ∧ (d.withData D).newData = d.newData :=
  ⟨Iff.rfl, fun _ _ => Iff.rfl, rfl, rfl, rfl, rfl, rfl⟩

/-- **C01, in-place step.**  If the device shows the flat reference disk `f`
    (`Refines`: every guest sector inside the virtual disk reads as `f.sec`), then
    after an in-place write it shows `f.write off toks`: the written sectors carry the
    written tokens, every other sector is unchanged. -/
theorem inplace_write_refines (d : Dev) (f : Qv.Spec.Flat) (off len : Nat) (toks : List Nat)
    (hc : writeCheck d.info off len = none) (hl : len ≠ 0)
    (H : PlainRange d off len) (hinj : MapInj d)
    (hcb : 9 ≤ d.info.cb) (ho : off % 512 = 0) (hlen : len % 512 = 0)
    (htoks : toks.length = len / 512)
    (hr : Refines d f) :
    writeAt off len toks d = (afterWrites d off len toks, .ok ()) ∧
    Refines (afterWrites d off len toks) (f.write off toks) := by
  obtain ⟨hw, hrb, _⟩ := inplace_write_ryw_frame d off len toks hc hl H hinj hcb ho hlen htoks
  refine ⟨hw, ?_⟩
  obtain ⟨hv, hlb, hob, _⟩ := writeCheck_none hc
  have h512 : d.info.clusterSize % 512 = 0 := mod512_of_mod_cs hcb (Nat.mod_self _)
  have hsw := readAt_sectorwise (afterWrites d off len toks) off len h512 hv hl hlb hob ho hlen
  rw [hrb] at hsw
  simp only [Outcome.ok.injEq, Prod.mk.injEq, true_and] at hsw
  intro s hsv
  rw [flat_write_sec]
  by_cases hin : off / 512 ≤ s ∧ s < off / 512 + toks.length
  · rw [if_pos hin]
    have hj : s - off / 512 < len / 512 := by omega
    have : toks.getD (s - off / 512) 0 = guestSec (afterWrites d off len toks) (off / 512 + (s - off / 512)) := by
      conv => lhs; rw [hsw]
      simp [List.getD_eq_getElem?_getD, hj]
    rw [this]
    congr 1
    omega
  · rw [if_neg hin]
    rw [guestSec_afterWrites_outside d off len toks h512 hv H hinj s hsv (by omega)]
    exact hr s hsv

/-- what `Refines` means for reads: an accepted, unclamped, sector-aligned read
    returns the content of the flat disk -/
theorem refines_read (d : Dev) (f : Qv.Spec.Flat) (hr : Refines d f) (off len : Nat)
    (h512 : d.info.clusterSize % 512 = 0)
    (hv : off + len ≤ d.info.vsize) (hl : len ≠ 0)
    (hlb : len % d.info.bs = 0) (hob : off % d.info.bs = 0)
    (ho : off % 512 = 0) (hlen : len % 512 = 0) :
    readAt d off len = .ok (len, f.read off (len / 512)) := by
  rw [readAt_sectorwise d off len h512 hv hl hlb hob ho hlen]
  congr 2
  unfold Qv.Spec.Flat.read
  apply List.map_congr_left
  intro k hk
  have hk' := List.mem_range.mp hk
  apply hr
  omega

/-! ## Non-vacuity -/

open Qv.Props.C15 (infoEx)

/-- 64 KiB clusters, one refblock (cluster 1), host clusters 0–6 in use, hint at the
    free cluster 7; L2 table at 0x30000; guest cluster 1 → host cluster 5 (0x50000,
    DataFile/COPIED); guest cluster 2 → host cluster 6; every other guest cluster
    unallocated. -/
def devW : Dev :=
  { (default : Dev) with
    info := infoEx, l1Len := 1, newData := [],
    l1 := (FMap.empty 0#64).set 0 (L1.mapEntry 0x30000),
    l2 := (FMap.empty (FMap.empty 0#64)).set 0x30000
            (((FMap.empty 0#64).set 1 (L2.mapClusterEntry 0x50000)).set 2 (L2.mapClusterEntry 0x60000)),
    data := (FMap.empty 0).set 0x282 99,
    rtLen := 1, rt := (FMap.empty 0#64).set 0 0x10000#64,
    rc := (FMap.empty 0).setRange 0 7 (fun _ => 1),
    hint := 0x70000 }

theorem devW_l2Entry (off : Nat) :
    devW.l2Entry off = if off / 2^16 = 2 then L2.mapClusterEntry 0x60000
      else if off / 2^16 = 1 then L2.mapClusterEntry 0x50000 else 0#64 := by
  by_cases h : off < 2^29
  · have h1 : Split.l1Index devW.info off = 0 := by
      show off / 2^(16 + 13) = 0
      exact Nat.div_eq_of_lt h
    have h2 : Split.l2Index devW.info off = off / 2^16 := by
      show off / 2^16 % 2^13 = off / 2^16
      apply Nat.mod_eq_of_lt
      rw [Nat.div_lt_iff_lt_mul (Nat.two_pow_pos _)]
      exact h
    have hl1 : devW.l1Entry off = L1.mapEntry 0x30000 := by
      unfold Dev.l1Entry
      rw [h1]
      have hlen : (0 : Nat) < devW.l1Len := by decide
      rw [if_pos hlen]
      show ((FMap.empty 0#64).set 0 (L1.mapEntry 0x30000)).get 0 = _
      rw [FMap.get_set_same]
    unfold Dev.l2Entry
    rw [hl1, h2]
    dsimp only
    have hz : L1.isZero (L1.mapEntry 0x30000) = false := by decide
    have ho : (L1.l2Offset (L1.mapEntry 0x30000)).toNat = 0x30000 := by decide
    rw [hz, ho]
    show (((FMap.empty (FMap.empty 0#64)).set 0x30000 _).get 0x30000).get _ = _
    rw [FMap.get_set_same, FMap.get_set, FMap.get_set, FMap.get_empty]
    by_cases c2 : off / 2^16 = 2
    · simp [c2]
    · by_cases c1 : off / 2^16 = 1
      · simp [c1]
      · simp [c1, c2, Ne.symm c1, Ne.symm c2]
  · have h1 : ¬ Split.l1Index devW.info off < devW.l1Len := by
      show ¬ off / 2^(16 + 13) < 1
      have : 1 ≤ off / 2^(16 + 13) := by
        rw [Nat.le_div_iff_mul_le (Nat.two_pow_pos _)]; omega
      omega
    have hl1 : devW.l1Entry off = 0#64 := by
      unfold Dev.l1Entry
      rw [if_neg h1]
    unfold Dev.l2Entry
    rw [hl1]
    dsimp only
    rw [if_pos (by decide)]
    have : 2^13 ≤ off / 2^16 := by
      rw [Nat.le_div_iff_mul_le (Nat.two_pow_pos _)]; omega
    rw [if_neg (by omega), if_neg (by omega)]

theorem devW_mapping (off : Nat) :
    (off / 2^16 = 1 → devW.mapping off =
      { source := .dataFile, clusterOffset := some 0x50000, compressedLength := none, copied := true }) ∧
    (off / 2^16 = 2 → devW.mapping off =
      { source := .dataFile, clusterOffset := some 0x60000, compressedLength := none, copied := true }) ∧
    (off / 2^16 ≠ 1 → off / 2^16 ≠ 2 → (devW.mapping off).source = .unallocated) := by
  unfold Dev.mapping
  rw [devW_l2Entry]
  dsimp only
  refine ⟨?_, ?_, ?_⟩
  · intro h
    rw [if_neg (by omega), if_pos h]
    exact L2.mapClusterEntry_intoMapping _ _ _ 0x50000 (by decide) (by decide) (by decide)
  · intro h
    rw [if_pos h]
    exact L2.mapClusterEntry_intoMapping _ _ _ 0x60000 (by decide) (by decide) (by decide)
  · intro h1 h2
    rw [if_neg h2, if_neg h1]
    show (L2.intoMapping 16 false _ 0#64).source = _
    rw [intoMapping_zero_entry]

theorem devW_mapInj : MapInj devW := by
  intro a b ha hb _ _ hne sa ca sb cb
  have hcs : devW.info.clusterSize = 2^16 := rfl
  rw [hcs] at hne ⊢
  obtain ⟨a1, a2, a3⟩ := devW_mapping a
  obtain ⟨b1, b2, b3⟩ := devW_mapping b
  have hA : a / 2^16 = 1 ∨ a / 2^16 = 2 := by
    apply Classical.byContradiction; intro hc
    have := a3 (by omega) (by omega)
    rw [sa] at this; cases this
  have hB : b / 2^16 = 1 ∨ b / 2^16 = 2 := by
    apply Classical.byContradiction; intro hc
    have := b3 (by omega) (by omega)
    rw [sb] at this; cases this
  rcases hA with hA | hA <;> rcases hB with hB | hB
  · omega
  · rw [a1 hA] at ca; rw [b2 hB] at cb
    simp at ca cb; omega
  · rw [a2 hA] at ca; rw [b1 hB] at cb
    simp at ca cb; omega
  · omega

/-- T2 is not vacuous: overwrite sectors 2–3 of guest cluster 1 -/
example : writeAt 0x10400 1024 [7, 8] devW = (afterWrite devW 0x10400 0x50000 [7, 8], .ok ()) ∧
    readAt (afterWrite devW 0x10400 0x50000 [7, 8]) 0x10400 1024 = .ok (1024, [7, 8]) :=
  write_inplace_read_back devW 0x10400 1024 0x50000 [7, 8] (by decide) (by decide) (by decide) rfl
    (by rw [(devW_mapping 0x10400).1 (by decide)]; rfl) (by simp [devW])

/-- T3 is not vacuous: the neighbouring sectors of the same cluster and the other
    cluster read as before -/
example : readAt (afterWrite devW 0x10400 0x50000 [7, 8]) 0x10000 1024 = readAt devW 0x10000 1024 ∧
    readAt (afterWrite devW 0x10400 0x50000 [7, 8]) 0x10800 0x20000 = readAt devW 0x10800 0x20000 :=
  ⟨write_inplace_frame devW 0x10400 1024 0x50000 [7, 8] (by decide) (by decide) (by decide) rfl
      (by rw [(devW_mapping 0x10400).1 (by decide)]; rfl) devW_mapInj _ _ (by decide),
   write_inplace_frame devW 0x10400 1024 0x50000 [7, 8] (by decide) (by decide) (by decide) rfl
      (by rw [(devW_mapping 0x10400).1 (by decide)]; rfl) devW_mapInj _ _ (by decide)⟩


theorem devW_rc (k : Nat) : devW.rc.get k = if k < 7 then 1 else 0 := by
  show ((FMap.empty 0).setRange 0 7 (fun _ => 1)).get k = _
  rw [FMap.setRange_get, FMap.get_empty]
  by_cases h : k < 7
  · rw [if_pos (by omega), if_pos h]
  · rw [if_neg (by omega), if_neg h]

/-- the allocator hands out host cluster 7 -/
theorem devW_alloc : ∃ d1, allocateClusters 1 devW = (d1, .ok (some (0x70000, 1))) ∧
    d1.rtLen = devW.rtLen :=
  allocateClusters_one_free_hint devW Qv.Props.C08.geomEx (by decide)
    (by
      have : devW.rt.get (Host.rtIndex devW.info devW.hint) = 0x10000#64 := by
        show ((FMap.empty 0#64).set 0 0x10000#64).get 0 = _
        rw [FMap.get_set_same]
      rw [this]; decide)
    (by
      have : devW.hint / devW.info.clusterSize = 7 := by decide
      rw [this, devW_rc]; rfl)

/-- T1 is not vacuous -/
example : ∃ d1, allocateClusters 1 devW = (d1, .ok (some (0x70000, 1))) ∧
    devW.rc.get 7 = 0 ∧ d1.rc.get 7 = 1 ∧ d1.rc.get 6 = 1 ∧ d1.rc.get 8 = 0 ∧
    d1.l1 = devW.l1 ∧ d1.l2 = devW.l2 ∧ d1.data = devW.data ∧ d1.rt.get 0 = devW.rt.get 0 := by
  obtain ⟨d1, h, hng⟩ := devW_alloc
  obtain ⟨_, _, _, hrun, hother, hfr, hrt, _⟩ := allocateClusters_sound 1 devW d1 0x70000 1 h hng
  have hq : 0x70000 / devW.info.clusterSize = 7 := by decide
  rw [hq] at hrun hother
  obtain ⟨z1, z2⟩ := hrun 7 (by omega) (by omega)
  have hrt0 : devW.rt.get 0 = 0x10000#64 := by
    show ((FMap.empty 0#64).set 0 0x10000#64).get 0 = _
    rw [FMap.get_set_same]
  have hkeep : ∀ c, c ≠ 7 → d1.rc.get c = devW.rc.get c := by
    intro c hc
    rcases hother c (by omega) with e | ⟨idx, hlt, hz, _⟩
    · exact e
    · have : idx = 0 := by
        have : devW.rtLen = 1 := rfl
        omega
      subst this
      rw [hrt0] at hz
      exact absurd hz (by decide)
  refine ⟨d1, h, z1, z2, ?_, ?_, hfr.1, hfr.2.1, hfr.2.2.1, hrt 0 (by rw [hrt0]; decide)⟩
  · rw [hkeep 6 (by omega), devW_rc]; rfl
  · rw [hkeep 8 (by omega), devW_rc]; rfl

theorem devW_l1Entry (off : Nat) (h : off < 2^29) : devW.l1Entry off = L1.mapEntry 0x30000 := by
  have h1 : Split.l1Index devW.info off = 0 := by
    show off / 2^(16 + 13) = 0
    exact Nat.div_eq_of_lt h
  unfold Dev.l1Entry
  rw [h1]
  have hlen : (0 : Nat) < devW.l1Len := by decide
  rw [if_pos hlen]
  show ((FMap.empty 0#64).set 0 (L1.mapEntry 0x30000)).get 0 = _
  rw [FMap.get_set_same]

/-- T5 is not vacuous: first write (one sector, token 42, at sector 1) into the
    unallocated guest cluster 3; the cluster then reads `0, 42, 0, 0, …` -/
example : ∃ d', writeAt 0x30200 512 [42] devW = (d', .ok ()) ∧
    readAt d' 0x30000 0x10000 =
      .ok (0x10000, (List.range 128).map (fun k => if 1 ≤ k ∧ k < 2 then [42].getD (k - 1) 0 else 0)) ∧
    devW.rc.get 7 = 0 ∧ d'.rc.get 7 = 1 := by
  obtain ⟨d1, ha, hng⟩ := devW_alloc
  obtain ⟨d', hw, hr, z1, z2, _⟩ := write_new_cluster_zeroes_rest' devW d1 0x30200 512 0x70000 1 [42]
    Qv.Props.C08.geomEx (by decide)
    (by decide) (by decide) (by decide) rfl
    ((devW_mapping 0x30200).2.2 (by decide) (by decide))
    (by rw [devW_l1Entry _ (by decide)]; decide)
    (by decide) (by decide) (by rw [devW_rc]; decide) ha hng (by decide) (by decide)
  exact ⟨d', hw, hr, z1, z2⟩

theorem devW_plainRange : PlainRange devW 0x1FC00 2048 := by
  intro o o1 o2
  have hnd : devW.newData = [] := rfl
  have hq : o / 2^16 = 1 ∨ o / 2^16 = 2 := by omega
  rcases hq with hq | hq
  · refine ⟨0x50000, ?_, by rw [hnd]; simp⟩
    rw [(devW_mapping o).1 hq]; rfl
  · refine ⟨0x60000, ?_, by rw [hnd]; simp⟩
    rw [(devW_mapping o).2.1 hq]; rfl

/-- T4 is not vacuous: a write across the boundary of guest clusters 1 and 2 -/
example : writeAt 0x1FC00 2048 [1, 2, 3, 4] devW = (afterWrites devW 0x1FC00 2048 [1, 2, 3, 4], .ok ()) ∧
    readAt (afterWrites devW 0x1FC00 2048 [1, 2, 3, 4]) 0x1FC00 2048 = .ok (2048, [1, 2, 3, 4]) ∧
    readAt (afterWrites devW 0x1FC00 2048 [1, 2, 3, 4]) 0x10000 0xFC00 = readAt devW 0x10000 0xFC00 := by
  obtain ⟨h1, h2⟩ := write_inplace_multi_read_back devW 0x1FC00 2048 [1, 2, 3, 4] (by decide) (by decide)
    (by decide) devW_plainRange devW_mapInj (by decide) (by decide) (by decide) rfl
  exact ⟨h1, h2, write_inplace_multi_frame devW 0x1FC00 2048 [1, 2, 3, 4] (by decide)
    devW_plainRange devW_mapInj _ _ (by decide)⟩
/-- the flat disk `devW` shows: token 99 at guest sector 0x82, zeros elsewhere -/
def flatW : Qv.Spec.Flat := { (default : Qv.Spec.Flat) with sec := (FMap.empty 0).set 0x82 99 }

theorem devW_refines : Refines devW flatW := by
  intro s _
  have hdata : ∀ j, devW.data.get j = if 0x282 = j then 99 else 0 := by
    intro j
    show ((FMap.empty 0).set 0x282 99).get j = _
    rw [FMap.get_set, FMap.get_empty]
  have hf : flatW.sec.get s = if 0x82 = s then 99 else 0 := by
    show ((FMap.empty 0).set 0x82 99).get s = _
    rw [FMap.get_set, FMap.get_empty]
  have hcs : devW.info.clusterSize = 65536 := rfl
  obtain ⟨m1, m2, m3⟩ := devW_mapping (s * 512)
  rw [hf]
  by_cases h1 : s * 512 / 2^16 = 1
  · have hm := m1 h1
    rw [guestSec_dataFile devW s 0x50000 (by rw [hm]) (by rw [hm]), hdata, hcs]
    by_cases hs : 0x82 = s
    · subst hs; rfl
    · rw [if_neg hs, if_neg (by omega)]
  · by_cases h2 : s * 512 / 2^16 = 2
    · have hm := m2 h2
      rw [guestSec_dataFile devW s 0x60000 (by rw [hm]) (by rw [hm]), hdata, hcs]
      rw [if_neg (by omega), if_neg (by omega)]
    · rw [guestSec_unallocated devW s (m3 h1 h2), if_neg (by omega)]

/-- the refinement step is not vacuous: after the write of T2's example the device
    shows `flatW.write 0x10400 [7, 8]` -/
example : Refines (afterWrites devW 0x10400 1024 [7, 8]) (flatW.write 0x10400 [7, 8]) :=
  (inplace_write_refines devW flatW 0x10400 1024 [7, 8] (by decide) (by decide)
    (by
      intro o o1 o2
      refine ⟨0x50000, ?_, by simp [devW]⟩
      rw [(devW_mapping o).1 (by omega)]; rfl)
    devW_mapInj (by decide) (by decide) (by decide) rfl devW_refines).2
end Qv.Props.C01Model
