import Qv.Proofs.Frames
/-
C16 — every request sent to the backend is block aligned (offset and length
multiples of the backend block size `bs = 2^bsb`), for every request site of
`Qv.Model.Req`; the one exception (the header write of `commit_header`) is
stated as a theorem too.

Standing relations between the sizes: `bs = 2^bsb`, `cs = 2^cb`, slice size
`2^sliceBits`, with `bsb ≤ sliceBits ≤ cb` (`cache_geometry` asserts it) and
`9 ≤ bsb` (sectors) where sector counts are involved.
-/
namespace Qv.Props.C16
open Qv Qv.Model Qv.Codec Qv.Arith16

/-- data read / write of a block-aligned in-cluster range of a host cluster -/
theorem data_aligned (bsb cb host inCl len : Nat) (hle : bsb ≤ cb)
    (hh : host % 2^cb = 0) (hi : inCl % 2^bsb = 0) (hl : len % 2^bsb = 0) :
    Req.aligned (2^bsb) (Req.data host inCl len) :=
  ⟨add_mod_zero (mod_zero_of_dvd_of_mod (Nat.pow_dvd_pow 2 hle) hh) hi, hl⟩

/-- the bounce-buffer read of compressed data is aligned for every `(off, len)`
    (and every `bs`, even a degenerate one) -/
theorem compressed_aligned (bs off len : Nat) : Req.aligned bs (Req.compressed bs off len) :=
  ⟨Nat.mul_mod_left _ _, alignUp_mod _ _⟩

/-- … and covers the bytes `[off, off+len)` it is meant to fetch -/
theorem compressed_covers (bs off len : Nat) (hbs : 0 < bs) :
    (Req.compressed bs off len).1 ≤ off ∧
    off + len ≤ (Req.compressed bs off len).1 + (Req.compressed bs off len).2 := by
  unfold Req.compressed
  dsimp only
  have h1 := Nat.div_add_mod off bs
  have h2 := alignUp_ge (off % bs + len) bs hbs
  rw [Nat.mul_comm] at h1
  omega

/-- slice load (`add_cache_slice`) and slice write-back (`flush_table`) -/
theorem slice_aligned (bsb sliceBits cb tableOff n : Nat) (h1 : bsb ≤ sliceBits) (h2 : bsb ≤ cb)
    (ht : tableOff % 2^cb = 0) :
    Req.aligned (2^bsb) (Req.slice tableOff n sliceBits) :=
  ⟨add_mod_zero (mod_zero_of_dvd_of_mod (Nat.pow_dvd_pow 2 h2) ht)
      (mul_mod_zero_right n (two_pow_mod h1)), two_pow_mod h1⟩

/-- one block of a top table (`flush_top_table`) -/
theorem topBlock_aligned (bsb cb tableOff idx : Nat) (h2 : bsb ≤ cb) (ht : tableOff % 2^cb = 0) :
    Req.aligned (2^bsb) (Req.topBlock tableOff idx bsb) :=
  ⟨add_mod_zero (mod_zero_of_dvd_of_mod (Nat.pow_dvd_pow 2 h2) ht)
      (mul_mod_zero_right idx (Nat.mod_self _)), Nat.mod_self _⟩

/-- whole L1 table load: the RAM size is `align_up(entries*8, bs)` -/
theorem topLoad_aligned (bsb cb tableOff entries : Nat) (h2 : bsb ≤ cb) (ht : tableOff % 2^cb = 0) :
    Req.aligned (2^bsb) (Req.topLoad tableOff (Info.maxL1Size entries (2^bsb))) :=
  ⟨mod_zero_of_dvd_of_mod (Nat.pow_dvd_pow 2 h2) ht, alignUp_mod _ _⟩

/-- whole reftable load: `refcount_table_clusters * cluster_size` bytes -/
theorem topLoad_rt_aligned (bsb cb tableOff rtClusters : Nat) (h2 : bsb ≤ cb) (ht : tableOff % 2^cb = 0) :
    Req.aligned (2^bsb) (Req.topLoad tableOff (rtClusters * 2^cb)) :=
  ⟨mod_zero_of_dvd_of_mod (Nat.pow_dvd_pow 2 h2) ht, mul_mod_zero_right _ (two_pow_mod h2)⟩

/-- zero-once / hole punch of whole clusters, for ANY host offset -/
theorem zeroClusters_aligned (i : Info) (hostOff cnt : Nat) (h : i.bsb ≤ i.cb) :
    Req.aligned i.bs (Req.zeroClusters i hostOff cnt) :=
  ⟨mul_mod_zero_right _ (two_pow_mod h), mul_mod_zero_right _ (two_pow_mod h)⟩

/-- whole-cluster COW copy -/
theorem cowCluster_aligned (i : Info) (host : Nat) (h : i.bsb ≤ i.cb) (hh : host % i.clusterSize = 0) :
    Req.aligned i.bs (Req.cowCluster i host) :=
  ⟨mod_zero_of_dvd_of_mod (Nat.pow_dvd_pow 2 h) hh, two_pow_mod h⟩

/-- header probe: 4096 bytes, then 65536; aligned for block sizes up to 4096 -/
theorem headerRead_aligned (bsb n : Nat) (h : bsb ≤ 12) (hn : n = 4096 ∨ n = 65536) :
    Req.aligned (2^bsb) (Req.headerRead n) := by
  refine ⟨Nat.zero_mod _, ?_⟩
  rcases hn with rfl | rfl
  · exact two_pow_mod (b := 12) h
  · exact two_pow_mod (b := 16) (by omega)

/-- the pieces a request is split into at cluster boundaries: block-aligned
    offset, block-multiple byte length `cur`, and the sector count `n` recorded in
    the piece is exactly `cur / 512` with nothing lost (`n * 512 = cur`) -/
theorem pieces_aligned (bs cs : Nat) (hbc : bs ∣ cs) (h512 : 512 ∣ bs) :
    ∀ (fuel off len : Nat), off % bs = 0 → len % bs = 0 →
      ∀ p ∈ pieces cs fuel off len, p.1 % bs = 0 ∧ (p.2 * 512) % bs = 0 ∧
        ∃ cur, cur % bs = 0 ∧ p.2 * 512 = cur ∧ cur ≤ len ∧ cur ≤ cs - p.1 % cs := by
  intro fuel
  induction fuel with
  | zero => intro off len _ _ p hp; simp [pieces] at hp
  | succ fuel ih =>
    intro off len ho hl p hp
    by_cases hz : len = 0
    · subst hz; rw [pieces_len_zero] at hp; cases hp
    · rw [pieces_succ _ _ _ _ hz] at hp
      have hcs : cs % bs = 0 := Nat.mod_eq_zero_of_dvd hbc
      have hcur : (min (cs - off % cs) len) % bs = 0 :=
        min_mod_zero (sub_mod_zero hcs (mod_mod_zero hbc ho)) hl
      have hcur512 : min (cs - off % cs) len / 512 * 512 = min (cs - off % cs) len :=
        Nat.div_mul_cancel (Nat.dvd_trans h512 (Nat.dvd_of_mod_eq_zero hcur))
      rcases List.mem_cons.1 hp with rfl | hp
      · refine ⟨ho, ?_, _, hcur, hcur512, Nat.min_le_right _ _, Nat.min_le_left _ _⟩
        dsimp only; rw [hcur512]; exact hcur
      · obtain ⟨a1, a2, cur, c1, c2, c3, c4⟩ := ih _ _ (add_mod_zero ho hcur) (sub_mod_zero hl hcur) p hp
        exact ⟨a1, a2, cur, c1, c2, by omega, c4⟩

/-- with enough fuel the pieces tile `[off, off+len)` in order, each non-empty
    and inside one cluster -/
theorem pieces_cover (cs : Nat) (hcs : 0 < cs) (h512 : 512 ∣ cs) :
    ∀ (fuel off len : Nat), off % 512 = 0 → len % 512 = 0 → off % cs + len ≤ fuel * cs →
      Tiles cs off (pieces cs fuel off len) (off + len) := by
  intro fuel
  induction fuel with
  | zero =>
    intro off len _ _ hf
    have : len = 0 := by omega
    subst this; simp [pieces, Tiles]
  | succ fuel ih =>
    intro off len ho hl hf
    by_cases hz : len = 0
    · subst hz; rw [pieces_len_zero]; simp [Tiles]
    · rw [pieces_succ _ _ _ _ hz]
      have hmlt := Nat.mod_lt off hcs
      have hdm := Nat.div_add_mod off cs
      have hcur0 : (min (cs - off % cs) len) % 512 = 0 :=
        min_mod_zero (sub_mod_zero (Nat.mod_eq_zero_of_dvd h512) (mod_mod_zero h512 ho)) hl
      have hcur512 : min (cs - off % cs) len / 512 * 512 = min (cs - off % cs) len :=
        Nat.div_mul_cancel (Nat.dvd_of_mod_eq_zero hcur0)
      have hle1 := Nat.min_le_left (cs - off % cs) len
      have hle2 := Nat.min_le_right (cs - off % cs) len
      have hpos : 0 < min (cs - off % cs) len := by
        rcases Nat.le_total (cs - off % cs) len with h | h
        · rw [Nat.min_eq_left h]; omega
        · rw [Nat.min_eq_right h]; omega
      unfold Tiles
      rw [hcur512]
      refine ⟨rfl, ?_, ?_, ?_⟩
      · apply Nat.pos_of_ne_zero; intro h0; rw [h0] at hcur512; omega
      · apply Nat.div_eq_of_lt_le
        · rw [Nat.mul_comm]; omega
        · rw [Nat.succ_mul, Nat.mul_comm]; omega
      · rcases Nat.lt_or_ge len (cs - off % cs) with h | h
        · -- the request ends inside this cluster: nothing is left
          rw [Nat.min_eq_right (Nat.le_of_lt h), Nat.sub_self, pieces_len_zero]
          rfl
        · rw [Nat.min_eq_left h]
          have hfin : off + (cs - off % cs) + (len - (cs - off % cs)) = off + len := by omega
          rw [← hfin]
          rw [Nat.min_eq_left h] at hcur0
          apply ih _ _ (add_mod_zero ho hcur0) (sub_mod_zero hl hcur0)
          rw [Nat.succ_mul] at hf
          have : (off + (cs - off % cs)) % cs = 0 := by
            have : off + (cs - off % cs) = cs * (off / cs + 1) := by
              rw [Nat.mul_add, Nat.mul_one]; omega
            rw [this]; exact Nat.mul_mod_right _ _
          omega

/-- the fuel `__write_at` / `__read_at` give (`len / cs + 2`) is enough -/
theorem pieces_cover_fuel (cs fuel off len : Nat) (hcs : 0 < cs) (h512 : 512 ∣ cs)
    (ho : off % 512 = 0) (hl : len % 512 = 0) (hf : len / cs + 2 ≤ fuel) :
    Tiles cs off (pieces cs fuel off len) (off + len) := by
  apply pieces_cover cs hcs h512 fuel off len ho hl
  have h1 := Nat.div_add_mod len cs
  have h2 := Nat.mod_lt len hcs
  have h3 := Nat.mod_lt off hcs
  have h4 : (len / cs + 2) * cs ≤ fuel * cs := Nat.mul_le_mul_right _ hf
  rw [Nat.add_mul, Nat.mul_comm] at h4
  omega

/-- … and so is the fuel of the multi-cluster write path (`n + 1`, `n` the
    number of clusters between the rounded-down start and the rounded-up end) -/
theorem pieces_cover_write_fuel (cs off len : Nat) (hcs : 0 < cs) (h512 : 512 ∣ cs)
    (ho : off % 512 = 0) (hl : len % 512 = 0) :
    Tiles cs off
      (pieces cs (((off + len + cs - 1) / cs * cs - off / cs * cs) / cs + 1) off len) (off + len) := by
  apply pieces_cover cs hcs h512 _ off len ho hl
  rw [← Nat.sub_mul, Nat.mul_div_cancel _ hcs, Nat.add_mul, Nat.one_mul, Nat.sub_mul]
  have h1 := Nat.div_add_mod off cs
  have h2 := Nat.div_add_mod (off + len + cs - 1) cs
  have h3 := Nat.mod_lt (off + len + cs - 1) hcs
  rw [Nat.mul_comm] at h1 h2
  omega

/-- `commit_header` pads the serialized header to the block size: aligned for
    every serialized length.  (Before the repair recorded in known_findings.jsonl
    the raw `Vec` of e.g. 112 + 8 = 120 bytes was written as is: the one site
    that was not block aligned.) -/
theorem headerWrite_aligned (bs n : Nat) : Req.aligned bs (Req.headerWrite bs n) := by
  unfold Req.aligned Req.headerWrite
  exact ⟨Nat.zero_mod _, Nat.mul_mod_left _ _⟩

/-- the padded write still covers the serialized header -/
theorem headerWrite_covers (bs n : Nat) (hb : 0 < bs) : n ≤ (Req.headerWrite bs n).2 := by
  unfold Req.headerWrite
  have h1 := Nat.div_add_mod (n + bs - 1) bs
  have h2 := Nat.mod_lt (n + bs - 1) hb
  rw [Nat.mul_comm] at h1
  omega


/-! ### instances on concrete numbers (non-vacuity) -/

example : Req.aligned 4096 (Req.data 0x50000 0x2000 0x1000) :=
  data_aligned 12 16 0x50000 0x2000 0x1000 (by decide) (by decide) (by decide) (by decide)
example : Req.compressed 512 0x50123 700 = (0x50000, 1024) := by decide
example : Req.aligned 512 (Req.compressed 512 0x50123 700) := compressed_aligned _ _ _
example : (0x50000 : Nat) ≤ 0x50123 ∧ 0x50123 + 700 ≤ 0x50000 + 1024 :=
  compressed_covers 512 0x50123 700 (by decide)
example : Req.aligned 512 (Req.slice 0x30000 5 12) :=
  slice_aligned 9 12 16 0x30000 5 (by decide) (by decide) (by decide)
example : Req.aligned 4096 (Req.topBlock 0x30000 3 12) :=
  topBlock_aligned 12 16 0x30000 3 (by decide) (by decide)
example : Req.aligned 4096 (Req.topLoad 0x30000 (Info.maxL1Size 3 4096)) :=
  topLoad_aligned 12 16 0x30000 3 (by decide) (by decide)
example : Info.maxL1Size 3 4096 = 4096 := by decide
example : Req.aligned 4096 (Req.topLoad 0x10000 (1 * 2^16)) :=
  topLoad_rt_aligned 12 16 0x10000 1 (by decide) (by decide)
example : Req.aligned 512 (Req.zeroClusters { (default : Info) with bsb := 9, cb := 16 } 0x51234 2) :=
  zeroClusters_aligned _ _ _ (by decide)
example : Req.aligned 512 (Req.cowCluster { (default : Info) with bsb := 9, cb := 16 } 0x50000) :=
  cowCluster_aligned _ _ (by decide) (by decide)
example : Req.aligned 4096 (Req.headerRead 4096) := headerRead_aligned 12 4096 (by decide) (Or.inl rfl)
example : Req.aligned 512 (Req.headerRead 65536) := headerRead_aligned 9 65536 (by decide) (Or.inr rfl)
example : pieces 65536 4 0xfe00 0x10400 = [(0xfe00, 1), (0x10000, 128), (0x20000, 1)] := by decide
example : ∀ p ∈ pieces 65536 4 0xfe00 0x10400, p.1 % 512 = 0 ∧ (p.2 * 512) % 512 = 0 := fun p hp =>
  let h := pieces_aligned 512 65536 (by decide) (by decide) 4 0xfe00 0x10400 (by decide) (by decide) p hp
  ⟨h.1, h.2.1⟩
example : Tiles 65536 0xfe00 (pieces 65536 4 0xfe00 0x10400) (0xfe00 + 0x10400) :=
  pieces_cover_fuel 65536 4 0xfe00 0x10400 (by decide) (by decide) (by decide) (by decide) (by decide)
example : Tiles 65536 0xfe00 (pieces 65536 (((0xfe00 + 0x10400 + 65536 - 1) / 65536 * 65536 - 0xfe00 / 65536 * 65536) / 65536 + 1) 0xfe00 0x10400) (0xfe00 + 0x10400) :=
  pieces_cover_write_fuel 65536 0xfe00 0x10400 (by decide) (by decide) (by decide) (by decide)
example : Req.aligned 512 (Req.headerWrite 512 120) := headerWrite_aligned 512 120

end Qv.Props.C16
