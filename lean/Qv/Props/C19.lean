import Qv.Spec.HostFile
/-
C19 — the reference host-file model: laws every backend is compared against.
-/
namespace Qv.Props.C19
open Qv.Spec Qv.Spec.HostFile

/-- a read returns at most what was asked and never crosses the end of file -/
theorem read_length (f : HostFile) (off n : Nat) : (f.read off n).length = min n (f.len - off) := by
  simp [HostFile.read]

/-- short read exactly at end of file; nothing at or beyond it -/
theorem read_at_eof (f : HostFile) (off n : Nat) (h : f.len ≤ off) : f.read off n = [] := by
  have : f.len - off = 0 := by omega
  simp [HostFile.read, this]

theorem read_full_inside (f : HostFile) (off n : Nat) (h : off + n ≤ f.len) : (f.read off n).length = n := by
  rw [read_length]; omega

/-- read-after-write: the written bytes come back -/
theorem read_after_write (f : HostFile) (off : Nat) (data : List UInt8) (hne : data ≠ []) :
    (f.write off data).read off data.length = data := by
  have he : data.isEmpty = false := by cases data <;> simp_all
  apply List.ext_getElem
  · simp [HostFile.read, HostFile.write, he]
    omega
  · intro k h1 h2
    simp [HostFile.read, HostFile.write, he] at h1 ⊢
    have : k < data.length := by omega
    simp [this, List.getD_eq_getElem?_getD]

/-- a write extends the file to its end, never shrinks it -/
theorem write_len (f : HostFile) (off : Nat) (data : List UInt8) (hne : data ≠ []) :
    (f.write off data).len = max f.len (off + data.length) := by
  have he : data.isEmpty = false := by cases data <;> simp_all
  simp [HostFile.write, he]

theorem write_empty (f : HostFile) (off : Nat) : f.write off [] = f := by
  simp [HostFile.write]

/-- frame of a write: bytes outside the written range keep their value; the gap
    between the old end and the write offset reads as zeros -/
theorem write_frame (f : HostFile) (off : Nat) (data : List UInt8) (i : Nat)
    (h : i < off ∨ off + data.length ≤ i) :
    (f.write off data).byteAt i = if i < f.len then f.byte i else 0 := by
  by_cases he : data.isEmpty
  · simp [HostFile.write, he, HostFile.byteAt]
  · have hr : ¬ (off ≤ i ∧ i < off + data.length) := by omega
    simp only [HostFile.write, he, HostFile.byteAt]
    by_cases h1 : i < f.len
    · have : i < max f.len (off + data.length) := by omega
      simp [hr, h1, this]
    · by_cases h2 : i < max f.len (off + data.length) <;> simp [hr, h1, h2]

/-- punching keeps the length -/
theorem punch_len (f : HostFile) (off n : Nat) : (f.punch off n).len = f.len := rfl

/-- … and the punched range reads back as zeros, everything else unchanged -/
theorem punch_reads_zero (f : HostFile) (off n i : Nat) (h : off ≤ i ∧ i < off + n) :
    (f.punch off n).byteAt i = 0 := by
  simp [HostFile.punch, HostFile.byteAt, h]

theorem punch_frame (f : HostFile) (off n i : Nat) (h : ¬ (off ≤ i ∧ i < off + n)) :
    (f.punch off n).byteAt i = f.byteAt i := by
  simp [HostFile.punch, HostFile.byteAt, h]

/-- a punch beyond the end of file changes nothing a reader can see -/
theorem punch_beyond_eof (f : HostFile) (off n i : Nat) (h : f.len ≤ off) :
    (f.punch off n).byteAt i = f.byteAt i := by
  simp only [HostFile.punch, HostFile.byteAt]
  by_cases h1 : i < f.len
  · have : ¬ (off ≤ i ∧ i < off + n) := by omega
    simp [h1, this]
  · simp [h1]

/-- fallback equivalence: where punching is unsupported `call_fallocate` writes
    zeros instead; a reader sees the same bytes everywhere, the two differ only
    in the length when the range reaches beyond the end of file -/
theorem fallback_equiv (f : HostFile) (off n i : Nat) :
    (f.zeroWrite off n).byteAt i = (f.punch off n).byteAt i := by
  unfold HostFile.zeroWrite
  by_cases hn : n = 0
  · subst hn
    simp only [List.replicate_zero, write_empty]
    have : ¬ (off ≤ i ∧ i < off + 0) := by omega
    rw [punch_frame f off 0 i this]
  · have he : (List.replicate n (0 : UInt8)).isEmpty = false := by
      cases n <;> simp_all [List.replicate]
    simp only [HostFile.write, he, HostFile.byteAt, HostFile.punch, List.length_replicate]
    by_cases hr : off ≤ i ∧ i < off + n
    · have : i < max f.len (off + n) := by omega
      have hz : (List.replicate n (0 : UInt8))[i - off]?.getD 0 = 0 := by
        by_cases hk : i - off < n
        · simp [List.getElem?_replicate, hk]
        · simp [List.getElem?_replicate, hk]
      by_cases h1 : i < f.len <;> simp [hr, this, h1, List.getD_eq_getElem?_getD, hz]
    · by_cases h1 : i < f.len
      · have : i < max f.len (off + n) := by omega
        simp [hr, h1, this]
      · by_cases h2 : i < max f.len (off + n) <;> simp [hr, h1, h2]

theorem fallback_len (f : HostFile) (off n : Nat) (hn : 0 < n) :
    (f.zeroWrite off n).len = max f.len (off + n) := by
  unfold HostFile.zeroWrite
  rw [write_len _ _ _ (by cases n <;> simp_all [List.replicate])]
  simp

/-- fsync is the identity on contents -/
theorem sync_id (f : HostFile) : f.sync = f := rfl

-- non-vacuity
example : (HostFile.empty.write 2 [7, 8]).bytes = [0, 0, 7, 8] := by decide
example : ((HostFile.empty.write 0 [1, 2, 3, 4]).punch 1 2).bytes = [1, 0, 0, 4] := by decide
example : ((HostFile.empty.write 0 [1, 2]).read 1 5) = [2] := by decide

end Qv.Props.C19
