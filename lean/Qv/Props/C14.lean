import Qv.Proofs.Header
/-
C14 — malformed or unsupported headers are rejected, never mis-handled.
Statements about `Hdr.parse` (mirror of `Qcow2Header::from_buf`).  Helper lemmas:
Qv/Proofs/Header.lean.
-/
namespace Qv.Props.C14
open Qv Qv.Codec.Hdr

/-- the supported feature set, as a predicate on the (normalised) raw header -/
def Supported (r : Raw) : Prop :=
  r.magic = magicV ∧ (r.version = 2 ∨ r.version = 3) ∧ r.crypt = 0 ∧ r.refcountOrder ≤ 6 ∧
  r.compression = 0 ∧ r.incompat = 0 ∧ 9 ≤ r.clusterBits ∧ r.clusterBits ≤ 21 ∧
  r.l1Off % 2 ^ r.clusterBits = 0 ∧ r.rtOff % 2 ^ r.clusterBits = 0 ∧
  r.rtClusters * 2 ^ r.clusterBits ≤ 8 * 2 ^ 20 ∧ r.l1Size * 8 ≤ 32 * 2 ^ 20

/-- every raw field fits the width of its on-disk encoding -/
def FieldsFit (r : Raw) : Prop :=
  r.magic < 2 ^ 32 ∧ r.version < 2 ^ 32 ∧ r.backingOff < 2 ^ 64 ∧ r.backingSize < 2 ^ 32 ∧
  r.clusterBits < 2 ^ 32 ∧ r.size < 2 ^ 64 ∧ r.crypt < 2 ^ 32 ∧ r.l1Size < 2 ^ 32 ∧ r.l1Off < 2 ^ 64 ∧
  r.rtOff < 2 ^ 64 ∧ r.rtClusters < 2 ^ 32 ∧ r.nbSnap < 2 ^ 32 ∧ r.snapOff < 2 ^ 64 ∧
  r.incompat < 2 ^ 64 ∧ r.compat < 2 ^ 64 ∧ r.autoclear < 2 ^ 64 ∧ r.refcountOrder < 2 ^ 32 ∧
  r.compression < 2 ^ 8

/-! ### totality -/

/-- no byte string makes the header parser panic -/
theorem parse_nopanic (b : Bytes) : (parse b).isPanic = false := by
  rw [parse_eq_parseWith]; exact parseWith_nopanic _ b

/-- … nor one of its extensions -/
theorem extFrom_nopanic (ty : Nat) (data : List UInt8) : (extFrom ty data).isPanic = false :=
  Qv.Codec.Hdr.extFrom_nopanic ty data

theorem walkExts_nopanic (b : Bytes) (cs fuel off : Nat) (acc : List Ext) :
    (walkExts b cs fuel off acc).isPanic = false := Qv.Codec.Hdr.walkExts_nopanic b cs fuel off acc

/-- a buffer shorter than the raw header is refused (the Rust code indexed it: finding) -/
theorem parse_short (b : Bytes) (h : b.size < 105) : parse b = .err .invalid := by
  rw [parse_eq_parseWith]; exact parseWith_short _ b h

/-- the parser either refuses or accepts, nothing else -/
theorem parse_err_of_not_ok (b : Bytes) (h : ∀ hd, parse b ≠ .ok hd) : ∃ e, parse b = .err e := by
  have := parse_nopanic b
  cases hp : parse b with
  | ok hd => exact absurd hp (h hd)
  | err e => exact ⟨e, rfl⟩
  | panic s => rw [hp] at this; cases this

/-! ### what an accepted header looks like -/

/-- an accepted header lies in the supported feature set -/
theorem parse_ok_supported (b : Bytes) (h : Header) (hp : parse b = .ok h) : Supported h.raw := by
  rw [parse_eq_parseWith] at hp
  have ok := parseWith_ok _ b h hp
  have hm : h.raw.magic = magicV := by rw [ok.raw, normRaw_magic]; exact ok.magic
  have hv : h.raw.version = 2 ∨ h.raw.version = 3 := by rw [ok.raw, normRaw_version]; exact ok.version
  exact ⟨hm, hv, ok.crypt, ok.rcOrder, ok.compression, ok.incompat, ok.cbLo, ok.cbHi, ok.l1Off, ok.rtOff,
    ok.rtClusters, ok.l1Size⟩

theorem parse_ok_size (b : Bytes) (h : Header) (hp : parse b = .ok h) : 105 ≤ b.size := by
  rw [parse_eq_parseWith] at hp
  exact (parseWith_ok _ b h hp).size

/-- version 3: the fields are the ones in the buffer, except that `compression_type`
    only exists in headers longer than 104 bytes -/
theorem parse_ok_fields_v3 (b : Bytes) (h : Header) (hp : parse b = .ok h) (hv : (readRaw b).version = 3) :
    h.raw = { readRaw b with
      compression := if (readRaw b).headerLength ≤ 104 then 0 else (readRaw b).compression } := by
  rw [parse_eq_parseWith] at hp
  rw [(parseWith_ok _ b h hp).raw, normRaw_v3 _ (by omega)]

/-- version 2: the version-3 fields take their fixed defaults -/
theorem parse_ok_fields_v2 (b : Bytes) (h : Header) (hp : parse b = .ok h) (hv : (readRaw b).version = 2) :
    h.raw = { readRaw b with incompat := 0, compat := 0, autoclear := 0, refcountOrder := 4,
                             headerLength := 72, compression := 0 } := by
  rw [parse_eq_parseWith] at hp
  rw [(parseWith_ok _ b h hp).raw, normRaw_v2 _ hv]

theorem parse_ok_version (b : Bytes) (h : Header) (hp : parse b = .ok h) :
    (readRaw b).version = 2 ∨ (readRaw b).version = 3 := by
  rw [parse_eq_parseWith] at hp
  exact (parseWith_ok _ b h hp).version

/-- the fields both versions share are never altered -/
theorem parse_ok_fields_common (b : Bytes) (h : Header) (hp : parse b = .ok h) :
    h.raw.magic = (readRaw b).magic ∧ h.raw.version = (readRaw b).version ∧
    h.raw.backingOff = (readRaw b).backingOff ∧ h.raw.backingSize = (readRaw b).backingSize ∧
    h.raw.clusterBits = (readRaw b).clusterBits ∧ h.raw.size = (readRaw b).size ∧
    h.raw.crypt = (readRaw b).crypt ∧ h.raw.l1Size = (readRaw b).l1Size ∧ h.raw.l1Off = (readRaw b).l1Off ∧
    h.raw.rtOff = (readRaw b).rtOff ∧ h.raw.rtClusters = (readRaw b).rtClusters ∧
    h.raw.nbSnap = (readRaw b).nbSnap ∧ h.raw.snapOff = (readRaw b).snapOff := by
  rcases parse_ok_version b h hp with hv | hv
  · rw [parse_ok_fields_v2 b h hp hv]; simp
  · rw [parse_ok_fields_v3 b h hp hv]; simp

/-! ### refusals (corollaries) -/

theorem refuses_magic (b : Bytes) (hm : (readRaw b).magic ≠ magicV) : ∃ e, parse b = .err e := by
  apply parse_err_of_not_ok
  intro hd hp
  have := parse_ok_supported b hd hp
  have := parse_ok_fields_common b hd hp
  unfold Supported at *
  omega

theorem refuses_version (b : Bytes) (hv : (readRaw b).version < 2 ∨ (readRaw b).version > 3) :
    ∃ e, parse b = .err e := by
  apply parse_err_of_not_ok
  intro hd hp
  have := parse_ok_version b hd hp
  omega

/-- encryption -/
theorem refuses_crypt (b : Bytes) (hc : (readRaw b).crypt ≠ 0) : ∃ e, parse b = .err e := by
  apply parse_err_of_not_ok
  intro hd hp
  have := parse_ok_supported b hd hp
  have := parse_ok_fields_common b hd hp
  unfold Supported at *
  omega

theorem refuses_refcount_order (b : Bytes) (hv : (readRaw b).version = 3) (hc : (readRaw b).refcountOrder > 6) :
    ∃ e, parse b = .err e := by
  apply parse_err_of_not_ok
  intro hd hp
  have hs := parse_ok_supported b hd hp
  rw [parse_ok_fields_v3 b hd hp hv] at hs
  unfold Supported at hs
  simp only [] at hs
  omega

/-- non-deflate compression -/
theorem refuses_compression (b : Bytes) (hv : (readRaw b).version = 3)
    (hc : (readRaw b).headerLength > 104 ∧ (readRaw b).compression ≠ 0) : ∃ e, parse b = .err e := by
  apply parse_err_of_not_ok
  intro hd hp
  have hs := parse_ok_supported b hd hp
  rw [parse_ok_fields_v3 b hd hp hv] at hs
  unfold Supported at hs
  simp only [] at hs
  have h5 := hs.2.2.2.2.1
  rw [if_neg (by omega)] at h5
  exact hc.2 h5

/-- unknown incompatible features (external data file, extended L2, dirty, corrupt, …):
    the check comes last in `from_buf`, so an earlier check may refuse with another error -/
theorem refuses_incompat (b : Bytes) (hv : (readRaw b).version = 3) (hc : (readRaw b).incompat ≠ 0) :
    ∀ hd, parse b ≠ .ok hd := by
  intro hd hp
  have hs := parse_ok_supported b hd hp
  rw [parse_ok_fields_v3 b hd hp hv] at hs
  unfold Supported at hs
  simp only [] at hs
  omega

/-- cluster sizes outside 512 B … 2 MiB (the code checks 9..30, then `cluster_size > 2 MiB`) -/
theorem refuses_cluster_bits (b : Bytes) (hc : (readRaw b).clusterBits < 9 ∨ (readRaw b).clusterBits > 21) :
    ∃ e, parse b = .err e := by
  apply parse_err_of_not_ok
  intro hd hp
  have := parse_ok_supported b hd hp
  have := parse_ok_fields_common b hd hp
  unfold Supported at *
  omega

theorem refuses_unaligned_l1 (b : Bytes) (hc : (readRaw b).l1Off % 2 ^ (readRaw b).clusterBits ≠ 0) :
    ∃ e, parse b = .err e := by
  apply parse_err_of_not_ok
  intro hd hp
  have hs := parse_ok_supported b hd hp
  have hf := parse_ok_fields_common b hd hp
  unfold Supported at hs
  rw [hf.2.2.2.2.1, hf.2.2.2.2.2.2.2.2.1] at hs
  exact hc hs.2.2.2.2.2.2.2.2.1

theorem refuses_unaligned_rt (b : Bytes) (hc : (readRaw b).rtOff % 2 ^ (readRaw b).clusterBits ≠ 0) :
    ∃ e, parse b = .err e := by
  apply parse_err_of_not_ok
  intro hd hp
  have hs := parse_ok_supported b hd hp
  have hf := parse_ok_fields_common b hd hp
  unfold Supported at hs
  rw [hf.2.2.2.2.1, hf.2.2.2.2.2.2.2.2.2.1] at hs
  exact hc hs.2.2.2.2.2.2.2.2.2.1

/-- a refcount table larger than 8 MiB is refused (bounded allocation) -/
theorem refuses_big_reftable (b : Bytes)
    (hc : (readRaw b).rtClusters * 2 ^ (readRaw b).clusterBits > 8 * 2 ^ 20) : ∃ e, parse b = .err e := by
  apply parse_err_of_not_ok
  intro hd hp
  have hs := parse_ok_supported b hd hp
  have hf := parse_ok_fields_common b hd hp
  unfold Supported at hs
  rw [hf.2.2.2.2.1, hf.2.2.2.2.2.2.2.2.2.2.1] at hs
  omega

/-- an L1 table larger than 32 MiB is refused (bounded allocation) -/
theorem refuses_big_l1 (b : Bytes) (hc : (readRaw b).l1Size * 8 > 32 * 2 ^ 20) : ∃ e, parse b = .err e := by
  apply parse_err_of_not_ok
  intro hd hp
  have hs := parse_ok_supported b hd hp
  have hf := parse_ok_fields_common b hd hp
  unfold Supported at hs
  rw [hf.2.2.2.2.2.2.2.1] at hs
  omega

/-! ### the extension walk terminates with bounded work -/

/-- the walk consumes at least 8 bytes per round: with one round per remaining
    8 bytes, extra fuel changes nothing (termination of the Rust `loop`) -/
theorem walkExts_fuel (b : Bytes) (cs fuel off : Nat) (acc : List Ext)
    (hf : (b.size - off) / 8 + 1 ≤ fuel) (k : Nat) :
    walkExts b cs fuel off acc = walkExts b cs (fuel + k) off acc :=
  (walkExts_fuel_add b cs fuel off acc k hf).symm

/-- `parse` does not depend on the fuel constant `size / 8 + 2` -/
theorem parse_fuel_irrelevant (b : Bytes) (k : Nat) : parseWith (b.size / 8 + 2 + k) b = parse b := by
  rw [parse_eq_parseWith]
  unfold parseWith parseChecked
  rw [walkExts_fuel_add]
  omega

/-- the number of extensions is bounded by the buffer size (no allocation out of
    proportion to the file) -/
theorem parse_exts_bounded (b : Bytes) (h : Header) (hp : parse b = .ok h) : h.exts.length ≤ b.size / 8 := by
  rw [parse_eq_parseWith] at hp
  have := walkExts_length _ _ _ _ _ _ (parseWith_ok _ b h hp).exts
  simp only [List.length_nil] at this
  have : (b.size - h.raw.headerLength) / 8 ≤ b.size / 8 := Nat.div_le_div_right (by omega)
  omega

/-- … and so is the backing file name -/
theorem parse_backing_bounded (b : Bytes) (h : Header) (nm : List UInt8) (hp : parse b = .ok h)
    (hb : h.backing = some nm) : nm.length ≤ 1023 := by
  rw [parse_eq_parseWith] at hp
  have hbk := (parseWith_ok _ b h hp).backing
  rw [hb] at hbk
  unfold backingOf at hbk
  simp only [] at hbk
  repeat' split at hbk
  all_goals first | cases hbk | skip
  simp
  omega

/-! ### serialise → parse -/

/-- a plain version-3 header (no extensions, no backing file) survives the round trip;
    the backing fields are recomputed by `serialize_to_buf` -/
theorem serialize_parse_roundtrip_partial (h : Header) (he : h.exts = []) (hb : h.backing = none)
    (hv : h.raw.version = 3) (hs : Supported h.raw) (hl : h.raw.headerLength = 112) (hf : FieldsFit h.raw)
    (hcs : 120 ≤ 2 ^ h.raw.clusterBits) :
    ∃ bytes h', serialize h = .ok bytes ∧ parse bytes.toArray = .ok h' ∧
      h'.raw = { h.raw with backingOff := 0, backingSize := 0 } ∧ h'.exts = [] ∧ h'.backing = none := by
  obtain ⟨r, bk, exts⟩ := h
  simp only [] at he hb hv hs hl hf hcs
  subst he hb
  obtain ⟨s1, s2, s3, s4, s5, s6, s7, s8, s9, s10, s11, s12⟩ := hs
  obtain ⟨f1, f2, f3, f4, f5, f6, f7, f8, f9, f10, f11, f12, f13, f14, f15, f16, f17, f18⟩ := hf
  refine ⟨_, _, serialize_plain r hcs, parse_serRaw_plain { r with backingOff := 0, backingSize := 0 }
    ⟨f1, f2, by simp, by simp, f5, f6, f7, f8, f9, f10, f11, f12, f13, f14, f15, f16, f17, f18⟩
    ⟨s1, s2, s3, s4, s5, s6, s7, s8, s9, s10, s11, s12⟩ hv hl rfl hcs, rfl, rfl, rfl⟩

/-- an extension that the parser reads back as itself (true for every unknown type
    other than the three reserved ones, for a backing-format name that is valid UTF-8,
    for a canonical feature table) and whose type and length fit their fields -/
def ExtReadsBack (e : Ext) : Prop :=
  extFrom (extType e) (extData e) = .ok (some e) ∧ extType e < 2 ^ 32 ∧ (extData e).length < 2 ^ 32

/-- the general round trip: version 3, any list of extensions that read back, optional
    backing name (valid UTF-8, ≤ 1023 bytes), everything strictly inside the first cluster -/
theorem serialize_parse_roundtrip (h : Header) (hv : h.raw.version = 3) (hs : Supported h.raw)
    (hl : h.raw.headerLength = 112) (hf : FieldsFit h.raw)
    (hexts : ∀ e ∈ h.exts, ExtReadsBack e)
    (hbk : ∀ nm, h.backing = some nm → utf8Valid nm = true ∧ nm.length ≤ 1023)
    (hcs : 112 + (serExts h.exts).length + (h.backing.getD []).length < 2 ^ h.raw.clusterBits) :
    ∃ bytes h', serialize h = .ok bytes ∧ parse bytes.toArray = .ok h' ∧
      h'.exts = h.exts ∧ h'.backing = h.backing ∧
      h'.raw = (match h.backing with
        | some nm => { h.raw with backingOff := 112 + (serExts h.exts).length, backingSize := nm.length }
        | none => { h.raw with backingOff := 0, backingSize := 0 }) := by
  obtain ⟨r, bk, exts⟩ := h
  simp only [] at hv hs hl hf hexts hbk hcs
  obtain ⟨s1, s2, s3, s4, s5, s6, s7, s8, s9, s10, s11, s12⟩ := hs
  obtain ⟨f1, f2, f3, f4, f5, f6, f7, f8, f9, f10, f11, f12, f13, f14, f15, f16, f17, f18⟩ := hf
  have hlt := two_pow_cb_lt r.clusterBits s8
  have hexts' : ∀ e ∈ exts, ExtOk e := fun e he => ⟨(hexts e he).1, (hexts e he).2.1, (hexts e he).2.2⟩
  cases bk with
  | none =>
    simp only [Option.getD_none, List.length_nil, Nat.add_zero] at hcs
    refine ⟨serRaw { r with backingOff := 0, backingSize := 0 } ++ serExts exts ++ [],
      { raw := { r with backingOff := 0, backingSize := 0 }, backing := none, exts := exts },
      ?_, ?_, rfl, rfl, rfl⟩
    · unfold serialize
      simp only [Option.getD_none]
      rw [if_neg]
      simp only [List.length_append, length_serRaw, List.length_nil]
      omega
    · exact parse_image { r with backingOff := 0, backingSize := 0 } exts [] none
        ⟨f1, f2, by simp, by simp, f5, f6, f7, f8, f9, f10, f11, f12, f13, f14, f15, f16, f17, f18⟩
        ⟨s1, s2, s3, s4, s5, s6, s7, s8, s9, s10, s11, s12⟩ hv hl hexts' (by simpa using hcs)
        (Or.inl ⟨rfl, rfl, rfl⟩)
  | some nm =>
    simp only [Option.getD_some] at hcs
    obtain ⟨hutf, hnl⟩ := hbk nm rfl
    refine ⟨serRaw { r with backingOff := 112 + (serExts exts).length, backingSize := nm.length } ++
      serExts exts ++ nm,
      { raw := { r with backingOff := 112 + (serExts exts).length, backingSize := nm.length },
        backing := some nm, exts := exts }, ?_, ?_, rfl, rfl, rfl⟩
    · unfold serialize
      simp only [Option.getD_some]
      rw [if_neg]
      simp only [List.length_append, length_serRaw]
      omega
    · exact parse_image { r with backingOff := 112 + (serExts exts).length, backingSize := nm.length } exts nm
        (some nm)
        ⟨f1, f2, by simp only []; omega, by simp only []; omega, f5, f6, f7, f8, f9, f10, f11, f12, f13, f14,
          f15, f16, f17, f18⟩
        ⟨s1, s2, s3, s4, s5, s6, s7, s8, s9, s10, s11, s12⟩ hv hl hexts' hcs
        (Or.inr ⟨rfl, rfl, rfl, hutf, hnl⟩)

/-- an extension of unknown type is kept verbatim -/
theorem unknown_reads_back (ty : Nat) (d : List UInt8) (h0 : ty ≠ 0) (h1 : ty ≠ 0xe2792aca)
    (h2 : ty ≠ 0x6803f857) (hty : ty < 2 ^ 32) (hd : d.length < 2 ^ 32) : ExtReadsBack (.unknown ty d) := by
  refine ⟨?_, hty, hd⟩
  simp [extFrom, extType, extData, h0, h1, h2]

/-- a backing-format extension with a valid UTF-8 name is kept -/
theorem backingFormat_reads_back (s : List UInt8) (hu : utf8Valid s = true) (hd : s.length < 2 ^ 32) :
    ExtReadsBack (.backingFormat s) := by
  refine ⟨?_, by simp [extType], hd⟩
  simp [extFrom, extType, extData, hu]

/-- round trip with one unknown extension -/
theorem serialize_parse_roundtrip_ext (h : Header) (ty : Nat) (d : List UInt8)
    (he : h.exts = [.unknown ty d]) (hb : h.backing = none)
    (h0 : ty ≠ 0) (h1 : ty ≠ 0xe2792aca) (h2 : ty ≠ 0x6803f857) (hty : ty < 2 ^ 32)
    (hv : h.raw.version = 3) (hs : Supported h.raw) (hl : h.raw.headerLength = 112) (hf : FieldsFit h.raw)
    (hcs : 128 + alignUp8 d.length < 2 ^ h.raw.clusterBits) :
    ∃ bytes h', serialize h = .ok bytes ∧ parse bytes.toArray = .ok h' ∧
      h'.raw = { h.raw with backingOff := 0, backingSize := 0 } ∧ h'.exts = [.unknown ty d] ∧
      h'.backing = none := by
  have hlt := two_pow_cb_lt h.raw.clusterBits hs.2.2.2.2.2.2.2.1
  have hge := alignUp8_ge d.length
  have hlen : (serExts h.exts).length = 16 + alignUp8 d.length := by
    rw [he, serExts_eq]
    simp only [List.flatMap_cons, List.flatMap_nil, List.append_nil, List.length_append, length_serExt,
      length_bePut, extData]
    omega
  obtain ⟨bytes, h', h1', h2', h3', h4', h5'⟩ := serialize_parse_roundtrip h hv hs hl hf
    (by rw [he]; intro e hm; simp only [List.mem_singleton] at hm; subst hm
        exact unknown_reads_back ty d h0 h1 h2 hty (by omega))
    (by rw [hb]; intro nm hn; cases hn)
    (by rw [hlen, hb]; simp only [Option.getD_none, List.length_nil]; omega)
  refine ⟨bytes, h', h1', h2', ?_, by rw [h3', he], by rw [h4', hb]⟩
  rw [h5', hb]

/-- round trip with a backing file name -/
theorem serialize_parse_roundtrip_backing (h : Header) (nm : List UInt8)
    (he : h.exts = []) (hb : h.backing = some nm) (hu : utf8Valid nm = true) (hn : nm.length ≤ 1023)
    (hv : h.raw.version = 3) (hs : Supported h.raw) (hl : h.raw.headerLength = 112) (hf : FieldsFit h.raw)
    (hcs : 120 + nm.length < 2 ^ h.raw.clusterBits) :
    ∃ bytes h', serialize h = .ok bytes ∧ parse bytes.toArray = .ok h' ∧
      h'.raw = { h.raw with backingOff := 120, backingSize := nm.length } ∧ h'.exts = [] ∧
      h'.backing = some nm := by
  have hlen : (serExts h.exts).length = 8 := by
    rw [he, serExts_eq]; simp
  obtain ⟨bytes, h', h1', h2', h3', h4', h5'⟩ := serialize_parse_roundtrip h hv hs hl hf
    (by rw [he]; intro e hm; cases hm)
    (by rw [hb]; intro nm' hn'; cases hn'; exact ⟨hu, hn⟩)
    (by rw [hlen, hb]; simp only [Option.getD_some]; omega)
  refine ⟨bytes, h', h1', h2', ?_, by rw [h3', he], by rw [h4', hb]⟩
  rw [h5', hb, hlen]

/-! ### non-vacuity -/

/-- a concrete accepted header: version 3, 64 KiB clusters -/
def sampleRaw : Raw :=
  { magic := magicV, version := 3, backingOff := 0, backingSize := 0, clusterBits := 16, size := 1 <<< 20,
    crypt := 0, l1Size := 1, l1Off := 3 * 65536, rtOff := 65536, rtClusters := 1, nbSnap := 0, snapOff := 0,
    incompat := 0, compat := 0, autoclear := 0, refcountOrder := 4, headerLength := 112, compression := 0 }

example : Supported sampleRaw ∧ FieldsFit sampleRaw := by
  unfold Supported FieldsFit sampleRaw magicV; simp

example : ∃ h, parse (serRaw sampleRaw ++ (bePut 0 4 ++ bePut 0 4)).toArray = .ok h ∧ h.raw = sampleRaw := by
  refine ⟨_, parse_serRaw_plain sampleRaw ?_ ?_ rfl rfl rfl (by decide), rfl⟩
  · constructor <;> simp [sampleRaw, magicV]
  · constructor <;> simp [sampleRaw, magicV]

example : ∃ bytes h', serialize { raw := sampleRaw, backing := none, exts := [.unknown 0x1234 [1, 2, 3]] } = .ok bytes ∧
    parse bytes.toArray = .ok h' ∧ h'.exts = [.unknown 0x1234 [1, 2, 3]] := by
  obtain ⟨bytes, h', a, b, _, c, _⟩ := serialize_parse_roundtrip_ext
    { raw := sampleRaw, backing := none, exts := [.unknown 0x1234 [1, 2, 3]] } 0x1234 [1, 2, 3] rfl rfl
    (by decide) (by decide) (by decide) (by decide) rfl (by unfold Supported sampleRaw magicV; simp) rfl
    (by unfold FieldsFit sampleRaw magicV; simp) (by decide)
  exact ⟨bytes, h', a, b, c⟩

example : utf8Valid [0x61, 0x62] = true := by decide

example : parse #[] = .err .invalid := parse_short _ (by decide)

end Qv.Props.C14
