import Qv.Proofs.Codec
/-
C15: codec properties of the qcow2-rs model.

  A. L2/L1 entry encoding (`Qv.Codec.L2`, `Qv.Codec.L1`) against an independent
     field-extraction reading of the qcow2 specification.
  B. Refcount block entries (`Qv.Codec.Rc`).
  C. Guest/host address arithmetic (`Qv.Codec.Info.new`, `Qv.Codec.Split`,
     `Qv.Codec.Host`).

Only statements (and `example`s showing that their hypotheses are satisfiable)
live here; helper lemmas are in `Qv.Proofs.Codec`.
-/
namespace Qv.Props.C15
open Qv Qv.Codec

/-! ## A. L2 / L1 entries -/

/- Independent reading of a 64-bit L2 entry following the qcow2 specification,
   by bit-field extraction only. -/
namespace Spec
/-- bit 63: COPIED (refcount is exactly one) -/
def copied (e : E64) : Bool := e.extractLsb' 63 1 == 1#1
/-- bit 62: compressed cluster descriptor follows -/
def compressed (e : E64) : Bool := e.extractLsb' 62 1 == 1#1
/-- standard descriptor, bit 0: cluster reads as zeros -/
def zeroFlag (e : E64) : Bool := e.extractLsb' 0 1 == 1#1
/-- standard descriptor, bits 9..55: host cluster offset (bits 9..55 of the byte offset) -/
def hostOffset (e : E64) : Nat := (e.extractLsb' 9 47).toNat * 512
/-- standard descriptor, bits 1..8 and 56..61 are reserved -/
def stdReservedZero (e : E64) : Prop := e.extractLsb' 1 8 = 0 ∧ e.extractLsb' 56 6 = 0
/-- compressed descriptor: `x = 62 - (cluster_bits - 8)` -/
def x (cb : Nat) : Nat := 62 - (cb - 8)
/-- compressed descriptor, bits 0..x-1: host byte offset -/
def compOffset (cb : Nat) (e : E64) : Nat := (e.extractLsb' 0 (x cb)).toNat
/-- compressed descriptor, bits x..61: number of additional 512-byte sectors -/
def compSectors (cb : Nat) (e : E64) : Nat := (e.extractLsb' (x cb) (62 - x cb)).toNat
/-- length of the compressed data as the implementation derives it -/
def compLength (cb : Nat) (e : E64) : Nat := (compSectors cb e + 1) * 512 - compOffset cb e % 512

/-- entries the specification permits (for cluster size `2^cb`) -/
def Permitted (cb : Nat) (e : E64) : Prop :=
  if compressed e then copied e = false ∧ compOffset cb e < 2^56
  else stdReservedZero e ∧ hostOffset e % 2^cb = 0 ∧ (copied e = true → hostOffset e ≠ 0)

instance (cb : Nat) (e : E64) : Decidable (Permitted cb e) := by
  unfold Permitted stdReservedZero; infer_instance
end Spec

/-- The mapping the specification assigns to a standard (non-compressed) entry. -/
def Spec.stdMapping (hasBack : Bool) (gcOff : Nat) (e : E64) : Mapping :=
  if Spec.zeroFlag e then
    { source := .zero,
      clusterOffset := if Spec.hostOffset e = 0 then none else some (Spec.hostOffset e),
      compressedLength := none,
      copied := decide (Spec.hostOffset e ≠ 0) && Spec.copied e }
  else if Spec.hostOffset e = 0 then
    if Spec.copied e || hasBack then
      { source := .backing, clusterOffset := some gcOff, compressedLength := none, copied := false }
    else
      { source := .unallocated, clusterOffset := some 0, compressedLength := none, copied := false }
  else
    { source := .dataFile, clusterOffset := some (Spec.hostOffset e), compressedLength := none,
      copied := Spec.copied e }

theorem l2_flags (e : E64) :
    L2.isCompressed e = Spec.compressed e ∧ L2.isCopied e = Spec.copied e ∧
    L2.isZero e = Spec.zeroFlag e ∧ (L2.clusterOffset e).toNat = Spec.hostOffset e :=
  ⟨L2.isCompressed_eq e, L2.isCopied_eq e, L2.isZero_eq e, L2.clusterOffset_toNat e⟩

theorem l2_decode_standard (cb : Nat) (hasBack : Bool) (gcOff : Nat) (e : E64)
    (hc : Spec.compressed e = false) :
    L2.intoMapping cb hasBack gcOff e = Spec.stdMapping hasBack gcOff e := by
  have hcr : L2.compressedRange cb e = none := by
    unfold L2.compressedRange; rw [L2.isCompressed_eq]
    unfold Spec.compressed at hc; rw [hc]; rfl
  unfold L2.intoMapping Spec.stdMapping
  rw [hcr]
  simp only [L2.isZero_eq, L2.isCopied_eq, L2.clusterOffset_eq_zero_iff, L2.clusterOffset_toNat,
    Spec.zeroFlag, Spec.copied, Spec.hostOffset]
  by_cases hz : (e.extractLsb' 0 1 == 1#1) = true
  · simp only [hz, if_true]
    by_cases ho : (e.extractLsb' 9 47).toNat * 512 = 0
    · simp only [ho, if_true, Option.isSome_none, Bool.false_and, ne_eq, not_true_eq_false,
        decide_false]
    · simp only [ho, if_false, Option.isSome_some, Bool.true_and, ne_eq, not_false_eq_true,
        decide_true]
  · simp only [hz]
    rfl

theorem l2_decode_compressed (cb : Nat) (e : E64) (hc : Spec.compressed e = true) :
    L2.compressedRange cb e = some (Spec.compOffset cb e % 2^56, Spec.compLength cb e) ∧
    (∀ hb g, L2.intoMapping cb hb g e =
      { source := .compressed, clusterOffset := some (Spec.compOffset cb e % 2^56),
        compressedLength := some (Spec.compLength cb e), copied := false }) ∧
    L2.allocation cb e =
      some (Spec.compOffset cb e % 2^56 / 2^cb * 2^cb,
            ((Spec.compOffset cb e % 2^56 + Spec.compLength cb e + 2^cb - 1)
              - Spec.compOffset cb e % 2^56 / 2^cb * 2^cb) / 2^cb) := by
  have hx : 62 - (cb - 8) ≤ 62 := Nat.sub_le _ _
  have hcr : L2.compressedRange cb e = some (Spec.compOffset cb e % 2^56, Spec.compLength cb e) := by
    unfold L2.compressedRange
    rw [L2.isCompressed_eq, show (e.extractLsb' 62 1 == 1#1) = true from hc, if_pos rfl]
    simp only []
    rw [L2.and_lit9_toNat, L2.comp_offset_toNat e _ hx, L2.comp_sectors_toNat e _ hx]
    unfold Spec.compLength Spec.compOffset Spec.compSectors Spec.x
    rw [Nat.mod_mod_of_dvd _ (show 512 ∣ 2^56 from ⟨2^47, by decide⟩)]
  refine ⟨hcr, fun hb g => ?_, ?_⟩
  · unfold L2.intoMapping; rw [hcr]
  · unfold L2.allocation; rw [hcr]

/-- `L2Entry::allocation` of a standard entry: one cluster at the host offset, or
    nothing when the offset is 0. -/
theorem l2_allocation_standard (cb : Nat) (e : E64) (hc : Spec.compressed e = false) :
    L2.allocation cb e = if Spec.hostOffset e = 0 then none else some (Spec.hostOffset e, 1) := by
  have hcr : L2.compressedRange cb e = none := by
    unfold L2.compressedRange; rw [L2.isCompressed_eq]
    unfold Spec.compressed at hc; rw [hc]; rfl
  unfold L2.allocation Spec.hostOffset
  rw [hcr]
  simp only [L2.clusterOffset_eq_zero_iff, L2.clusterOffset_toNat]

/-- `TableEntry::try_from_plain` (the check applied when an L2 table is loaded)
    accepts exactly: compressed entries without COPIED; standard entries with
    clear reserved bits and a cluster-aligned host offset.  It is weaker than
    `Spec.Permitted` (it ignores "COPIED needs an offset" and the ≥ 2^56 offset
    bits of compressed descriptors). -/
theorem l2_tryFromPlain_iff (cb : Nat) (e : E64) :
    L2.tryFromPlain cb e = true ↔
      (if Spec.compressed e then Spec.copied e = false
       else Spec.stdReservedZero e ∧ Spec.hostOffset e % 2^cb = 0) := by
  unfold L2.tryFromPlain Spec.stdReservedZero Spec.hostOffset Spec.compressed Spec.copied
  rw [decide_eq_true_iff, L2.reservedBits_zero_iff, L2.isCompressed_eq, L2.clusterOffset_toNat]
  by_cases hc : (e.extractLsb' 62 1 == 1#1) = true
  · simp only [hc, if_true, true_or, and_true]
  · simp only [hc, Bool.false_eq_true, if_false, false_or]
    exact Iff.rfl

theorem l2_tryFromPlain_of_permitted (cb : Nat) (e : E64) (hp : Spec.Permitted cb e) :
    L2.tryFromPlain cb e = true := by
  rw [l2_tryFromPlain_iff]
  unfold Spec.Permitted at hp
  by_cases hc : Spec.compressed e = true
  · rw [if_pos hc] at hp ⊢; exact hp.1
  · rw [if_neg hc] at hp ⊢; exact ⟨hp.1, hp.2.1⟩

/-- What `from_mapping ∘ into_mapping` produces on a standard entry: reserved
    bits are dropped, and so is COPIED when the host offset is 0. -/
def Spec.stdNormalize (e : E64) : E64 :=
  if Spec.hostOffset e = 0 then e &&& 1#64 else e &&& 0x80fffffffffffe01#64

theorem Spec.stdNormalize_eq (e : E64) : Spec.stdNormalize e = L2.stdNormalize e := by
  unfold Spec.stdNormalize L2.stdNormalize Spec.hostOffset
  by_cases h : L2.clusterOffset e = 0#64
  · rw [if_pos h, if_pos ((L2.clusterOffset_eq_zero_iff e).1 h)]
  · rw [if_neg h, if_neg (fun h' => h ((L2.clusterOffset_eq_zero_iff e).2 h'))]

/-- Round trip of an arbitrary standard entry (any `cb`): the result is the
    normalised entry.  `gcOff < 2^56` is needed only for the Backing case, see
    `l2_roundtrip_backing_highguest_panics`. -/
theorem l2_roundtrip_standard_general (cb : Nat) (hasBack : Bool) (gcOff : Nat) (e : E64)
    (hc : Spec.compressed e = false) (hg : gcOff < 2^56) :
    L2.fromMapping cb (L2.intoMapping cb hasBack gcOff e) = .ok (Spec.stdNormalize e) := by
  rw [Spec.stdNormalize_eq]
  exact L2.roundtrip_standard cb hasBack gcOff e (by rw [L2.isCompressed_eq]; exact hc)
    (by simp only [Nat.reducePow] at hg; omega)

/-- The standard entries that round-trip exactly are precisely those with zero
    reserved bits whose COPIED flag is set only together with a non-zero host
    offset.  Everything else is lossy: reserved bits are cleared, and
    `COPIED | offset 0` loses COPIED (it decodes to Backing/Unallocated resp. to
    Zero-without-offset, which encode to 0 resp. 1). -/
theorem l2_roundtrip_standard_iff (cb : Nat) (hasBack : Bool) (gcOff : Nat) (e : E64)
    (hc : Spec.compressed e = false) (hg : gcOff < 2^56) :
    L2.fromMapping cb (L2.intoMapping cb hasBack gcOff e) = .ok e ↔
      (Spec.stdReservedZero e ∧ (Spec.copied e = true → Spec.hostOffset e ≠ 0)) := by
  rw [l2_roundtrip_standard_general cb hasBack gcOff e hc hg, Spec.stdNormalize_eq]
  have := L2.stdNormalize_fixed_iff e (by rw [L2.isCompressed_eq]; exact hc)
  constructor
  · intro h; exact this.1 (Outcome.ok.inj h)
  · intro h; rw [this.2 h]

theorem l2_roundtrip_standard_partial (cb : Nat) (hasBack : Bool) (gcOff : Nat) (e : E64)
    (hp : Spec.Permitted cb e) (hc : Spec.compressed e = false) (hg : gcOff < 2^56) :
    L2.fromMapping cb (L2.intoMapping cb hasBack gcOff e) = .ok e := by
  unfold Spec.Permitted at hp
  rw [hc] at hp
  simp only [Bool.false_eq_true, if_false] at hp
  exact (l2_roundtrip_standard_iff cb hasBack gcOff e hc hg).2 ⟨hp.1, hp.2.2⟩

/-- the statement without the bound on the guest offset; false, see
    `l2_roundtrip_standard_full_false` -/
def l2_roundtrip_standard_full : Prop :=
  ∀ (cb : Nat) (hasBack : Bool) (gcOff : Nat) (e : E64),
    Spec.Permitted cb e → Spec.compressed e = false →
    L2.fromMapping cb (L2.intoMapping cb hasBack gcOff e) = .ok e

/-- The lossy standard entries, concretely: COPIED with host offset 0. -/
theorem l2_roundtrip_standard_lossy (cb : Nat) (hasBack : Bool) (gcOff : Nat) (hg : gcOff < 2^56) :
    L2.fromMapping cb (L2.intoMapping cb hasBack gcOff 0x8000000000000000#64) = .ok 0#64 ∧
    L2.fromMapping cb (L2.intoMapping cb hasBack gcOff 0x8000000000000001#64) = .ok 1#64 ∧
    L2.fromMapping cb (L2.intoMapping cb hasBack gcOff 0x00000000000101fe#64) = .ok 0x10000#64 :=
  ⟨by rw [l2_roundtrip_standard_general cb hasBack gcOff _ (by decide) hg]
      exact congrArg Outcome.ok (by decide),
   by rw [l2_roundtrip_standard_general cb hasBack gcOff _ (by decide) hg]
      exact congrArg Outcome.ok (by decide),
   by rw [l2_roundtrip_standard_general cb hasBack gcOff _ (by decide) hg]
      exact congrArg Outcome.ok (by decide)⟩

/-- FINDING: an entry that decodes to Backing (offset 0, no zero flag, COPIED or a
    backing file present) cannot be re-encoded when the guest cluster offset is
    ≥ 2^56: `into_mapping` stores the *guest* offset in `cluster_offset`, and
    `from_mapping` range-checks that field as if it were a host offset. -/
theorem l2_roundtrip_backing_highguest_panics (cb : Nat) (hasBack : Bool) (gcOff : Nat) (e : E64)
    (hc : Spec.compressed e = false) (hz : Spec.zeroFlag e = false) (ho : Spec.hostOffset e = 0)
    (hbk : (Spec.copied e || hasBack) = true) (hg : 2^56 ≤ gcOff) :
    L2.fromMapping cb (L2.intoMapping cb hasBack gcOff e)
      = .panic "l2.rs:from_mapping:offset-range" :=
  L2.backing_highguest_panics cb hasBack gcOff e (by rw [L2.isCompressed_eq]; exact hc)
    (by rw [L2.isZero_eq]; exact hz) ((L2.clusterOffset_eq_zero_iff e).2 ho)
    (by rw [L2.isCopied_eq]; exact hbk) (by simp only [Nat.reducePow] at hg; omega)

/-- counterexample: the all-zero entry of an image with a backing file, at guest
    offset 2^56. -/
theorem l2_roundtrip_standard_full_false : ¬ l2_roundtrip_standard_full := by
  intro h
  have h1 := h 16 true (2^56) 0#64 (by decide) (by decide)
  rw [l2_roundtrip_backing_highguest_panics 16 true (2^56) 0#64 (by decide) (by decide)
    (by decide) (by decide) (by decide)] at h1
  cases h1

/-- Every permitted compressed entry round-trips exactly; no hypothesis on the
    decoded length is needed.  (`Spec.Permitted` does not bound the length by the
    cluster size: the sector field has `cb-8` bits, so `Spec.compLength` ranges up
    to `2^(cb+1)`, see `l2_roundtrip_compressed_maxlen_ok`.  What `from_mapping`
    checks is that the sector count fits its field, which holds for everything
    `into_mapping` decodes.) -/
theorem l2_roundtrip_compressed (cb : Nat) (h9 : 9 ≤ cb) (h21 : cb ≤ 21) (hasBack : Bool)
    (gcOff : Nat) (e : E64) (hp : Spec.Permitted cb e) (hc : Spec.compressed e = true) :
    L2.fromMapping cb (L2.intoMapping cb hasBack gcOff e) = .ok e := by
  unfold Spec.Permitted at hp
  rw [hc] at hp
  simp only [if_true] at hp
  exact L2.roundtrip_compressed cb h9 h21 hasBack gcOff e (by rw [L2.isCompressed_eq]; exact hc)
    (by rw [L2.isCopied_eq]; exact hp.1) hp.2 _ _ (l2_decode_compressed cb e hc).1

/-- `from_mapping` on a compressed mapping with `len ≥ 1` and an in-range offset
    hits `assert!(sectors < 1 << (cluster_bits - 8))` exactly when the sector
    count `(len - 1 + off % 512) / 512` does not fit its `cb-8` bit field.  (No
    decoded entry gets there, see `l2_roundtrip_compressed`.) -/
theorem l2_fromMapping_compressed_sectors_panics_iff (cb off len : Nat)
    (hoff : off < 2^56) (hlen1 : 1 ≤ len) :
    L2.fromMapping cb { source := .compressed, clusterOffset := some off,
                        compressedLength := some len, copied := false }
        = .panic "l2.rs:from_mapping:assert-sectors"
      ↔ 2^(cb - 8) ≤ (len - 1 + off % 512) / 512 :=
  L2.fromMapping_compressed_sectors_panics_iff cb off len
    (by simp only [Nat.reducePow] at hoff; omega) hlen1

/-- Witness: cb = 16, compressed, host offset 0, 127 additional sectors: a
    spec-permitted entry whose decoded length is exactly one cluster (65536).  It
    round-trips.  (It used to panic in `from_mapping` on
    `assert!(length < cluster_size)` before the repair recorded in
    /verif/known_findings.jsonl.) -/
theorem l2_roundtrip_compressed_fullsize_ok :
    Spec.Permitted 16 0x5fc0000000000000#64 ∧ Spec.compLength 16 0x5fc0000000000000#64 = 2^16 ∧
    ∀ hasBack gcOff, L2.fromMapping 16 (L2.intoMapping 16 hasBack gcOff 0x5fc0000000000000#64)
      = .ok 0x5fc0000000000000#64 :=
  ⟨by decide, by decide, fun hasBack gcOff =>
    l2_roundtrip_compressed 16 (by decide) (by decide) hasBack gcOff _ (by decide) (by decide)⟩

/-- Witness: cb = 16, host offset 0, 255 additional sectors (the whole 8-bit
    field): a spec-permitted entry whose decoded length is two clusters (131072),
    so the length is not bounded by the cluster size.  It round-trips too. -/
theorem l2_roundtrip_compressed_maxlen_ok :
    Spec.Permitted 16 0x7fc0000000000000#64 ∧ Spec.compLength 16 0x7fc0000000000000#64 = 2^17 ∧
    ∀ hasBack gcOff, L2.fromMapping 16 (L2.intoMapping 16 hasBack gcOff 0x7fc0000000000000#64)
      = .ok 0x7fc0000000000000#64 :=
  ⟨by decide, by decide, fun hasBack gcOff =>
    l2_roundtrip_compressed 16 (by decide) (by decide) hasBack gcOff _ (by decide) (by decide)⟩

/-- Well-formed mappings: exactly the shapes `into_mapping` can produce and
    `from_mapping` accepts (see `l2_encode_decode_exact`).  Compressed: the length
    is positive, ends on a sector boundary of the host file, and its sector count
    fits the `cb-8` bit field (so `len ≤ 2^(cb+1) - off % 512`; it may exceed the
    cluster size). -/
def WF (cb : Nat) (hasBack : Bool) (gcOff : Nat) (m : Mapping) : Prop :=
  match m.source with
  | .dataFile => m.compressedLength = none ∧
      ∃ off, m.clusterOffset = some off ∧ off % 512 = 0 ∧ 0 < off ∧ off < 2^56
  | .zero => m.compressedLength = none ∧
      ((m.clusterOffset = none ∧ m.copied = false) ∨
       ∃ off, m.clusterOffset = some off ∧ off % 512 = 0 ∧ 0 < off ∧ off < 2^56)
  | .backing => hasBack = true ∧ m.clusterOffset = some gcOff ∧ gcOff < 2^56 ∧
      m.compressedLength = none ∧ m.copied = false
  | .unallocated => hasBack = false ∧ m.clusterOffset = some 0 ∧
      m.compressedLength = none ∧ m.copied = false
  | .compressed => m.copied = false ∧
      ∃ off len, m.clusterOffset = some off ∧ m.compressedLength = some len ∧
        off < 2^56 ∧ off < 2^(Spec.x cb) ∧ 1 ≤ len ∧ (len - 1 + off % 512) / 512 < 2^(cb - 8) ∧
        (len + off % 512) % 512 = 0

/-- decode ∘ encode = id on well-formed mappings (and encode succeeds). -/
theorem l2_encode_decode (cb : Nat) (h9 : 9 ≤ cb) (h21 : cb ≤ 21) (hasBack : Bool) (gcOff : Nat)
    (m : Mapping) (hwf : WF cb hasBack gcOff m) :
    ∃ v, L2.fromMapping cb m = .ok v ∧ L2.intoMapping cb hasBack gcOff v = m := by
  obtain ⟨src, co, cl, cp⟩ := m
  unfold WF at hwf
  cases src <;> dsimp only at hwf
  · -- dataFile
    obtain ⟨rfl, off, rfl, h512, hpos, h56⟩ := hwf
    obtain ⟨ho9, ho56, hoT⟩ := L2.std_offset_bv off h512 h56
    obtain ⟨f0, f1, _, _⟩ := L2.std_fields_of_enc _ ho9 ho56
    have hne : ¬ (BitVec.ofNat 64 off = 0#64) := by
      intro h; rw [h] at hoT; simp at hoT; omega
    rw [L2.fromMapping_dataFile, if_neg (by simp only [Nat.reducePow] at h56; omega)]
    cases cp
    · simp only [Bool.false_eq_true, if_false]
      obtain ⟨g1, g2, g3, g4, g5⟩ := f0
      rw [g5, if_neg (fun h => h rfl)]
      refine ⟨_, rfl, ?_⟩
      have hcr : L2.compressedRange cb (BitVec.ofNat 64 off) = none := by
        unfold L2.compressedRange; rw [g1]; rfl
      unfold L2.intoMapping
      rw [hcr]; simp only []
      rw [g2, g3, g4, if_neg Bool.false_ne_true, if_neg hne, hoT]
    · simp only [if_true]
      obtain ⟨g1, g2, g3, g4, g5⟩ := f1
      rw [g5, if_neg (fun h => h rfl)]
      refine ⟨_, rfl, ?_⟩
      have hcr : L2.compressedRange cb ((1#64 <<< 63) ||| BitVec.ofNat 64 off) = none := by
        unfold L2.compressedRange; rw [g1]; rfl
      unfold L2.intoMapping
      rw [hcr]; simp only []
      rw [g2, g3, g4, if_neg Bool.false_ne_true, if_neg hne, hoT]
  · -- backing
    obtain ⟨rfl, rfl, hg, rfl, rfl⟩ := hwf
    rw [L2.fromMapping_backing, if_neg (by simp only [Nat.reducePow] at hg; omega)]
    exact ⟨_, rfl, rfl⟩
  · -- zero
    obtain ⟨rfl, hz⟩ := hwf
    rcases hz with ⟨rfl, rfl⟩ | ⟨off, rfl, h512, hpos, h56⟩
    · exact ⟨1#64, rfl, rfl⟩
    · obtain ⟨ho9, ho56, hoT⟩ := L2.std_offset_bv off h512 h56
      obtain ⟨_, _, f2, f3⟩ := L2.std_fields_of_enc _ ho9 ho56
      have hne : ¬ (BitVec.ofNat 64 off = 0#64) := by
        intro h; rw [h] at hoT; simp at hoT; omega
      rw [L2.fromMapping_zero]
      simp only [Option.getD_some]
      rw [if_neg (by simp only [Nat.reducePow] at h56; omega)]
      cases cp
      · simp only [Bool.false_eq_true, if_false]
        obtain ⟨g1, g2, g3, g4, g5⟩ := f2
        rw [g5, if_neg (fun h => h rfl)]
        refine ⟨_, rfl, ?_⟩
        have hcr : L2.compressedRange cb (BitVec.ofNat 64 off ||| 1#64) = none := by
          unfold L2.compressedRange; rw [g1]; rfl
        unfold L2.intoMapping
        rw [hcr]; simp only []
        rw [g2, g3, g4, if_pos rfl, if_neg hne, hoT]
        rfl
      · simp only [if_true]
        obtain ⟨g1, g2, g3, g4, g5⟩ := f3
        rw [g5, if_neg (fun h => h rfl)]
        refine ⟨_, rfl, ?_⟩
        have hcr : L2.compressedRange cb ((1#64 <<< 63) ||| BitVec.ofNat 64 off ||| 1#64) = none := by
          unfold L2.compressedRange; rw [g1]; rfl
        unfold L2.intoMapping
        rw [hcr]; simp only []
        rw [g2, g3, g4, if_pos rfl, if_neg hne, hoT]
        rfl
  · -- compressed
    obtain ⟨rfl, off, len, rfl, rfl, h56, hx, hl1, hl, hcons⟩ := hwf
    obtain ⟨e1, e2⟩ := L2.encode_decode_compressed cb h9 h21 hasBack gcOff off len h56 hx hl1 hl hcons
    exact ⟨_, e1, e2⟩
  · -- unallocated
    obtain ⟨rfl, rfl, rfl, rfl⟩ := hwf
    exact ⟨0#64, rfl, rfl⟩

/-- `WF` is exact: a mapping is well-formed iff `from_mapping` accepts it and
    `into_mapping` maps the result back to it. -/
theorem l2_encode_decode_exact (cb : Nat) (h9 : 9 ≤ cb) (h21 : cb ≤ 21) (hasBack : Bool)
    (gcOff : Nat) (m : Mapping) :
    WF cb hasBack gcOff m ↔
      ∃ v, L2.fromMapping cb m = .ok v ∧ L2.intoMapping cb hasBack gcOff v = m := by
  refine ⟨l2_encode_decode cb h9 h21 hasBack gcOff m, ?_⟩
  rintro ⟨v, hf, hi⟩
  subst hi
  cases hc : L2.isCompressed v
  · rcases L2.intoMapping_standard_shape cb hasBack gcOff v hc with
      hm | ⟨off, c, hm, h1, h2, h3⟩ | ⟨hm, hbk⟩ | ⟨hm, hbf⟩ | ⟨off, c, hm, h1, h2, h3⟩
    · rw [hm]; exact ⟨rfl, Or.inl ⟨rfl, rfl⟩⟩
    · rw [hm]; exact ⟨rfl, Or.inr ⟨off, rfl, h1, h2, h3⟩⟩
    · rw [hm] at hf ⊢
      rw [L2.fromMapping_backing] at hf
      by_cases hg : gcOff > 0x00ffffffffffffff
      · rw [if_pos hg] at hf; cases hf
      · rw [if_neg hg] at hf; cases hf
        have hb : hasBack = true := by
          cases hasBack
          · exact absurd hbk (by decide)
          · rfl
        exact ⟨hb, rfl, by simp only [Nat.reducePow]; omega, rfl, rfl⟩
    · rw [hm]; exact ⟨hbf, rfl, rfl, rfl⟩
    · rw [hm]; exact ⟨rfl, off, rfl, h1, h2, h3⟩
  · obtain ⟨off, len, hm, h56, hx, h1, hcons⟩ := L2.intoMapping_compressed_shape cb hasBack gcOff v hc
    rw [hm] at hf ⊢
    refine ⟨rfl, off, len, rfl, rfl, h56, hx, h1, ?_, hcons⟩
    apply Classical.byContradiction; intro hsec
    rw [L2.fromMapping_compressed, if_neg (by simp only [Nat.reducePow] at h56; omega),
      if_neg (by omega), if_pos hsec] at hf
    cases hf

/-- the form asked for: whatever `from_mapping` returns decodes back to `m`. -/
theorem l2_encode_decode' (cb : Nat) (h9 : 9 ≤ cb) (h21 : cb ≤ 21) (hasBack : Bool) (gcOff : Nat)
    (m : Mapping) (hwf : WF cb hasBack gcOff m) (v : E64) (hv : L2.fromMapping cb m = .ok v) :
    L2.intoMapping cb hasBack gcOff v = m := by
  obtain ⟨v', h1, h2⟩ := l2_encode_decode cb h9 h21 hasBack gcOff m hwf
  rw [h1] at hv; cases hv; exact h2

/-- `L2Table::map_cluster` stores an entry that decodes to DataFile/COPIED/`host`. -/
theorem mapClusterEntry_decodes (cb : Nat) (hasBack : Bool) (gcOff host : Nat)
    (h512 : host % 512 = 0) (hpos : 0 < host) (h56 : host < 2^56) :
    L2.intoMapping cb hasBack gcOff (L2.mapClusterEntry host)
      = { source := .dataFile, clusterOffset := some host, compressedLength := none, copied := true } ∧
    L2.fromMapping cb { source := .dataFile, clusterOffset := some host, compressedLength := none,
                        copied := true } = .ok (L2.mapClusterEntry host) := by
  obtain ⟨ho9, ho56, hoT⟩ := L2.std_offset_bv host h512 h56
  obtain ⟨_, ⟨g1, g2, g3, g4, g5⟩, _, _⟩ := L2.std_fields_of_enc _ ho9 ho56
  have hne : ¬ (BitVec.ofNat 64 host = 0#64) := by
    intro h; rw [h] at hoT; simp at hoT; omega
  unfold L2.mapClusterEntry
  refine ⟨?_, ?_⟩
  · have hcr : L2.compressedRange cb ((1#64 <<< 63) ||| BitVec.ofNat 64 host) = none := by
      unfold L2.compressedRange; rw [g1]; rfl
    unfold L2.intoMapping
    rw [hcr]; simp only []
    rw [g2, g3, g4, if_neg Bool.false_ne_true, if_neg hne, hoT]
  · rw [L2.fromMapping_dataFile, if_neg (by simp only [Nat.reducePow] at h56; omega)]
    simp only [if_true]
    rw [g5, if_neg (fun h => h rfl)]

/-- `L1Table::map_l2_offset` stores an entry whose `l2_offset` is the offset and
    which is COPIED, non-zero, with clear reserved bits. -/
theorem l1_mapEntry_decodes (off : Nat) (h512 : off % 512 = 0) (hpos : 0 < off) (h56 : off < 2^56) :
    (L1.l2Offset (L1.mapEntry off)).toNat = off ∧ L1.isCopied (L1.mapEntry off) = true ∧
    L1.isZero (L1.mapEntry off) = false ∧ L1.reservedBits (L1.mapEntry off) = 0#64 := by
  obtain ⟨ho9, ho56, hoT⟩ := L2.std_offset_bv off h512 h56
  have hne : ¬ (BitVec.ofNat 64 off = 0#64) := by
    intro h; rw [h] at hoT; simp at hoT; omega
  have key := L1.mapEntry_fields (BitVec.ofNat 64 off) ho9 ho56
  unfold L1.mapEntry
  refine ⟨by rw [key.1, hoT], key.2.1, ?_, key.2.2⟩
  unfold L1.isZero; rw [key.1]; exact decide_eq_false hne

/-! ### Non-vacuity of part A -/
/-- COPIED data cluster at host offset 0x50000 (hypothesis of `l2_decode_standard`,
    `l2_roundtrip_standard_partial`). -/
example : Spec.compressed 0x8000000000050000#64 = false ∧ Spec.Permitted 16 0x8000000000050000#64 ∧
    L2.intoMapping 16 false 0 0x8000000000050000#64
      = { source := .dataFile, clusterOffset := some 0x50000, compressedLength := none, copied := true } :=
  ⟨by decide, by decide, by decide⟩
example : L2.fromMapping 16 (L2.intoMapping 16 false 0 0x8000000000050001#64)
    = .ok 0x8000000000050001#64 :=
  l2_roundtrip_standard_partial 16 false 0 _ (by decide) (by decide) (by decide)
/-- compressed cluster, cb = 16 (x = 54): offset 0x50123, 3 additional sectors,
    decoded length 4*512 - 0x123 = 1757. -/
example : Spec.compressed 0x40c0000000050123#64 = true ∧ Spec.Permitted 16 0x40c0000000050123#64 ∧
    Spec.compOffset 16 0x40c0000000050123#64 = 0x50123 ∧
    Spec.compSectors 16 0x40c0000000050123#64 = 3 ∧
    Spec.compLength 16 0x40c0000000050123#64 = 1757 := by decide
example : L2.compressedRange 16 0x40c0000000050123#64 = some (0x50123, 1757) ∧
    L2.allocation 16 0x40c0000000050123#64 = some (0x50000, 1) := by decide
example : L2.fromMapping 16 (L2.intoMapping 16 false 0 0x40c0000000050123#64)
    = .ok 0x40c0000000050123#64 :=
  l2_roundtrip_compressed 16 (by decide) (by decide) false 0 _ (by decide) (by decide)
/-- a well-formed compressed mapping (hypothesis of `l2_encode_decode`) -/
def mapEx : Mapping :=
  { source := .compressed, clusterOffset := some 0x50123, compressedLength := some 1757,
    copied := false }
example : WF 16 false 0 mapEx :=
  ⟨rfl, 0x50123, 1757, rfl, rfl, by decide, by decide, by decide, by decide, by decide⟩
/-- a well-formed compressed mapping longer than a cluster (cb = 16: 131072 bytes at
    a sector-aligned offset, 256 sectors) -/
def mapExLong : Mapping :=
  { source := .compressed, clusterOffset := some 0x50200, compressedLength := some 0x20000,
    copied := false }
example : WF 16 false 0 mapExLong :=
  ⟨rfl, 0x50200, 0x20000, rfl, rfl, by decide, by decide, by decide, by decide, by decide⟩
/-- one byte more needs 257 sectors: `from_mapping` panics (both sides of
    `l2_fromMapping_compressed_sectors_panics_iff`) -/
example : L2.fromMapping 16 ⟨.compressed, some 0x50200, some 0x20001, false⟩
    = .panic "l2.rs:from_mapping:assert-sectors" :=
  (l2_fromMapping_compressed_sectors_panics_iff 16 0x50200 0x20001 (by decide) (by decide)).2 (by decide)
def mapExB : Mapping :=
  { source := .backing, clusterOffset := some 0x30000, compressedLength := none, copied := false }
example : WF 16 true 0x30000 mapExB := ⟨rfl, rfl, by decide, rfl, rfl⟩
/-- a Backing entry at guest offset 2^56 (hypotheses of
    `l2_roundtrip_backing_highguest_panics`) -/
example : L2.fromMapping 16 (L2.intoMapping 16 true (2^56) 0#64)
    = .panic "l2.rs:from_mapping:offset-range" :=
  l2_roundtrip_backing_highguest_panics 16 true (2^56) 0#64 (by decide) (by decide) (by decide)
    (by decide) (by decide)
example : L2.intoMapping 16 false 0 (L2.mapClusterEntry 0x50000)
    = { source := .dataFile, clusterOffset := some 0x50000, compressedLength := none, copied := true } :=
  (mapClusterEntry_decodes 16 false 0 0x50000 (by decide) (by decide) (by decide)).1

/-! ## B. Refcount block entries -/
section B
open Qv.Codec.Rc
variable {order : Nat} {buf buf' : Rc.Buf} {i j v : Nat}

/-- `__get` after a successful `__set` at the same index returns the value
    written (`v : u64` in Rust; for order 6 `__set` accepts every value and the
    model truncates to 64 bits, see `rc_get_set_same_trunc`). -/
theorem rc_get_set_same_partial (hv : v < 2^64) (h : Rc.set order buf i v = .ok buf') :
    Rc.get order buf' i = .ok v := by
  rcases order_cases (set_ok_order h) with ⟨w, per, hs⟩ | ⟨n, hb⟩
  · exact sub_get_set_same hs h
  · exact bytes_get_set_same hb hv h

/-- the statement without `v < 2^64` (false in the model, where `v : Nat`; in Rust
    `v : u64`, so nothing is lost) -/
def rc_get_set_same_full : Prop :=
  ∀ (order : Nat) (buf buf' : Rc.Buf) (i v : Nat),
    Rc.set order buf i v = .ok buf' → Rc.get order buf' i = .ok v

/-- without `v < 2^64` the (model-only) order-6 write truncates. -/
theorem rc_get_set_same_trunc :
    ∃ buf', Rc.set 6 (Array.replicate 8 0) 0 (2^64 + 5) = .ok buf' ∧ Rc.get 6 buf' 0 = .ok 5 :=
  ⟨_, rfl, by rfl⟩

theorem rc_get_set_same_full_false : ¬ rc_get_set_same_full := by
  intro h
  obtain ⟨b, hb, hg⟩ := rc_get_set_same_trunc
  have := h 6 _ b 0 _ hb
  rw [hg] at this
  exact absurd (Outcome.ok.inj this) (by decide)

/-- `__set` at `i` does not change what `__get` returns at any other index
    (including the out-of-range panic). -/
theorem rc_get_set_other (hij : i ≠ j) (h : Rc.set order buf i v = .ok buf') :
    Rc.get order buf' j = Rc.get order buf j := by
  rcases order_cases (set_ok_order h) with ⟨w, per, hs⟩ | ⟨n, hb⟩
  · exact sub_get_set_other hs hij h
  · exact bytes_get_set_other hb hij h

theorem rc_set_size (h : Rc.set order buf i v = .ok buf') : buf'.size = buf.size := by
  rcases order_cases (set_ok_order h) with ⟨w, per, hs⟩ | ⟨n, hb⟩
  · exact sub_set_size hs h
  · exact bytes_set_size hb h

/-- Frame: only the byte (orders 0..2) resp. the `2^order/8` bytes (orders 3..6)
    holding entry `i` can change. -/
theorem rc_set_frame (h : Rc.set order buf i v = .ok buf') (k : Nat) :
    (order < 3 → k ≠ i / (8 / 2^order) → buf'[k]! = buf[k]!) ∧
    (3 ≤ order → (k < i * (2^order / 8) ∨ i * (2^order / 8) + 2^order / 8 ≤ k) →
      buf'[k]! = buf[k]!) := by
  rcases order_cases (set_ok_order h) with ⟨w, per, hs⟩ | ⟨n, hb⟩
  · obtain ⟨hlt, _, hper, _⟩ := hs.facts
    refine ⟨fun _ hk => sub_frame hs h k (hper ▸ hk), fun h3 => by omega⟩
  · obtain ⟨h3, _, hn, _⟩ := hb.facts
    refine ⟨fun hlt => by omega, fun _ hk => bytes_frame hb h k (hn ▸ hk)⟩

/-- `__set` refuses (returns `Err`) a value that does not fit the entry width. -/
theorem rc_set_refuses (ho : order < 6) (hv : v ≥ 2^(2^order)) :
    Rc.set order buf i v = .err .invalid := by
  unfold Rc.set
  have := Nat.two_pow_pos (2^order)
  rw [if_pos ⟨ho, by omega⟩]

/-- ... and accepts every in-range index with a fitting value; for order 6
    every value is accepted. -/
theorem rc_set_accepts (ho : order ≤ 6) (hv : order < 6 → v < 2^(2^order))
    (hi : i < Rc.entries order buf) : ∃ buf', Rc.set order buf i v = .ok buf' := by
  rcases order_cases ho with ⟨w, per, hs⟩ | ⟨n, hb⟩
  · obtain ⟨hlt, _, _, _, hpow, _⟩ := hs.facts
    exact ⟨_, set_sub_succeeds hs (by rw [hpow]; exact hv (by omega)) ((sub_in_range hs buf i).2 hi)⟩
  · obtain ⟨_, _, _, _, hpow⟩ := hb.facts
    exact ⟨_, set_bytes_succeeds hb (fun h6 => by rw [hpow]; exact hv h6)
      ((bytes_in_range hb buf i).2 hi)⟩

theorem rc_set_order6_any (hi : i < Rc.entries 6 buf) : ∃ buf', Rc.set 6 buf i v = .ok buf' :=
  rc_set_accepts (Nat.le_refl 6) (fun h => absurd h (by decide)) hi

/-- `__get` succeeds exactly on in-range indices, with a value below `2^(2^order)`;
    out of range it panics (slice index out of bounds). -/
theorem rc_get_in_range (ho : order ≤ 6) :
    (i < Rc.entries order buf → ∃ x, Rc.get order buf i = .ok x ∧ x < 2^(2^order)) ∧
    (¬ i < Rc.entries order buf → Rc.get order buf i = .panic "refcount.rs:__get:index") := by
  rcases order_cases ho with ⟨w, per, hs⟩ | ⟨n, hb⟩
  · obtain ⟨_, _, _, _, hpow, _⟩ := hs.facts
    rw [get_sub hs, ← sub_in_range hs buf i]
    refine ⟨fun hi => ?_, fun hi => ?_⟩
    · rw [if_pos hi]; exact ⟨_, rfl, by rw [← hpow]; exact Nat.mod_lt _ (Nat.two_pow_pos _)⟩
    · rw [if_neg hi]
  · obtain ⟨_, _, _, _, hpow⟩ := hb.facts
    rw [get_bytes hb, ← bytes_in_range hb buf i]
    refine ⟨fun hi => ?_, fun hi => ?_⟩
    · rw [if_pos hi]; exact ⟨_, rfl, by rw [← hpow]; exact beRead_lt _ _ _⟩
    · rw [if_neg hi]

/-- Orders 4,5,6: the entry is the big-endian number formed by its bytes. -/
theorem rc_big_endian :
    (i * 2 + 2 ≤ buf.size → Rc.get 4 buf i
        = .ok ((buf[i * 2]!).toNat * 256 + (buf[i * 2 + 1]!).toNat)) ∧
    (i * 4 + 4 ≤ buf.size → Rc.get 5 buf i
        = .ok ((buf[i * 4]!).toNat * 256^3 + (buf[i * 4 + 1]!).toNat * 256^2
          + (buf[i * 4 + 2]!).toNat * 256 + (buf[i * 4 + 3]!).toNat)) ∧
    (i * 8 + 8 ≤ buf.size → Rc.get 6 buf i
        = .ok ((buf[i * 8]!).toNat * 256^7 + (buf[i * 8 + 1]!).toNat * 256^6
          + (buf[i * 8 + 2]!).toNat * 256^5 + (buf[i * 8 + 3]!).toNat * 256^4
          + (buf[i * 8 + 4]!).toNat * 256^3 + (buf[i * 8 + 5]!).toNat * 256^2
          + (buf[i * 8 + 6]!).toNat * 256 + (buf[i * 8 + 7]!).toNat)) := by
  refine ⟨fun h => ?_, fun h => ?_, fun h => ?_⟩
  · rw [← beRead_two]; unfold Rc.get; exact if_pos h
  · rw [← beRead_four]; unfold Rc.get; exact if_pos h
  · rw [← beRead_eight]; unfold Rc.get; exact if_pos h

/-- Orders 0,1,2 (width `w = 2^order` bits, `8/w` entries per byte): entry `i`
    lives in byte `i / (8/w)` and occupies bits `[k*w, (k+1)*w)` of it, counted
    from the least significant bit, where `k = i % (8/w)`. -/
theorem rc_lsb_first (ho : order ≤ 2) (hi : i / (8 / 2^order) < buf.size) :
    ∃ x, Rc.get order buf i = .ok x ∧
      x = (buf[i / (8 / 2^order)]!).toNat / 2^((i % (8 / 2^order)) * 2^order) % 2^(2^order) ∧
      ∀ t, x.testBit t = (decide (t < 2^order) &&
        (buf[i / (8 / 2^order)]!).toNat.testBit ((i % (8 / 2^order)) * 2^order + t)) := by
  rcases order_cases (show order ≤ 6 by omega) with ⟨w, per, hs⟩ | ⟨n, hb⟩
  · obtain ⟨_, hw, hper, _⟩ := hs.facts
    subst hw hper
    refine ⟨_, by rw [get_sub hs, if_pos hi], by rw [Nat.shiftRight_eq_div_pow], fun t => ?_⟩
    exact field_testBit _ _ _ _
  · have := hb.facts.1; omega

/-- increment: `+1` when the result fits, `Err` at the maximum; decrement:
    `-1`, `Err` at zero. -/
theorem rc_increment_decrement {old : Nat} (hg : Rc.get order buf i = .ok old) :
    (old + 1 < 2^(2^order) →
      ∃ buf', Rc.increment order buf i = .ok buf' ∧ Rc.get order buf' i = .ok (old + 1)) ∧
    (old + 1 = 2^(2^order) → Rc.increment order buf i = .err .invalid) ∧
    (old = 0 → Rc.decrement order buf i = .err .invalid) ∧
    (0 < old →
      ∃ buf', Rc.decrement order buf i = .ok buf' ∧ Rc.get order buf' i = .ok (old - 1)) := by
  have ho := get_ok_order hg
  have hin : i < Rc.entries order buf := by
    apply Classical.byContradiction; intro hc
    rw [(rc_get_in_range ho).2 hc] at hg; cases hg
  obtain ⟨x, hx, hxlt⟩ := (rc_get_in_range (buf := buf) (i := i) ho).1 hin
  rw [hg] at hx; cases hx
  have h64 : 2^(2^order) ≤ 2^64 :=
    Nat.pow_le_pow_right (by decide) (show 2^order ≤ 2^6 from Nat.pow_le_pow_right (by decide) ho)
  refine ⟨fun hfit => ?_, fun hmax => ?_, fun h0 => ?_, fun hpos => ?_⟩
  · obtain ⟨b', hb'⟩ := rc_set_accepts (v := old + 1) ho (fun _ => hfit) hin
    refine ⟨b', ?_, rc_get_set_same_partial (by omega) hb'⟩
    unfold Rc.increment; rw [hg]
    simp only [Outcome.bind_ok]
    rw [if_neg (by omega)]; exact hb'
  · unfold Rc.increment; rw [hg]
    simp only [Outcome.bind_ok]
    by_cases h6 : order < 6
    · have hlt : old + 1 < 2^64 := by
        have : 2^(2^order) < 2^64 := Nat.pow_lt_pow_right (by decide)
          (show 2^order < 2^6 from Nat.pow_lt_pow_right (by decide) h6)
        omega
      rw [if_neg (by omega)]
      exact rc_set_refuses h6 (by omega)
    · have : order = 6 := by omega
      subst this
      rw [if_pos (by simp only [Nat.reducePow] at hmax ⊢; omega)]
  · unfold Rc.decrement; rw [hg]
    simp only [Outcome.bind_ok]
    rw [if_pos h0]
  · obtain ⟨b', hb'⟩ := rc_set_accepts (v := old - 1) ho (fun _ => by omega) hin
    refine ⟨b', ?_, rc_get_set_same_partial (by omega) hb'⟩
    unfold Rc.decrement; rw [hg]
    simp only [Outcome.bind_ok]
    rw [if_neg (by omega)]; exact hb'

/-! ### Non-vacuity of part B -/
/-- 16-bit entries: entry 1 of `12 34 56 78` set to 0xBEEF (hypothesis of
    `rc_get_set_same_partial`/`rc_get_set_other`/`rc_set_frame`/`rc_set_size`). -/
example : Rc.set 4 #[0x12, 0x34, 0x56, 0x78] 1 0xBEEF = .ok #[0x12, 0x34, 0xBE, 0xEF] := by rfl
example : Rc.get 4 #[0x12, 0x34, 0xBE, 0xEF] 1 = .ok 0xBEEF ∧
    Rc.get 4 #[0x12, 0x34, 0xBE, 0xEF] 0 = .ok 0x1234 := ⟨by rfl, by rfl⟩
/-- 2-bit entries: entry 2 of the byte `11 10 01 00` (bits 4..5 = `10`) set to `01`. -/
example : Rc.set 1 #[0b11100100] 2 1 = .ok #[0b11010100] := by rfl
example : Rc.get 1 #[0b11100100] 2 = .ok 2 ∧ Rc.get 1 #[0b11010100] 3 = .ok 3 := ⟨by rfl, by rfl⟩
/-- refusal / acceptance -/
example : Rc.set 4 #[0, 0] 0 0x10000 = .err .invalid := rc_set_refuses (by decide) (by decide)
example : ∃ b, Rc.set 6 (Array.replicate 16 0) 1 (2^64 - 1) = .ok b :=
  rc_set_order6_any (by decide)
/-- increment / decrement on 1-bit entries -/
example : Rc.increment 0 #[0] 3 = .ok #[8] ∧ Rc.increment 0 #[8] 3 = .err .invalid ∧
    Rc.decrement 0 #[8] 3 = .ok #[0] ∧ Rc.decrement 0 #[0] 3 = .err .invalid :=
  ⟨by rfl, by rfl, by rfl, by rfl⟩
example : ∃ b, Rc.increment 4 #[0x00, 0xff] 0 = .ok b ∧ Rc.get 4 b 0 = .ok 0x100 :=
  (rc_increment_decrement (old := 0xff) (by rfl)).1 (by decide)

end B

/-! ## C. Address arithmetic -/

/-- The geometry equations tying the shifts of a `Qcow2Info` to the entry counts. -/
structure Geom (i : Info) : Prop where
  cb_ge : 3 ≤ i.cb
  l2Entries_eq : i.l2Entries = 2^i.cb / 8
  l2IndexShift_eq : 2^i.l2IndexShift = i.l2Entries
  l2SliceEntries_eq : i.l2SliceEntries = 2^i.l2SliceBits / 8
  l2SliceIndexShift_eq : 2^i.l2SliceIndexShift = i.l2SliceEntries
  rbEntries_eq : i.rbEntries = 2^i.cb * 8 / 2^i.ro
  rbIndexShift_eq : 2^i.rbIndexShift = i.rbEntries
  rbSliceEntries_eq : i.rbSliceEntries = 2^i.rbSliceBits * 8 / 2^i.ro
  rbSliceIndexShift_eq : 2^i.rbSliceIndexShift = i.rbSliceEntries
  l2SliceBits_le : i.l2SliceBits ≤ i.cb

/-- `Qcow2Info::new` succeeding yields the geometry equations, provided the
    cluster size is in the range the header parser admits (9..21; `≤ 34` is what
    is needed), and both slice sizes are large enough to hold one entry
    (`l2_slice_bits ≥ 3`, `refcount_order ≤ rb_slice_bits + 3`); both follow from
    `p.bsBits ≥ 3` and `refcount_order ≤ 6`, see `info_geometry_of_params`. -/
theorem info_geometry {h : HdrGeo} {p : Params} {i : Info}
    (hn : Info.new h p = .ok i) (hcb : h.clusterBits ≤ 34)
    (hl2 : 3 ≤ i.l2SliceBits) (hrb : i.ro ≤ i.rbSliceBits + 3) :
    Geom i ∧ i.cb = h.clusterBits ∧ i.ro = h.refcountOrder ∧ i.ro ≤ i.cb + 3 := by
  obtain ⟨h3, h64, hro, l2sb, l2cnt, rbsb, rbcnt, hg1, hg2, hle, hrb32, rfl⟩ := Info.new_ok hn
  have hne := Info.new_rbEntries_ne hn
  dsimp only at hl2 hrb hne ⊢
  have hro' : h.refcountOrder ≤ h.clusterBits + 3 := by
    apply Classical.byContradiction; intro hc
    apply hne
    apply Nat.div_eq_of_lt
    have : (8:Nat) = 2^3 := rfl
    rw [this, ← Nat.pow_add]
    exact Nat.pow_lt_pow_right (by decide) (by omega)
  refine ⟨⟨h3, rfl, ?_, ?_, ?_, rfl, ?_, ?_, ?_, hle⟩, rfl, rfl, hro'⟩
  · show 2^(tz 64 (2^h.clusterBits / 8)) = 2^h.clusterBits / 8
    rw [Arith.two_pow_div_eight h3, tz_two_pow _ _ (by omega)]
  · show 2^h.clusterBits / 8 % 2^32 / 2^(h.clusterBits - l2sb) = 2^l2sb / 8
    rw [Arith.l2_slice_entries_eq hl2 hle (by omega), Arith.two_pow_div_eight hl2]
  · show 2^(tz 32 (2^h.clusterBits / 8 % 2^32 / 2^(h.clusterBits - l2sb))) = _
    rw [Arith.l2_slice_entries_eq hl2 hle (by omega), tz_two_pow _ _ (by omega)]
  · show 2^(tz 64 (2^h.clusterBits * 8 / 2^h.refcountOrder)) = 2^h.clusterBits * 8 / 2^h.refcountOrder
    rw [Arith.two_pow_mul_eight_div hro', tz_two_pow _ _ (by omega)]
  · show 2^(rbsb + 3) / 2^h.refcountOrder = 2^rbsb * 8 / 2^h.refcountOrder
    rw [Nat.pow_add]
  · show 2^(tz 32 (2^(rbsb + 3) / 2^h.refcountOrder)) = 2^(rbsb + 3) / 2^h.refcountOrder
    rw [Arith.two_pow_succ3_div hrb, tz_two_pow _ _ (by omega)]

/-- The same under hypotheses on the inputs only: cluster_bits 9..21 (header
    validation), refcount_order ≤ 6, block-size shift ≥ 3. -/
theorem info_geometry_of_params {h : HdrGeo} {p : Params} {i : Info}
    (hn : Info.new h p = .ok i) (hcb9 : 9 ≤ h.clusterBits) (hcb21 : h.clusterBits ≤ 21)
    (hro : h.refcountOrder ≤ 6) (hbs : 3 ≤ p.bsBits) :
    Geom i ∧ i.cb = h.clusterBits ∧ i.ro = h.refcountOrder ∧
      3 ≤ i.l2SliceBits ∧ 3 ≤ i.rbSliceBits ∧
      i.rbSliceBits ≤ i.cb ∧ (p.rbCache = none → i.rbSliceBits = min 12 i.cb) := by
  obtain ⟨h3, h64, hro', l2sb, l2cnt, rbsb, rbcnt, hg1, hg2, hle, hrb32, hi⟩ := Info.new_ok hn
  have g1 := (cacheGeometry_ok hg1).1
  have g2 := (cacheGeometry_ok hg2).1
  have hl2 : 3 ≤ i.l2SliceBits := by subst hi; dsimp only; omega
  have hrb : 3 ≤ i.rbSliceBits := by subst hi; dsimp only; omega
  have hro2 : i.ro = h.refcountOrder := by subst hi; rfl
  obtain ⟨hG, e1, e2, _⟩ := info_geometry hn (by omega) hl2 (by omega)
  refine ⟨hG, e1, e2, hl2, hrb, ?_, ?_⟩
  · subst hi; dsimp only
    rcases g2 with ⟨_, hb⟩ | ⟨_, hle⟩
    · omega
    · exact hle
  · intro hnone; subst hi; dsimp only
    rw [hnone] at hg2
    simp only [cacheGeometry, Outcome.ok.injEq, Prod.mk.injEq] at hg2
    exact hg2.1.symm

/-- With the default cache parameters (`None`) the slice size is
    `2^min(12, cluster_bits)`: never larger than a cluster.  (Before the repair
    recorded in known_findings.jsonl it was 2^12 regardless of the cluster size and
    `Qcow2Info::new` panicked for cluster_bits < 12.) -/
theorem info_new_default_l2_slice {h : HdrGeo} {p : Params} {i : Info}
    (hp : p.l2Cache = none) (hn : Info.new h p = .ok i) : i.l2SliceBits = min 12 h.clusterBits := by
  obtain ⟨_, _, _, l2sb, l2cnt, _, _, hg1, _, hle, _, hi⟩ := Info.new_ok hn
  rw [hp] at hg1
  simp only [cacheGeometry, Outcome.ok.injEq, Prod.mk.injEq] at hg1
  subst hi; dsimp only; exact hg1.1.symm

/-- `split_recompose`: the guest-offset split is a bijective decomposition. -/
theorem split_recompose {i : Info} (g : Geom i) (off : Nat) :
    (Split.l1Index i off * i.l2Entries + Split.l2Index i off) * 2^i.cb
        + Split.inClusterOffset i off = off ∧
    Split.l2SliceKey i off * i.l2SliceEntries + Split.l2SliceIndex i off = off / 2^i.cb ∧
    Split.clusterOffset i off = off / 2^i.cb * 2^i.cb ∧
    Split.l2SliceOffInTable i off
      = (Split.l2Index i off / i.l2SliceEntries) * 2^i.l2SliceBits := by
  refine ⟨?_, ?_, ?_, ?_⟩
  · unfold Split.l1Index Split.l2Index Split.inClusterOffset
    rw [← g.l2IndexShift_eq]; exact Arith.recompose off i.cb i.l2IndexShift
  · unfold Split.l2SliceKey Split.l2SliceIndex
    rw [← g.l2SliceIndexShift_eq]; exact Arith.recompose_cluster off i.cb i.l2SliceIndexShift
  · unfold Split.clusterOffset Split.l1Index Split.l2Index
    have : 2^(i.cb - 3) = 2^i.l2IndexShift := by
      rw [g.l2IndexShift_eq, g.l2Entries_eq, Arith.two_pow_div_eight g.cb_ge]
    rw [this, Arith.recompose_cluster]
  · unfold Split.l2SliceOffInTable
    rw [g.l2SliceIndexShift_eq]

/-- Ranges of the split components. -/
theorem split_bounds {i : Info} (g : Geom i) (off : Nat) :
    Split.l2Index i off < i.l2Entries ∧ Split.l2SliceIndex i off < i.l2SliceEntries ∧
    Split.inClusterOffset i off < 2^i.cb := by
  refine ⟨?_, ?_, ?_⟩
  · unfold Split.l2Index; rw [← g.l2IndexShift_eq]; exact Nat.mod_lt _ (Nat.two_pow_pos _)
  · unfold Split.l2SliceIndex; rw [← g.l2SliceIndexShift_eq]; exact Nat.mod_lt _ (Nat.two_pow_pos _)
  · exact Nat.mod_lt _ (Nat.two_pow_pos _)

/-- `host_partition`: refcount-table / refblock / refblock-slice indices partition
    the host cluster number, and the slice/refblock host ranges contain `off`. -/
theorem host_partition {i : Info} (g : Geom i) (off : Nat) :
    Host.rtIndex i off * i.rbEntries + Host.rbIndex i off = off / 2^i.cb ∧
    Host.rbSliceKey i off * i.rbSliceEntries + Host.rbSliceIndex i off = off / 2^i.cb ∧
    (Host.rbSliceHostStart i off ≤ off ∧ off < Host.rbSliceHostEnd i off) ∧
    Host.clusterOffFromSlice i off (Host.rbSliceIndex i off) = off / 2^i.cb * 2^i.cb ∧
    (Host.rbHostStart i off ≤ off ∧ off < Host.rbHostEnd i off) := by
  refine ⟨?_, ?_, ⟨?_, ?_⟩, ?_, ⟨?_, ?_⟩⟩
  · unfold Host.rtIndex Host.rbIndex
    rw [← g.rbIndexShift_eq, Nat.add_comm i.rbIndexShift]
    exact Arith.recompose_cluster off i.cb i.rbIndexShift
  · unfold Host.rbSliceKey Host.rbSliceIndex
    rw [← g.rbSliceIndexShift_eq]; exact Arith.recompose_cluster off i.cb i.rbSliceIndexShift
  · exact Nat.div_mul_le_self _ _
  · unfold Host.rbSliceHostEnd Host.rbSliceHostStart
    rw [← g.rbSliceIndexShift_eq, Nat.mul_comm (2^i.rbSliceIndexShift), ← Nat.pow_add]
    exact Arith.lt_round_down_add _ _ (Nat.two_pow_pos _)
  · unfold Host.clusterOffFromSlice Host.rbSliceHostStart Host.rbSliceIndex
    rw [← g.rbSliceIndexShift_eq]; exact Arith.slice_cluster off i.cb i.rbSliceIndexShift
  · exact Nat.div_mul_le_self _ _
  · unfold Host.rbHostEnd Host.rbHostStart
    rw [← g.rbIndexShift_eq, Nat.mul_comm (2^i.rbIndexShift), ← Nat.pow_add]
    exact Arith.lt_round_down_add _ _ (Nat.two_pow_pos _)

/-- Ranges of the host index components. -/
theorem host_bounds {i : Info} (g : Geom i) (off : Nat) :
    Host.rbIndex i off < i.rbEntries ∧ Host.rbSliceIndex i off < i.rbSliceEntries := by
  refine ⟨?_, ?_⟩
  · unfold Host.rbIndex; rw [← g.rbIndexShift_eq]; exact Nat.mod_lt _ (Nat.two_pow_pos _)
  · unfold Host.rbSliceIndex; rw [← g.rbSliceIndexShift_eq]; exact Nat.mod_lt _ (Nat.two_pow_pos _)

/-- First-slice inverse law for refblocks: the slice key computed from the byte
    offset `8*k` of refcount-table entry `k` is the key of the first slice of
    refblock `k`.  Needs `rb_slice_bits ≤ cluster_bits`, which `Qcow2Info::new`
    does NOT enforce (see `info_new_rb_slice_exceeds_cluster`). -/
theorem rb_first_slice_key_partial {i : Info} (g : Geom i) (hsl : i.rbSliceBits ≤ i.cb) (k : Nat) :
    rbSliceKeyOfRtOff i (8 * k) = Host.rbSliceKey i (k * i.rbEntries * 2^i.cb) ∧
    rbSliceKeyOfRtOff i (8 * k) = k * (i.rbEntries / i.rbSliceEntries) := by
  have hk : 8 * k / 8 = k := Nat.mul_div_cancel_left k (by decide)
  have hle : i.rbSliceIndexShift ≤ i.rbIndexShift := by
    apply Arith.pow_le_of_two_pow_le
    rw [g.rbSliceIndexShift_eq, g.rbIndexShift_eq, g.rbSliceEntries_eq, g.rbEntries_eq]
    apply Nat.div_le_div_right
    exact Nat.mul_le_mul_right 8 (Nat.pow_le_pow_right (by decide) hsl)
  unfold rbSliceKeyOfRtOff
  rw [hk, g.rbIndexShift_eq]
  refine ⟨rfl, ?_⟩
  unfold Host.rbSliceKey
  rw [← g.rbIndexShift_eq, ← g.rbSliceIndexShift_eq]
  exact Arith.first_slice_key k i.rbIndexShift i.cb i.rbSliceIndexShift hle

/-- First-slice inverse law for L2 tables (here `l2_slice_bits ≤ cluster_bits`
    is part of `Geom`, since `Qcow2Info::new` enforces it). -/
theorem l2_first_slice_key {i : Info} (g : Geom i) (k : Nat) :
    l2SliceKeyOfL1Off i (8 * k) = Split.l2SliceKey i (k * i.l2Entries * 2^i.cb) ∧
    l2SliceKeyOfL1Off i (8 * k) = k * (i.l2Entries / i.l2SliceEntries) := by
  have hk : 8 * k / 8 = k := Nat.mul_div_cancel_left k (by decide)
  have hle : i.l2SliceIndexShift ≤ i.l2IndexShift := by
    apply Arith.pow_le_of_two_pow_le
    rw [g.l2SliceIndexShift_eq, g.l2IndexShift_eq, g.l2SliceEntries_eq, g.l2Entries_eq]
    apply Nat.div_le_div_right
    exact Nat.pow_le_pow_right (by decide) g.l2SliceBits_le
  unfold l2SliceKeyOfL1Off
  rw [hk, g.l2IndexShift_eq]
  refine ⟨rfl, ?_⟩
  unfold Split.l2SliceKey
  rw [← g.l2IndexShift_eq, ← g.l2SliceIndexShift_eq]
  exact Arith.first_slice_key k i.l2IndexShift i.cb i.l2SliceIndexShift hle

/-! ### Non-vacuity and the `rb_slice_bits > cluster_bits` finding -/

/-- 64 KiB clusters, 16-bit refcounts, default cache parameters. -/
def hdrEx : HdrGeo := { clusterBits := 16, refcountOrder := 4, size := 2^30, hasBackingName := false }
def prmEx : Params := { bsBits := 9, rbCache := none, l2Cache := none, readOnly := false, backing := false }
def infoEx : Info :=
  { bsb := 9, cb := 16, l2IndexShift := 13, l2SliceIndexShift := 9, l2SliceBits := 12, ro := 4,
    rbSliceBits := 12, rbIndexShift := 15, rbSliceIndexShift := 11, l2SliceEntries := 512,
    l2CacheCnt := 32, rbCacheCnt := 64, vsize := 1073741824, readOnly := false, hasBack := false,
    isBack := false }

theorem infoEx_new : Info.new hdrEx prmEx = .ok infoEx := by rfl

/-- `info_geometry`/`info_geometry_of_params` are not vacuous. -/
example : Geom infoEx :=
  (info_geometry_of_params infoEx_new (by decide) (by decide) (by decide) (by decide)).1
example : Geom infoEx ∧ infoEx.rbSliceBits ≤ infoEx.cb :=
  ⟨(info_geometry infoEx_new (by decide) (by decide) (by decide)).1, by decide⟩
/-- concrete instance of `split_recompose` / `host_partition` (offset 0x123456789). -/
example : (Split.l1Index infoEx 0x123456789, Split.l2Index infoEx 0x123456789,
           Split.inClusterOffset infoEx 0x123456789) = (9, 837, 26505) := by decide
example : (Host.rtIndex infoEx 0x123456789, Host.rbIndex infoEx 0x123456789) = (2, 9029) := by decide

/-- 512-byte clusters with the default refblock cache parameter: the slice is
    clipped to the cluster size (the `rb_slice_bits > cluster_bits` defect found
    with this very input is repaired, see known_findings.jsonl). -/
def hdrSmall : HdrGeo := { clusterBits := 9, refcountOrder := 4, size := 2^30, hasBackingName := false }
def prmSmall : Params :=
  { bsBits := 9, rbCache := none, l2Cache := some (9, 4096), readOnly := false, backing := false }

theorem info_new_small_default_rb :
    ∃ i, Info.new hdrSmall prmSmall = .ok i ∧ i.rbSliceBits = 9 ∧ i.rbSliceEntries ≤ i.rbEntries :=
  ⟨_, rfl, by decide, by decide⟩

/-- the first-slice law holds for every geometry `Qcow2Info::new` can produce -/
theorem rb_first_slice_key_of_new {h : HdrGeo} {p : Params} {i : Info}
    (hn : Info.new h p = .ok i) (hcb9 : 9 ≤ h.clusterBits) (hcb21 : h.clusterBits ≤ 21)
    (hro : h.refcountOrder ≤ 6) (hbs : 3 ≤ p.bsBits) (k : Nat) :
    rbSliceKeyOfRtOff i (8 * k) = Host.rbSliceKey i (k * i.rbEntries * 2^i.cb) ∧
    rbSliceKeyOfRtOff i (8 * k) = k * (i.rbEntries / i.rbSliceEntries) := by
  obtain ⟨g, _, _, _, _, hle, _⟩ := info_geometry_of_params hn hcb9 hcb21 hro hbs
  exact rb_first_slice_key_partial g hle k

end Qv.Props.C15


