import Qv.Proofs.LockOrder
/-
C07 — lock-order discipline ⇒ no deadlock, on the lock-program model
`Qv.Spec.Lock` (Qv/Spec/LockOrder.lean).  Helper lemmas: Qv/Proofs/LockOrder.lean.

Discipline (`okPair` / `progOk` / `Disciplined rank`): a task that requests lock `a`
while holding `h` has `rank h < rank a`, or equal ranks with `h ≠ a` and both in read mode.

* (a) `Disciplined rank` and (b) `Consistent` are invariants of `stepTask` / `runSched`.
* (c) `blocked_has_unblocked_blocker`: if some task is blocked, some blocked task `j` is
  blocked only by tasks that are themselves neither blocked nor finished — there is never
  a set of tasks waiting for each other.
* (d) `disciplined_no_deadlock`, (e) `programs_never_deadlock`.
* (f) discrimination: the classic inversion is rejected by `progOk` and does deadlock;
  a disciplined three-task system with equal-rank readers and a writer runs to completion.
* (g) `progress` / `programs_progress`.

Remarks.
* `Consistent s` turned out NOT to be needed for (c)–(e): the rank argument only uses the
  discipline.  It is still proved invariant ((b)) since it is the model's sanity condition
  (a granted request never conflicts with a lock someone else holds).
* Leak freedom IS needed for (d): a *finished* task that still holds a lock blocks others
  forever (`leak_deadlocks` below).  `LeakFree s` (`finished t → t.held = []`) follows from
  `Balanced s` (every remaining program releases all it holds/acquires, decidable
  `balanced`), which is an invariant of `runSched`.
-/
namespace Qv.Props.C07
open Qv.Spec.Lock Qv.Proofs.LockOrder

/-! ### (a) the discipline is an invariant -/

theorem stepTask_disciplined (rank : Nat → Nat) (s s' : State) (i : Nat)
    (hstep : stepTask s i = some s') : Disciplined rank s → Disciplined rank s' :=
  Qv.Proofs.LockOrder.stepTask_disciplined hstep

theorem runSched_disciplined (rank : Nat → Nat) (s : State) (sched : List Nat) :
    Disciplined rank s → Disciplined rank (runSched s sched) :=
  Qv.Proofs.LockOrder.runSched_disciplined sched

/-! ### (b) no two tasks ever hold conflicting locks -/

theorem stepTask_consistent (s s' : State) (i : Nat)
    (hstep : stepTask s i = some s') : Consistent s → Consistent s' :=
  Qv.Proofs.LockOrder.stepTask_consistent hstep

theorem runSched_consistent (s : State) (sched : List Nat) :
    Consistent s → Consistent (runSched s sched) :=
  Qv.Proofs.LockOrder.runSched_consistent sched

theorem initState_consistent (progs : List (List Act)) : Consistent (initState progs) :=
  Qv.Proofs.LockOrder.initState_consistent progs

/-! ### balanced programs: a finished task holds nothing -/

theorem runSched_balanced (s : State) (sched : List Nat) :
    Balanced s → Balanced (runSched s sched) :=
  Qv.Proofs.LockOrder.runSched_balanced sched

theorem balanced_leakFree (s : State) : Balanced s → LeakFree s := Balanced.leakFree

theorem runSched_leakFree (s : State) (sched : List Nat) :
    Balanced s → LeakFree (runSched s sched) :=
  fun h => Balanced.leakFree (Qv.Proofs.LockOrder.runSched_balanced sched h)

/-! ### (c) KEY THEOREM -/

/-- If some task is blocked, there is a blocked task `j` (suspended on request `r`) such
    that every *other* task holding a lock that conflicts with `r` is neither blocked nor
    finished: `j` only waits for tasks that can run. -/
theorem blocked_has_unblocked_blocker (rank : Nat → Nat) (s : State)
    (hd : Disciplined rank s) (hl : LeakFree s) (i : Nat) (hi : blocked s i = true) :
    ∃ j tj r, s[j]? = some tj ∧ nextReq tj = some r ∧ blocked s j = true ∧
      ∀ k u, k ≠ j → s[k]? = some u → holdsConflict u r = true →
        blocked s k = false ∧ finished u = false := by
  obtain ⟨j, tj, r, hsj, hr, hbj, hall⟩ := exists_blocked_with_unblocked_blockers hd hi
  refine ⟨j, tj, r, hsj, hr, hbj, fun k u _ hsk hcf => ⟨hall k u hsk hcf, ?_⟩⟩
  cases hf : finished u with
  | false => rfl
  | true =>
    exact absurd (hl u (List.mem_iff_getElem?.2 ⟨k, hsk⟩) hf) (holdsConflict_held_ne_nil hcf)

/-- (c) without the leak-freedom hypothesis (and without the "not finished" conclusion) -/
theorem blocked_has_unblocked_blocker_weak (rank : Nat → Nat) (s : State)
    (hd : Disciplined rank s) (i : Nat) (hi : blocked s i = true) :
    ∃ j tj r, s[j]? = some tj ∧ nextReq tj = some r ∧ blocked s j = true ∧
      ∀ k u, k ≠ j → s[k]? = some u → holdsConflict u r = true → blocked s k = false := by
  obtain ⟨j, tj, r, hsj, hr, hbj, hall⟩ := exists_blocked_with_unblocked_blockers hd hi
  exact ⟨j, tj, r, hsj, hr, hbj, fun k u _ hsk hcf => hall k u hsk hcf⟩

/-! ### (d) no deadlock in a disciplined, leak-free state -/

theorem disciplined_no_deadlock (rank : Nat → Nat) (s : State)
    (hd : Disciplined rank s) (hl : LeakFree s) : deadlocked s = false := by
  cases hdl : deadlocked s with
  | false => rfl
  | true =>
    exfalso
    obtain ⟨⟨t, ht, hft⟩, hall⟩ := deadlocked_eq_true.1 hdl
    obtain ⟨i, hsi⟩ := List.mem_iff_getElem?.1 ht
    have hbi : blocked s i = true := by
      rcases hall i t hsi with h | h
      · rw [hft] at h; cases h
      · exact h
    obtain ⟨j, tj, r, hsj, hr, hbj, hblk⟩ := blocked_has_unblocked_blocker rank s hd hl i hbi
    -- `j` is blocked, so it has a blocker `k`
    rw [blocked_of hsj hr] at hbj
    obtain ⟨k, u, hsk, hne, hcf⟩ := blockedReq_eq_true.1 hbj
    obtain ⟨hnb, hnf⟩ := hblk k u hne hsk hcf
    rcases hall k u hsk with h | h
    · rw [hnf] at h; cases h
    · rw [hnb] at h; cases h

/-! ### (e) a system of disciplined, balanced programs never deadlocks -/

theorem programs_never_deadlock (rank : Nat → Nat) (progs : List (List Act))
    (hok : ∀ p ∈ progs, progOk rank [] p = true)
    (hbal : ∀ p ∈ progs, balanced [] p = true) (sched : List Nat) :
    deadlocked (runSched (initState progs) sched) = false :=
  disciplined_no_deadlock rank _
    (Qv.Proofs.LockOrder.runSched_disciplined sched (initState_disciplined hok))
    (Balanced.leakFree (Qv.Proofs.LockOrder.runSched_balanced sched (initState_balanced hbal)))

/-! ### (g) progress -/

/-- in a non-deadlocked state with an unfinished task, some task can step -/
theorem progress (s : State) (hnd : deadlocked s = false)
    (hu : ∃ t ∈ s, finished t = false) : ∃ i, (stepTask s i).isSome = true := by
  apply Classical.byContradiction
  intro hno
  have hall : ∀ i t, s[i]? = some t → finished t = true ∨ blocked s i = true := by
    intro i t hs
    cases hf : finished t with
    | true => exact Or.inl rfl
    | false =>
      cases hb : blocked s i with
      | true => exact Or.inr rfl
      | false => exact absurd ⟨i, stepTask_isSome_of_unblocked hs hf hb⟩ hno
  have := deadlocked_eq_true.2 ⟨hu, hall⟩
  rw [hnd] at this; cases this

/-- disciplined balanced programs, any schedule: while a task is unfinished, a task can step -/
theorem programs_progress (rank : Nat → Nat) (progs : List (List Act))
    (hok : ∀ p ∈ progs, progOk rank [] p = true)
    (hbal : ∀ p ∈ progs, balanced [] p = true) (sched : List Nat)
    (hu : ∃ t ∈ runSched (initState progs) sched, finished t = false) :
    ∃ i, (stepTask (runSched (initState progs) sched) i).isSome = true :=
  progress _ (programs_never_deadlock rank progs hok hbal sched) hu

/-! ### (f) discrimination -/

/-- the classic inversion: `A` takes 1 then 0, `B` takes 0 then 1 -/
def progA : List Act := [.acq ⟨1, .wr⟩, .acq ⟨0, .wr⟩, .rel 0, .rel 1]
def progB : List Act := [.acq ⟨0, .rd⟩, .acq ⟨1, .wr⟩, .rel 1, .rel 0]

theorem inversion_not_disciplined : progOk id [] progA = false := by decide
theorem inversion_other_disciplined : progOk id [] progB = true := by decide
theorem inversion_balanced : balanced [] progA = true ∧ balanced [] progB = true := by decide

theorem inversion_deadlocks :
    deadlocked (runSched (initState [progA, progB]) [0, 1]) = true := by decide

/-- in that deadlock both tasks are blocked, each by the other (the conclusion of (c) fails) -/
theorem inversion_cycle :
    let s := runSched (initState [progA, progB]) [0, 1]
    blocked s 0 = true ∧ blocked s 1 = true := by decide

/-- leak freedom is necessary for (d): a finished task that still holds a lock -/
theorem leak_deadlocks :
    let s : State := [⟨[⟨0, .wr⟩], []⟩, ⟨[], [.acq ⟨0, .wr⟩, .rel 0]⟩]
    (∀ t ∈ s, progOk id t.held t.prog = true) ∧ deadlocked s = true := by decide

/-- positive example.  Locks 2 and 3 have the same rank (`l / 2`), lock 0 a smaller one.
    Two readers take 2 and 3 in *opposite* orders (allowed: equal rank, both read mode);
    a writer holding lock 0 wants lock 3 in write mode. -/
def rank2 (l : Nat) : Nat := l / 2
def reader1 : List Act := [.acq ⟨2, .rd⟩, .acq ⟨3, .rd⟩, .io, .rel 3, .rel 2]
def reader2 : List Act := [.acq ⟨3, .rd⟩, .acq ⟨2, .rd⟩, .io, .rel 2, .rel 3]
def writer : List Act := [.acq ⟨0, .wr⟩, .acq ⟨3, .wr⟩, .io, .rel 3, .rel 0]
def sys3 : List (List Act) := [reader1, reader2, writer]

theorem sys3_disciplined : ∀ p ∈ sys3, progOk rank2 [] p = true := by decide
theorem sys3_balanced : ∀ p ∈ sys3, balanced [] p = true := by decide

/-- both readers hold both read locks, the writer (task 2) is blocked on lock 3; no deadlock -/
theorem sys3_writer_waits :
    let s := runSched (initState sys3) [0, 1, 2, 0, 1, 2]
    blocked s 2 = true ∧ blocked s 0 = false ∧ blocked s 1 = false ∧
      deadlocked s = false := by decide

/-- an explicit schedule runs all three to completion (the second `2` is a skipped,
    blocked step) -/
theorem sys3_completes :
    (runSched (initState sys3) [0, 1, 2, 0, 1, 2, 0, 0, 0, 1, 1, 1, 2, 2, 2, 2]).all finished
      = true := by decide

/-- the general theorem applies to it -/
theorem sys3_never_deadlocks (sched : List Nat) :
    deadlocked (runSched (initState sys3) sched) = false :=
  programs_never_deadlock rank2 sys3 sys3_disciplined sys3_balanced sched

/-- the same readers in *write* mode are rejected (equal rank needs read mode) -/
theorem equal_rank_writers_rejected :
    progOk rank2 [] [.acq ⟨2, .wr⟩, .acq ⟨3, .rd⟩, .rel 3, .rel 2] = false := by decide

end Qv.Props.C07
