import Qv.Spec.ConcCrash
import Qv.Props.C04Conc
/-
  The list-level link: what the crash driver does on the list `conc_crash_lines` produces (sorted by the key: writes by
  completion, fsyncs by issue) is `SeqPossible`, hence (C04Conc.seq_sound) a crash state of the concurrent run.
-/
namespace Qv.Props.C04ConcList
open Qv.Spec.ConcCrash

inductive Ev
  | w (x : Wr)
  | s (y : Sy)

def key : Ev → Nat
  | .w x => x.done
  | .s y => y.issue

def writesOf : List Ev → List Wr
  | [] => []
  | .w x :: r => x :: writesOf r
  | .s _ :: r => writesOf r

def syncsOf : List Ev → List Sy
  | [] => []
  | .w _ :: r => syncsOf r
  | .s y :: r => y :: syncsOf r

theorem mem_writesOf {L : List Ev} {x : Wr} : x ∈ writesOf L ↔ Ev.w x ∈ L := by
  induction L with
  | nil => simp [writesOf]
  | cons e r ih => cases e <;> simp [writesOf, ih]

theorem mem_syncsOf {L : List Ev} {y : Sy} : y ∈ syncsOf L ↔ Ev.s y ∈ L := by
  induction L with
  | nil => simp [syncsOf]
  | cons e r ih => cases e <;> simp [syncsOf, ih]

/-- the driver at the prefix `pre` of the list: survivors are among the prefix's writes, and every write that stands
    before an fsync of the prefix is there -/
def ListPossible (pre : List Ev) (A : Wr → Prop) : Prop :=
  (∀ x, A x → Ev.w x ∈ pre) ∧
  (∀ x y pre1 pre2, pre = pre1 ++ Ev.s y :: pre2 → Ev.w x ∈ pre1 → A x)

/-- on a list sorted by the key, cut at time `t`, the driver's states are `SeqPossible` states -/
theorem list_is_seq (pre post : List Ev) (t : Nat) (A : Wr → Prop)
    (hsorted : (pre ++ post).Pairwise (fun a b => key a < key b))
    (hpre : ∀ e ∈ pre, key e < t) (hpost : ∀ e ∈ post, t ≤ key e)
    (h : ListPossible pre A) :
    SeqPossible { ws := writesOf (pre ++ post), ss := syncsOf (pre ++ post) } t A := by
  refine ⟨?_, ?_⟩
  · intro x _ ha
    exact hpre _ (h.1 x ha)
  · intro x hx ⟨y, hy, h1, h2⟩
    have hyL : Ev.s y ∈ pre ++ post := mem_syncsOf.mp hy
    have hxL : Ev.w x ∈ pre ++ post := mem_writesOf.mp hx
    -- the fsync is in the prefix
    have hyPre : Ev.s y ∈ pre := by
      rcases List.mem_append.mp hyL with hp | hp
      · exact hp
      · have := hpost _ hp; simp [key] at this; omega
    obtain ⟨pre1, pre2, hsplit⟩ := List.append_of_mem hyPre
    refine h.2 x y pre1 pre2 hsplit ?_
    -- the write stands before it
    subst hsplit
    have hxL' : Ev.w x ∈ pre1 ++ (Ev.s y :: (pre2 ++ post)) := by simpa [List.append_assoc] using hxL
    rcases List.mem_append.mp hxL' with hp | hp
    · exact hp
    · exfalso
      have hs' : (pre1 ++ (Ev.s y :: (pre2 ++ post))).Pairwise (fun a b => key a < key b) := by
        simpa [List.append_assoc] using hsorted
      have hs2 := (List.pairwise_append.mp hs').2.1
      rcases List.mem_cons.mp hp with heq | hin
      · cases heq
      · have := (List.pairwise_cons.mp hs2).1 _ hin
        simp [key] at this; omega

/-- and therefore crash states of the concurrent run -/
theorem list_sound (pre post : List Ev) (t : Nat) (A : Wr → Prop)
    (hwf : WF { ws := writesOf (pre ++ post), ss := syncsOf (pre ++ post) })
    (hsorted : (pre ++ post).Pairwise (fun a b => key a < key b))
    (hpre : ∀ e ∈ pre, key e < t) (hpost : ∀ e ∈ post, t ≤ key e)
    (h : ListPossible pre A) :
    ConcPossible { ws := writesOf (pre ++ post), ss := syncsOf (pre ++ post) } t A :=
  Qv.Props.C04Conc.seq_sound _ hwf t A (list_is_seq pre post t A hsorted hpre hpost h)

/-- non-vacuity: a sorted list, a cut, and a state in which the write in flight across the fsync is lost -/
example :
    let w1 : Wr := { id := 1, issue := 0, done := 1 }
    let w2 : Wr := { id := 2, issue := 0, done := 4 }
    let sy : Sy := { issue := 2, done := 3 }
    let pre := [Ev.w w1, Ev.s sy, Ev.w w2]
    (pre ++ []).Pairwise (fun a b => key a < key b) ∧ (∀ e ∈ pre, key e < 5) ∧
      ListPossible pre (fun x => x = w1) := by
  refine ⟨by simp [key], by simp [key], ?_, ?_⟩
  · intro x hx; subst hx; simp
  · intro x y pre1 pre2 hsplit hmem
    match pre1, hsplit with
    | [], h => simp at hmem
    | [e], h =>
      simp at h
      obtain ⟨rfl, _⟩ := h
      simp at hmem; exact hmem
    | e1 :: e2 :: [], h => simp at h
    | e1 :: e2 :: e3 :: r, h => simp at h

end Qv.Props.C04ConcList
