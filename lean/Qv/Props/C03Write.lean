import Qv.Proofs.AcctCow
/-
C03, continued — refcount accounting through whole operations of the device model:
`Acct` (the stored refcount of every host cluster equals the number of references to
it) is kept by `__write_at` (single- and multi-cluster requests, with or without a
backing file, every outcome, including growth of the refcount table), by the COW paths
of `do_write_cow`, by `discard`, and hence by every sequential history of writes,
discards, flushes and reads on a freshly formatted image.

Helper files: `Qv/Proofs/AcctAlloc.lean` (allocator, `ensure_refblock_offset` with and
without growth), `RtMono.lean` (`rtLen` never decreases), `AcctWrite.lean`
(`ensure_l2_offset`, `alloc_and_map_cluster`, single-cluster mapping),
`AcctWriteMulti.lean` (`do_write`, multi-cluster mapping, `__write_at`), `AcctHist.lean`
(discard, histories, the formatter), `AcctCow.lean` (compressed COW).

THE INVARIANT.  `Acct` alone is not inductive; what is carried is `WInv d`:

* `Acct d`;
* `RcDom d` — a cluster whose refcount-table entry is missing (zero, or beyond the
  table) has refcount 0 (in the file such a cluster has no refcount at all; the model
  keeps all refcounts in one map; with `Acct`: nothing is referenced outside the area
  the refcount table describes); the RAM refcount table is as long as the table on disk
  (`rtLen * 8 = hdrRtClusters * cs`) and its entries beyond `rtLen` are zero;
* `Shape d` — the geometry equations `Geom d.info`, `9 ≤ cluster_bits`,
  `rb_slice_bits ≤ cluster_bits`, `L1Distinct d` (no two L1 entries share an L2 table),
  L1 entries beyond the header's `l1_size` are zero, `l1HdrEntries = hdrL1Entries ≤ l1Len`,
  the header's `l1_size` covers the virtual disk, and `Cap d`: the refcount table
  describes host offsets below 2^56 only (what an L2 entry can hold).

HYPOTHESES OF THE WRITE THEOREMS, beyond `WInv d`:

* (bound) `Cap d'`: after the call the refcount table still describes host offsets below
  2^56 only.  The table MAY GROW during the call (`ensure_refblock_offset` for an index
  beyond it relocates the table, C12); `rtLen` never decreases (`Qv/Proofs/RtMono.lean`),
  so `Cap d'` bounds every intermediate state.  A call that does not grow the table
  (`d'.rtLen = d.rtLen`) satisfies it (`cap_of_noGrowth`).
* (known leak excluded) `NoPre d o` for the guest clusters `o` the request touches: if the
  entry of `o` has to be replaced by a new mapping, it has no allocation.  This excludes
  the zero-flagged entry with a preallocated cluster (known finding: `alloc_and_map_cluster`
  drops the old allocation, `map_over_allocation_leaks_one` in C03) — and, the same shape,
  a standard cluster without the COPIED flag (a cluster shared with a snapshot).
* (W1/W2) the touched clusters are not compressed; a single-cluster write into a compressed
  cluster is W3.

Every theorem is for EVERY outcome of the call (ok, error, panic): the state survives an
error in the model as it does in the code.
-/
namespace Qv.Props.C03Write
open Qv Qv.Model Qv.Codec
open Qv.Props.C15 (Geom infoEx prmEx)
open Qv.Props.C11 (L1Distinct)

/-! ## 0. The invariant -/

theorem winv_acct {d : Dev} (w : WInv d) : Acct d ∧ NoUnder d ∧ NoLeak d :=
  ⟨w.acct, Qv.Props.C03.noUnder_of_acct w.acct, Qv.Props.C03.noLeak_of_acct w.acct⟩

/-- the invariant, spelled out -/
theorem winv_iff (d : Dev) :
    WInv d ↔ Acct d ∧
      (∀ c, RT.isZero (rtEntryAt d (c * d.info.clusterSize)) = true → d.rc.get c = 0) ∧
      d.rtLen * 8 = d.hdrRtClusters * d.info.clusterSize ∧ (∀ i, d.rtLen ≤ i → d.rt.get i = 0#64) ∧
      Geom d.info ∧ 9 ≤ d.info.cb ∧ d.info.rbSliceBits ≤ d.info.cb ∧ L1Distinct d ∧
      (∀ i, d.hdrL1Entries ≤ i → L1.isZero (d.l1At i) = true) ∧
      d.l1HdrEntries = d.hdrL1Entries ∧ d.hdrL1Entries ≤ d.l1Len ∧
      (∀ off, off < d.info.vsize → Split.l1Index d.info off < d.hdrL1Entries) ∧
      d.rtLen * d.info.rbEntries * d.info.clusterSize ≤ 2^56 :=
  ⟨fun w => ⟨w.acct, w.dom.zero, w.dom.sync, w.dom.tail, w.shape.geo, w.shape.cb9, w.shape.hsl,
      w.shape.l1d, w.shape.l1tail, w.shape.hdrEq, w.shape.hdrLe, w.shape.l1cov, w.shape.cap56⟩,
    fun ⟨a, b1, b2, b3, c1, c2, c3, c4, c5, c6, c7, c8, c9⟩ =>
      ⟨⟨c1, c2, c3, c4, c5, c6, c7, c8, c9⟩, ⟨b1, b2, b3⟩, a⟩⟩

/-- the bound on the refcount table -/
theorem cap_iff (d : Dev) : Cap d ↔ d.rtLen * d.info.rbEntries * d.info.clusterSize ≤ 2^56 := Iff.rfl

/-- a call that does not grow the refcount table keeps the bound -/
theorem cap_of_noGrowth {d d' : Dev} (w : WInv d) (hi : d'.info = d.info) (hl : d'.rtLen = d.rtLen) :
    Cap d' :=
  w.shape.cap56.of_eq hi hl

/-- the hypothesis that excludes the known leak, spelled out -/
theorem noPre_iff (d : Dev) (o : Nat) :
    NoPre d o ↔ (L2.plainOffset (d.mapping o) 0 = none → L2.allocation d.info.cb (d.l2Entry o) = none) :=
  Iff.rfl

/-- it holds for unallocated entries, for zero-flagged entries without preallocation
    (what `discard` leaves), and for every cluster that is written in place -/
theorem noPre_cases (d : Dev) (o : Nat) :
    (d.l2Entry o = 0#64 → NoPre d o) ∧ (d.l2Entry o = 1#64 → NoPre d o) ∧
    (∀ h, L2.plainOffset (d.mapping o) 0 = some h → NoPre d o) :=
  ⟨noPre_of_entry_zero, noPre_of_entry_one, fun h hp hn => by rw [hp] at hn; cases hn⟩

/-! ## 1. The allocator -/

/-- **allocate_clusters**: on a state satisfying the invariant a call (`count ≠ 0`) after
    which the refcount table is still within the bound — it may have grown — either returns
    a run `(o, n)`, `1 ≤ n ≤ count`, cluster aligned, not at offset 0 — and then the run is
    the only surplus: every refcount equals the number of references plus one for the
    clusters of the run — or fails (`Ok(None)`, which does not happen, or an error) and
    leaves the accounting exact.  `RcDom` and `Shape` are kept; the call does not panic;
    only `rt`, `rc`, the hint, the flush flag and (growth) `rtLen`, `hdrRtOff`,
    `hdrRtClusters` change. -/
theorem allocateClusters_surplus {count : Nat} {d d' : Dev} {r : Outcome (Option (Nat × Nat))}
    (w : WInv d) (h0 : count ≠ 0) (h : allocateClusters count d = (d', r)) (hc : Cap d') :
    Shape d' ∧ RcDom d' ∧
    (match r with
      | .ok (some (o, n)) =>
        (∀ c, d'.rc.get c = d'.refs c +
          (if o / d'.info.clusterSize ≤ c ∧ c < o / d'.info.clusterSize + n then 1 else 0)) ∧
        1 ≤ n ∧ n ≤ count ∧ o % d'.info.clusterSize = 0 ∧ 0 < o
      | .ok none => Acct d'
      | .err _ => Acct d'
      | .panic _ => False) ∧
    (∃ rt rc hint nf len o c, d' = { d with rt := rt, rc := rc, hint := hint, needFlush := nf,
                                            rtLen := len, hdrRtOff := o, hdrRtClusters := c }) := by
  obtain ⟨post, fr⟩ := allocateClusters_acct w h0 h hc
  refine ⟨post.1, post.2.1, ?_, fr⟩
  rcases r with (_ | ⟨o, n⟩) | e | p
  · exact post.2.2
  · exact post.2.2
  · exact post.2.2
  · exact post.2.2

/-- **`ensure_refblock_offset`**, any outcome: nothing, a new refblock, or — for an index
    beyond the table — the relocation of the refcount table with the release of the old
    one (C12), which succeeds.  The whole invariant is kept. -/
theorem ensureRefblock_acct {d d' : Dev} {off : Nat} {r : Outcome Unit} (w : WInv d)
    (h : ensureRefblock off d = (d', r)) (hc : Cap d') :
    Acct d' ∧ WInv d' ∧ (∀ p, r ≠ .panic p) ∧ (r = .ok () → ¬ RT.isZero (rtEntryAt d' off) = true) := by
  obtain ⟨a, _, np, z⟩ := ensureRefblock_winv w h hc
  exact ⟨a.acct, a, np, z⟩

/-- the growth case on its own: the index lies beyond the table and the relocated table
    fits (`GrowFits`); the call succeeds -/
theorem ensureRefblock_growth_keeps_invariant {d d' : Dev} {off : Nat} {r : Outcome Unit} (w : WInv d)
    (hoob : d.rtLen ≤ Host.rtIndex d.info off) (hfit : GrowFits d (Host.rtIndex d.info off))
    (h : ensureRefblock off d = (d', r)) (hc : Cap d') :
    WInv d' ∧ r = .ok () ∧ d.rtLen < d'.rtLen := by
  have hnip : ¬ GrowInPlace d (Host.rtIndex d.info off) := by
    intro hip; have := hip.1; have := w.dom.sync; omega
  obtain ⟨a, b, _⟩ := ensureRefblock_growth_winv w hoob hfit hnip h hc
  refine ⟨a, b, ?_⟩
  rcases Qv.Props.C12.ensureRefblock_beyond off d (by omega) with e | e
  · rw [e] at h; simp only [Prod.mk.injEq] at h; rw [← h.2] at b; cases b
  · rw [h] at e; exact e

/-! ## 2. W1 — single-cluster `__write_at` -/

/-- **W1.**  A single-cluster request on a guest cluster that is not compressed and whose
    entry, if it has to be replaced, has no allocation: whatever the call returns — in
    place, new data cluster, new L2 table, new refblock, relocated refcount table, refused
    allocation, any other error — the invariant (hence `Acct`) holds afterwards, the call
    does not panic, and every entry of the view is kept or became `map_cluster(x)` for a
    new cluster `x`. -/
theorem writeAt_single_acct {d d' : Dev} {off len : Nat} {toks : List Nat} {r : Outcome Unit}
    (w : WInv d) (hchk : writeCheck d.info off len = none) (hlen : len ≠ 0)
    (hsingle : off / d.info.clusterSize = (off + len - 1) / d.info.clusterSize)
    (hnp : NoPre d off) (hnc : L2.isCompressed (d.l2Entry off) = false)
    (h : writeAt off len toks d = (d', r)) (hc : Cap d') :
    Acct d' ∧ WInv d' ∧ ViewStep d d' ∧ (∀ p, r ≠ .panic p) := by
  obtain ⟨a, _, _, v, np⟩ := writeAt_single_winv w hchk hlen hsingle hnp hnc h hc
  exact ⟨a.acct, a, v, np⟩

/-- W1 in the form "the call did not grow the refcount table" -/
theorem writeAt_single_acct_noGrowth {d d' : Dev} {off len : Nat} {toks : List Nat} {r : Outcome Unit}
    (w : WInv d) (hchk : writeCheck d.info off len = none) (hlen : len ≠ 0)
    (hsingle : off / d.info.clusterSize = (off + len - 1) / d.info.clusterSize)
    (hnp : NoPre d off) (hnc : L2.isCompressed (d.l2Entry off) = false)
    (h : writeAt off len toks d = (d', r)) (hl : d'.rtLen = d.rtLen) : Acct d' :=
  (writeAt_single_acct w hchk hlen hsingle hnp hnc h
    (cap_of_noGrowth w ((writeAt_fr off len toks).of_eq h).2.2.1 hl)).1

/-- the parts of W1: `ensure_l2_offset` (new L2 table or nothing), any outcome -/
theorem ensureL2_acct {d d' : Dev} {off : Nat} {r : Outcome Unit} (w : WInv d)
    (hidx : Split.l1Index d.info off < d.hdrL1Entries)
    (h : ensureL2 off d = (d', r)) (hc : Cap d') :
    Acct d' ∧ WInv d' ∧ (∀ o, d'.l2Entry o = d.l2Entry o) ∧ (∀ p, r ≠ .panic p) ∧
      (r = .ok () → L1.isZero (d'.l1Entry off) = false) := by
  obtain ⟨a, v, _, _, np, z⟩ := ensureL2_winv w hidx h hc
  exact ⟨a.acct, a, v, np, z⟩

/-- … `alloc_and_map_cluster` over an entry without allocation, any outcome -/
theorem allocAndMap_acct {d d' : Dev} {off : Nat} {r : Outcome Unit} (w : WInv d)
    (hl1 : L1.isZero (d.l1Entry off) = false) (hidx : Split.l1Index d.info off < d.hdrL1Entries)
    (hold : L2.allocation d.info.cb (d.l2Entry off) = none)
    (h : allocAndMap off d = (d', r)) (hc : Cap d') :
    Acct d' ∧ WInv d' ∧ (∀ p, r ≠ .panic p) ∧
      (r = .ok () → ∃ x, d'.l2Entry off = L2.mapClusterEntry x ∧ x % 512 = 0 ∧ 0 < x ∧ x < 2^56) := by
  obtain ⟨a, _, _, np, _, _, ok, _⟩ := allocAndMap_winv w hl1 hidx hold h hc
  exact ⟨a.acct, a, np, ok⟩

/-- … and `do_write` for an uncompressed entry, any outcome -/
theorem doWrite_acct {d d' : Dev} {e : E64} {off : Nat} {toks : List Nat} {r : Outcome Unit}
    (w : WInv d) (hidx : Split.l1Index d.info off < d.hdrL1Entries)
    (he : L2.isCompressed e = false) (hsrc : L2.isCompressed (d.l2Entry off) = false)
    (h : doWrite e off toks d = (d', r)) (hc : Cap d') :
    Acct d' ∧ WInv d' ∧ (∀ p, r ≠ .panic p) := by
  obtain ⟨a, _, _, _, np⟩ := doWrite_winv w hidx he hsrc h hc
  exact ⟨a.acct, a, np⟩

/-! ## 3. W2 — any `__write_at`, in particular multi-cluster requests -/

/-- **W2.**  Any request (rejected, empty, single- or multi-cluster; every mixture of
    allocated and unallocated target clusters; with or without a backing file; with or
    without growth of the refcount table): if the guest clusters it touches are not
    compressed and satisfy `NoPre`, then whatever the call returns the invariant (hence
    `Acct`) holds afterwards. -/
theorem writeAt_acct {d d' : Dev} {off len : Nat} {toks : List Nat} {r : Outcome Unit} (w : WInv d)
    (hNP : ∀ o, d.info.clusterRoundDown off ≤ o →
      o < (off + len + d.info.clusterSize - 1) / d.info.clusterSize * d.info.clusterSize → NoPre d o)
    (hNC : ∀ o, d.info.clusterRoundDown off ≤ o →
      o < (off + len + d.info.clusterSize - 1) / d.info.clusterSize * d.info.clusterSize →
      L2.isCompressed (d.l2Entry o) = false)
    (h : writeAt off len toks d = (d', r)) (hc : Cap d') :
    Acct d' ∧ WInv d' ∧ ViewStep d d' := by
  obtain ⟨a, _, _, v⟩ := writeAt_winv w hNP hNC h hc
  exact ⟨a.acct, a, v⟩

/-- W2 in the form "the call did not grow the refcount table" -/
theorem writeAt_acct_noGrowth {d d' : Dev} {off len : Nat} {toks : List Nat} {r : Outcome Unit}
    (w : WInv d)
    (hNP : ∀ o, d.info.clusterRoundDown off ≤ o →
      o < (off + len + d.info.clusterSize - 1) / d.info.clusterSize * d.info.clusterSize → NoPre d o)
    (hNC : ∀ o, d.info.clusterRoundDown off ≤ o →
      o < (off + len + d.info.clusterSize - 1) / d.info.clusterSize * d.info.clusterSize →
      L2.isCompressed (d.l2Entry o) = false)
    (h : writeAt off len toks d = (d', r)) (hl : d'.rtLen = d.rtLen) : Acct d' :=
  (writeAt_acct w hNP hNC h (cap_of_noGrowth w ((writeAt_fr off len toks).of_eq h).2.2.1 hl)).1

/-- the parts of W2: `__make_multiple_write_mapping` maps the whole run it allocated —
    `allocate_clusters(need)` may return fewer clusters than asked for, `mapRun` consumes
    exactly what was returned — any outcome -/
theorem makeMultiple_acct {d d' : Dev} {start stop : Nat} {r : Outcome (List E64 × Nat)} (w : WInv d)
    (hsal : start % d.info.clusterSize = 0) (hlt : start < stop)
    (hidx : ∀ o, start ≤ o → o < stop → Split.l1Index d.info o < d.hdrL1Entries)
    (hNP : ∀ o, start ≤ o → o < stop → NoPre d o)
    (hNC : ∀ o, start ≤ o → o < stop → L2.isCompressed (d.l2Entry o) = false)
    (h : makeMultiple start stop d = (d', r)) (hc : Cap d') :
    Acct d' ∧ WInv d' ∧ ViewStep d d' ∧ (∀ p, r ≠ .panic p) := by
  obtain ⟨a, _, _, v, np, _⟩ := makeMultiple_winv w hsal hlt hidx hNP hNC h hc
  exact ⟨a.acct, a, v, np⟩

/-- … `make_multiple_write_mappings`, any outcome -/
theorem makeMultiples_acct {d d' : Dev} {stop fuel start : Nat} {r : Outcome (List E64)} (w : WInv d)
    (hsal : start % d.info.clusterSize = 0)
    (hidx : ∀ o, start ≤ o → o < stop → Split.l1Index d.info o < d.hdrL1Entries)
    (hNP : ∀ o, start ≤ o → o < stop → NoPre d o)
    (hNC : ∀ o, start ≤ o → o < stop → L2.isCompressed (d.l2Entry o) = false)
    (h : makeMultiples stop fuel start [] d = (d', r)) (hc : Cap d') :
    Acct d' ∧ WInv d' ∧ ViewStep d d' ∧ (∀ p, r ≠ .panic p) := by
  obtain ⟨a, _, _, v, np, _⟩ := makeMultiples_winv stop d.info fuel start [] d d' r rfl w hsal hidx hNP hNC
    (fun e he => by cases he) h hc
  exact ⟨a.acct, a, v, np⟩

/-- … and `mapRun`: of the surplus run `(cstart, ccnt)` exactly `idxf` clusters are
    mapped, the rest is still the surplus; all of it is mapped when enough of the next
    `m` guest clusters need a mapping (`needFrom d this m` counts them) -/
theorem mapRun_surplus (cstart ccnt stop : Nat) (i : Info) (fuel this idx : Nat)
    (d : Dev) (hi : d.info = i) (s : Shape d) (dom : RcDom d)
    (hP : ∀ c, d.rc.get c = d.refs c + covers d.cs (some (cstart + idx * i.clusterSize, ccnt - idx)) c)
    (hal : cstart % i.clusterSize = 0) (hpos : 0 < cstart) (hlt : idx < ccnt)
    (hR : ∀ o, this ≤ o → o < stop →
      L1.isZero (d.l1Entry o) = false ∧ Split.l1Index i o < d.hdrL1Entries)
    (hNP : ∀ o, this ≤ o → o < stop → NoPre d o)
    (hNC : ∀ o, this ≤ o → o < stop → L2.isCompressed (d.l2Entry o) = false) :
    ∃ d' es next idxf, mapRun cstart ccnt stop fuel this idx [] d = (d', .ok (es, next, idxf)) ∧
      (∀ c, d'.rc.get c = d'.refs c + covers d'.cs (some (cstart + idxf * i.clusterSize, ccnt - idxf)) c) ∧
      idxf ≤ ccnt ∧
      (∀ m, m ≤ fuel → this + m * i.clusterSize ≤ stop → ccnt - idx ≤ needFrom d this m → idxf = ccnt) := by
  obtain ⟨d', es, next, idxf, hrun, _, _, a3, a4, _, _, _, _, _, _, a11⟩ :=
    mapRun_acct cstart ccnt stop i fuel this idx [] d hi s dom hP hal hpos hlt hR hNP
      (fun e he => by cases he) hNC
  exact ⟨d', es, next, idxf, hrun, a3, a4, a11⟩

/-! ## 4. W3 — the COW paths -/

/-- **W3, backing file.**  `do_write_cow` for a cluster that is read from the backing
    file (any `m` that is not a compressed mapping; the target is not compressed in the
    current view): `ensure_l2_offset`, one allocation, one mapping, nothing released;
    any outcome — including the failure of the copy when the backing file is missing,
    after which the new cluster stays mapped. -/
theorem doWriteCow_backing_acct {d d' : Dev} {off : Nat} {m : Mapping} {toks : List Nat}
    {r : Outcome Unit} (w : WInv d) (hidx : Split.l1Index d.info off < d.hdrL1Entries)
    (hm : m.source ≠ .compressed) (hsrc : (d.mapping off).source ≠ .compressed)
    (h : doWriteCow off m toks d = (d', r)) (hc : Cap d') :
    Acct d' ∧ WInv d' ∧ (∀ p, r ≠ .panic p) ∧
      (d'.l2Entry off = d.l2Entry off ∨
        ∃ x, d'.l2Entry off = L2.mapClusterEntry x ∧ x % 512 = 0 ∧ 0 < x ∧ x < 2^56) := by
  obtain ⟨a, _, _, np, k, _⟩ := doWriteCow_plain_winv w hidx hm hsrc h hc
  exact ⟨a.acct, a, np, k⟩

/-- for an image with a backing file, whole requests are covered by W2 (`writeAt_acct`
    has no hypothesis on `hasBack`): unallocated clusters are then not mapped by
    `make_multiple_write_mappings` but each by its own `do_write_cow` -/
theorem writeAt_backing_acct {d d' : Dev} {off len : Nat} {toks : List Nat} {r : Outcome Unit}
    (w : WInv d) (_hb : d.info.hasBack = true)
    (hNP : ∀ o, d.info.clusterRoundDown off ≤ o →
      o < (off + len + d.info.clusterSize - 1) / d.info.clusterSize * d.info.clusterSize → NoPre d o)
    (hNC : ∀ o, d.info.clusterRoundDown off ≤ o →
      o < (off + len + d.info.clusterSize - 1) / d.info.clusterSize * d.info.clusterSize →
      L2.isCompressed (d.l2Entry o) = false)
    (h : writeAt off len toks d = (d', r)) (hc : Cap d') : Acct d' :=
  (writeAt_acct w hNP hNC h hc).1

/-- what a compressed entry references is what `do_write_cow` releases: the host
    clusters from the one containing the first byte of the compressed data to the one
    containing its last byte (the repaired count; one more would under-count the next
    cluster) -/
theorem compressed_release_exact {cb : Nat} {e : E64} {off len : Nat}
    (hr : L2.compressedRange cb e = some (off, len)) (hlen : 1 ≤ len) (i : Info) (hcb : i.cb = cb)
    (c : Nat) :
    covers i.clusterSize (L2.allocation cb e) c =
      covers i.clusterSize (some (i.clusterRoundDown off, compressedReleaseCount i off len)) c :=
  covers_compressed hr hlen i hcb c

/-- **W3, compressed cluster.**  `do_write_cow` on a compressed cluster (`m` = its current
    mapping): a new cluster is allocated and mapped over the compressed entry, the
    plaintext is copied (this does not fail), the host clusters of the compressed data
    lose one reference each — they may be shared with other compressed clusters — and
    the release succeeds.  Any outcome: exact accounting, no panic. -/
theorem doWriteCow_compressed_acct {d d' : Dev} {off : Nat} {toks : List Nat} {r : Outcome Unit}
    (w : WInv d) (hidx : Split.l1Index d.info off < d.hdrL1Entries)
    (hcomp : L2.isCompressed (d.l2Entry off) = true)
    (h : doWriteCow off (d.mapping off) toks d = (d', r)) (hc : Cap d') :
    Acct d' ∧ WInv d' ∧ ViewStep d d' ∧ (∀ p, r ≠ .panic p) := by
  obtain ⟨a, _, _, v, np⟩ := doWriteCow_compressed_winv w hidx hcomp h hc
  exact ⟨a.acct, a, v, np⟩

/-- … hence a single-cluster `__write_at` into a compressed cluster, any outcome -/
theorem writeAt_single_compressed_acct {d d' : Dev} {off len : Nat} {toks : List Nat}
    {r : Outcome Unit} (w : WInv d) (hchk : writeCheck d.info off len = none) (hlen : len ≠ 0)
    (hsingle : off / d.info.clusterSize = (off + len - 1) / d.info.clusterSize)
    (hcomp : L2.isCompressed (d.l2Entry off) = true)
    (h : writeAt off len toks d = (d', r)) (hc : Cap d') :
    Acct d' ∧ WInv d' ∧ ViewStep d d' ∧ (∀ p, r ≠ .panic p) := by
  obtain ⟨a, _, _, v, np⟩ := writeAt_single_compressed_winv w hchk hlen hsingle hcomp h hc
  exact ⟨a.acct, a, v, np⟩

/-! ## 5. `discard` under the invariant -/

/-- **`discard`**, any arguments, any outcome: on a state satisfying the invariant every
    `__discard_one_cluster` succeeds (the cluster it releases has a refblock and a
    refcount ≥ 1), and the invariant holds afterwards.  No hypothesis on the refcount
    table: `discard` never touches it. -/
theorem discard_acct {d d' : Dev} {off len : Nat} {r : Outcome Unit} (w : WInv d)
    (h : discard off len d = (d', r)) : Acct d' ∧ WInv d' ∧ d'.rtLen = d.rtLen := by
  obtain ⟨a, f⟩ := discard_winv w h
  exact ⟨a.acct, a, f.rtLen⟩

/-- the cluster step never fails under the invariant -/
theorem discardOne_ok {g : Nat} {d d' : Dev} {r : Outcome Unit} (w : WInv d)
    (hidx : Split.l1Index d.info g < d.hdrL1Entries) (h : discardOne g d = (d', r)) :
    r = .ok () ∧ WInv d' :=
  ⟨(discardOne_winv w hidx h).2.1, (discardOne_winv w hidx h).1⟩

/-! ## 6. W4 — histories -/

/-- one step of a history: the state after a write / discard / flush / read with
    arbitrary arguments, whatever it returned -/
theorem hstep_def (d : Dev) :
    (∀ off len toks, hstep d (.write off len toks) = (writeAt off len toks d).1) ∧
    (∀ off len, hstep d (.discard off len) = (discard off len d).1) ∧
    hstep d .flush = (flushMeta d).1 ∧ (∀ off len, hstep d (.read off len) = d) :=
  ⟨fun _ _ _ => rfl, fun _ _ => rfl, rfl, fun _ _ => rfl⟩

/-- the invariant of histories: `WInv`, and no entry of the view is compressed or of the
    known-leak shape -/
theorem hinv_iff (d : Dev) :
    HInv d ↔ WInv d ∧ ∀ o, NoPre d o ∧ L2.isCompressed (d.l2Entry o) = false :=
  ⟨fun h => ⟨h.winv, h.plain⟩, fun h => ⟨h.1, h.2⟩⟩

/-- the operations of the model never create a compressed cluster or an entry of the
    known-leak shape: a write maps `map_cluster(x)`, a discard clears to `0` / `1` -/
theorem hstep_keeps_invariant {d : Dev} (hI : HInv d) (op : HOp) (hc : Cap (hstep d op)) :
    HInv (hstep d op) :=
  hstep_hinv hI op hc

/-- **W4, from any state**: every state reached by a history after which the refcount
    table is within the bound satisfies the invariant -/
theorem history_inv {d : Dev} (hI : HInv d) (ops : List HOp) (hc : Cap (hrun d ops)) :
    ∀ pre, pre <+: ops → HInv (hrun d pre) :=
  hrun_hinv ops d hI hc

/-- **W4 (`history_acct`).**  For a freshly formatted image (hypotheses of `format_acct`;
    block size of the device ≥ 8 bytes) and EVERY list of write / discard / flush / read
    operations with arbitrary arguments: in every state reached along the history, the
    stored refcount of every host cluster equals the number of references to it — no
    sequential history of the model leaks or under-counts a cluster.

    The only hypothesis on the history: at its end the refcount table — which may have
    been relocated and grown on the way — still describes host offsets below 2^56 only
    (`hc`; an L2 entry cannot address more; the table never shrinks, so this bounds it
    all along and in particular in the fresh image).  Nothing is excluded: compressed
    clusters and zero-flagged entries with a preallocated cluster are never created by
    these operations. -/
theorem history_acct {size cb ro k : Nat} {p : Params} {d0 : Dev}
    (hfmt : formatDev size cb ro (2^k) p = .ok d0)
    (h9 : 9 ≤ cb) (h21 : cb ≤ 21) (hro : ro ≤ 6) (hk : k ≤ cb) (hsz : 0 < size)
    (hcap : (size + 2^cb / 8 * 2^cb - 1) / (2^cb / 8 * 2^cb) ≤ 32 * 2^20 / 8)
    (hbs : 3 ≤ p.bsBits)
    (ops : List HOp) (hc : Cap (hrun d0 ops)) :
    ∀ pre, pre <+: ops →
      Acct (hrun d0 pre) ∧ NoUnder (hrun d0 pre) ∧ NoLeak (hrun d0 pre) ∧ HInv (hrun d0 pre) := by
  intro pre hp
  have h56 : Cap d0 := (hrun_rm ops d0).cap hc
  have hI := hrun_hinv ops d0 (formatDev_hinv hfmt h9 h21 hro hk hsz hcap hbs h56) hc pre hp
  obtain ⟨a, b, c⟩ := winv_acct hI.winv
  exact ⟨a, b, c, hI⟩

/-- … in particular at the end of the history -/
theorem history_acct_final {size cb ro k : Nat} {p : Params} {d0 : Dev}
    (hfmt : formatDev size cb ro (2^k) p = .ok d0)
    (h9 : 9 ≤ cb) (h21 : cb ≤ 21) (hro : ro ≤ 6) (hk : k ≤ cb) (hsz : 0 < size)
    (hcap : (size + 2^cb / 8 * 2^cb - 1) / (2^cb / 8 * 2^cb) ≤ 32 * 2^20 / 8)
    (hbs : 3 ≤ p.bsBits)
    (ops : List HOp) (hc : Cap (hrun d0 ops)) : Acct (hrun d0 ops) :=
  (history_acct hfmt h9 h21 hro hk hsz hcap hbs ops hc ops (List.prefix_refl _)).1

/-- the form with "the refcount table did not grow" (`history_acct_partial`) -/
theorem history_acct_partial {size cb ro k : Nat} {p : Params} {d0 : Dev}
    (hfmt : formatDev size cb ro (2^k) p = .ok d0)
    (h9 : 9 ≤ cb) (h21 : cb ≤ 21) (hro : ro ≤ 6) (hk : k ≤ cb) (hsz : 0 < size)
    (hcap : (size + 2^cb / 8 * 2^cb - 1) / (2^cb / 8 * 2^cb) ≤ 32 * 2^20 / 8)
    (hbs : 3 ≤ p.bsBits)
    (h56 : d0.rtLen * d0.info.rbEntries * d0.info.clusterSize ≤ 2^56)
    (ops : List HOp) (hng : (hrun d0 ops).rtLen = d0.rtLen) :
    ∀ pre, pre <+: ops → Acct (hrun d0 pre) := by
  intro pre hp
  have hc : Cap (hrun d0 ops) := Cap.of_eq h56 (hrun_rm ops d0).1 hng
  exact (history_acct hfmt h9 h21 hro hk hsz hcap hbs ops hc pre hp).1

/-- the refcount table never shrinks along a history -/
theorem history_rtLen_mono (d : Dev) (ops : List HOp) : d.rtLen ≤ (hrun d ops).rtLen :=
  hrun_mono ops d

/-- a static sufficient condition for `hc`: the bound `rtCap` on the length the table can
    ever reach (Qv/Proofs/Grow.lean) describes at most 2^56 bytes -/
theorem cap_of_rtCap (d : Dev) (ops : List HOp)
    (h : rtCap d * d.info.rbEntries * d.info.clusterSize ≤ 2^56) : Cap (hrun d ops) := by
  obtain ⟨hi, _, hcap⟩ := hrun_rm ops d
  have h1 := rtLen_le_rtCap (hrun d ops)
  unfold Cap
  rw [hi]
  exact Nat.le_trans (Nat.mul_le_mul_right _ (Nat.mul_le_mul_right _ (Nat.le_trans h1 hcap))) h

/-- **W4 for devices whose refcount table cannot grow** (`NoGrow`: the RAM table is as
    long as the table on disk, and a table one cluster bigger does not fit into one
    refblock slice).  No hypothesis on the history at all. -/
theorem history_acct_noGrow {d : Dev} (hI : HInv d) (hn : NoGrow d) (ops : List HOp) :
    HInv (hrun d ops) ∧ Acct (hrun d ops) := by
  have hc : Cap (hrun d ops) := hI.winv.shape.cap56.of_eq (hrun_rm ops d).1 (hrun_rtLen_of_noGrow hn ops)
  have := hrun_hinv ops d hI hc ops (List.prefix_refl _)
  exact ⟨this, this.winv.acct⟩

/-! ## 7. Non-vacuity

`fmtEx`, `withL2` (C03): 1 GiB, 64 KiB clusters, 16-bit refcounts, freshly formatted;
`withL2` has the L2 table of L1 slot 0 on cluster 4. -/

open Qv.Props.C03 (fmtEx fmtEx_format fmtEx_acct withL2 withL2_acct withL2_distinct withL2_l1At
  withL2_l1Entry withL2_l2Entry withL2_rc withL2_alloc fmt_rt)
open Qv.Props.C08 (geomEx)

/-- the fresh image satisfies the invariant of histories (`formatDev_hinv` applies) -/
theorem fmtEx_hinv : HInv fmtEx :=
  formatDev_hinv (k := 9) fmtEx_format (by decide) (by decide) (by decide) (by decide) (by decide)
    (by decide) (by decide) (by decide)

/-- the bound is a genuine hypothesis for `fmtEx`: the table could grow until it
    describes 2^59 bytes (`cap_of_rtCap` does not apply) -/
example : ¬ (rtCap fmtEx * fmtEx.info.rbEntries * fmtEx.info.clusterSize ≤ 2^56) := by decide

theorem withL2_l2Entry_all (o : Nat) : withL2.l2Entry o = 0#64 := by
  rw [Dev.l2Entry_eq_slot]
  unfold Dev.slot
  rw [withL2_l1At]
  split
  · rename_i h0
    have hz : L1.isZero (L1.mapEntry 0x40000) = false := by decide
    have h3 : (L1.l2Offset (L1.mapEntry 0x40000)).toNat = 0x40000 := by decide
    rw [if_neg (by simp [hz]), h3]
    show ((fmtEx.l2.set 0x40000 (FMap.empty 0#64)).get 0x40000).get _ = 0#64
    simp
  · rw [if_pos (by decide)]

theorem withL2_winv : WInv withL2 := by
  refine ⟨⟨geomEx, by decide, by decide, withL2_distinct, ?_, rfl, by decide, ?_, by decide⟩,
    ⟨?_, by decide, ?_⟩, withL2_acct⟩
  · intro i hi
    have : 2 ≤ i := hi
    rw [withL2_l1At, if_neg (by omega)]; decide
  · intro off hoff
    have hv : off < 2^30 := hoff
    show off / 2^(16 + 13) < 2
    rw [Nat.div_lt_iff_lt_mul (by decide)]
    omega
  · intro c hz
    rw [withL2_rc]
    split
    · rename_i hc
      exfalso
      exact fmt_rt withL2 rfl rfl rfl (c * withL2.info.clusterSize) (by
        show c * 65536 < 2^31
        omega) hz
    · rfl
  · intro i hi
    have : 8192 ≤ i := hi
    show ((FMap.empty 0#64).set 0 0x20000#64).get i = 0#64
    rw [FMap.get_set_other _ _ _ _ (by omega), FMap.get_empty]

theorem withL2_hinv : HInv withL2 :=
  ⟨withL2_winv, fun o => ⟨noPre_of_entry_zero (withL2_l2Entry_all o), by rw [withL2_l2Entry_all]; decide⟩⟩

/-- the single-cluster write of one sector to guest offset 0 of `withL2` allocates a data
    cluster without growing the refcount table -/
theorem withL2_write_rtLen : (writeAt 0 512 [7] withL2).1.rtLen = withL2.rtLen := by
  obtain ⟨d1, h, n, ha⟩ := withL2_alloc
  obtain ⟨halloc, hone⟩ := Qv.Props.C03.allocateClusters_one (d := withL2) geomEx (by decide)
    (by have : withL2.rt.get (Host.rtIndex withL2.info withL2.hint) = 0x20000#64 := by
          show fmtEx.rt.get 0 = _; simp [fmtEx]
        rw [this]; decide) ha
  have hneed : needMakeMapping withL2.info (withL2.mapping 0) = true := by
    unfold Dev.mapping
    rw [withL2_l2Entry]
    show needMakeMapping withL2.info (L2.intoMapping withL2.info.cb false _ 0#64) = true
    rw [L2.intoMapping_zero]; rfl
  have hpop := populateSingle_new (off := 0) (by rw [withL2_l1Entry]; decide) hneed halloc
  generalize ({ d1 with hint := max d1.hint (h + d1.info.clusterSize) } : Dev) = D1 at halloc hone hpop
  have hrl : (mappedNew D1 0 h).rtLen = withL2.rtLen := by
    show D1.rtLen = _
    rw [hone.frame]
  have hi : (mappedNew D1 0 h).info = withL2.info := by
    show D1.info = _
    rw [hone.frame]
  obtain ⟨_, _, _, _, k1, he, _⟩ := populateSingle_winv withL2_winv (by decide)
    (fun _ _ => by rw [withL2_l2Entry]; exact L2.allocation_zero _) hpop
    (withL2_winv.shape.cap56.of_eq hi hrl)
  have hnc : L2.isCompressed ((mappedNew D1 0 h).l2Entry 0) = false := by
    rcases k1 with e | ⟨x, e, h512, _, h56⟩
    · rw [e, withL2_l2Entry]; decide
    · rw [e]; exact isCompressed_mapClusterEntry h512 h56
  unfold writeAt
  have hchk : writeCheck withL2.info 0 512 = none := by decide
  simp only [hchk]
  rw [if_neg (by decide), if_pos (by decide), hpop]
  dsimp only
  rw [doWrite_rtLen_noBack (by rw [hi]; rfl) hnc]
  exact hrl

theorem withL2_write_cap : Cap (writeAt 0 512 [7] withL2).1 :=
  cap_of_noGrowth withL2_winv ((writeAt_fr 0 512 [7]).same withL2).2.2.1 withL2_write_rtLen

/-- **W1 is not vacuous**: every hypothesis of `writeAt_single_acct` holds for an
    allocating write on `withL2`; afterwards the accounting is exact, the request did
    not panic, and the cluster is mapped to a new host cluster -/
example : ∃ d' r, writeAt 0 512 [7] withL2 = (d', r) ∧ Acct d' ∧ WInv d' ∧ (∀ p, r ≠ .panic p) ∧
    ∃ x, d'.l2Entry 0 = L2.mapClusterEntry x := by
  obtain ⟨a, w, _, np⟩ := writeAt_single_acct (d := withL2) (d' := (writeAt 0 512 [7] withL2).1)
    (r := (writeAt 0 512 [7] withL2).2) (off := 0) (len := 512) (toks := [7]) withL2_winv
    (by decide) (by decide) (by decide) (noPre_of_entry_zero withL2_l2Entry)
    (by rw [withL2_l2Entry]; decide) rfl withL2_write_cap
  -- that it does allocate: C03 `writeAt_single_new_cluster_acct`
  obtain ⟨d1, h, n, ha⟩ := withL2_alloc
  obtain ⟨halloc, hone⟩ := Qv.Props.C03.allocateClusters_one (d := withL2) geomEx (by decide)
    (by have : withL2.rt.get (Host.rtIndex withL2.info withL2.hint) = 0x20000#64 := by
          show fmtEx.rt.get 0 = _; simp [fmtEx]
        rw [this]; decide) ha
  have hs := Qv.Props.C08.tryAlloc_sound withL2.hint 1 false withL2 d1 h n ha
  have h56 : h < 2^56 := by
    have := hs.2.2.2.2.2.2.1.2
    have e : Host.rbSliceHostEnd withL2.info withL2.hint = 2^27 := by decide
    rw [e] at this
    have : h < 2^27 + 1 := by omega
    omega
  have hneed : needMakeMapping withL2.info (withL2.mapping 0) = true := by
    unfold Dev.mapping
    rw [withL2_l2Entry]
    show needMakeMapping withL2.info (L2.intoMapping withL2.info.cb false _ 0#64) = true
    rw [L2.intoMapping_zero]; rfl
  obtain ⟨_, b, _⟩ := Qv.Props.C03.writeAt_single_new_cluster_acct (d := withL2)
    (d' := (writeAt 0 512 [7] withL2).1) (r := (writeAt 0 512 [7] withL2).2) (off := 0) (len := 512)
    (toks := [7]) geomEx (by decide) withL2_acct withL2_distinct (by decide) (by decide) (by decide)
    (by rw [withL2_l1Entry]; decide) (by decide) hneed
    (by rw [withL2_l2Entry]; exact L2.allocation_zero _) halloc hone h56 rfl
  exact ⟨_, _, rfl, a, w, np, h, b⟩

/-- a rejected write, a read, a flush and a discard do not grow the table -/
theorem hist_rejected_rtLen (d : Dev) {a b : Nat} (t : List Nat) {e : Err}
    (hchk : writeCheck d.info a b = some e) (c e' f g : Nat) :
    (hrun d [HOp.write a b t, .read c e', .flush, .discard f g]).rtLen = d.rtLen := by
  have hfl : ∀ d : Dev, (flushMeta d).1.rtLen = d.rtLen := fun _ => rfl
  simp only [hrun_cons, hrun_nil, hstep]
  rw [discard_rtLen, hfl, writeAt_rejected hchk]

/-- a write that does not grow the table, then a discard, a flush and a read -/
theorem hist_write_rtLen (d : Dev) {a b : Nat} {t : List Nat}
    (hw : (writeAt a b t d).1.rtLen = d.rtLen) (c e' f g : Nat) :
    (hrun d [HOp.write a b t, .discard f g, .flush, .read c e']).rtLen = d.rtLen := by
  have hfl : ∀ d : Dev, (flushMeta d).1.rtLen = d.rtLen := fun _ => rfl
  simp only [hrun_cons, hrun_nil, hstep]
  rw [hfl, discard_rtLen, hw]

/-- **W4 is not vacuous, from the fresh image**: a rejected write (beyond the end), a
    read, a flush and a discard of the whole disk on `fmtEx` -/
example : ∀ pre, pre <+: [HOp.write (2^30) 512 [1], .read 0 4096, .flush, .discard 0 (2^30)] →
    Acct (hrun fmtEx pre) := by
  intro pre hp
  exact history_acct_partial (k := 9) fmtEx_format (by decide) (by decide) (by decide) (by decide)
    (by decide) (by decide) (by decide) (by decide) _
    (hist_rejected_rtLen fmtEx [1] (e := .beyondEnd) (by decide) 0 4096 0 (2^30)) pre hp

/-- **W4 is not vacuous, with an allocating write**: write, discard, flush, read on
    `withL2` (`history_inv` applies to any state satisfying the invariant) -/
example : ∀ pre, pre <+: [HOp.write 0 512 [7], .discard 0 65536, .flush, .read 0 512] →
    Acct (hrun withL2 pre) := by
  intro pre hp
  have hc : Cap (hrun withL2 [HOp.write 0 512 [7], .discard 0 65536, .flush, .read 0 512]) :=
    withL2_winv.shape.cap56.of_eq (hrun_rm _ withL2).1
      (hist_write_rtLen withL2 withL2_write_rtLen 0 512 0 65536)
  exact (history_inv withL2_hinv _ hc pre hp).winv.acct

/-- **the growth case is not vacuous** (C12): on `fmtEx` the first allocation beyond the
    2^44 bytes the table covers relocates the table; the hypotheses of
    `ensureRefblock_growth_keeps_invariant` hold, and the whole invariant holds afterwards -/
example : ∃ d', ensureRefblock (2^44) fmtEx = (d', .ok ()) ∧ WInv d' ∧ fmtEx.rtLen < d'.rtLen := by
  have hfr := ensureRefblock_growFrame (2^44) fmtEx
  -- the length afterwards, from C12
  obtain ⟨_, hsucc⟩ := Qv.Props.C12.ensureRefblock_growth_acct (2^44) fmtEx (by decide) fmtEx_acct
    (by decide) (by decide) (by decide) Qv.Props.C12.fmtEx_rt_tail
    (by intro c c1 c2
        have e0 : fmtEx.rtLen * fmtEx.info.rbEntries = 2^28 := by decide
        rw [e0] at c1
        rw [Qv.Props.C03.fmtEx_rc, if_neg (by omega)])
    (by intro hne; exact absurd (by decide) hne) (by decide)
  obtain ⟨d', h, _, a, _⟩ := hsucc (by
    intro k hk
    have hk0 : k = 0 := by have : fmtEx.hdrRtClusters = 1 := rfl; omega
    subst hk0
    exact fmt_rt fmtEx rfl rfl rfl _ (by decide))
  have hlen : d'.rtLen = 16384 := by rw [a]; decide
  have hi : d'.info = fmtEx.info := by
    have := hfr.info; rw [h] at this; exact this
  have hc : Cap d' := by
    unfold Cap; rw [hi, hlen]; decide
  obtain ⟨w, _, hl⟩ := ensureRefblock_growth_keeps_invariant fmtEx_hinv.winv (by decide) (by decide) h hc
  exact ⟨d', h, w, hl⟩

/-- a formatted image whose refcount table cannot grow: 1 GiB, 64 KiB clusters, 64-bit
    refcounts, opened with a refblock slice of one entry (`rb_slice_bits = 3`) -/
def pNG : Params := { bsBits := 3, rbCache := some (3, 16), l2Cache := none, readOnly := false, backing := false }

def infoNG : Info :=
  { bsb := 3, cb := 16, l2IndexShift := 13, l2SliceIndexShift := 9, l2SliceBits := 12, ro := 6,
    rbSliceBits := 3, rbIndexShift := 13, rbSliceIndexShift := 0, l2SliceEntries := 512,
    l2CacheCnt := 32, rbCacheCnt := 2, vsize := 1073741824, readOnly := false, hasBack := false,
    isBack := false }

def ngEx : Dev :=
  { info := infoNG, version := 3, hdrL1Off := 0x30000, hdrL1Entries := 2, hdrRtOff := 0x10000,
    hdrRtClusters := 1, l1 := FMap.empty 0#64, l1Len := 2, l1HdrEntries := 2,
    l2 := FMap.empty (FMap.empty 0#64), rt := (FMap.empty 0#64).set 0 0x20000#64, rtLen := 8192,
    rc := (List.range 4).foldl (fun acc c => acc.set c 1) (FMap.empty 0),
    newData := [], hint := 0, needFlush := false, data := FMap.empty 0,
    comp := FMap.empty (FMap.empty 0), back := none }

theorem ngEx_format : formatDev (2^30) 16 6 512 pNG = .ok ngEx := rfl

theorem ngEx_hinv : HInv ngEx :=
  formatDev_hinv (k := 9) ngEx_format (by decide) (by decide) (by decide) (by decide) (by decide)
    (by decide) (by decide) (by decide)

theorem ngEx_noGrow : NoGrow ngEx := by decide

/-- **W4 without any hypothesis on the history**: EVERY list of operations with arbitrary
    arguments on this fresh image leads to an exactly accounted state -/
example (ops : List HOp) : Acct (hrun ngEx ops) :=
  (history_acct_noGrow ngEx_hinv ngEx_noGrow ops).2

/-- … and there the hypotheses of W2 hold for every request, e.g. a write of three
    clusters to the fresh image (new L2 table, a run of three data clusters) -/
example (toks : List Nat) : Acct (writeAt 0 (3 * 65536) toks ngEx).1 :=
  (writeAt_acct (d := ngEx) (d' := (writeAt 0 (3 * 65536) toks ngEx).1)
    (r := (writeAt 0 (3 * 65536) toks ngEx).2) (off := 0) (len := 3 * 65536) (toks := toks) ngEx_hinv.winv
    (fun o _ _ => (ngEx_hinv.plain o).1) (fun o _ _ => (ngEx_hinv.plain o).2) rfl
    (ngEx_hinv.winv.shape.cap56.of_eq ((writeAt_mn 0 (3 * 65536) toks).rm ngEx).1
      (((writeAt_mn 0 (3 * 65536) toks).rm ngEx).rtLen_eq ngEx_noGrow))).1

end Qv.Props.C03Write
