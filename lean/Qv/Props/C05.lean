import Qv.Spec.CrashAbs
/-
C05 — synced data survives any later crash.

Abstract, unbounded theory over `Qv.Spec.CrashAbs`:

  * `synced_value_survives`  after `l₁ ++ [sync] ++ l₂`, at every crash point
        behind the sync a data location holds its synced value unless a LATER
        write to the same location exists (and then it holds such a written value)
  * `synced_ptr_survives`, `synced_rc_survives`  the same for the metadata maps
  * `synced_value_survives_unwritten`  no later write ⇒ exactly the synced value
  * `synced_guest_block_survives_partial`  guest view (`read` through a slot):
        if nothing behind the sync touches the slot or the location it points to,
        every later crash state reads the synced value
  * `unmap_then_sync_then_reuse_keeps_data`  the repaired ordering for discard
        followed by reuse of the freed cluster
  * `reuse_before_unmap_loses_data`  negative witness: without the sync a crash
        state still maps the block to the reused cluster and reads foreign data
        (the discard defect found in the Rust code)
-/
namespace Qv.Props.C05
open Qv.Spec.CrashAbs Qv.Spec.CrashAbs.Ex

/-! ## 1. Cell-level durability -/

/-- a crash point behind a sync is a crash point of the rest of the log, started
    from the image with EVERYTHING before the sync applied -/
theorem crash_after_sync (a : AImg) (l₁ l₂ : List Ev) (k : Nat) (hk : l₁.length + 1 ≤ k)
    (keep : List Bool) :
    crashAt a (l₁ ++ [.sync] ++ l₂) k keep =
      crashAt (applyAll a (updates l₁)) l₂ (k - (l₁.length + 1)) keep := by
  obtain ⟨j, rfl⟩ := Nat.exists_eq_add_of_le hk
  have : l₁ ++ [Ev.sync] ++ l₂ = l₁ ++ Ev.sync :: l₂ := by simp
  rw [this, crashAt_after_sync]
  congr 1; omega

/-- MAIN THEOREM (C05).  A synced value can only be replaced by a LATER write to
    the same location. -/
theorem synced_value_survives (a : AImg) (l₁ l₂ : List Ev) (k : Nat)
    (hk : l₁.length + 1 ≤ k) (keep : List Bool) (l : Nat) :
    (crashAt a (l₁ ++ [.sync] ++ l₂) k keep).val l = (applyAll a (updates l₁)).val l ∨
      ∃ v, Upd.setVal l v ∈ updates l₂ ∧ (crashAt a (l₁ ++ [.sync] ++ l₂) k keep).val l = v := by
  rw [crash_after_sync a l₁ l₂ k hk keep]
  obtain ⟨keep', h⟩ := crashAt_eq_applySub (applyAll a (updates l₁)) l₂ (k - (l₁.length + 1)) keep
  rw [h]
  rcases applySub_val (applyAll a (updates l₁)) _ keep' l with h' | ⟨v, hv, h'⟩
  · exact Or.inl h'
  · exact Or.inr ⟨v, mem_updates_take hv, h'⟩

/-- the same for pointers … -/
theorem synced_ptr_survives (a : AImg) (l₁ l₂ : List Ev) (k : Nat)
    (hk : l₁.length + 1 ≤ k) (keep : List Bool) (s : Nat) :
    (crashAt a (l₁ ++ [.sync] ++ l₂) k keep).ptr s = (applyAll a (updates l₁)).ptr s ∨
      ∃ v, Upd.setPtr s v ∈ updates l₂ ∧ (crashAt a (l₁ ++ [.sync] ++ l₂) k keep).ptr s = v := by
  rw [crash_after_sync a l₁ l₂ k hk keep]
  obtain ⟨keep', h⟩ := crashAt_eq_applySub (applyAll a (updates l₁)) l₂ (k - (l₁.length + 1)) keep
  rw [h]
  rcases applySub_ptr (applyAll a (updates l₁)) _ keep' s with h' | ⟨v, hv, h'⟩
  · exact Or.inl h'
  · exact Or.inr ⟨v, mem_updates_take hv, h'⟩

/-- … and stored refcounts -/
theorem synced_rc_survives (a : AImg) (l₁ l₂ : List Ev) (k : Nat)
    (hk : l₁.length + 1 ≤ k) (keep : List Bool) (c : Nat) :
    (crashAt a (l₁ ++ [.sync] ++ l₂) k keep).rc c = (applyAll a (updates l₁)).rc c ∨
      ∃ n, Upd.setRc c n ∈ updates l₂ ∧ (crashAt a (l₁ ++ [.sync] ++ l₂) k keep).rc c = n := by
  rw [crash_after_sync a l₁ l₂ k hk keep]
  obtain ⟨keep', h⟩ := crashAt_eq_applySub (applyAll a (updates l₁)) l₂ (k - (l₁.length + 1)) keep
  rw [h]
  rcases applySub_rc (applyAll a (updates l₁)) _ keep' c with h' | ⟨v, hv, h'⟩
  · exact Or.inl h'
  · exact Or.inr ⟨v, mem_updates_take hv, h'⟩

/-- no later write to the location ⇒ every later crash state holds exactly the
    synced value -/
theorem synced_value_survives_unwritten (a : AImg) (l₁ l₂ : List Ev) (k : Nat)
    (hk : l₁.length + 1 ≤ k) (keep : List Bool) (l : Nat)
    (hno : ∀ v, Upd.setVal l v ∉ updates l₂) :
    (crashAt a (l₁ ++ [.sync] ++ l₂) k keep).val l = (applyAll a (updates l₁)).val l := by
  rcases synced_value_survives a l₁ l₂ k hk keep l with h | ⟨v, hv, _⟩
  · exact h
  · exact absurd hv (hno v)

/-- the sync really made the data durable: the crash state right at the sync
    (and the one with nothing of the rest applied) IS the synced image -/
theorem crash_at_sync_is_synced (a : AImg) (l₁ l₂ : List Ev) (keep : List Bool) :
    crashAt a (l₁ ++ [.sync] ++ l₂) (l₁.length + 1) keep = applyAll a (updates l₁) := by
  rw [crash_after_sync a l₁ l₂ _ (Nat.le_refl _) keep]
  simp [crashAt]

/-! ## 2. Guest-level durability (one-level mapping) -/

/-- if behind the sync nothing touches slot `s` nor the location it points to in
    the synced image, every later crash state reads the synced value through `s` -/
theorem synced_guest_block_survives_partial (a : AImg) (l₁ l₂ : List Ev) (s : Nat)
    (hno : ∀ u ∈ updates l₂, ¬ touches s ((applyAll a (updates l₁)).ptr s) u)
    (k : Nat) (hk : l₁.length + 1 ≤ k) (keep : List Bool) :
    read (crashAt a (l₁ ++ [.sync] ++ l₂) k keep) s = read (applyAll a (updates l₁)) s := by
  have hp : (crashAt a (l₁ ++ [.sync] ++ l₂) k keep).ptr s = (applyAll a (updates l₁)).ptr s := by
    rcases synced_ptr_survives a l₁ l₂ k hk keep s with h | ⟨v, hv, _⟩
    · exact h
    · exact absurd (by simp [touches]) (hno _ hv)
  unfold Spec.CrashAbs.read
  rw [hp]
  cases hc : (applyAll a (updates l₁)).ptr s with
  | none => rfl
  | some c =>
    simp only [Option.map_some, Option.some.injEq]
    rcases synced_value_survives a l₁ l₂ k hk keep c with h | ⟨v, hv, _⟩
    · exact h
    · exact absurd (by simp [touches, hc]) (hno _ hv)

/-- the repaired discard ordering: unmap, sync, only then let the freed cluster
    be reused (`c` is the cluster `s` pointed to — the statement holds for any
    written location).  Every crash state either still reads the old data through
    `s` or sees the block unmapped — never foreign data. -/
theorem unmap_then_sync_then_reuse_keeps_data (a : AImg) (s c v' : Nat) :
    ∀ x, CrashStates a [.upd (.setPtr s none), .sync, .upd (.setVal c v')] x →
      read x s = read a s ∨ read x s = none := by
  rintro x ⟨k, keep, rfl⟩
  match k with
  | 0 => left; simp [crashAt]
  | 1 =>
    have e1 : durable a [Ev.upd (Upd.setPtr s none)] = a := by simp [durable, run, step]
    have e2 : pending [Ev.upd (Upd.setPtr s none)] = [Upd.setPtr s none] := by
      simp [pending, pendStep]
    simp only [crashAt, List.take_succ_cons, List.take_zero, e1, e2]
    match keep with
    | [] => left; simp
    | false :: _ => left; simp
    | true :: _ => right; simp [Spec.CrashAbs.read, applyUpd]
  | 2 =>
    have e1 : durable a [Ev.upd (Upd.setPtr s none), Ev.sync] = applyUpd a (Upd.setPtr s none) := by
      simp [durable, run, step]
    have e2 : pending [Ev.upd (Upd.setPtr s none), Ev.sync] = [] := by simp [pending, pendStep]
    simp only [crashAt, List.take_succ_cons, List.take_zero, e1, e2]
    right; simp [Spec.CrashAbs.read, applyUpd]
  | k + 3 =>
    have e1 : durable a [Ev.upd (Upd.setPtr s none), Ev.sync, Ev.upd (Upd.setVal c v')] =
        applyUpd a (Upd.setPtr s none) := by simp [durable, run, step]
    have e2 : pending [Ev.upd (Upd.setPtr s none), Ev.sync, Ev.upd (Upd.setVal c v')] =
        [Upd.setVal c v'] := by simp [pending, pendStep]
    simp only [crashAt, List.take_succ_cons, List.take_nil, e1, e2]
    right
    match keep with
    | [] => simp [Spec.CrashAbs.read, applyUpd]
    | false :: _ => simp [Spec.CrashAbs.read, applyUpd]
    | true :: _ => simp [Spec.CrashAbs.read, applyUpd]

/-! ## 3. Negative witness -/

/-- DEFECT SHAPE 3 (discard, then reuse of the freed cluster before the unmapping
    is durable): slot 0 maps to cluster 7 holding 11; the log unmaps slot 0 (NOT
    synced) and then writes 99 into cluster 7 on behalf of someone else.  The
    crash state that keeps only the second update still maps slot 0 to cluster 7
    and reads 99 — acknowledged guest data is replaced by foreign data. -/
theorem reuse_before_unmap_loses_data :
    ∃ x, CrashStates img2 [.upd (.setPtr 0 none), .upd (.setVal 7 99)] x ∧
      x.ptr 0 = some 7 ∧ read x 0 = some 99 ∧ read img2 0 = some 11 :=
  ⟨crashAt img2 _ 2 [false, true], ⟨2, [false, true], rfl⟩, by decide, by decide, by decide⟩

/-- the same witness behind an explicit sync of the original data: the value 11
    was synced, no write to the guest block was issued, yet a later crash state
    reads 99 through slot 0.  (No contradiction with
    `synced_guest_block_survives_partial`: its hypothesis fails, the log touches
    both the slot and the location.) -/
theorem reuse_before_unmap_loses_synced_data :
    ∃ k keep, read (crashAt img0 ([.upd (.setVal 7 11), .upd (.setPtr 0 (some 7))] ++ [.sync] ++
        [.upd (.setPtr 0 none), .upd (.setVal 7 99)]) k keep) 0 = some 99 ∧
      read (applyAll img0 (updates [.upd (.setVal 7 11), .upd (.setPtr 0 (some 7))])) 0 = some 11 :=
  ⟨5, [false, true], by decide, by decide⟩

/-! ## 4. Non-vacuity -/

/-- `synced_value_survives` instantiated: value 11 synced at location 7, a later
    unsynced overwrite with 99 — every later crash state holds 11 or 99 … -/
example (k : Nat) (hk : 2 ≤ k) (keep : List Bool) :
    (crashAt img0 ([.upd (.setVal 7 11)] ++ [.sync] ++ [.upd (.setVal 7 99)]) k keep).val 7 = 11 ∨
      (crashAt img0 ([.upd (.setVal 7 11)] ++ [.sync] ++ [.upd (.setVal 7 99)]) k keep).val 7 = 99 := by
  rcases synced_value_survives img0 [.upd (.setVal 7 11)] [.upd (.setVal 7 99)] k hk keep 7 with
    h | ⟨v, hv, h⟩
  · left; rw [h]; decide
  · right
    simp only [updates_cons_upd, updates_nil, List.mem_singleton, Upd.setVal.injEq] at hv
    rw [h, hv.2]

/-- … and both outcomes occur -/
example :
    (crashAt img0 ([.upd (.setVal 7 11)] ++ [.sync] ++ [.upd (.setVal 7 99)]) 3 [false]).val 7 = 11 ∧
    (crashAt img0 ([.upd (.setVal 7 11)] ++ [.sync] ++ [.upd (.setVal 7 99)]) 3 [true]).val 7 = 99 := by
  decide

/-- without the sync the value is NOT protected: a crash state before any sync
    may have lost it (so the sync hypothesis of the theorem is doing work) -/
example : (crashAt img0 [.upd (.setVal 7 11), .upd (.setVal 8 1)] 2 [false, true]).val 7 = 0 := by
  decide

/-- `synced_guest_block_survives_partial` instantiated: after mapping slot 0 to
    cluster 7 with data 11 and syncing, unrelated traffic (another slot, another
    cluster, refcounts) cannot change what slot 0 reads -/
example (k : Nat) (hk : 3 ≤ k) (keep : List Bool) :
    read (crashAt img0 ([.upd (.setVal 7 11), .upd (.setPtr 0 (some 7))] ++ [.sync] ++
        [.upd (.setVal 8 5), .upd (.setPtr 1 (some 8)), .upd (.setRc 8 1)]) k keep) 0 = some 11 := by
  rw [synced_guest_block_survives_partial img0 [.upd (.setVal 7 11), .upd (.setPtr 0 (some 7))]
    [.upd (.setVal 8 5), .upd (.setPtr 1 (some 8)), .upd (.setRc 8 1)] 0 ?_ k hk keep]
  · decide
  · intro u hu
    have hptr : (applyAll img0 (updates [.upd (.setVal 7 11), .upd (.setPtr 0 (some 7))])).ptr 0 =
        some 7 := by decide
    rw [hptr]
    simp only [updates_cons_upd, updates_nil, List.mem_cons, List.not_mem_nil, or_false] at hu
    rcases hu with rfl | rfl | rfl <;> simp [touches]

/-- the repaired discard ordering instantiated on the image of the witness -/
example : ∀ x, CrashStates img2 [.upd (.setPtr 0 none), .sync, .upd (.setVal 7 99)] x →
    read x 0 = some 11 ∨ read x 0 = none := by
  intro x hx
  have h := unmap_then_sync_then_reuse_keeps_data img2 0 7 99 x hx
  have e : read img2 0 = some 11 := by decide
  rwa [e] at h

end Qv.Props.C05
