import Qv.Proofs.Acct
/-
C03 — refcount accounting: the stored refcount of every host cluster equals the
number of references to it (header, L1 table, L2 tables, refcount table,
refcount blocks, standard and compressed data clusters): no under-counted and
no leaked cluster.

`Dev.refs d c` (Qv/Proofs/Acct.lean) counts the references to host cluster `c`
in the metadata view `d` as a sum of indicators over finite index ranges;
`Acct d` is `∀ c, d.rc.get c = d.refs c`, `NoUnder` / `NoLeak` its two halves.

1. the two halves;
2. the formatter: `format_qcow2` writes exact refcounts (and the two inputs for
   which the model's formatter does not: size 0, and an L1 table beyond the
   32 MiB cap);
3. local preservation, against the specs of C08 / C11: allocate-then-map,
   unmap-then-free (discard), new L2 table, new refblock;
4. a single-cluster write into an unallocated cluster;
5. non-vacuity.
-/
namespace Qv.Props.C03
open Qv Qv.Model Qv.Codec
open Qv.Props.C15 (Geom prmEx infoEx)
open Qv.Props.C11 (L1Distinct Discarded)

/-! ## 1. The invariant and its two halves -/

theorem noUnder_of_acct {d : Dev} (h : Acct d) : NoUnder d := fun c => Nat.le_of_eq (h c).symm

theorem noLeak_of_acct {d : Dev} (h : Acct d) : NoLeak d := fun c => Nat.le_of_eq (h c)

theorem acct_iff_noUnder_noLeak (d : Dev) : Acct d ↔ NoUnder d ∧ NoLeak d :=
  ⟨fun h => ⟨noUnder_of_acct h, noLeak_of_acct h⟩, fun h c => Nat.le_antisymm (h.2 c) (h.1 c)⟩

/-- the crash-safe half is kept by every step that only drops references or
    only raises refcounts (allocate before mapping, unmap before freeing) -/
theorem noUnder_monotone {d d' : Dev} (hN : NoUnder d) (hrefs : ∀ c, d'.refs c ≤ d.refs c)
    (hrc : ∀ c, d.rc.get c ≤ d'.rc.get c) : NoUnder d' :=
  noUnder_mono hN hrefs hrc

/-- the counts do not depend on the data plane, the hints or the flags -/
theorem refs_frame {d d' : Dev} (hh : HdrSame d d') (h1 : d'.l1 = d.l1) (hlen : d'.l1Len = d.l1Len)
    (h2 : d'.l2 = d.l2) (hrt : d'.rt = d.rt) (hrtLen : d'.rtLen = d.rtLen) (c : Nat) :
    d'.refs c = d.refs c :=
  refs_congr hh h1 hlen h2 hrt hrtLen c

/-- a free cluster of an exactly accounted image is not the header cluster and
    is referenced by nothing -/
theorem acct_free_unreferenced {d : Dev} (hA : Acct d) {c0 : Nat} (h0 : d.rc.get c0 = 0) :
    0 < c0 ∧ d.refs c0 = 0 :=
  ⟨acct_free_ne_zero hA h0, by rw [← hA c0, h0]⟩

/-! ## 2. The formatter -/

/-- **format_acct**: for every image `format_qcow2` produces (cluster_bits 9..21,
    refcount_order ≤ 6, block size a power of two not above the cluster size,
    size > 0 and an L1 table within the 32 MiB cap) the refcounts are exact. -/
theorem format_acct {size cb ro fmtBs k : Nat} {p : Params} {d : Dev}
    (h : formatDev size cb ro fmtBs p = .ok d)
    (h9 : 9 ≤ cb) (h21 : cb ≤ 21) (hro : ro ≤ 6) (hbs : fmtBs = 2^k) (hk : k ≤ cb) (hsz : 0 < size)
    (hcap : (size + 2^cb / 8 * 2^cb - 1) / (2^cb / 8 * 2^cb) ≤ 32 * 2^20 / 8) : Acct d := by
  subst hbs
  exact format_acct_general h h9 h21 hro hk hsz hcap

/-- the same under hypotheses on the computed layout only (usable by evaluation) -/
theorem format_acct_of_layout {size cb ro fmtBs : Nat} {p : Params} {d : Dev}
    (h : formatDev size cb ro fmtBs p = .ok d) (h9 : 9 ≤ cb)
    (hR : 0 < (metaParams size cb ro fmtBs).rtClusters)
    (hL : (metaParams size cb ro fmtBs).l1Clusters =
      ((metaParams size cb ro fmtBs).l1Entries * 8 + 2^cb - 1) / 2^cb)
    (h64 : (metaParams size cb ro fmtBs).rbOff < 2^64) : Acct d :=
  format_acct_of_params h h9 hR hL h64

/-- no leak in a fresh image: the L1 clusters the formatter reserves are exactly
    those the header's `l1_size` needs (the block size divides the cluster size) -/
theorem format_l1_clusters_exact (size cb ro k : Nat) (hk : k ≤ cb)
    (hcap : (size + 2^cb / 8 * 2^cb - 1) / (2^cb / 8 * 2^cb) ≤ 32 * 2^20 / 8) :
    (metaParams size cb ro (2^k)).l1Clusters =
      ((metaParams size cb ro (2^k)).l1Entries * 8 + 2^cb - 1) / 2^cb :=
  metaParams_l1Clusters size cb ro k hk hcap

/-- concrete geometries, by evaluation of the layout -/
example : ∃ d, formatDev (2^30) 16 4 512 prmEx = .ok d ∧ Acct d := by
  have : ∃ d, formatDev (2^30) 16 4 512 prmEx = .ok d := ⟨_, rfl⟩
  obtain ⟨d, h⟩ := this
  exact ⟨d, h, format_acct_of_layout h (by decide) (by decide) (by decide) (by decide)⟩
/-- 512-byte clusters, 1-bit refcounts, a size that is not a multiple of anything -/
example : ∃ d, formatDev (10 * 2^20 + 1) 9 0 512 prmEx = .ok d ∧ Acct d := by
  have : ∃ d, formatDev (10 * 2^20 + 1) 9 0 512 prmEx = .ok d := ⟨_, rfl⟩
  obtain ⟨d, h⟩ := this
  exact ⟨d, h, format_acct_of_layout h (by decide) (by decide) (by decide) (by decide)⟩
/-- 2 MiB clusters, 64-bit refcounts, 4 KiB blocks, 1 TiB -/
example : ∃ d, formatDev (2^40) 21 6 4096 { prmEx with bsBits := 12 } = .ok d ∧ Acct d := by
  have : ∃ d, formatDev (2^40) 21 6 4096 { prmEx with bsBits := 12 } = .ok d := ⟨_, rfl⟩
  obtain ⟨d, h⟩ := this
  exact ⟨d, h, format_acct_of_layout h (by decide) (by decide) (by decide) (by decide)⟩
/-- a one-byte image -/
example : ∃ d, formatDev 1 12 4 4096 { prmEx with bsBits := 12 } = .ok d ∧ Acct d := by
  have : ∃ d, formatDev 1 12 4 4096 { prmEx with bsBits := 12 } = .ok d := ⟨_, rfl⟩
  obtain ⟨d, h⟩ := this
  exact ⟨d, h, format_acct_of_layout h (by decide) (by decide) (by decide) (by decide)⟩
/-- … and the same image through the general theorem -/
example : ∃ d, formatDev (2^30) 16 4 512 prmEx = .ok d ∧ Acct d := by
  have : ∃ d, formatDev (2^30) 16 4 512 prmEx = .ok d := ⟨_, rfl⟩
  obtain ⟨d, h⟩ := this
  exact ⟨d, h, format_acct (k := 9) h (by decide) (by decide) (by decide) rfl (by decide) (by decide)
    (by decide)⟩

/-- `size = 0` (hypothesis `0 < size` of `format_acct`): such an image has no L1
    table and an empty refcount table; `Qcow2Dev::new` refuses it (before the
    repair recorded in known_findings.jsonl it asserted in the table buffer
    allocator), so there is no device state to account for. -/
theorem format_size_zero_refused : formatDev 0 16 4 512 prmEx = .err .invalid := by rfl

/-- beyond the 32 MiB L1 cap (hypothesis `hcap` of `format_acct`): for a 4 EiB
    image with 2 MiB clusters the model's formatter sizes the L1 table for the
    capped entry count (16 clusters) but writes the uncapped `l1_size` (2^23
    entries = 32 clusters) into the header: clusters of the L1 table the header
    describes have refcount 0. -/
theorem format_undercount_beyond_cap :
    ∃ d, formatDev (2^62) 21 4 512 prmEx = .ok d ∧ d.rc.get 22 = 0 ∧ 1 ≤ d.refs 22 ∧ ¬ NoUnder d := by
  have : ∃ d, formatDev (2^62) 21 4 512 prmEx = .ok d := ⟨_, rfl⟩
  obtain ⟨d, h⟩ := this
  obtain ⟨rc, info, _, hinfo, e1, _, e3, e4, _⟩ := formatDev_ok h
  obtain ⟨_, _, _, _, _, _, _, _, _, _, _, hi⟩ := Info.new_ok hinfo
  have hmp : metaParams (2^62) 21 4 512 =
      (⟨2097152, 4, 10485760, 12582912, 16, 8388608⟩ : MetaParams) := by decide
  rw [hmp] at e3 e4
  dsimp only at e3 e4
  have hcs : d.cs = 2097152 := by unfold Dev.cs Info.clusterSize; rw [e1, hi]; rfl
  have hrc : d.rc.get 22 = 0 := by
    rw [formatDev_rc_get h 22, hmp]; rfl
  have hL1 : d.refsL1Table 22 = 1 := by
    unfold Dev.refsL1Table Dev.l1Clusters
    rw [hcs, e3, e4]; rfl
  have hrefs : 1 ≤ d.refs 22 := by unfold Dev.refs; omega
  refine ⟨d, h, hrc, hrefs, ?_⟩
  intro hN
  have := hN 22
  omega

/-! ## 3. Local preservation -/

/-- **allocate, then map**: cluster `c₀` is free (`rc = 0`, hence unreferenced),
    `d'` is `d` with `rc c₀ := 1` and the L2 entry of guest cluster `off` — mapped
    L2 table, L1 slot covered by the header, no allocation so far — set to
    `map_cluster(c₀·cs)`.  `L1Distinct` makes the slot counted exactly once. -/
theorem acct_alloc_then_map {d d' : Dev} {off c0 : Nat} (g : Geom d.info) (h9 : 9 ≤ d.info.cb)
    (hA : Acct d) (hD : L1Distinct d)
    (hl1 : L1.isZero (d.l1Entry off) = false) (hidx : Split.l1Index d.info off < d.hdrL1Entries)
    (hold : L2.allocation d.info.cb (d.l2Entry off) = none)
    (h0 : d.rc.get c0 = 0) (h56 : c0 * d.cs < 2^56)
    (hh : HdrSame d d') (hl1' : d'.l1 = d.l1) (hl1Len : d'.l1Len = d.l1Len)
    (hrt : d'.rt = d.rt) (hrtLen : d'.rtLen = d.rtLen)
    (hl2 : d'.l2 = (d.setL2 off (L2.mapClusterEntry (c0 * d.cs))).l2)
    (hrc : ∀ c, d'.rc.get c = if c = c0 then 1 else d.rc.get c) : Acct d' :=
  Model.acct_alloc_then_map g h9 hA hD hl1 hidx hold h0 h56 hh hl1' hl1Len hrt hrtLen hl2 hrc

/-- the entry `map_cluster` stores references exactly its one cluster -/
theorem mapClusterEntry_allocation (cb h : Nat) (h512 : h % 512 = 0) (hpos : 0 < h) (h56 : h < 2^56) :
    L2.allocation cb (L2.mapClusterEntry h) = some (h, 1) :=
  allocation_mapClusterEntry cb h h512 hpos h56

/-- changing one slot of the view changes the count by the difference of the
    two indicators -/
theorem refs_one_slot {d d' : Dev} {i0 j0 : Nat} {e : E64}
    (hh : HdrSame d d') (hl1 : ∀ i, i < d.hdrL1Entries → d'.l1At i = d.l1At i)
    (hrt : d'.rt = d.rt) (hrtLen : d'.rtLen = d.rtLen)
    (hi : i0 < d.hdrL1Entries) (hj : j0 < d.info.l2Entries)
    (hslot : ∀ i j, i < d.hdrL1Entries → j < d.info.l2Entries →
      d'.slot i j = if i = i0 ∧ j = j0 then e else d.slot i j) (c : Nat) :
    d'.refs c + covers d.cs (L2.allocation d.info.cb (d.slot i0 j0)) c =
      d.refs c + covers d.cs (L2.allocation d.info.cb e) c :=
  refs_slot_change hh hl1 hrt hrtLen hi hj hslot c

/-- **unmap, then free** (discard): from what `discardOne_*_spec` (C11)
    establishes.  Added hypotheses: the old entry was uncompressed and the new
    one has no allocation (both hold in `discardOne_clear_spec` but are not
    recorded in `Discarded`), the L1 slot is covered by the header, and the
    header fields are unchanged (`discardOne_sameFrame`). -/
theorem acct_unmap_then_free {d d' : Dev} {g host cnt : Nat} {cleared : E64} (geo : Geom d.info)
    (hA : Acct d) (hD : L1Distinct d) (hdis : Discarded d d' g host cnt cleared)
    (hc : L2.isCompressed (d.l2Entry g) = false)
    (hcl : L2.allocation d.info.cb cleared = none)
    (hidx : Split.l1Index d.info g < d.hdrL1Entries) (hh : HdrSame d d') : Acct d' :=
  Model.acct_unmap_then_free geo hA hD hdis hc hcl hidx hh

/-- … hence every successful `__discard_one_cluster`, in all its variants -/
theorem discardOne_preserves_acct {g : Nat} {d d' : Dev} (geo : Geom d.info) (hA : Acct d)
    (hD : L1Distinct d) (hidx : Split.l1Index d.info g < d.hdrL1Entries)
    (h : discardOne g d = (d', .ok ())) : Acct d' :=
  discardOne_acct geo hA hD hidx h

/-- **new L2 table**: cluster `c₀` free, `rc c₀ := 1`, an all-zero L2 table
    installed at `c₀·cs`, the zero L1 entry `i₀` (covered by the header and
    inside the RAM table) pointed to it -/
theorem acct_new_l2_table {d d' : Dev} {i0 c0 : Nat} (h9 : 9 ≤ d.info.cb) (hA : Acct d)
    (hi : i0 < d.hdrL1Entries) (hlen : i0 < d.l1Len) (hz : L1.isZero (d.l1At i0) = true)
    (h0 : d.rc.get c0 = 0) (h56 : c0 * d.cs < 2^56)
    (hh : HdrSame d d') (hl1Len : d'.l1Len = d.l1Len) (hrt : d'.rt = d.rt) (hrtLen : d'.rtLen = d.rtLen)
    (hl1 : d'.l1 = d.l1.set i0 (L1.mapEntry (c0 * d.cs)))
    (hl2 : d'.l2 = d.l2.set (c0 * d.cs) (FMap.empty 0#64))
    (hrc : ∀ c, d'.rc.get c = if c = c0 then 1 else d.rc.get c) : Acct d' :=
  Model.acct_new_l2_table h9 hA hi hlen hz h0 h56 hh hl1Len hrt hrtLen hl1 hl2 hrc

/-- **new refblock**: `ensure_refblock_offset` on a zero reftable entry gives the
    refblock's own cluster refcount 1 and exactly one new reference (the
    reftable entry), provided that cluster was free -/
theorem acct_new_refblock {d d' : Dev} {off : Nat} (h9 : 9 ≤ d.info.cb) (hA : Acct d)
    (hidx : Host.rtIndex d.info off < d.rtLen)
    (hz : RT.isZero (d.rt.get (Host.rtIndex d.info off)) = true)
    (h0 : d.rc.get (Host.rtIndex d.info off * d.info.rbEntries) = 0)
    (h64 : Host.rtIndex d.info off * d.info.rbEntries * d.info.clusterSize < 2^64)
    (h : ensureRefblock off d = (d', .ok ())) : Acct d' :=
  Model.acct_new_refblock h9 hA hidx hz h0 h64 h

/-- `ensure_refblock_offset` is the identity when the refblock exists -/
theorem ensureRefblock_existing_acct {d d' : Dev} {off : Nat} (hA : Acct d)
    (hidx : Host.rtIndex d.info off < d.rtLen)
    (hnz : RT.isZero (d.rt.get (Host.rtIndex d.info off)) = false)
    (h : ensureRefblock off d = (d', .ok ())) : Acct d' := by
  rw [ensureRefblock_existing hidx hnz] at h
  simp only [Prod.mk.injEq, and_true] at h
  subst h; exact hA

/-- `ensure_l2_offset` creating the L2 table of an unmapped L1 slot that the
    header's `l1_size` and the RAM table cover, with the allocation served from an
    existing refblock -/
theorem ensureL2_new_table_preserves_acct {d d1 d' : Dev} {off h n : Nat} (h9 : 9 ≤ d.info.cb)
    (hA : Acct d) (hz : L1.isZero (d.l1Entry off) = true)
    (hhdr : Split.l1Index d.info off < d.l1HdrEntries)
    (hidx : Split.l1Index d.info off < d.hdrL1Entries) (hlen : Split.l1Index d.info off < d.l1Len)
    (halloc : allocateClusters 1 d = (d1, .ok (some (h, n)))) (hone : AllocOne d d1 h)
    (h56 : h < 2^56) (he : ensureL2 off d = (d', .ok ())) : Acct d' :=
  ensureL2_new_table_acct h9 hA hz hhdr hidx hlen halloc hone h56 he

/-- the other side of `acct_alloc_then_map`'s hypothesis "no allocation so far":
    when the replaced entry did reference a cluster `o` (the preallocated cluster
    of a zero-flagged entry: `alloc_and_map_cluster` drops the old allocation
    returned by `map_cluster`, known finding C03/leak-of-zero-prealloc-cluster) and
    nobody releases it, no cluster is under-counted but `o` is over-counted by
    exactly one -/
theorem map_over_allocation_leaks_one {d d' : Dev} {off c0 o : Nat} (g : Geom d.info)
    (h9 : 9 ≤ d.info.cb) (hA : Acct d) (hD : L1Distinct d)
    (hl1 : L1.isZero (d.l1Entry off) = false) (hidx : Split.l1Index d.info off < d.hdrL1Entries)
    (hold : L2.allocation d.info.cb (d.l2Entry off) = some (o, 1))
    (h0 : d.rc.get c0 = 0) (h56 : c0 * d.cs < 2^56)
    (hh : HdrSame d d') (hl1' : d'.l1 = d.l1) (hl1Len : d'.l1Len = d.l1Len)
    (hrt : d'.rt = d.rt) (hrtLen : d'.rtLen = d.rtLen)
    (hl2 : d'.l2 = (d.setL2 off (L2.mapClusterEntry (c0 * d.cs))).l2)
    (hrc : ∀ c, d'.rc.get c = if c = c0 then 1 else d.rc.get c) :
    (∀ c, d'.rc.get c = d'.refs c + (if c = o / d.cs then 1 else 0)) ∧ NoUnder d' ∧ ¬ NoLeak d' := by
  have key := map_over_allocation_leaks g h9 hA hD hl1 hidx hold h0 h56 hh hl1' hl1Len hrt hrtLen hl2 hrc
  refine ⟨key, fun c => by rw [key c]; omega, fun hL => ?_⟩
  have := hL (o / d.cs)
  rw [key, if_pos rfl] at this
  omega

/-! ## 4. A single-cluster write into an unallocated cluster -/

/-- `allocate_clusters(1)` served by the slice of the hint (the refblock of the
    hint exists and `try_alloc_from_rb_slice` finds a free cluster): the exact
    result, and its effect in the form `AllocOne` -/
theorem allocateClusters_one {d d1 : Dev} {h n : Nat} (geo : Geom d.info)
    (hidx : Host.rtIndex d.info d.hint < d.rtLen)
    (hnz : RT.isZero (d.rt.get (Host.rtIndex d.info d.hint)) = false)
    (ha : tryAllocFromRbSlice d.hint 1 false d = (d1, .ok (some (h, n)))) :
    allocateClusters 1 d =
      ({ d1 with hint := max d1.hint (h + d1.info.clusterSize) }, .ok (some (h, 1))) ∧
    AllocOne d { d1 with hint := max d1.hint (h + d1.info.clusterSize) } h :=
  ⟨allocateClusters_one_first_slice geo hidx hnz ha, (allocOne_of_tryAlloc ha).2.hint _⟩

/-- **write of a new cluster**: a single-cluster `write_at` into a guest cluster
    that needs a mapping (unallocated, or zero-flagged without preallocation;
    for images with a backing file `need_make_mapping` is false for unallocated
    clusters and the write takes the COW path instead) and has no allocation,
    whose L2 table exists, where `allocate_clusters(1)` is served from an existing
    refblock.  Whatever the data write returns, the accounting stays exact. -/
theorem writeAt_single_new_cluster_acct {d d1 d' : Dev} {off len h n : Nat} {toks : List Nat}
    {r : Outcome Unit} (geo : Geom d.info) (h9 : 9 ≤ d.info.cb) (hA : Acct d) (hD : L1Distinct d)
    (hchk : writeCheck d.info off len = none) (hlen : len ≠ 0)
    (hsingle : off / d.info.clusterSize = (off + len - 1) / d.info.clusterSize)
    (hl1 : L1.isZero (d.l1Entry off) = false) (hidx : Split.l1Index d.info off < d.hdrL1Entries)
    (hneed : needMakeMapping d.info (d.mapping off) = true)
    (hold : L2.allocation d.info.cb (d.l2Entry off) = none)
    (halloc : allocateClusters 1 d = (d1, .ok (some (h, n)))) (hone : AllocOne d d1 h)
    (h56 : h < 2^56) (hw : writeAt off len toks d = (d', r)) :
    Acct d' ∧ d'.l2Entry off = L2.mapClusterEntry h ∧ d'.rc.get (h / d.info.clusterSize) = 1 :=
  writeAt_single_new_cluster geo h9 hA hD hchk hlen hsingle hl1 hidx hneed hold halloc hone h56 hw

open Qv.Props.C08 (geomEx)

/-! ## 5. Non-vacuity -/

/-- 1 GiB, 64 KiB clusters, 16-bit refcounts, formatted with 512-byte blocks and
    opened with the default parameters: header, reftable, refblock and L1 table in
    clusters 0..3, two L1 entries, one refblock -/
def fmtEx : Dev :=
  { info := infoEx, version := 3, hdrL1Off := 0x30000, hdrL1Entries := 2, hdrRtOff := 0x10000,
    hdrRtClusters := 1, l1 := FMap.empty 0#64, l1Len := 64, l1HdrEntries := 2,
    l2 := FMap.empty (FMap.empty 0#64), rt := (FMap.empty 0#64).set 0 0x20000#64, rtLen := 8192,
    rc := (List.range 4).foldl (fun acc c => acc.set c 1) (FMap.empty 0),
    newData := [], hint := 0, needFlush := false, data := FMap.empty 0,
    comp := FMap.empty (FMap.empty 0), back := none }

theorem fmtEx_format : formatDev (2^30) 16 4 512 prmEx = .ok fmtEx := rfl

/-- `format_acct` applies: a concrete device state for which `Acct` holds -/
theorem fmtEx_acct : Acct fmtEx :=
  format_acct (k := 9) fmtEx_format (by decide) (by decide) (by decide) rfl (by decide) (by decide)
    (by decide)

theorem fmtEx_rc (c : Nat) : fmtEx.rc.get c = if c < 4 then 1 else 0 := foldl_set_range_get 4 c

/-- … and one for which it fails: cluster 9 allocated (refcount 1) and never
    referenced — the state between "allocate" and "map".  It is a leak, not an
    under-count: the crash-safe half still holds. -/
def leakEx : Dev := { fmtEx with rc := fmtEx.rc.set 9 1 }

theorem leakEx_refs (c : Nat) : leakEx.refs c = fmtEx.refs c :=
  refs_frame ⟨rfl, rfl, rfl, rfl, rfl⟩ rfl rfl rfl rfl rfl c

theorem leakEx_leaks : leakEx.rc.get 9 = 1 ∧ leakEx.refs 9 = 0 ∧ ¬ Acct leakEx ∧ ¬ NoLeak leakEx ∧
    NoUnder leakEx := by
  have h1 : leakEx.rc.get 9 = 1 := by show (fmtEx.rc.set 9 1).get 9 = 1; simp
  have h2 : leakEx.refs 9 = 0 := by rw [leakEx_refs, ← fmtEx_acct 9, fmtEx_rc]; rfl
  refine ⟨h1, h2, fun hA => ?_, fun hL => ?_, ?_⟩
  · have := hA 9; rw [h1, h2] at this; cases this
  · have := hL 9; rw [h1, h2] at this; omega
  · apply noUnder_monotone (noUnder_of_acct fmtEx_acct) (fun c => Nat.le_of_eq (leakEx_refs c))
    intro c
    show fmtEx.rc.get c ≤ (fmtEx.rc.set 9 1).get c
    rw [FMap.get_set]
    split
    · rename_i h; rw [← h, fmtEx_rc]; decide
    · exact Nat.le_refl _

theorem fmtEx_l1At (i : Nat) : fmtEx.l1At i = 0#64 := by
  unfold Dev.l1At
  show (if i < 64 then (FMap.empty 0#64).get i else 0#64) = 0#64
  rw [FMap.get_empty]; split <;> rfl

/-- `acct_new_l2_table`: cluster 4 becomes the L2 table of L1 slot 0 -/
def withL2 : Dev :=
  { fmtEx with rc := fmtEx.rc.set 4 1, l2 := fmtEx.l2.set 0x40000 (FMap.empty 0#64),
               l1 := fmtEx.l1.set 0 (L1.mapEntry 0x40000), needFlush := true }

theorem withL2_acct : Acct withL2 := by
  apply acct_new_l2_table (d := fmtEx) (d' := withL2) (i0 := 0) (c0 := 4) (by decide) fmtEx_acct (by decide) (by decide)
    (by rw [fmtEx_l1At]; decide) (by rw [fmtEx_rc]; rfl) (by decide) ⟨rfl, rfl, rfl, rfl, rfl⟩ rfl rfl rfl rfl rfl
  intro c
  show (fmtEx.rc.set 4 1).get c = _
  rw [FMap.get_set]
  by_cases h : 4 = c
  · rw [if_pos h, if_pos h.symm]
  · rw [if_neg h, if_neg (fun x => h x.symm)]

theorem withL2_l1At (i : Nat) : withL2.l1At i = if i = 0 then L1.mapEntry 0x40000 else 0#64 := by
  unfold Dev.l1At
  show (if i < 64 then ((FMap.empty 0#64).set 0 (L1.mapEntry 0x40000)).get i else 0#64) = _
  by_cases h : i = 0
  · subst h; simp
  · rw [if_neg h, FMap.get_set_other _ _ _ _ (fun x => h x.symm), FMap.get_empty]; split <;> rfl

theorem withL2_distinct : L1Distinct withL2 :=
  l1Distinct_of_single 0 (fun i hi => by rw [withL2_l1At, if_neg hi]; decide)

theorem withL2_l1Entry : withL2.l1Entry 0 = L1.mapEntry 0x40000 := by
  rw [Dev.l1Entry_eq, withL2_l1At]; rfl

theorem withL2_l2Entry : withL2.l2Entry 0 = 0#64 := by
  rw [Dev.l2Entry_eq_slot]
  unfold Dev.slot
  have h1 : Split.l1Index withL2.info 0 = 0 := by decide
  have h2 : Split.l2Index withL2.info 0 = 0 := by decide
  rw [h1, h2, withL2_l1At, if_pos rfl]
  have h0 : L1.isZero (L1.mapEntry 0x40000) = false := by decide
  have h3 : (L1.l2Offset (L1.mapEntry 0x40000)).toNat = 0x40000 := by decide
  rw [if_neg (by simp [h0]), h3]
  show ((fmtEx.l2.set 0x40000 (FMap.empty 0#64)).get 0x40000).get 0 = 0#64
  simp

theorem withL2_rc (c : Nat) : withL2.rc.get c = if c < 5 then 1 else 0 := by
  show (fmtEx.rc.set 4 1).get c = _
  rw [FMap.get_set, fmtEx_rc]
  by_cases h : 4 = c
  · rw [if_pos h, if_pos (by omega)]
  · rw [if_neg h]
    by_cases h2 : c < 4
    · rw [if_pos h2, if_pos (by omega)]
    · rw [if_neg h2, if_neg (by omega)]

/-- `acct_alloc_then_map`: guest cluster 0 is mapped to the free host cluster 5 -/
def withData : Dev :=
  { withL2 with rc := withL2.rc.set 5 1, l2 := (withL2.setL2 0 (L2.mapClusterEntry 0x50000)).l2 }

theorem withData_acct : Acct withData := by
  apply acct_alloc_then_map (d := withL2) (d' := withData) (off := 0) (c0 := 5) geomEx (by decide)
    withL2_acct withL2_distinct (by rw [withL2_l1Entry]; decide) (by decide)
    (by rw [withL2_l2Entry]; exact L2.allocation_zero _) (by rw [withL2_rc]; rfl) (by decide)
    ⟨rfl, rfl, rfl, rfl, rfl⟩ rfl rfl rfl rfl rfl
  intro c
  show (withL2.rc.set 5 1).get c = _
  rw [FMap.get_set]
  by_cases h : 5 = c
  · rw [if_pos h, if_pos h.symm]
  · rw [if_neg h, if_neg (fun x => h x.symm)]

theorem withData_l2Entry : withData.l2Entry 0 = L2.mapClusterEntry 0x50000 :=
  (l2Entry_setL2_distinct (d := withL2) (d' := withData) withL2_distinct
    (by rw [withL2_l1Entry]; decide) rfl rfl rfl rfl).1

theorem withData_distinct : L1Distinct withData :=
  l1Distinct_of_single 0 (fun i hi => by
    have : withData.l1At i = withL2.l1At i := l1At_congr rfl rfl i
    rw [this, withL2_l1At, if_neg hi]; decide)

theorem fmt_rt (d : Dev) (hi : d.info = infoEx) (hrt : d.rt = fmtEx.rt) (hlen : d.rtLen = 8192)
    (off : Nat) (h : off < 2^31) : ¬ RT.isZero (rtEntryAt d off) := by
  have hidx : Host.rtIndex d.info off = 0 := by
    rw [hi]; show off / 2^(15 + 16) = 0
    exact Nat.div_eq_of_lt h
  unfold rtEntryAt
  rw [hidx, hlen, if_pos (by decide), hrt]
  have : fmtEx.rt.get 0 = 0x20000#64 := by simp [fmtEx]
  rw [this]; decide

/-- `discardOne_preserves_acct` / `acct_unmap_then_free`: discarding guest
    cluster 0 again releases host cluster 5 and the accounting stays exact -/
example : ∃ d', discardOne 0 withData = (d', .ok ()) ∧ Acct d' ∧ d'.rc.get 5 = 0 ∧ d'.l2Entry 0 = 0#64 := by
  have hc : L2.isCompressed (withData.l2Entry 0) = false := by rw [withData_l2Entry]; decide
  have ha : L2.allocation withData.info.cb (withData.l2Entry 0) = some (0x50000, 1) := by
    rw [withData_l2Entry]
    exact mapClusterEntry_allocation _ _ (by decide) (by decide) (by decide)
  have hrc : withData.rc.get 5 = 1 := by show (withL2.rc.set 5 1).get 5 = 1; simp
  obtain ⟨d', h⟩ := Qv.Props.C11.discardOne_ok_of_refcounted 0 withData 0x50000 1 hc ha
    (fmt_rt withData rfl rfl rfl _ (by decide)) (by
      have : 0x50000 / withData.info.clusterSize = 5 := by decide
      rw [this, hrc]; exact Nat.le_refl _)
  have sp := Qv.Props.C11.discardOne_plain_spec 0 withData d' 0x50000 1 rfl hc ha h
  refine ⟨d', h, discardOne_preserves_acct geomEx withData_acct withData_distinct (by decide) h, ?_, sp.entry⟩
  have := (sp.rc_released 0 (by omega)).2
  have e : 0x50000 / withData.info.clusterSize + 0 = 5 := by decide
  rw [e, hrc] at this
  exact this

/-- the allocator does serve one cluster from the slice of the hint of `withL2` -/
theorem withL2_alloc : ∃ d1 h n, tryAllocFromRbSlice withL2.hint 1 false withL2 = (d1, .ok (some (h, n))) := by
  obtain ⟨d1, r, h⟩ := Qv.Props.C08.tryAlloc_total withL2.hint 1 false withL2
  cases r with
  | some x => exact ⟨d1, x.1, x.2, h⟩
  | none =>
    exfalso
    obtain ⟨j, j1, j2, j3⟩ :=
      Qv.Props.C08.tryAlloc_none_complete withL2.hint 1 false withL2 d1 h (by decide) 5 (by decide) (by decide)
    apply j3
    have : Host.rbSliceHostStart withL2.info withL2.hint / withL2.info.clusterSize = 0 := by decide
    rw [this, withL2_rc, if_neg (by omega)]

/-- `writeAt_single_new_cluster_acct` / `allocateClusters_one` are not vacuous:
    writing one sector to guest offset 0 of `withL2` allocates a cluster, maps it,
    and the accounting is exact afterwards -/
example : ∃ d' r h, writeAt 0 512 [7] withL2 = (d', r) ∧ Acct d' ∧
    d'.l2Entry 0 = L2.mapClusterEntry h ∧ d'.rc.get (h / 65536) = 1 := by
  obtain ⟨d1, h, n, ha⟩ := withL2_alloc
  obtain ⟨halloc, hone⟩ := allocateClusters_one (d := withL2) geomEx (by decide)
    (by have : withL2.rt.get (Host.rtIndex withL2.info withL2.hint) = 0x20000#64 := by
          show fmtEx.rt.get 0 = _; simp [fmtEx]
        rw [this]; decide) ha
  have hs := Qv.Props.C08.tryAlloc_sound withL2.hint 1 false withL2 d1 h n ha
  have h56 : h < 2^56 := by
    have := hs.2.2.2.2.2.2.1.2
    have e : Host.rbSliceHostEnd withL2.info withL2.hint = 2^27 := by decide
    rw [e] at this
    have : h < 2^27 + 1 := by omega
    omega
  have hneed : needMakeMapping withL2.info (withL2.mapping 0) = true := by
    unfold Dev.mapping
    rw [withL2_l2Entry]
    show needMakeMapping withL2.info (L2.intoMapping withL2.info.cb false _ 0#64) = true
    rw [L2.intoMapping_zero]; rfl
  obtain ⟨a, b, c⟩ := writeAt_single_new_cluster_acct (d := withL2) (d' := (writeAt 0 512 [7] withL2).1)
    (r := (writeAt 0 512 [7] withL2).2) (off := 0) (len := 512) (toks := [7])
    geomEx (by decide) withL2_acct withL2_distinct (by decide) (by decide) (by decide)
    (by rw [withL2_l1Entry]; decide) (by decide) hneed
    (by rw [withL2_l2Entry]; exact L2.allocation_zero _) halloc hone h56 rfl
  exact ⟨_, _, h, rfl, a, b, c⟩

/-- `acct_new_refblock` is not vacuous: the refblock of the second reftable entry
    of `fmtEx` (host range starting at 2 GiB, cluster 32768) does not exist yet -/
example : ∃ d', ensureRefblock (2^31) fmtEx = (d', .ok ()) ∧ Acct d' ∧ d'.rc.get 32768 = 1 := by
  have hidx : Host.rtIndex fmtEx.info (2^31) = 1 := by decide
  have hz : RT.isZero (fmtEx.rt.get (Host.rtIndex fmtEx.info (2^31))) = true := by
    rw [hidx]
    have : fmtEx.rt.get 1 = 0#64 := by simp [fmtEx, FMap.get_set]
    rw [this]; decide
  have hlt : Host.rtIndex fmtEx.info (2^31) < fmtEx.rtLen := by decide
  have h := ensureRefblock_new hlt hz
  refine ⟨_, h, acct_new_refblock (by decide) fmtEx_acct hlt hz ?_ (by decide) h, ?_⟩
  · have : Host.rtIndex fmtEx.info (2^31) * fmtEx.info.rbEntries = 32768 := by decide
    rw [this, fmtEx_rc]; rfl
  · have : Host.rtIndex fmtEx.info (2^31) * fmtEx.info.rbEntries = 32768 := by decide
    rw [this]
    show (fmtEx.rc.set 32768 1).get 32768 = 1
    simp

/-- `map_over_allocation_leaks_one` is not vacuous: re-mapping guest cluster 0 of
    `withData` to cluster 6 without releasing cluster 5 over-counts cluster 5 -/
example : ∃ d' : Dev, d'.rc.get 5 = d'.refs 5 + 1 ∧ NoUnder d' ∧ ¬ NoLeak d' := by
  have hl1 : withData.l1Entry 0 = L1.mapEntry 0x40000 := by
    rw [Dev.l1Entry_eq]
    have : withData.l1At (Split.l1Index withData.info 0) = withL2.l1At 0 := l1At_congr rfl rfl _
    rw [this, withL2_l1At]; rfl
  have hrc6 : withData.rc.get 6 = 0 := by
    show (withL2.rc.set 5 1).get 6 = 0
    rw [FMap.get_set_other _ _ _ _ (by decide), withL2_rc]; rfl
  obtain ⟨k, hu, hl⟩ := map_over_allocation_leaks_one (d := withData)
    (d' := { withData with rc := withData.rc.set 6 1,
                           l2 := (withData.setL2 0 (L2.mapClusterEntry 0x60000)).l2 })
    (off := 0) (c0 := 6) (o := 0x50000) geomEx (by decide) withData_acct withData_distinct
    (by rw [hl1]; decide) (by decide)
    (by rw [withData_l2Entry]; exact mapClusterEntry_allocation _ _ (by decide) (by decide) (by decide))
    hrc6 (by decide) ⟨rfl, rfl, rfl, rfl, rfl⟩ rfl rfl rfl rfl rfl
    (by intro c
        show (withData.rc.set 6 1).get c = _
        rw [FMap.get_set]
        by_cases h : 6 = c
        · rw [if_pos h, if_pos h.symm]
        · rw [if_neg h, if_neg (fun x => h x.symm)])
  have k5 := k 5
  rw [if_pos (by decide)] at k5
  exact ⟨_, k5, hu, hl⟩

/-- the allocator serves one cluster from the slice of the hint of `fmtEx` -/
theorem fmtEx_alloc : ∃ d1 h n, tryAllocFromRbSlice fmtEx.hint 1 false fmtEx = (d1, .ok (some (h, n))) := by
  obtain ⟨d1, r, h⟩ := Qv.Props.C08.tryAlloc_total fmtEx.hint 1 false fmtEx
  cases r with
  | some x => exact ⟨d1, x.1, x.2, h⟩
  | none =>
    exfalso
    obtain ⟨j, j1, j2, j3⟩ :=
      Qv.Props.C08.tryAlloc_none_complete fmtEx.hint 1 false fmtEx d1 h (by decide) 4 (by decide) (by decide)
    apply j3
    have : Host.rbSliceHostStart fmtEx.info fmtEx.hint / fmtEx.info.clusterSize = 0 := by decide
    rw [this, fmtEx_rc, if_neg (by omega)]

/-- `ensureL2_new_table_preserves_acct` is not vacuous: the first write mapping
    on the fresh image creates the L2 table of L1 slot 0 -/
example : ∃ d', ensureL2 0 fmtEx = (d', .ok ()) ∧ Acct d' := by
  obtain ⟨d1, h, n, ha⟩ := fmtEx_alloc
  obtain ⟨halloc, hone⟩ := allocateClusters_one (d := fmtEx) geomEx (by decide)
    (by have : fmtEx.rt.get (Host.rtIndex fmtEx.info fmtEx.hint) = 0x20000#64 := by
          show fmtEx.rt.get 0 = _; simp [fmtEx]
        rw [this]; decide) ha
  have hs := Qv.Props.C08.tryAlloc_sound fmtEx.hint 1 false fmtEx d1 h n ha
  have h56 : h < 2^56 := by
    have := hs.2.2.2.2.2.2.1.2
    have e : Host.rbSliceHostEnd fmtEx.info fmtEx.hint = 2^27 := by decide
    rw [e] at this
    have : h < 2^27 + 1 := by omega
    omega
  have hz : L1.isZero (fmtEx.l1Entry 0) = true := by rw [Dev.l1Entry_eq, fmtEx_l1At]; decide
  have he := ensureL2_new_table (off := 0) hz (by decide) halloc
  have hA := ensureL2_new_table_preserves_acct (by decide) fmtEx_acct hz (by decide) (by decide) (by decide)
    halloc hone h56 he
  exact ⟨_, he, hA⟩

end Qv.Props.C03
