import Qv.Proofs.LruCache
/-
C06 (LRU part) — what the LRU cache (`AsyncLruCache`, src/cache.rs) guarantees.

Model: `Qv.Model.Lru` (Qv/Model/LruCache.lean), an executable mirror of the Rust type that
the correspondence check runs in lock-step with the code.  Everything below is proved for
ALL caches `c` (any limit, any maps), most of it under the well-formedness predicate

  `WFc c` :  the keys of `c.rmap` are pairwise distinct, the keys of `c.wmap` are pairwise
             distinct, no key is in both maps, the entry ids of `c.rmap ++ c.wmap` are pairwise
             distinct and all `< c.nextId`

(`Qv.Proofs.LruCache.WFc`).  `wfc_new` / `wfc_preserved`: `Cache.new` is well formed and every
operation keeps well-formedness (`commit` for ANY victim list), so every cache reachable from
`Cache.new` is well formed (`reach_wfc`).  A victim list `vs` is one `legalVictims c vs` accepts.

 * `commit_keeps_referenced`, `commit_keeps_dirty`, `commit_drops_only_clean_unreferenced`
   (+ `commit_drops_clean_victims`, `commit_invents_nothing`), `commit_drains_wmap`,
   `commit_returns_dirty_victims` (+ `_mem`), `legalVictims_lru` (+ `_wf`),
   `commit_size`, `commit_size_balance`, `commit_size_bound`, `commit_within_limit`;
 * `put_no_loss`, `put_creates_iff`, `put_created`, `put_existing_rmap`, `put_existing_wmap`,
   `get_no_loss`, `get_result`, `get_hit_spec`, `get_miss_spec`, and `get_put_no_loss` (summary);
 * `shrink_spec`, `shrink_keeps`, `shrink_drops_only_clean_unreferenced`;
 * `dirtyEntries_spec`; `release_frame`, `setDirty_frame`, `release_setDirty_frame`;
 * concrete examples by `decide` (section "non-vacuity"), including the reasons `WFc` is needed
   (`commit_keeps_referenced_needs_wfc`, `commit_drains_wmap_needs_wfc`, `commit_size_needs_wfc`)
   and `legalVictims_order_free` (the victim list need not be in `lru` order: the model's
   comment says "in non-decreasing lru order", `legalVictims` does not check that; only the
   order of the returned dirty victims depends on it).

Helper definitions used in the statements (Qv/Proofs/LruCache.lean, Qv/Proofs/SliceProto.lean):
  `addRef e`        = `{ e with refs := e.refs + 1 }`
  `freshEntry c`    = `{ id := c.nextId, lru := 0, dirty := false, refs := 1 }`
  `dirtyKey c k` / `cleanKey c k` : `k` is the key of a dirty / clean cell of `c.rmap`
  `idOfKey c k`     : the id of the `c.rmap` cell of key `k`
  `keyCell k f p`   = `if p.1 == k then (p.1, f p.2) else p`
  `inRangeDirty s e p` = `p.1 ≥ s && p.1 < e && p.2.dirty`
-/
namespace Qv.Props.C06Lru
open Qv.Model.Lru Qv.Proofs.SliceProto Qv.Proofs.LruCache

/-! ## well-formedness is an invariant -/

theorem wfc_new (limit : Nat) : WFc (Cache.new limit) := Qv.Proofs.LruCache.wfc_new limit

/-- every operation keeps `WFc` (`commit` with any victim list, legal or not) -/
theorem wfc_preserved {c : Cache} (h : WFc c) :
    (∀ k, WFc (put c k).1) ∧
    (∀ k, WFc (removeFromWmap c k)) ∧
    (∀ vs, WFc (commit c vs).1) ∧
    (∀ k, WFc (Model.Lru.get c k).1) ∧
    WFc (shrink c) ∧
    (∀ s e, WFc (dirtyEntries c s e).1) ∧
    (∀ i b, WFc (setDirty c i b)) ∧
    (∀ i, WFc (release c i)) :=
  ⟨wfc_put h, wfc_removeFromWmap h, wfc_commit h, wfc_get h, wfc_shrink h, wfc_dirtyEntries h,
   wfc_setDirty h, wfc_release h⟩

/-- the caches the operations of the type can produce from `Cache.new limit` (`commit` with any
    victim list) -/
inductive Reach (limit : Nat) : Cache → Prop
  | new : Reach limit (Cache.new limit)
  | put {c} (k : Nat) : Reach limit c → Reach limit (put c k).1
  | removeFromWmap {c} (k : Nat) : Reach limit c → Reach limit (removeFromWmap c k)
  | commit {c} (vs : List Nat) : Reach limit c → Reach limit (commit c vs).1
  | get {c} (k : Nat) : Reach limit c → Reach limit (Model.Lru.get c k).1
  | shrink {c} : Reach limit c → Reach limit (shrink c)
  | dirtyEntries {c} (s e : Nat) : Reach limit c → Reach limit (dirtyEntries c s e).1
  | setDirty {c} (i : Nat) (b : Bool) : Reach limit c → Reach limit (setDirty c i b)
  | release {c} (i : Nat) : Reach limit c → Reach limit (release c i)

/-- every reachable cache is well formed: the `WFc` hypotheses below hold on everything the
    code can build -/
theorem reach_wfc {limit : Nat} {c : Cache} (h : Reach limit c) : WFc c := by
  induction h with
  | new => exact wfc_new limit
  | put k _ ih => exact (wfc_preserved ih).1 k
  | removeFromWmap k _ ih => exact (wfc_preserved ih).2.1 k
  | commit vs _ ih => exact (wfc_preserved ih).2.2.1 vs
  | get k _ ih => exact (wfc_preserved ih).2.2.2.1 k
  | shrink _ ih => exact (wfc_preserved ih).2.2.2.2.1
  | dirtyEntries s e _ ih => exact (wfc_preserved ih).2.2.2.2.2.1 s e
  | setDirty i b _ ih => exact (wfc_preserved ih).2.2.2.2.2.2.1 i b
  | release i _ ih => exact (wfc_preserved ih).2.2.2.2.2.2.2 i

/-- under `WFc`, a key names at most one cell and an entry id names at most one cell -/
theorem wfc_unique {c : Cache} (h : WFc c) {p q : Nat × Entry} (hp : p ∈ c.rmap ++ c.wmap)
    (hq : q ∈ c.rmap ++ c.wmap) (hk : p.1 = q.1 ∨ p.2.id = q.2.id) : p = q :=
  pw_inj h.pd hp hq hk

/-! ## `commit` -/

/-- 1. An entry somebody holds is never evicted: it stays in `rmap`, unchanged. -/
theorem commit_keeps_referenced {c : Cache} (hw : WFc c) {vs : List Nat}
    (hl : legalVictims c vs = true) {k : Nat} {e : Entry} (he : (k, e) ∈ c.rmap) (hr : e.refs > 0) :
    (k, e) ∈ (commit c vs).1.rmap ∧ lookup (commit c vs).1.rmap k = some e := by
  have hkv : k ∉ vs := by
    intro hk
    have := legal_victim_unref hw hl hk he
    omega
  have hm : (k, e) ∈ (commit c vs).1.rmap :=
    (mem_commit_rmap hw vs _).2 (Or.inl ⟨(k, e), he, Or.inl ⟨hkv, rfl⟩⟩)
  exact ⟨hm, lookup_eq_of_mem (wfc_commit hw vs).pdr hm⟩

/-- 2. A dirty entry is never evicted (for any victim list): it stays in `rmap` with the same
    id and `lru`, still dirty; if its key is a victim it is returned in the dirty-victim list
    with its id and gets one more reference, otherwise it is unchanged. -/
theorem commit_keeps_dirty {c : Cache} (hw : WFc c) (vs : List Nat) {k : Nat} {e : Entry}
    (he : (k, e) ∈ c.rmap) (hd : e.dirty = true) :
    ∃ e', lookup (commit c vs).1.rmap k = some e' ∧
      e'.id = e.id ∧ e'.dirty = true ∧ e'.lru = e.lru ∧
      (k ∈ vs → (k, e.id) ∈ (commit c vs).2 ∧ e'.refs = e.refs + 1) ∧
      (k ∉ vs → e' = e) := by
  have hpd := (wfc_commit hw vs).pdr
  by_cases hk : k ∈ vs
  · have hm : (k, addRef e) ∈ (commit c vs).1.rmap :=
      (mem_commit_rmap hw vs _).2 (Or.inl ⟨(k, e), he, Or.inr ⟨hk, hd, rfl⟩⟩)
    refine ⟨addRef e, lookup_eq_of_mem hpd hm, rfl, hd, rfl, ?_, fun h => absurd hk h⟩
    intro _
    refine ⟨?_, rfl⟩
    rw [commit_ret]
    unfold dirtyVs
    rw [List.mem_filterMap]
    exact ⟨k, hk, by rw [lookup_eq_of_mem hw.pdr he]; simp [hd]⟩
  · have hm : (k, e) ∈ (commit c vs).1.rmap :=
      (mem_commit_rmap hw vs _).2 (Or.inl ⟨(k, e), he, Or.inl ⟨hk, rfl⟩⟩)
    exact ⟨e, lookup_eq_of_mem hpd hm, rfl, hd, rfl, fun h => absurd h hk, fun _ => rfl⟩

/-- 3. Only clean unreferenced victims leave `rmap`: an `rmap` cell whose entry (same key, same
    id) is not in the new `rmap` had no reference, was clean, and its key was a victim. -/
theorem commit_drops_only_clean_unreferenced {c : Cache} (hw : WFc c) {vs : List Nat}
    (hl : legalVictims c vs = true) {k : Nat} {e : Entry} (he : (k, e) ∈ c.rmap)
    (hgone : ∀ e', (k, e') ∈ (commit c vs).1.rmap → e'.id ≠ e.id) :
    e.refs = 0 ∧ e.dirty = false ∧ k ∈ vs := by
  by_cases hk : k ∈ vs
  · refine ⟨legal_victim_unref hw hl hk he, ?_, hk⟩
    cases hd : e.dirty with
    | false => rfl
    | true =>
      have hm : (k, addRef e) ∈ (commit c vs).1.rmap :=
        (mem_commit_rmap hw vs _).2 (Or.inl ⟨(k, e), he, Or.inr ⟨hk, hd, rfl⟩⟩)
      exact absurd rfl (hgone (addRef e) hm)
  · have hm : (k, e) ∈ (commit c vs).1.rmap :=
      (mem_commit_rmap hw vs _).2 (Or.inl ⟨(k, e), he, Or.inl ⟨hk, rfl⟩⟩)
    exact absurd rfl (hgone e hm)

/-- 3, in terms of `lookup`: a key of `rmap` that the new `rmap` does not have. -/
theorem commit_drops_only_clean_unreferenced' {c : Cache} (hw : WFc c) {vs : List Nat}
    (hl : legalVictims c vs = true) {k : Nat} {e : Entry} (he : (k, e) ∈ c.rmap)
    (hgone : lookup (commit c vs).1.rmap k = none) :
    e.refs = 0 ∧ e.dirty = false ∧ k ∈ vs :=
  commit_drops_only_clean_unreferenced hw hl he
    (fun e' he' => absurd he' (lookup_none_iff.1 hgone e'))

/-- 3, converse: a clean victim does leave the cache (its key is in neither map afterwards). -/
theorem commit_drops_clean_victims {c : Cache} (hw : WFc c) {vs : List Nat} {k : Nat} {e : Entry}
    (he : (k, e) ∈ c.rmap) (hk : k ∈ vs) (hd : e.dirty = false) :
    lookup (commit c vs).1.rmap k = none ∧ lookup (commit c vs).1.wmap k = none := by
  refine ⟨?_, rfl⟩
  rw [lookup_none_iff]
  intro e' he'
  rcases (mem_commit_rmap hw vs _).1 he' with ⟨p, hp, ⟨hpv, hq⟩ | ⟨_, hpd, hq⟩⟩ | hwm
  · cases hq; exact hpv hk
  · have hkp : p.1 = k := (congrArg Prod.fst hq).symm
    have : p = (k, e) := pw_key_inj hw.pdr hp he hkp
    subst this; rw [hd] at hpd; cases hpd
  · exact hw.disj _ he _ hwm rfl

/-- `commit` invents nothing: a cell of the new `rmap` is an old `rmap` cell that is not a victim,
    or a dirty victim with one more reference, or a `wmap` cell. -/
theorem commit_invents_nothing {c : Cache} (hw : WFc c) (vs : List Nat) (q : Nat × Entry) :
    q ∈ (commit c vs).1.rmap ↔
      (∃ p ∈ c.rmap, (p.1 ∉ vs ∧ q = p) ∨ (p.1 ∈ vs ∧ p.2.dirty = true ∧ q = (p.1, addRef p.2)))
      ∨ q ∈ c.wmap :=
  mem_commit_rmap hw vs q

/-- 4. `commit` drains `wmap` into `rmap`: `wmap` is empty afterwards and every `wmap` cell is in
    the new `rmap`, unchanged.  `limit`, `timer`, `nextId` are not touched. -/
theorem commit_drains_wmap {c : Cache} (hw : WFc c) (vs : List Nat) :
    (commit c vs).1.wmap = [] ∧
    (∀ k e, (k, e) ∈ c.wmap →
      (k, e) ∈ (commit c vs).1.rmap ∧ lookup (commit c vs).1.rmap k = some e) ∧
    (commit c vs).1.limit = c.limit ∧ (commit c vs).1.timer = c.timer ∧
    (commit c vs).1.nextId = c.nextId := by
  refine ⟨rfl, ?_, rfl, rfl, rfl⟩
  intro k e he
  have hm : (k, e) ∈ (commit c vs).1.rmap := (mem_commit_rmap hw vs _).2 (Or.inr he)
  exact ⟨hm, lookup_eq_of_mem (wfc_commit hw vs).pdr hm⟩

/-- 5. The returned list is exactly the dirty victims, in the order of `vs`, each with the id of
    its entry (holds for every cache, well formed or not). -/
theorem commit_returns_dirty_victims (c : Cache) (vs : List Nat) :
    (commit c vs).2 = (vs.filter (dirtyKey c)).map (fun k => (k, idOfKey c k)) := by
  rw [commit_ret, dirtyVs_eq]

/-- 5, by membership: `(k, i)` is returned iff `k` is a victim and the `rmap` cell of `k` is dirty
    with id `i`. -/
theorem commit_returns_dirty_victims_mem {c : Cache} (hw : WFc c) (vs : List Nat) (k i : Nat) :
    (k, i) ∈ (commit c vs).2 ↔ k ∈ vs ∧ ∃ e, (k, e) ∈ c.rmap ∧ e.dirty = true ∧ e.id = i := by
  rw [commit_ret]
  constructor
  · intro h
    obtain ⟨e, he, hk, hd, hi⟩ := mem_dirtyVs h
    exact ⟨hk, e, he, hd, hi.symm⟩
  · rintro ⟨hk, e, he, hd, rfl⟩
    unfold dirtyVs
    rw [List.mem_filterMap]
    exact ⟨k, hk, by rw [lookup_eq_of_mem hw.pdr he]; simp [hd]⟩

/-- 6. What `legalVictims` accepts: `min (over c) #unreferenced` distinct keys, each the key of an
    unreferenced `rmap` entry whose `lru` stamp is `≤` that of every unreferenced entry that is
    not picked (victims are least recently used among the unreferenced).  Holds for every cache. -/
theorem legalVictims_lru {c : Cache} {vs : List Nat} (hl : legalVictims c vs = true) :
    vs.length = min (over c) (unreferenced c).length ∧ vs.Nodup ∧
    ∀ k ∈ vs, ∃ e, (k, e) ∈ c.rmap ∧ e.refs = 0 ∧
      ∀ k' e', (k', e') ∈ c.rmap → e'.refs = 0 → k' ∉ vs → e.lru ≤ e'.lru := by
  obtain ⟨h1, h2, h3, h4⟩ := legal_all hl
  refine ⟨h1, h2, ?_⟩
  intro k hk
  obtain ⟨e, he⟩ := h3 k hk
  have hm := mem_unreferenced.1 (lookup_some he)
  refine ⟨e, hm.1, hm.2, ?_⟩
  intro k' e' he' hr' hk'
  obtain ⟨e2, he2, hle⟩ := h4 k hk (k', e') (mem_unreferenced.2 ⟨he', hr'⟩) hk'
  rw [he] at he2; cases he2; exact hle

/-- 6, for a well-formed cache: THE entry of a victim key is unreferenced and at most as recent
    as any unreferenced entry left unpicked. -/
theorem legalVictims_lru_wf {c : Cache} (hw : WFc c) {vs : List Nat} (hl : legalVictims c vs = true)
    {k : Nat} {e : Entry} (hk : k ∈ vs) (he : (k, e) ∈ c.rmap)
    {k' : Nat} {e' : Entry} (he' : (k', e') ∈ c.rmap) (hr' : e'.refs = 0) (hk' : k' ∉ vs) :
    e.refs = 0 ∧ e.lru ≤ e'.lru := by
  obtain ⟨e0, he0, hr0, hle⟩ := (legalVictims_lru hl).2.2 k hk
  have : (k, e0) = (k, e) := pw_key_inj hw.pdr he0 he rfl
  cases this
  exact ⟨hr0, hle k' e' he' hr' hk'⟩

/-- 7. Size of the new `rmap` (any duplicate-free victim list): the old `rmap` plus `wmap`, minus
    the clean victims. -/
theorem commit_size {c : Cache} (hw : WFc c) {vs : List Nat} (hnd : vs.Nodup) :
    (commit c vs).1.rmap.length =
      c.rmap.length + c.wmap.length - (vs.filter (cleanKey c)).length := by
  rw [commit_rmap hw, List.length_append, List.length_map]
  have := length_filter_kept hw hnd
  omega

/-- 7. For a legal victim list: the entries of both maps are kept except
    `min (over c) #unreferenced` victims, of which the returned dirty ones stay. -/
theorem commit_size_balance {c : Cache} (hw : WFc c) {vs : List Nat} (hl : legalVictims c vs = true) :
    (commit c vs).1.rmap.length + min (over c) (unreferenced c).length =
      c.rmap.length + c.wmap.length + (commit c vs).2.length := by
  have h1 := length_filter_kept hw (legal_all hl).2.1
  have h2 := dirty_add_clean hl
  have h3 := (legal_all hl).1
  rw [commit_rmap hw, List.length_append, List.length_map, commit_returns_dirty_victims,
    List.length_map]
  omega

/-- 7. The limit is exceeded by at most the dirty victims (which stay until written back) plus
    the victims that could not be found because too many entries are referenced. -/
theorem commit_size_bound {c : Cache} (hw : WFc c) {vs : List Nat} (hl : legalVictims c vs = true) :
    (commit c vs).1.rmap.length ≤
      c.limit + (commit c vs).2.length + (over c - (unreferenced c).length) := by
  have := commit_size_balance hw hl
  unfold over at this ⊢
  omega

/-- 7. When enough unreferenced entries exist and all victims are clean, the limit is respected. -/
theorem commit_within_limit {c : Cache} (hw : WFc c) {vs : List Nat} (hl : legalVictims c vs = true)
    (hclean : ∀ k ∈ vs, ∀ e, (k, e) ∈ c.rmap → e.dirty = false)
    (henough : over c ≤ (unreferenced c).length) :
    (commit c vs).1.rmap.length ≤ c.limit := by
  have hb := commit_size_bound hw hl
  have hr : (commit c vs).2 = [] := by
    rw [commit_returns_dirty_victims]
    have : vs.filter (dirtyKey c) = [] := by
      rw [List.filter_eq_nil_iff]
      intro k hk
      unfold dirtyKey
      cases hlk : lookup c.rmap k with
      | none => simp
      | some e => simp [hclean k hk e (lookup_some hlk)]
    rw [this]; rfl
  rw [hr] at hb
  simp only [List.length_nil] at hb
  omega

/-! ## `put` and `get` -/

/-- the cell `p'` is the cell `p` possibly with more references and another `lru` stamp -/
def Survives (p p' : Nat × Entry) : Prop :=
  p'.1 = p.1 ∧ p'.2.id = p.2.id ∧ p'.2.dirty = p.2.dirty ∧ p.2.refs ≤ p'.2.refs

theorem survives_refl (p : Nat × Entry) : Survives p p := ⟨rfl, rfl, rfl, Nat.le_refl _⟩

theorem survives_keyCell (k : Nat) {f : Entry → Entry}
    (hf : ∀ e, (f e).id = e.id ∧ (f e).dirty = e.dirty ∧ e.refs ≤ (f e).refs) (p : Nat × Entry) :
    Survives p (keyCell k f p) := by
  unfold keyCell; split
  · exact ⟨rfl, (hf p.2).1, (hf p.2).2.1, (hf p.2).2.2⟩
  · exact survives_refl p

/-- 8. `put` removes nothing: every cell of either map is still there afterwards (same key, id,
    dirty flag; at least as many references). -/
theorem put_no_loss (c : Cache) (k : Nat) :
    (∀ p ∈ c.rmap, ∃ p' ∈ (put c k).1.rmap, Survives p p') ∧
    (∀ p ∈ c.wmap, ∃ p' ∈ (put c k).1.wmap, Survives p p') := by
  have hf : ∀ e : Entry, ({ e with refs := e.refs + 1 } : Entry).id = e.id ∧
      ({ e with refs := e.refs + 1 } : Entry).dirty = e.dirty ∧
      e.refs ≤ ({ e with refs := e.refs + 1 } : Entry).refs := fun e => ⟨rfl, rfl, Nat.le_succ _⟩
  cases hr : lookup c.rmap k with
  | some e =>
    rw [put_hit_r hr]
    exact ⟨fun p hp => ⟨_, List.mem_map_of_mem hp, survives_keyCell k hf p⟩,
           fun p hp => ⟨p, hp, survives_refl p⟩⟩
  | none =>
    cases hw : lookup c.wmap k with
    | some e =>
      rw [put_hit_w hr hw]
      exact ⟨fun p hp => ⟨p, hp, survives_refl p⟩,
             fun p hp => ⟨_, List.mem_map_of_mem hp, survives_keyCell k hf p⟩⟩
    | none =>
      rw [put_miss hr hw]
      exact ⟨fun p hp => ⟨p, hp, survives_refl p⟩,
             fun p hp => ⟨p, List.mem_append_left _ hp, survives_refl p⟩⟩

/-- 8. `put` creates an entry exactly when the key is in neither map. -/
theorem put_creates_iff (c : Cache) (k : Nat) :
    (put c k).2.2 = true ↔ (∀ e, (k, e) ∉ c.rmap) ∧ (∀ e, (k, e) ∉ c.wmap) := by
  rw [← lookup_none_iff, ← lookup_none_iff]
  cases hr : lookup c.rmap k with
  | some e => rw [put_hit_r hr]; simp
  | none =>
    cases hw : lookup c.wmap k with
    | some e => rw [put_hit_w hr hw]; simp
    | none => rw [put_miss hr hw]; simp

/-- 8. The entry `put` creates goes to the end of `wmap` with one reference, clean, `lru = 0`,
    and the fresh id `c.nextId`, which is returned; nothing else changes but `nextId`. -/
theorem put_created {c : Cache} {k : Nat} (h : (put c k).2.2 = true) :
    (put c k).1.wmap = c.wmap ++ [(k, { id := c.nextId, lru := 0, dirty := false, refs := 1 })] ∧
    (put c k).2.1 = c.nextId ∧
    (put c k).1.rmap = c.rmap ∧ (put c k).1.nextId = c.nextId + 1 ∧
    (put c k).1.limit = c.limit ∧ (put c k).1.timer = c.timer := by
  have := (put_creates_iff c k).1 h
  rw [← lookup_none_iff, ← lookup_none_iff] at this
  rw [put_miss this.1 this.2]
  exact ⟨rfl, rfl, rfl, rfl, rfl, rfl⟩

/-- 8. `put` on a key of `rmap`: its id is returned, that cell gets one more reference, no other
    cell changes. -/
theorem put_existing_rmap {c : Cache} (hw : WFc c) {k : Nat} {e : Entry} (he : (k, e) ∈ c.rmap) :
    put c k = ({ c with rmap := c.rmap.map (keyCell k addRef) }, e.id, false) ∧
    (k, addRef e) ∈ (put c k).1.rmap ∧
    (∀ p ∈ c.rmap, p.1 ≠ k → p ∈ (put c k).1.rmap) := by
  have hl := lookup_eq_of_mem hw.pdr he
  have hp : put c k = ({ c with rmap := c.rmap.map (keyCell k addRef) }, e.id, false) := put_hit_r hl
  rw [hp]
  refine ⟨rfl, ?_, ?_⟩
  · exact mem_map_keyCell.2 ⟨(k, e), he, Or.inr ⟨rfl, rfl⟩⟩
  · intro p hpm hne; exact mem_map_keyCell.2 ⟨p, hpm, Or.inl ⟨hne, rfl⟩⟩

/-- 8. `put` on a key of `wmap`: likewise. -/
theorem put_existing_wmap {c : Cache} (hw : WFc c) {k : Nat} {e : Entry} (he : (k, e) ∈ c.wmap) :
    put c k = ({ c with wmap := c.wmap.map (keyCell k addRef) }, e.id, false) ∧
    (k, addRef e) ∈ (put c k).1.wmap ∧
    (∀ p ∈ c.wmap, p.1 ≠ k → p ∈ (put c k).1.wmap) := by
  have hl := lookup_eq_of_mem hw.pdw he
  have hr : lookup c.rmap k = none := by
    rw [lookup_none_iff]; intro e' he'; exact hw.disj _ he' _ he rfl
  have hp : put c k = ({ c with wmap := c.wmap.map (keyCell k addRef) }, e.id, false) :=
    put_hit_w hr hl
  rw [hp]
  refine ⟨rfl, ?_, ?_⟩
  · exact mem_map_keyCell.2 ⟨(k, e), he, Or.inr ⟨rfl, rfl⟩⟩
  · intro p hpm hne; exact mem_map_keyCell.2 ⟨p, hpm, Or.inl ⟨hne, rfl⟩⟩

/-- 8. `get` removes nothing and does not touch `wmap`. -/
theorem get_no_loss (c : Cache) (k : Nat) :
    (∀ p ∈ c.rmap, ∃ p' ∈ (Model.Lru.get c k).1.rmap, Survives p p' ∧ (p.1 ≠ k → p' = p)) ∧
    (Model.Lru.get c k).1.wmap = c.wmap := by
  cases hr : lookup c.rmap k with
  | none => rw [get_miss hr]; exact ⟨fun p hp => ⟨p, hp, survives_refl p, fun _ => rfl⟩, rfl⟩
  | some e =>
    rw [get_hit hr]
    refine ⟨fun p hp => ⟨_, List.mem_map_of_mem hp, survives_keyCell k ?_ p, fun h => keyCell_of_ne h⟩, rfl⟩
    exact fun e => ⟨rfl, rfl, Nat.le_succ _⟩

/-- 8. `get` looks at `rmap` only: it returns `some id` iff the key is in `rmap` (the id of the
    first cell of that key; of THE cell under `WFc`). -/
theorem get_result (c : Cache) (k : Nat) :
    (Model.Lru.get c k).2 = (lookup c.rmap k).map (·.id) ∧
    ((∃ i, (Model.Lru.get c k).2 = some i) ↔ ∃ e, (k, e) ∈ c.rmap) := by
  cases hr : lookup c.rmap k with
  | none =>
    rw [get_miss hr]
    refine ⟨rfl, ?_⟩
    constructor
    · rintro ⟨i, hi⟩; cases hi
    · rintro ⟨e, he⟩; exact absurd he (lookup_none_iff.1 hr e)
  | some e =>
    rw [get_hit hr]
    exact ⟨rfl, fun _ => ⟨e, lookup_some hr⟩, fun _ => ⟨e.id, rfl⟩⟩

/-- 8. A hit stamps that entry with `timer + 1` and hands out one reference; id and dirty flag of
    the entry, and every other cell, stay as they are; the timer advances. -/
theorem get_hit_spec {c : Cache} (hw : WFc c) {k : Nat} {e : Entry} (he : (k, e) ∈ c.rmap) :
    (Model.Lru.get c k).2 = some e.id ∧
    (k, { e with lru := c.timer + 1, refs := e.refs + 1 }) ∈ (Model.Lru.get c k).1.rmap ∧
    (∀ p ∈ c.rmap, p.1 ≠ k → p ∈ (Model.Lru.get c k).1.rmap) ∧
    (∀ q ∈ (Model.Lru.get c k).1.rmap,
        q ∈ c.rmap ∧ q.1 ≠ k ∨ q = (k, { e with lru := c.timer + 1, refs := e.refs + 1 })) ∧
    (Model.Lru.get c k).1.wmap = c.wmap ∧ (Model.Lru.get c k).1.timer = c.timer + 1 ∧
    (Model.Lru.get c k).1.limit = c.limit ∧ (Model.Lru.get c k).1.nextId = c.nextId := by
  have hl := lookup_eq_of_mem hw.pdr he
  rw [get_hit hl]
  refine ⟨rfl, ?_, ?_, ?_, rfl, rfl, rfl, rfl⟩
  · exact mem_map_keyCell.2 ⟨(k, e), he, Or.inr ⟨rfl, rfl⟩⟩
  · intro p hp hne; exact mem_map_keyCell.2 ⟨p, hp, Or.inl ⟨hne, rfl⟩⟩
  · intro q hq
    rcases mem_map_keyCell.1 hq with ⟨p, hp, ⟨hne, rfl⟩ | ⟨hk, rfl⟩⟩
    · exact Or.inl ⟨hp, hne⟩
    · have : p = (k, e) := pw_key_inj hw.pdr hp he hk
      subst this; exact Or.inr rfl

/-- 8. A miss changes nothing. -/
theorem get_miss_spec {c : Cache} {k : Nat} (h : ∀ e, (k, e) ∉ c.rmap) :
    Model.Lru.get c k = (c, none) :=
  get_miss (lookup_none_iff.2 h)

/-- 8. Summary: neither `get` nor `put` removes an entry from `rmap` or `wmap`. -/
theorem get_put_no_loss (c : Cache) (k : Nat) :
    (∀ p ∈ c.rmap, ∃ p' ∈ (put c k).1.rmap, Survives p p') ∧
    (∀ p ∈ c.wmap, ∃ p' ∈ (put c k).1.wmap, Survives p p') ∧
    (∀ p ∈ c.rmap, ∃ p' ∈ (Model.Lru.get c k).1.rmap, Survives p p') ∧
    (∀ p ∈ c.wmap, ∃ p' ∈ (Model.Lru.get c k).1.wmap, Survives p p') := by
  refine ⟨(put_no_loss c k).1, (put_no_loss c k).2, ?_, ?_⟩
  · intro p hp
    obtain ⟨p', hp', hs, _⟩ := (get_no_loss c k).1 p hp
    exact ⟨p', hp', hs⟩
  · intro p hp
    rw [(get_no_loss c k).2]; exact ⟨p, hp, survives_refl p⟩

/-! ## `shrink` -/

/-- 9. `shrink` keeps exactly the `rmap` cells that are referenced or dirty, and nothing else
    of the cache changes. -/
theorem shrink_spec (c : Cache) :
    (∀ p, p ∈ (shrink c).rmap ↔ p ∈ c.rmap ∧ ¬(p.2.refs = 0 ∧ p.2.dirty = false)) ∧
    (shrink c).wmap = c.wmap ∧ (shrink c).limit = c.limit ∧ (shrink c).timer = c.timer ∧
    (shrink c).nextId = c.nextId := by
  refine ⟨?_, rfl, rfl, rfl, rfl⟩
  intro p
  unfold shrink
  simp only [List.mem_filter]
  apply and_congr_right
  intro _
  cases hd : p.2.dirty <;> simp

/-- 9. A dirty or referenced entry survives `shrink`, unchanged. -/
theorem shrink_keeps {c : Cache} {k : Nat} {e : Entry} (he : (k, e) ∈ c.rmap)
    (h : e.refs > 0 ∨ e.dirty = true) : (k, e) ∈ (shrink c).rmap := by
  rw [(shrink_spec c).1]
  refine ⟨he, ?_⟩
  rintro ⟨h1, h2⟩
  rcases h with h | h
  · have : e.refs = 0 := h1
    omega
  · have : e.dirty = false := h2
    rw [this] at h; cases h

/-- 9. What `shrink` drops was clean and unreferenced. -/
theorem shrink_drops_only_clean_unreferenced {c : Cache} {k : Nat} {e : Entry} (he : (k, e) ∈ c.rmap)
    (hgone : (k, e) ∉ (shrink c).rmap) : e.refs = 0 ∧ e.dirty = false := by
  rw [(shrink_spec c).1] at hgone
  cases hd : e.dirty with
  | true => exact absurd ⟨he, fun h => by have : e.dirty = false := h.2; rw [hd] at this; cases this⟩ hgone
  | false =>
    refine ⟨?_, rfl⟩
    cases hr : e.refs with
    | zero => rfl
    | succ n => exact absurd ⟨he, fun h => by have : e.refs = 0 := h.1; omega⟩ hgone

/-! ## `dirtyEntries` -/

/-- 10. `dirtyEntries c s e` returns exactly the dirty `rmap` entries with `s ≤ key < e` (key and
    id, in `rmap` order), and gives exactly those one more reference; nothing else changes.
    Under `WFc` no entry id is returned twice. -/
theorem dirtyEntries_spec (c : Cache) (s e : Nat) :
    (dirtyEntries c s e).2 = (c.rmap.filter (inRangeDirty s e)).map (fun p => (p.1, p.2.id)) ∧
    (∀ k i, (k, i) ∈ (dirtyEntries c s e).2 ↔
      ∃ en, (k, en) ∈ c.rmap ∧ s ≤ k ∧ k < e ∧ en.dirty = true ∧ en.id = i) ∧
    (∀ q, q ∈ (dirtyEntries c s e).1.rmap ↔
      ∃ p ∈ c.rmap, (¬(s ≤ p.1 ∧ p.1 < e ∧ p.2.dirty = true) ∧ q = p) ∨
                    ((s ≤ p.1 ∧ p.1 < e ∧ p.2.dirty = true) ∧ q = (p.1, addRef p.2))) ∧
    (dirtyEntries c s e).1.rmap.map (·.1) = c.rmap.map (·.1) ∧
    (dirtyEntries c s e).1.wmap = c.wmap ∧ (dirtyEntries c s e).1.limit = c.limit ∧
    (dirtyEntries c s e).1.timer = c.timer ∧ (dirtyEntries c s e).1.nextId = c.nextId ∧
    (WFc c → ((dirtyEntries c s e).2.map (·.2)).Nodup) := by
  have hsel : ∀ p : Nat × Entry,
      inRangeDirty s e p = true ↔ (s ≤ p.1 ∧ p.1 < e ∧ p.2.dirty = true) := by
    intro p; simp [inRangeDirty, and_assoc]
  rw [dirtyEntries_eq]
  refine ⟨rfl, ?_, ?_, ?_, rfl, rfl, rfl, rfl, ?_⟩
  · intro k i
    simp only [List.mem_map, List.mem_filter]
    constructor
    · rintro ⟨p, ⟨hp, hs⟩, hq⟩
      cases hq
      obtain ⟨h1, h2, h3⟩ := (hsel p).1 hs
      exact ⟨p.2, hp, h1, h2, h3, rfl⟩
    · rintro ⟨en, hp, h1, h2, h3, rfl⟩
      exact ⟨(k, en), ⟨hp, (hsel _).2 ⟨h1, h2, h3⟩⟩, rfl⟩
  · intro q
    show q ∈ c.rmap.map (bump (inRangeDirty s e)) ↔ _
    rw [mem_map_bump]
    constructor
    · rintro ⟨p, hp, ⟨hs, rfl⟩ | ⟨hs, rfl⟩⟩
      · exact ⟨q, hp, Or.inl ⟨fun h => (by rw [(hsel q).2 h] at hs; cases hs), rfl⟩⟩
      · exact ⟨p, hp, Or.inr ⟨(hsel p).1 hs, rfl⟩⟩
    · rintro ⟨p, hp, ⟨hs, rfl⟩ | ⟨hs, rfl⟩⟩
      · refine ⟨q, hp, Or.inl ⟨?_, rfl⟩⟩
        cases h : inRangeDirty s e q with
        | false => rfl
        | true => exact absurd ((hsel q).1 h) hs
      · exact ⟨p, hp, Or.inr ⟨(hsel p).2 hs, rfl⟩⟩
  · show (c.rmap.map (bump (inRangeDirty s e))).map (·.1) = _
    rw [List.map_map]
    apply List.map_congr_left
    intro p _; exact (keepsKid_bump _ p).1
  · intro hw
    show (((c.rmap.filter (inRangeDirty s e)).map (fun p => (p.1, p.2.id))).map (·.2)).Nodup
    rw [List.map_map]
    have hids : (c.rmap.map (·.2.id)).Nodup := by
      have := hw.ids; rw [List.map_append] at this; exact (List.nodup_append.1 this).1
    exact hids.sublist ((List.filter_sublist).map _)

/-! ## `release` and `setDirty` -/

/-- 11. `release c i` changes only the `refs` of the cell whose entry id is `i` (one less);
    under `WFc` there is at most one such cell in the two maps. -/
theorem release_frame (c : Cache) (i : Nat) :
    (∀ q, q ∈ (release c i).rmap ↔ ∃ p ∈ c.rmap,
      (p.2.id ≠ i ∧ q = p) ∨ (p.2.id = i ∧ q = (p.1, { p.2 with refs := p.2.refs - 1 }))) ∧
    (∀ q, q ∈ (release c i).wmap ↔ ∃ p ∈ c.wmap,
      (p.2.id ≠ i ∧ q = p) ∨ (p.2.id = i ∧ q = (p.1, { p.2 with refs := p.2.refs - 1 }))) ∧
    (release c i).rmap.map (·.1) = c.rmap.map (·.1) ∧
    (release c i).wmap.map (·.1) = c.wmap.map (·.1) ∧
    (release c i).limit = c.limit ∧ (release c i).timer = c.timer ∧
    (release c i).nextId = c.nextId ∧
    (WFc c → ∀ p ∈ c.rmap ++ c.wmap, ∀ q ∈ c.rmap ++ c.wmap, p.2.id = i → q.2.id = i → p = q) :=
by
  refine ⟨fun q => ?_, fun q => ?_, ?_, ?_, rfl, rfl, rfl,
    fun hw _ hp _ hq h1 h2 => hw.id_unique hp hq (h1.trans h2.symm)⟩
  · rw [release_rmap']; exact mem_updateId
  · rw [release_wmap']; exact mem_updateId
  · rw [release_rmap']; exact updateId_keys _ _ _
  · rw [release_wmap']; exact updateId_keys _ _ _

/-- 11. `setDirty c i b` changes only the `dirty` flag of the cell whose entry id is `i`. -/
theorem setDirty_frame (c : Cache) (i : Nat) (b : Bool) :
    (∀ q, q ∈ (setDirty c i b).rmap ↔ ∃ p ∈ c.rmap,
      (p.2.id ≠ i ∧ q = p) ∨ (p.2.id = i ∧ q = (p.1, { p.2 with dirty := b }))) ∧
    (∀ q, q ∈ (setDirty c i b).wmap ↔ ∃ p ∈ c.wmap,
      (p.2.id ≠ i ∧ q = p) ∨ (p.2.id = i ∧ q = (p.1, { p.2 with dirty := b }))) ∧
    (setDirty c i b).rmap.map (·.1) = c.rmap.map (·.1) ∧
    (setDirty c i b).wmap.map (·.1) = c.wmap.map (·.1) ∧
    (setDirty c i b).limit = c.limit ∧ (setDirty c i b).timer = c.timer ∧
    (setDirty c i b).nextId = c.nextId :=
by
  refine ⟨fun q => ?_, fun q => ?_, ?_, ?_, rfl, rfl, rfl⟩
  · rw [setDirty_rmap']; exact mem_updateId
  · rw [setDirty_wmap']; exact mem_updateId
  · rw [setDirty_rmap']; exact updateId_keys _ _ _
  · rw [setDirty_wmap']; exact updateId_keys _ _ _

/-- 11. Under `WFc`, with the cell of id `i` in `rmap`: `release` / `setDirty` rewrite that one
    cell and leave every other cell of `rmap` and all of `wmap` as they are (and symmetrically
    when the cell is in `wmap`: `release_setDirty_frame_w`). -/
theorem release_setDirty_frame {c : Cache} (hw : WFc c) {k : Nat} {e : Entry} (he : (k, e) ∈ c.rmap)
    (b : Bool) :
    (release c e.id).wmap = c.wmap ∧ (setDirty c e.id b).wmap = c.wmap ∧
    (k, { e with refs := e.refs - 1 }) ∈ (release c e.id).rmap ∧
    (k, { e with dirty := b }) ∈ (setDirty c e.id b).rmap ∧
    (∀ p ∈ c.rmap, p ≠ (k, e) → p ∈ (release c e.id).rmap ∧ p ∈ (setDirty c e.id b).rmap) ∧
    (release c e.id).rmap.length = c.rmap.length ∧
    (setDirty c e.id b).rmap.length = c.rmap.length := by
  have habs : ∀ p ∈ c.wmap, p.2.id ≠ e.id := by
    intro p hp hid
    have := hw.id_unique (List.mem_append_right _ hp) (List.mem_append_left _ he) hid
    subst this
    exact hw.disj _ he _ hp rfl
  have hne : ∀ p ∈ c.rmap, p ≠ (k, e) → p.2.id ≠ e.id := by
    intro p hp hpe hid
    exact hpe (hw.id_unique (List.mem_append_left _ hp) (List.mem_append_left _ he) hid)
  rw [release_rmap', release_wmap', setDirty_rmap', setDirty_wmap']
  refine ⟨updateId_of_absent _ habs, updateId_of_absent _ habs, ?_, ?_, ?_,
    updateId_length _ _ _, updateId_length _ _ _⟩
  · exact mem_updateId.2 ⟨(k, e), he, Or.inr ⟨rfl, rfl⟩⟩
  · exact mem_updateId.2 ⟨(k, e), he, Or.inr ⟨rfl, rfl⟩⟩
  · intro p hp hpe
    exact ⟨mem_updateId.2 ⟨p, hp, Or.inl ⟨hne p hp hpe, rfl⟩⟩,
           mem_updateId.2 ⟨p, hp, Or.inl ⟨hne p hp hpe, rfl⟩⟩⟩

theorem release_setDirty_frame_w {c : Cache} (hw : WFc c) {k : Nat} {e : Entry} (he : (k, e) ∈ c.wmap)
    (b : Bool) :
    (release c e.id).rmap = c.rmap ∧ (setDirty c e.id b).rmap = c.rmap ∧
    (k, { e with refs := e.refs - 1 }) ∈ (release c e.id).wmap ∧
    (k, { e with dirty := b }) ∈ (setDirty c e.id b).wmap ∧
    (∀ p ∈ c.wmap, p ≠ (k, e) → p ∈ (release c e.id).wmap ∧ p ∈ (setDirty c e.id b).wmap) ∧
    (release c e.id).wmap.length = c.wmap.length ∧
    (setDirty c e.id b).wmap.length = c.wmap.length := by
  have habs : ∀ p ∈ c.rmap, p.2.id ≠ e.id := by
    intro p hp hid
    have := hw.id_unique (List.mem_append_left _ hp) (List.mem_append_right _ he) hid
    subst this
    exact hw.disj _ hp _ he rfl
  have hne : ∀ p ∈ c.wmap, p ≠ (k, e) → p.2.id ≠ e.id := by
    intro p hp hpe hid
    exact hpe (hw.id_unique (List.mem_append_right _ hp) (List.mem_append_right _ he) hid)
  rw [release_rmap', release_wmap', setDirty_rmap', setDirty_wmap']
  refine ⟨updateId_of_absent _ habs, updateId_of_absent _ habs, ?_, ?_, ?_,
    updateId_length _ _ _, updateId_length _ _ _⟩
  · exact mem_updateId.2 ⟨(k, e), he, Or.inr ⟨rfl, rfl⟩⟩
  · exact mem_updateId.2 ⟨(k, e), he, Or.inr ⟨rfl, rfl⟩⟩
  · intro p hp hpe
    exact ⟨mem_updateId.2 ⟨p, hp, Or.inl ⟨hne p hp hpe, rfl⟩⟩,
           mem_updateId.2 ⟨p, hp, Or.inl ⟨hne p hp hpe, rfl⟩⟩⟩

/-! ## non-vacuity: concrete caches, by `decide` -/

/-- limit 2; `rmap`: key 10 referenced, key 11 dirty and unreferenced, key 12 clean and
    unreferenced; `wmap`: key 13 -/
def ex : Cache :=
  { limit := 2, timer := 5,
    rmap := [(10, { id := 0, lru := 1, dirty := false, refs := 1 }),
             (11, { id := 1, lru := 2, dirty := true, refs := 0 }),
             (12, { id := 2, lru := 3, dirty := false, refs := 0 })],
    wmap := [(13, { id := 3, lru := 0, dirty := false, refs := 1 })],
    nextId := 4 }

theorem ex_wf : WFc ex :=
  ⟨by decide, by decide, by decide, by decide, by decide⟩

theorem ex_over : over ex = 2 ∧ (unreferenced ex).map (·.1) = [11, 12] := by decide

theorem ex_legal : legalVictims ex [11, 12] = true := by decide

/-- the clean victim 12 is dropped, the dirty victim 11 stays and is returned with a reference,
    the referenced entry 10 is untouched, the `wmap` entry 13 is now in `rmap` -/
theorem ex_commit :
    commit ex [11, 12] =
      ({ limit := 2, timer := 5,
         rmap := [(10, { id := 0, lru := 1, dirty := false, refs := 1 }),
                  (11, { id := 1, lru := 2, dirty := true, refs := 1 }),
                  (13, { id := 3, lru := 0, dirty := false, refs := 1 })],
         wmap := [], nextId := 4 },
       [(11, 1)]) := by decide

/-- victim lists `legalVictims` refuses: a referenced key, too few, too many, a duplicate, a key
    not in `rmap` -/
theorem ex_illegal :
    legalVictims ex [10, 12] = false ∧ legalVictims ex [12] = false ∧
    legalVictims ex [10, 11, 12] = false ∧ legalVictims ex [12, 12] = false ∧
    legalVictims ex [12, 13] = false := by decide

/-- with limit 3 one victim is needed: it must be 11 (lru 2), not 12 (lru 3) -/
theorem ex_lru_choice :
    legalVictims { ex with limit := 3 } [11] = true ∧
    legalVictims { ex with limit := 3 } [12] = false := by decide

/-- the order of the victim list is free (the model's comment says "in non-decreasing lru order";
    `legalVictims` does not check it); only the order of the returned list depends on it -/
theorem legalVictims_order_free :
    legalVictims ex [12, 11] = true ∧ commit ex [12, 11] = commit ex [11, 12] := by decide

/-- `get` hit / miss, `put` on the three kinds of key, `shrink`, `dirtyEntries` on `ex` -/
theorem ex_ops :
    (Model.Lru.get ex 12).2 = some 2 ∧ (Model.Lru.get ex 13).2 = none ∧
    lookup (Model.Lru.get ex 12).1.rmap 12 = some { id := 2, lru := 6, dirty := false, refs := 1 } ∧
    (put ex 10).2 = (0, false) ∧ (put ex 13).2 = (3, false) ∧ (put ex 14).2 = (4, true) ∧
    (shrink ex).rmap.map (·.1) = [10, 11] ∧
    (dirtyEntries ex 0 100).2 = [(11, 1)] ∧ (dirtyEntries ex 12 100).2 = [] := by decide

/-- why 1–3 need `WFc`: a `wmap` cell with a key of `rmap` replaces the (referenced, dirty) `rmap`
    entry at commit -/
theorem commit_keeps_referenced_needs_wfc :
    let c : Cache :=
      { limit := 5, timer := 0, rmap := [(1, { id := 0, lru := 0, dirty := true, refs := 1 })],
        wmap := [(1, { id := 1, lru := 0, dirty := false, refs := 1 })], nextId := 2 }
    legalVictims c [] = true ∧
    (commit c []).1.rmap = [(1, { id := 1, lru := 0, dirty := false, refs := 1 })] := by decide

/-- why 4 needs `WFc`: of two `wmap` cells with the same key only the later one arrives in `rmap` -/
theorem commit_drains_wmap_needs_wfc :
    let c : Cache :=
      { limit := 5, timer := 0, rmap := [],
        wmap := [(1, { id := 0, lru := 0, dirty := false, refs := 1 }),
                 (1, { id := 1, lru := 0, dirty := false, refs := 1 })], nextId := 2 }
    legalVictims c [] = true ∧
    (commit c []).1.rmap = [(1, { id := 1, lru := 0, dirty := false, refs := 1 })] := by decide

/-- why 7 needs `WFc`: with a key in both maps the new `rmap` is shorter than `rmap + wmap` -/
theorem commit_size_needs_wfc :
    let c : Cache :=
      { limit := 5, timer := 0, rmap := [(1, { id := 0, lru := 0, dirty := false, refs := 0 })],
        wmap := [(1, { id := 1, lru := 0, dirty := false, refs := 1 })], nextId := 2 }
    legalVictims c [] = true ∧ (commit c []).1.rmap.length = 1 ∧
    c.rmap.length + c.wmap.length - ([].filter (cleanKey c)).length = 2 := by decide

/-! ## axioms used -/

#print axioms wfc_new
#print axioms wfc_preserved
#print axioms reach_wfc
#print axioms wfc_unique
#print axioms commit_keeps_referenced
#print axioms commit_keeps_dirty
#print axioms commit_drops_only_clean_unreferenced
#print axioms commit_drops_only_clean_unreferenced'
#print axioms commit_drops_clean_victims
#print axioms commit_invents_nothing
#print axioms commit_drains_wmap
#print axioms commit_returns_dirty_victims
#print axioms commit_returns_dirty_victims_mem
#print axioms legalVictims_lru
#print axioms legalVictims_lru_wf
#print axioms commit_size
#print axioms commit_size_balance
#print axioms commit_size_bound
#print axioms commit_within_limit
#print axioms survives_refl
#print axioms survives_keyCell
#print axioms put_no_loss
#print axioms put_creates_iff
#print axioms put_created
#print axioms put_existing_rmap
#print axioms put_existing_wmap
#print axioms get_no_loss
#print axioms get_result
#print axioms get_hit_spec
#print axioms get_miss_spec
#print axioms get_put_no_loss
#print axioms shrink_spec
#print axioms shrink_keeps
#print axioms shrink_drops_only_clean_unreferenced
#print axioms dirtyEntries_spec
#print axioms release_frame
#print axioms setDirty_frame
#print axioms release_setDirty_frame
#print axioms release_setDirty_frame_w
#print axioms ex_wf
#print axioms ex_over
#print axioms ex_legal
#print axioms ex_commit
#print axioms ex_illegal
#print axioms ex_lru_choice
#print axioms legalVictims_order_free
#print axioms ex_ops
#print axioms commit_keeps_referenced_needs_wfc
#print axioms commit_drains_wmap_needs_wfc
#print axioms commit_size_needs_wfc

end Qv.Props.C06Lru
