import Qv.Proofs.Frames
/-
C02 — "reopen preserves every byte", on the sequential model: dropping the
device and opening the flushed file again, possibly with other parameters
(block size, cache geometry), yields a device with the same tables, the same
data plane, the same backing view, hence the same answer to every read.

`reopenDev` (Qv/Model/Format.lean) recomputes `Info` from the header fields with
the new parameters, re-sizes the RAM L1 table and resets the volatile state
(new-cluster set, allocation hint, flush flag).
-/
namespace Qv.Props.C02
open Qv Qv.Model Qv.Codec
open Qv.Props.C15 (Geom)

/-- everything persistent is carried over unchanged; of the geometry, exactly
    the header-derived fields are equal (the block size is the new parameter) -/
theorem reopen_view (d d' : Dev) (p : Params) (h : reopenDev d p = .ok d') :
    d'.l1 = d.l1 ∧ d'.l2 = d.l2 ∧ d'.rt = d.rt ∧ d'.rc = d.rc ∧ d'.data = d.data ∧
    d'.comp = d.comp ∧ d'.back = d.back ∧
    d'.info.cb = d.info.cb ∧ d'.info.vsize = d.info.vsize ∧ d'.info.ro = d.info.ro ∧
    d'.info.hasBack = d.info.hasBack := by
  obtain ⟨hcb, hvs, hro, hhb, _⟩ := reopen_info h
  obtain ⟨info, _, rfl⟩ := reopenDev_ok h
  exact ⟨rfl, rfl, rfl, rfl, rfl, rfl, rfl, hcb, hvs, hro, hhb⟩

/-- the rest of the state after reopen: header fields and table lengths kept,
    RAM L1 sized for the new block size, volatile state reset, new parameters -/
theorem reopen_rest (d d' : Dev) (p : Params) (h : reopenDev d p = .ok d') :
    d'.version = d.version ∧ d'.hdrL1Off = d.hdrL1Off ∧ d'.hdrL1Entries = d.hdrL1Entries ∧
    d'.hdrRtOff = d.hdrRtOff ∧ d'.hdrRtClusters = d.hdrRtClusters ∧ d'.rtLen = d.rtLen ∧
    d'.l1Len = ramL1Len d.info.vsize d.info.cb p.bsBits ∧ d'.l1HdrEntries = d.hdrL1Entries ∧
    d'.newData = [] ∧ d'.hint = 0 ∧ d'.needFlush = false ∧
    d'.info.bsb = p.bsBits ∧ d'.info.readOnly = p.readOnly := by
  obtain ⟨_, _, _, _, hbs, hro, _⟩ := reopen_info h
  obtain ⟨info, _, rfl⟩ := reopenDev_ok h
  exact ⟨rfl, rfl, rfl, rfl, rfl, rfl, rfl, rfl, rfl, rfl, rfl, hbs, hro⟩

/-- the reopened device has its RAM L1 table sized for the virtual size -/
theorem reopen_l1Sized (d d' : Dev) (p : Params) (h : reopenDev d p = .ok d') : L1Sized d' := by
  obtain ⟨hcb, hvs, _, _, hbs, _⟩ := reopen_info h
  obtain ⟨_, _, _, _, _, _, hl, _⟩ := reopen_rest d d' p h
  unfold L1Sized; rw [hl, hcb, hvs, hbs]

/-- reopen with header-admissible geometry yields the geometry equations again -/
theorem reopen_geom (d d' : Dev) (p : Params) (h : reopenDev d p = .ok d')
    (hcb9 : 9 ≤ d.info.cb) (hcb21 : d.info.cb ≤ 21) (hro : d.info.ro ≤ 6) (hbs : 3 ≤ p.bsBits) :
    Geom d'.info := by
  obtain ⟨info, hn, rfl⟩ := reopenDev_ok h
  exact (Qv.Props.C15.info_geometry_of_params hn hcb9 hcb21 hro hbs).1

/-- the bound the L1 lookup needs: an in-range offset indexes inside a RAM L1
    table sized for `vsize`, provided `vsize` is within what the 32 MiB L1 limit
    maps (`hcap`; beyond it `__max_l1_entries` caps the table) -/
theorem l1Index_in_ram (i : Info) (g : Geom i) (bsb off : Nat) (h : off < i.vsize)
    (hcap : (i.vsize + (2^i.cb / 8) * 2^i.cb - 1) / ((2^i.cb / 8) * 2^i.cb) ≤ (32 * 2^20) / 8) :
    Split.l1Index i off < ramL1Len i.vsize i.cb bsb :=
  l1Index_lt_ramL1Len g i.vsize bsb off h hcap

/-- split indices are the same after reopen -/
theorem reopen_split (d d' : Dev) (p : Params) (g : Geom d.info) (h : reopenDev d p = .ok d') (off : Nat) :
    Split.l1Index d'.info off = Split.l1Index d.info off ∧
    Split.l2Index d'.info off = Split.l2Index d.info off ∧
    Split.clusterOffset d'.info off = Split.clusterOffset d.info off := by
  have hsh := reopen_l2IndexShift g h
  have hcb := (reopen_info h).1
  unfold Split.clusterOffset Split.l1Index Split.l2Index
  rw [hsh, hcb]
  exact ⟨rfl, rfl, rfl⟩

/-- the L2 entry of every in-range guest offset is the same after reopen.
    `hl1`: the offset indexes inside the old RAM L1 table (true for `L1Sized d`,
    see `reopen_l2Entry'`). -/
theorem reopen_l2Entry (d d' : Dev) (p : Params) (g : Geom d.info) (h : reopenDev d p = .ok d')
    (off : Nat) (ho : off < d.info.vsize)
    (hcap : (d.info.vsize + (2^d.info.cb / 8) * 2^d.info.cb - 1) / ((2^d.info.cb / 8) * 2^d.info.cb)
              ≤ (32 * 2^20) / 8)
    (hl1 : Split.l1Index d.info off < d.l1Len) :
    d'.l2Entry off = d.l2Entry off := by
  obtain ⟨e1, e2, _⟩ := reopen_split d d' p g h off
  obtain ⟨hl1', hl2', _⟩ := reopen_view d d' p h
  have hlen := (reopen_rest d d' p h).2.2.2.2.2.2.1
  have hb := l1Index_in_ram d.info g p.bsBits off ho hcap
  have hl1e : d'.l1Entry off = d.l1Entry off := by
    unfold Dev.l1Entry
    dsimp only
    rw [e1, hlen, hl1', if_pos hb, if_pos hl1]
  unfold Dev.l2Entry
  dsimp only
  rw [hl1e, e2, hl2']

theorem reopen_l2Entry' (d d' : Dev) (p : Params) (g : Geom d.info) (hs : L1Sized d)
    (h : reopenDev d p = .ok d') (off : Nat) (ho : off < d.info.vsize)
    (hcap : (d.info.vsize + (2^d.info.cb / 8) * 2^d.info.cb - 1) / ((2^d.info.cb / 8) * 2^d.info.cb)
              ≤ (32 * 2^20) / 8) :
    d'.l2Entry off = d.l2Entry off :=
  reopen_l2Entry d d' p g h off ho hcap (by rw [hs]; exact l1Index_in_ram d.info g _ off ho hcap)

/-- reading one piece through ANY entry gives the same tokens after reopen -/
theorem reopen_doRead (d d' : Dev) (p : Params) (g : Geom d.info) (h : reopenDev d p = .ok d')
    (e : E64) (off n : Nat) : doRead d' e off n = doRead d e off n := by
  obtain ⟨_, _, _, _, hdata, hcomp, hback, hcb, _, _, hhb⟩ := reopen_view d d' p h
  have hco := fun o => (reopen_split d d' p g h o).2.2
  unfold doRead compressedPlain Dev.spc Info.inClusterOffset Info.clusterSize
  dsimp only
  rw [hcb, hhb, hdata, hcomp, hback, hco]

theorem doReads_congr (d d' : Dev) (ps : List (Nat × Nat))
    (h1 : ∀ p ∈ ps, d'.l2Entry p.1 = d.l2Entry p.1)
    (h2 : ∀ e off n, doRead d' e off n = doRead d e off n) :
    doReads d' ps = doReads d ps := by
  induction ps with
  | nil => rfl
  | cons q ps ih =>
    obtain ⟨off, n⟩ := q
    unfold doReads
    rw [h1 (off, n) (List.mem_cons_self ..), h2, ih (fun p hp => h1 p (List.mem_cons_of_mem _ hp))]

/-- the read prologue gives the same plan when the request is aligned for both
    block sizes and lies inside the virtual size (no clamp) -/
theorem readPlan_same (i i' : Info) (off len : Nat) (hv : i'.vsize = i.vsize)
    (ha : off % i.bs = 0 ∧ len % i.bs = 0) (ha' : off % i'.bs = 0 ∧ len % i'.bs = 0)
    (hin : off + len ≤ i.vsize) :
    readPlan i' off len = readPlan i off len := by
  unfold readPlan
  have c1 : ¬ len > i.vsize - off := by omega
  simp only [hv, ha.1, ha.2, ha'.1, ha'.2, c1, if_false, ne_eq, not_true_eq_false]

/-- C02 on the model: a reopened device answers every read exactly as before.
    Hypotheses: geometry of the old device, its RAM L1 sized for the virtual
    size, virtual size within the L1 cap, request block aligned for the old and
    the new block size and inside the virtual size. -/
theorem reopen_reads_same (d d' : Dev) (p : Params) (g : Geom d.info) (hs : L1Sized d)
    (h : reopenDev d p = .ok d')
    (hcap : (d.info.vsize + (2^d.info.cb / 8) * 2^d.info.cb - 1) / ((2^d.info.cb / 8) * 2^d.info.cb)
              ≤ (32 * 2^20) / 8)
    (off len : Nat)
    (ha : off % d.info.bs = 0 ∧ len % d.info.bs = 0)
    (ha' : off % 2^p.bsBits = 0 ∧ len % 2^p.bsBits = 0)
    (hin : off + len ≤ d.info.vsize) :
    readAt d' off len = readAt d off len := by
  obtain ⟨hcb, hvs, _, _, hbs, _⟩ := reopen_info h
  have hplan : readPlan d'.info off len = readPlan d.info off len :=
    readPlan_same d.info d'.info off len hvs ha (by unfold Info.bs; rw [hbs]; exact ha') hin
  have hcs : d'.info.clusterSize = d.info.clusterSize := by unfold Info.clusterSize; rw [hcb]
  unfold readAt
  dsimp only
  rw [hplan, hcs]
  cases hp : readPlan d.info off len with
  | reject e => rfl
  | empty => rfl
  | run clen =>
    dsimp only
    have hclen : clen = len := by
      have := (Qv.Props.C13.read_clamp_plan d.info off len clen hp).1
      have c : ¬ off + len > d.info.vsize := by omega
      rw [if_neg c] at this; exact this
    subst hclen
    have hrd : doReads d' (pieces d.info.clusterSize ((clen + d.info.clusterSize - 1) / d.info.clusterSize + 2) off clen)
             = doReads d (pieces d.info.clusterSize ((clen + d.info.clusterSize - 1) / d.info.clusterSize + 2) off clen) := by
      apply doReads_congr
      · intro q hq
        have := pieces_range _ _ _ _ q hq
        exact reopen_l2Entry' d d' p g hs h q.1 (by omega) hcap
      · exact reopen_doRead d d' p g h
    rw [hrd]

/-! ### non-vacuity -/
open Qv.Props.C15 (hdrEx prmEx infoEx infoEx_new)
open Qv.Props.C08 (geomEx)

theorem exReopen_ok : ∃ d', reopenDev exReopen exReopenParams = .ok d' := by
  have : Info.new { clusterBits := exReopen.info.cb, refcountOrder := exReopen.info.ro, size := exReopen.info.vsize,
                    hasBackingName := exReopen.info.hasBack } exReopenParams
       = .ok { infoEx with bsb := 12 } := by rfl
  exact ⟨_, by unfold reopenDev; rw [this]; rfl⟩

example : L1Sized exReopen := rfl
example : Geom exReopen.info := geomEx
example : ∃ d', reopenDev exReopen exReopenParams = .ok d' ∧ d'.data.get 0x280 = 7 ∧ d'.info.bs = 4096 ∧ exReopen.info.bs = 512 ∧
    d'.l2Entry 0x12345 = exReopen.l2Entry 0x12345 ∧
    readAt d' 0x10000 0x2000 = readAt exReopen 0x10000 0x2000 := by
  obtain ⟨d', h⟩ := exReopen_ok
  have hcap : (exReopen.info.vsize + (2^exReopen.info.cb / 8) * 2^exReopen.info.cb - 1) / ((2^exReopen.info.cb / 8) * 2^exReopen.info.cb)
      ≤ (32 * 2^20) / 8 := by decide
  refine ⟨d', h, ?_, ?_, by decide, ?_, ?_⟩
  · rw [(reopen_view exReopen d' exReopenParams h).2.2.2.2.1]; simp [exReopen]
  · unfold Info.bs; rw [(reopen_rest exReopen d' exReopenParams h).2.2.2.2.2.2.2.2.2.2.2.1]; rfl
  · exact reopen_l2Entry' exReopen d' exReopenParams geomEx rfl h _ (by decide) hcap
  · exact reopen_reads_same exReopen d' exReopenParams geomEx rfl h hcap _ _ (by decide) (by decide) (by decide)
example : Split.l1Index infoEx 0x3fffffff < ramL1Len infoEx.vsize infoEx.cb 12 :=
  l1Index_in_ram infoEx geomEx 12 _ (by decide) (by decide)

end Qv.Props.C02
