import Qv.Proofs.NeedFlush
/-
C18 (sequential part) — `need_flush == false` ⇒ nothing changed since the last flush,
on the metadata-view model `Qv.Model.Dev`.

The metadata view `SameView` (Qv/Proofs/NeedFlush.lean) is what `flush_meta` has to
write: L1 table, L2 tables, refcount table, refcounts.  The header's L1 size
(`hdrL1Entries` / `l1HdrEntries`) is deliberately not part of it: `ensure_l2_offset`
writes the header through at once and neither the code nor the model flags it.
Helper lemmas: Qv/Proofs/NeedFlush.lean.
-/
namespace Qv.Props.C18
open Qv Qv.Model Qv.Codec

/-- "flag or same": the computation ends with `needFlush = true`, or it changed
    neither the metadata view nor the flag -/
def FlagOrSame {α : Type} (f : M α) : Prop :=
  ∀ d, (f d).1.needFlush = true ∨ (SameView d (f d).1 ∧ (f d).1.needFlush = d.needFlush)

/-! ### every state-changing function of the write / discard path -/

theorem ensureRefblock_flag (off : Nat) : FlagOrSame (ensureRefblock off) := (ensureRefblock_fl off).fos

/-- `alloc_range` is the one helper that changes refcounts without setting the flag
    itself; it touches nothing but `rc`, and its only caller sets the flag -/
theorem allocRange_only_rc (c0 s n : Nat) (d : Dev) :
    (allocRange c0 s n d).1.l1 = d.l1 ∧ (allocRange c0 s n d).1.l2 = d.l2 ∧
    (allocRange c0 s n d).1.rt = d.rt ∧ (allocRange c0 s n d).1.needFlush = d.needFlush :=
  allocRange_view c0 s n d

theorem tryAllocFromRbSlice_flag (off count : Nat) (fixed : Bool) :
    FlagOrSame (tryAllocFromRbSlice off count fixed) := (tryAlloc_fl off count fixed).fos

theorem freeClusters_flag (host n : Nat) (fz : Bool) : FlagOrSame (freeClusters host n fz) :=
  (freeClusters_fl host n fz).fos

theorem tryAllocateLoop_flag (rbEnd allocCnt fuel host count outOff done : Nat) :
    FlagOrSame (tryAllocateLoop rbEnd allocCnt fuel host count outOff done) :=
  (tryAllocateLoop_fl rbEnd allocCnt fuel host count outOff done).fos

theorem tryAllocateFrom_flag (host allocCnt : Nat) : FlagOrSame (tryAllocateFrom host allocCnt) :=
  (tryAllocateFrom_fl host allocCnt).fos

theorem allocateLoop_flag (count fuel hostOff : Nat) : FlagOrSame (allocateLoop count fuel hostOff) :=
  (allocateLoop_fl count fuel hostOff).fos

theorem allocateClusters_flag (count : Nat) : FlagOrSame (allocateClusters count) :=
  (allocateClusters_fl count).fos

/-- an allocation that hands out clusters always leaves the flag set -/
theorem allocateClusters_some_flagged (count : Nat) (d : Dev) (x : Nat × Nat)
    (h : (allocateClusters count d).2 = .ok (some x)) : (allocateClusters count d).1.needFlush = true :=
  allocateClusters_some_flag count d x h

theorem markNewData_flag (h : Nat) : FlagOrSame (markNewData h) := (markNewData_fl h).fos
theorem ensureL2_flag (off : Nat) : FlagOrSame (ensureL2 off) := (ensureL2_fl off).fos
theorem allocAndMap_flag (off : Nat) : FlagOrSame (allocAndMap off) := (allocAndMap_fl off).fos
theorem makeSingleWriteMapping_flag (off : Nat) : FlagOrSame (makeSingleWriteMapping off) :=
  (makeSingleWriteMapping_fl off).fos
theorem populateSingle_flag (off : Nat) : FlagOrSame (populateSingle off) := (populateSingle_fl off).fos

/-- `mapRun` (the inner loop of `__make_multiple_write_mapping`) maps clusters without
    setting the flag — its caller does, exactly when `done > 0`: it never fails, and if it
    mapped nothing the view is unchanged -/
theorem mapRun_unflagged (cstart ccnt stop fuel this idx : Nat) (acc : List E64) (d : Dev) :
    ∃ es next done d', mapRun cstart ccnt stop fuel this idx acc d = (d', .ok (es, next, done)) ∧
      idx ≤ done ∧ d'.needFlush = d.needFlush ∧ d'.l1 = d.l1 ∧ d'.rt = d.rt ∧ d'.rc = d.rc ∧
      (done = idx → d'.l2 = d.l2) :=
  mapRun_spec cstart ccnt stop fuel this idx acc d

theorem makeMultiple_flag (start stop : Nat) : FlagOrSame (makeMultiple start stop) :=
  (makeMultiple_fl start stop).fos
theorem makeMultiples_flag (stop fuel start : Nat) (acc : List E64) :
    FlagOrSame (makeMultiples stop fuel start acc) := (makeMultiples_fl stop fuel start acc).fos
theorem zeroCluster_flag (h : Nat) : FlagOrSame (zeroCluster h) := (zeroCluster_fl h).fos
theorem writeSectors_flag (h : Nat) (toks : List Nat) : FlagOrSame (writeSectors h toks) :=
  (writeSectors_fl h toks).fos
theorem doWriteDataFile_flag (off : Nat) (m : Mapping) (cow : Option Mapping) (toks : List Nat) :
    FlagOrSame (doWriteDataFile off m cow toks) := (doWriteDataFile_fl off m cow toks).fos
theorem doWriteCow_flag (off : Nat) (m : Mapping) (toks : List Nat) : FlagOrSame (doWriteCow off m toks) :=
  (doWriteCow_fl off m toks).fos
theorem doWrite_flag (e : E64) (off : Nat) (toks : List Nat) : FlagOrSame (doWrite e off toks) :=
  (doWrite_fl e off toks).fos
theorem doWrites_flag (ps : List (Nat × Nat)) (es : List E64) (toks : List Nat) :
    FlagOrSame (doWrites ps es toks) := (doWrites_fl ps es toks).fos
theorem discardOne_flag (g : Nat) : FlagOrSame (discardOne g) := (discardOne_fl g).fos
theorem discardLoop_flag (stop fuel g : Nat) : FlagOrSame (discardLoop stop fuel g) :=
  (discardLoop_fl stop fuel g).fos

/-- `write_at`: whatever the outcome (`Ok`, `Err`, even a panic site), the device is
    flagged or its metadata view is untouched -/
theorem writeAt_flag (off len : Nat) (toks : List Nat) : FlagOrSame (writeAt off len toks) :=
  (writeAt_fl off len toks).fos

theorem discard_flag (off len : Nat) : FlagOrSame (discard off len) := (discard_fl off len).fos

/-- without a flush the flag is never cleared -/
theorem flag_sticky (d : Dev) (ops : List Op) (hnf : ∀ op ∈ ops, op.isFlush = false)
    (h : d.needFlush = true) : (run d ops).needFlush = true :=
  (run_fos d ops hnf).mono h

/-! ### histories -/

/-- clean before, clean after, no flush in between ⇒ the metadata view did not change:
    there is nothing a flush would have to write -/
theorem needflush_seq (d : Dev) (ops : List Op) (hnf : ∀ op ∈ ops, op.isFlush = false)
    (_h0 : d.needFlush = false) (h1 : (run d ops).needFlush = false) : SameView d (run d ops) := by
  rcases run_fos d ops hnf with h | ⟨hv, _⟩
  · rw [h1] at h; cases h
  · exact hv

/-- the general form, for any initial flag value: over a flush-free history the flag ends
    set, or flag and view are both unchanged (so `_h0` above is not even needed) -/
theorem run_flag_or_same (d : Dev) (ops : List Op) (hnf : ∀ op ∈ ops, op.isFlush = false) :
    (run d ops).needFlush = true ∨ (SameView d (run d ops) ∧ (run d ops).needFlush = d.needFlush) :=
  run_fos d ops hnf

/-- with flushes in the history: `needFlush = false` at the end ⇒ the view equals
    the view right after the LAST flush -/
theorem needflush_since_last_flush (d : Dev) (ops₁ ops₂ : List Op)
    (hnf : ∀ op ∈ ops₂, op.isFlush = false)
    (h1 : (run d (ops₁ ++ [.flush] ++ ops₂)).needFlush = false) :
    SameView (run d (ops₁ ++ [.flush])) (run d (ops₁ ++ [.flush] ++ ops₂)) := by
  have e : run d (ops₁ ++ [.flush] ++ ops₂) = run (run d (ops₁ ++ [.flush])) ops₂ := run_append _ _ _
  rw [e] at h1 ⊢
  have h0 : (run d (ops₁ ++ [.flush])).needFlush = false := by
    rw [run_append]; rfl
  exact needflush_seq _ ops₂ hnf h0 h1

/-- a flush itself does not change the view (model: `flush_meta` only clears the flag) -/
theorem flush_sameView (d : Dev) : SameView d (step d .flush) := ⟨rfl, rfl, rfl, rfl⟩

/-! ### non-vacuity -/

/-- `allocRange` really is an exception: it changes a refcount and leaves the flag alone -/
example : ¬ FlagOrSame (allocRange 0 0 1) := by
  intro h
  rcases h (default : Dev) with h | ⟨⟨_, _, _, hrc⟩, _⟩
  · have := (allocRange_view 0 0 1 (default : Dev)).2.2.2
    rw [this] at h; cases h
  · have h1 : (allocRange 0 0 1 (default : Dev)).1.rc.get 0 = 1 := by
      simp [allocRange, M.pure, default, instInhabitedDev.default, instInhabitedInfo.default]
    rw [hrc] at h1
    simp [default, instInhabitedDev.default, FMap.empty, FMap.get] at h1

/-- a discard on a read-only device is refused and changes nothing -/
example : (run Qv.Model.exRo [.discard 0 65536]).needFlush = false := by
  show (Model.discard 0 65536 exRo).1.needFlush = false
  unfold Model.discard
  simp [exRo]
  rfl

end Qv.Props.C18
