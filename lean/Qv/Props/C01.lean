import Qv.Spec.Flat
import Qv.Model.Dev
/-
C01 — sequential reads equal a flat reference disk.  (Theorem set under
construction: see DESIGN.md 5.C01; statements are added here, helper lemmas
live under Qv/Proofs.)
-/
namespace Qv.Props.C01
open Qv Qv.Spec

/-- the flat disk itself is read-your-writes: a read of a range just written
    returns exactly the written tokens -/
theorem flat_read_write_same (f : Flat) (s : Nat) (t : Nat) :
    ((f.sec.set s t).get s) = t := by simp

/-- frame on the flat disk: other sectors are untouched by a sector update -/
theorem flat_frame (f : Flat) (s s' t : Nat) (h : s ≠ s') :
    ((f.sec.set s t).get s') = f.sec.get s' := FMap.get_set_other _ _ _ _ h

end Qv.Props.C01
