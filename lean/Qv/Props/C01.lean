import Qv.Proofs.Flat
/-
C01 — sequential reads equal a flat reference disk.  This file states what
"read-your-writes" and "frame" mean on the flat disk `Qv.Spec.Flat` (all
statements are unbounded: any offsets, any token lists, any number of writes).
Helper lemmas live in `Qv/Proofs/Flat.lean`.

`off` is a byte offset; the flat disk indexes sectors by `off / 512`, so none of
the sector-wise laws needs `off % 512 = 0`.
-/
namespace Qv.Props.C01
open Qv Qv.Spec

/-! ## 1. One write -/

theorem flat_read_length (f : Flat) (off n : Nat) : (f.read off n).length = n := by
  simp [Flat.read]

/-- a read is the sector contents, sector by sector -/
theorem flat_read_getElem (f : Flat) (off n i : Nat) (h : i < (f.read off n).length) :
    (f.read off n)[i] = f.sec.get (off / 512 + i) := by
  simp [Flat.read]

/-- inside the written range the sector carries the written token -/
theorem flat_write_inside (f : Flat) (off : Nat) (toks : List Nat) (k : Nat) (h : k < toks.length) :
    (f.write off toks).sec.get (off / 512 + k) = toks.getD k 0 := by
  rw [Flat.write_sec_get, if_pos (by omega)]
  congr 1; omega

/-- frame: every sector outside `[off/512, off/512 + toks.length)` is unchanged -/
theorem flat_write_frame (f : Flat) (off : Nat) (toks : List Nat) (s : Nat)
    (h : ¬ (off / 512 ≤ s ∧ s < off / 512 + toks.length)) :
    (f.write off toks).sec.get s = f.sec.get s := by
  rw [Flat.write_sec_get, if_neg h]

/-- read-your-writes: reading exactly the range just written returns the written
    tokens (holds for every `off`, also unaligned, and for the empty list) -/
theorem flat_read_write (f : Flat) (off : Nat) (toks : List Nat) :
    (f.write off toks).read off toks.length = toks := by
  apply List.ext_getElem
  · rw [flat_read_length]
  · intro i h1 h2
    rw [flat_read_getElem, flat_write_inside f off toks i h2]
    simp [List.getD, h2]

/-- a read disjoint from the written range is unchanged by the write -/
theorem flat_read_write_disjoint (f : Flat) (off : Nat) (toks : List Nat) (off' n : Nat)
    (h : off' / 512 + n ≤ off / 512 ∨ off / 512 + toks.length ≤ off' / 512) :
    (f.write off toks).read off' n = f.read off' n := by
  apply List.ext_getElem
  · rw [flat_read_length, flat_read_length]
  · intro i h1 h2
    rw [flat_read_length] at h1
    rw [flat_read_getElem, flat_read_getElem, flat_write_frame]
    omega

/-- the clusters touched by a (non-empty) write become owned; all other `own`
    bits are unchanged -/
theorem flat_write_own (f : Flat) (off : Nat) (toks : List Nat) (g : Nat) :
    (f.write off toks).own.get g =
      if toks ≠ [] ∧ off / f.cs ≤ g ∧ g ≤ (off + toks.length * 512 - 1) / f.cs then true
      else f.own.get g :=
  Flat.write_own_get f off toks g

theorem flat_write_own_touched (f : Flat) (off : Nat) (toks : List Nat) (g : Nat)
    (hne : toks ≠ []) (h1 : off / f.cs ≤ g) (h2 : g ≤ (off + toks.length * 512 - 1) / f.cs) :
    (f.write off toks).own.get g = true := by
  rw [flat_write_own, if_pos ⟨hne, h1, h2⟩]

theorem flat_write_own_frame (f : Flat) (off : Nat) (toks : List Nat) (g : Nat)
    (h : ¬ (off / f.cs ≤ g ∧ g ≤ (off + toks.length * 512 - 1) / f.cs)) :
    (f.write off toks).own.get g = f.own.get g := by
  rw [flat_write_own, if_neg (fun x => h x.2)]

/-- ownership is never lost by a write -/
theorem flat_write_own_mono (f : Flat) (off : Nat) (toks : List Nat) (g : Nat)
    (h : f.own.get g = true) : (f.write off toks).own.get g = true := by
  rw [flat_write_own]; split <;> simp [h]

theorem flat_write_vsize (f : Flat) (off : Nat) (toks : List Nat) :
    (f.write off toks).vsize = f.vsize := Flat.write_vsize f off toks

theorem flat_write_cs (f : Flat) (off : Nat) (toks : List Nat) :
    (f.write off toks).cs = f.cs := Flat.write_cs f off toks

theorem flat_write_empty (f : Flat) (off : Nat) : f.write off [] = f := Flat.write_nil f off

/-! ## 2. Two writes: the last writer wins -/

theorem flat_write_write (f : Flat) (o1 o2 : Nat) (t1 t2 : List Nat) (s : Nat) :
    ((f.write o1 t1).write o2 t2).sec.get s =
      if o2 / 512 ≤ s ∧ s < o2 / 512 + t2.length then t2.getD (s - o2 / 512) 0
      else if o1 / 512 ≤ s ∧ s < o1 / 512 + t1.length then t1.getD (s - o1 / 512) 0
      else f.sec.get s := by
  rw [Flat.write_sec_get, Flat.write_sec_get]

/-- writes to disjoint sector ranges commute (sector-wise) -/
theorem flat_write_comm_disjoint (f : Flat) (o1 o2 : Nat) (t1 t2 : List Nat) (s : Nat)
    (h : o1 / 512 + t1.length ≤ o2 / 512 ∨ o2 / 512 + t2.length ≤ o1 / 512) :
    ((f.write o1 t1).write o2 t2).sec.get s = ((f.write o2 t2).write o1 t1).sec.get s := by
  rw [flat_write_write, flat_write_write]
  by_cases c1 : o1 / 512 ≤ s ∧ s < o1 / 512 + t1.length
  · rw [if_neg (by omega), if_pos c1, if_pos c1]
  · by_cases c2 : o2 / 512 ≤ s ∧ s < o2 / 512 + t2.length
    · rw [if_pos c2, if_neg c1, if_pos c2]
    · rw [if_neg c2, if_neg c1, if_neg c1, if_neg c2]

/-- writing the same range twice: only the second write is visible -/
theorem flat_write_overwrite (f : Flat) (off : Nat) (t1 t2 : List Nat) (h : t1.length = t2.length) :
    ((f.write off t1).write off t2).read off t2.length = t2 ∧
    ∀ s, ((f.write off t1).write off t2).sec.get s = (f.write off t2).sec.get s := by
  refine ⟨flat_read_write _ _ _, ?_⟩
  intro s
  rw [flat_write_write, Flat.write_sec_get, h]
  by_cases c : off / 512 ≤ s ∧ s < off / 512 + t2.length
  · rw [if_pos c, if_pos c]
  · rw [if_neg c, if_neg c, if_neg c]

/-! ## 3. Any number of writes: "overlaid with every completed write in order" -/

/-- apply the writes `(offset, tokens)` in list order -/
def applyWrites (f : Flat) (ws : List (Nat × List Nat)) : Flat :=
  ws.foldl (fun acc w => acc.write w.1 w.2) f

/-- `w` covers sector `s` -/
def Covers (w : Nat × List Nat) (s : Nat) : Prop := w.1 / 512 ≤ s ∧ s < w.1 / 512 + w.2.length

instance (w : Nat × List Nat) (s : Nat) : Decidable (Covers w s) := by unfold Covers; infer_instance

/-- the token `w` puts on the sector `s` it covers -/
def tokenAt (w : Nat × List Nat) (s : Nat) : Nat := w.2.getD (s - w.1 / 512) 0

/-- token of the last write in `ws` covering sector `s`, if any -/
def lastCovering : List (Nat × List Nat) → Nat → Option Nat
  | [], _ => none
  | w :: ws, s =>
    match lastCovering ws s with
    | some t => some t
    | none => if Covers w s then some (tokenAt w s) else none

theorem applyWrites_nil (f : Flat) : applyWrites f [] = f := rfl

theorem applyWrites_cons (f : Flat) (w : Nat × List Nat) (ws : List (Nat × List Nat)) :
    applyWrites f (w :: ws) = applyWrites (f.write w.1 w.2) ws := rfl

theorem applyWrites_append (f : Flat) (ws ws' : List (Nat × List Nat)) :
    applyWrites f (ws ++ ws') = applyWrites (applyWrites f ws) ws' := by
  unfold applyWrites; rw [List.foldl_append]

/-- no write covers `s` iff `lastCovering` finds none -/
theorem lastCovering_none_iff (ws : List (Nat × List Nat)) (s : Nat) :
    lastCovering ws s = none ↔ ∀ w ∈ ws, ¬ Covers w s := by
  induction ws with
  | nil => simp [lastCovering]
  | cons w ws ih =>
    rw [lastCovering]
    cases hl : lastCovering ws s with
    | some t =>
      simp only [reduceCtorEq, false_iff]
      intro h
      have : lastCovering ws s = none := ih.2 (fun w' hw' => h w' (List.mem_cons_of_mem _ hw'))
      rw [hl] at this; cases this
    | none =>
      have ih' := ih.1 hl
      by_cases c : Covers w s
      · simp only [c, if_true, reduceCtorEq, false_iff]
        intro h; exact h w (List.mem_cons_self) c
      · simp only [c, if_false, true_iff]
        intro w' hw'
        rcases List.mem_cons.1 hw' with rfl | h
        · exact c
        · exact ih' w' h

/-- `lastCovering` really is the last one: appending a write that covers `s`
    replaces the answer, appending one that does not leaves it -/
theorem lastCovering_append_single (ws : List (Nat × List Nat)) (w : Nat × List Nat) (s : Nat) :
    lastCovering (ws ++ [w]) s = if Covers w s then some (tokenAt w s) else lastCovering ws s := by
  induction ws with
  | nil =>
    show lastCovering [w] s = _
    simp [lastCovering]
  | cons w0 ws ih =>
    show lastCovering (w0 :: (ws ++ [w])) s = _
    rw [lastCovering, ih]
    by_cases c : Covers w s
    · simp [c]
    · simp only [c, if_false]
      rw [lastCovering]

/-- `lastCovering ws s = some t` exactly when `ws` splits around a write covering
    `s` with token `t` after which no write covers `s` -/
theorem lastCovering_some_iff (ws : List (Nat × List Nat)) (s t : Nat) :
    lastCovering ws s = some t ↔
      ∃ pre w post, ws = pre ++ w :: post ∧ Covers w s ∧ tokenAt w s = t ∧ ∀ w' ∈ post, ¬ Covers w' s := by
  induction ws with
  | nil => simp [lastCovering]
  | cons w0 ws ih =>
    rw [lastCovering]
    cases hl : lastCovering ws s with
    | some t' =>
      dsimp only
      constructor
      · intro h
        obtain ⟨pre, w, post, e, c, tk, hp⟩ := ih.1 (by rw [hl, h])
        exact ⟨w0 :: pre, w, post, by rw [e]; rfl, c, tk, hp⟩
      · rintro ⟨pre, w, post, e, c, tk, hp⟩
        cases pre with
        | nil =>
          simp only [List.nil_append, List.cons.injEq] at e
          obtain ⟨rfl, rfl⟩ := e
          have := (lastCovering_none_iff _ s).2 hp
          rw [hl] at this; cases this
        | cons p pre =>
          simp only [List.cons_append, List.cons.injEq] at e
          obtain ⟨rfl, rfl⟩ := e
          have := ih.2 ⟨pre, w, post, rfl, c, tk, hp⟩
          rw [← this, hl]
    | none =>
      have hn := (lastCovering_none_iff ws s).1 hl
      dsimp only
      constructor
      · intro h
        by_cases c : Covers w0 s
        · simp only [c, if_true, Option.some.injEq] at h
          exact ⟨[], w0, ws, rfl, c, h, hn⟩
        · simp [c] at h
      · rintro ⟨pre, w, post, e, c, tk, hp⟩
        cases pre with
        | nil =>
          simp only [List.nil_append, List.cons.injEq] at e
          obtain ⟨rfl, rfl⟩ := e
          simp [c, tk]
        | cons p pre =>
          simp only [List.cons_append, List.cons.injEq] at e
          obtain ⟨rfl, rfl⟩ := e
          exact absurd c (hn w (by simp))

/-- the content of sector `s` after any sequence of writes is the token of the
    last write covering `s`, or the initial content if none covers it -/
theorem flat_read_after_writes (f : Flat) (ws : List (Nat × List Nat)) (s : Nat) :
    (applyWrites f ws).sec.get s = (lastCovering ws s).getD (f.sec.get s) := by
  induction ws generalizing f with
  | nil => rfl
  | cons w ws ih =>
    rw [applyWrites_cons, ih, lastCovering]
    cases hl : lastCovering ws s with
    | some t => rfl
    | none =>
      dsimp only [Option.getD]
      rw [Flat.write_sec_get]
      by_cases c : Covers w s
      · rw [if_pos c, if_pos (show w.1 / 512 ≤ s ∧ s < w.1 / 512 + w.2.length from c)]; rfl
      · rw [if_neg c, if_neg (show ¬ (w.1 / 512 ≤ s ∧ s < w.1 / 512 + w.2.length) from c)]

/-- the same for a whole read -/
theorem flat_read_after_writes_read (f : Flat) (ws : List (Nat × List Nat)) (off n : Nat) :
    (applyWrites f ws).read off n =
      (List.range n).map (fun i => (lastCovering ws (off / 512 + i)).getD (f.sec.get (off / 512 + i))) := by
  unfold Flat.read
  apply List.map_congr_left
  intro i _
  exact flat_read_after_writes f ws _

/-- sectors covered by no write keep their initial content -/
theorem flat_after_writes_frame (f : Flat) (ws : List (Nat × List Nat)) (s : Nat)
    (h : ∀ w ∈ ws, ¬ Covers w s) : (applyWrites f ws).sec.get s = f.sec.get s := by
  rw [flat_read_after_writes, (lastCovering_none_iff ws s).2 h]; rfl

theorem flat_after_writes_vsize_cs (f : Flat) (ws : List (Nat × List Nat)) :
    (applyWrites f ws).vsize = f.vsize ∧ (applyWrites f ws).cs = f.cs := by
  induction ws generalizing f with
  | nil => exact ⟨rfl, rfl⟩
  | cons w ws ih =>
    rw [applyWrites_cons]
    obtain ⟨a, b⟩ := ih (f.write w.1 w.2)
    exact ⟨a.trans (flat_write_vsize _ _ _), b.trans (flat_write_cs _ _ _)⟩

/-! ## 4. Non-vacuity: concrete instances -/

/-- an empty 4 KiB disk with 1 KiB clusters -/
def flatEx : Flat := { vsize := 4096, cs := 1024, sec := FMap.empty 0, own := FMap.empty false }

example : (flatEx.write 512 [7, 8]).read 512 2 = [7, 8] := flat_read_write flatEx 512 [7, 8]
example : (flatEx.write 512 [7, 8]).sec.get 2 = 8 := flat_write_inside flatEx 512 [7, 8] 1 (by decide)
example : (flatEx.write 512 [7, 8]).sec.get 3 = 0 := by
  rw [flat_write_frame _ _ _ _ (by decide)]; exact FMap.get_empty _ _
example : (flatEx.write 512 [7, 8]).own.get 0 = true ∧ (flatEx.write 512 [7, 8]).own.get 1 = true ∧
    (flatEx.write 512 [7, 8]).own.get 2 = false := by
  refine ⟨?_, ?_, ?_⟩
  · exact flat_write_own_touched _ _ _ _ (by decide) (by decide) (by decide)
  · exact flat_write_own_touched _ _ _ _ (by decide) (by decide) (by decide)
  · rw [flat_write_own_frame _ _ _ _ (by decide)]; exact FMap.get_empty _ _
/-- overlapping writes: sector 2 is covered by both, the later one wins; sector 1
    only by the first; sector 5 by none -/
example : lastCovering [(512, [7, 8]), (1024, [9])] 2 = some 9 ∧
    lastCovering [(512, [7, 8]), (1024, [9])] 1 = some 7 ∧
    lastCovering [(512, [7, 8]), (1024, [9])] 5 = none := by decide
example : (applyWrites flatEx [(512, [7, 8]), (1024, [9])]).sec.get 2 = 9 := by
  rw [flat_read_after_writes]; decide
example : (applyWrites flatEx [(512, [7, 8]), (1024, [9])]).read 0 4 = [0, 7, 9, 0] := by
  rw [flat_read_after_writes_read]
  simp [List.range_succ, flatEx, lastCovering, Covers, tokenAt]

end Qv.Props.C01
