import Qv.Proofs.RefineCowComp
import Qv.Props.C01RefineMore
/-
C10 / C01, model side: the refinement step for a write into a COMPRESSED cluster
(`do_write_cow` with a compressed source) — item (3) of the "not covered" list of
`C01RefineMore`.  Helper lemmas: `Qv/Proofs/RefineCowComp.lean`.

How the model represents compressed clusters.  The plaintext of compressed data is
`Dev.comp : FMap (FMap Nat)`, keyed by the HOST BYTE OFFSET of the compressed data (the
`clusterOffset` of the compressed mapping; not cluster aligned), then by sector index
`0 ≤ k < spc`.  `do_read` of a compressed entry, hence the abstraction function `guestSec`,
returns `(d.comp.get byteOffset).get k` (`guestSec_compressed`).  `comp` is never changed
by any operation (`SameBack`, C10).  Two compressed guest clusters that share a host
cluster have different byte offsets, so different `comp` keys: releasing the host clusters
of one (refcount − 1 each; no data-plane change, no hole punch) does not disturb the other.

* `WFC d`  (RefineCowComp) well-formedness of a device that may hold compressed clusters:
           `WInv d` (C03Write: exact refcount accounting incl. the host clusters of compressed
           data, geometry), block size ≥ 512, data-file entries COPIED and cluster aligned,
           `MapInj`, `NewOK`.  NOTHING is assumed about a backing image (`d.back`,
           `has_back_file` arbitrary: the theorems hold with and without one) nor about the
           compressed entries themselves (`compressed_entry`: every entry with bit 62 decodes
           to a compressed mapping with a byte offset and a length ≥ 1).
* `write_cow_compressed_refines`   the step: `WFC d'`, `Refines d' (f.write off toks)`,
           `SameBack d d'`, the cluster is a standard (COPIED, data-file) cluster on a fresh
           aligned host cluster, every other L2 entry is unchanged;
* `write_cow_compressed_cluster`   the guest view of the cluster: request over plaintext;
* `write_cow_compressed_other`     every sector of every other cluster reads what it read;
  `write_cow_compressed_other_compressed`  in particular another compressed cluster still
           shows its `comp` plaintext — whether or not it shares a host cluster with the
           released compressed data;
* `write_cow_compressed_succeeds` (RefineCowComp) success criterion from the allocator alone;
* `devC`, `devC_cow_write`         non-vacuity: a device with TWO compressed guest clusters
           whose compressed data share host cluster 5 (refcount 2).
* `write_zero_flagged_refines`, `write_zero_flagged_cluster`, `write_zero_flagged_backing`:
           the same step for a request inside one ZERO-FLAGGED cluster without preallocation
           (item (1) of the open list of C01RefineMore), on `WFC` devices and, as a corollary,
           on devices with a backing image (`WFB`).  No non-vacuity example for this step
           (the hypotheses "returned `Ok`, did not grow" are assumed).

Not covered: requests spanning several clusters of which some are compressed / zero-flagged
on a device with a backing image; zero-flagged entries WITH preallocation (leak, C03);
writes that grow the reftable; histories (an `OpOK` clause for these steps is not added to
`history_refines_backing`, though `step` lemmas of this file have the shape it needs).
-/
namespace Qv.Props.C10Refine
open Qv Qv.Codec Qv.Model Qv.Model.RW
open Qv.Props.C15 (Geom)
open Qv.Proofs.RefineDiscard
open Qv.Proofs.RefineCow
open Qv.Proofs.RefineCowComp
open Qv.Spec (Flat)

/-- **the step.**  `WFC d`, the device shows `f`.  An accepted, non-empty request inside ONE
    guest cluster whose entry is a compressed descriptor — partial or whole cluster — that
    returns `Ok` without growing the reftable (path `populate_single_write_mapping` (no-op)
    → `do_write` → `do_write_cow` → `alloc_and_map_cluster` → `do_write_data_file` with the
    compressed mapping as COW source → `free_clusters` of the compressed data's host
    clusters): the device is well-formed again (in particular the accounting is exact: the
    new cluster has refcount 1, the released clusters lost one reference each) and shows
    `f.write off toks`; the backing image, the compressed plaintext store, geometry and
    version are unchanged (`SameBack`); the cluster is a standard data-file cluster on a
    cluster-aligned host cluster `x` that no data-file mapping used before; no other L2
    entry changed. -/
theorem write_cow_compressed_refines (d d' : Dev) (f : Flat) (off len : Nat) (toks : List Nat)
    (wf : WFC d) (hr : Refines d f)
    (hc : writeCheck d.info off len = none) (hl : len ≠ 0)
    (hsingle : off / d.info.clusterSize = (off + len - 1) / d.info.clusterSize)
    (htoks : toks.length = len / 512)
    (hsrc : (d.mapping off).source = .compressed)
    (hw : writeAt off len toks d = (d', .ok ())) (hng : d'.rtLen = d.rtLen) :
    WFC d' ∧ Refines d' (f.write off toks) ∧ SameBack d d' ∧
      ∃ x, x % d.info.clusterSize = 0 ∧ 0 < x ∧
        (∀ o, o / d.info.clusterSize = off / d.info.clusterSize → d'.mapping o = plainMapping x) ∧
        (∀ o, o / d.info.clusterSize ≠ off / d.info.clusterSize → d'.l2Entry o = d.l2Entry o) ∧
        (∀ o h', o < d.info.vsize → (d.mapping o).source = .dataFile →
          (d.mapping o).clusterOffset = some h' → h' / d.info.clusterSize ≠ x / d.info.clusterSize) := by
  have hcs := cs_pos d.info
  obtain ⟨hv, hlb, hob, _⟩ := writeCheck_none hc
  have ho512 := Qv.Props.C01Refine.mod512_of_mod_bs wf.bsb9 hob
  have hl512 := Qv.Props.C01Refine.mod512_of_mod_bs wf.bsb9 hlb
  have hfit := single_cluster_fits hcs hsingle
  have hsb : SameBack d d' := by
    have := Qv.Props.C10.writeAt_sameBack off len toks d
    rw [hw] at this; exact this
  have hcap : Cap d' := wf.winv.shape.cap56.of_eq hsb.2.2.1 hng
  have hcomp : L2.isCompressed (d.l2Entry off) = true := (source_compressed_iff _ _ _ _).1 hsrc
  obtain ⟨w', _⟩ := writeAt_single_compressed_winv wf.winv hc hl hsingle hcomp hw hcap
  rw [writeAt_compressed_eq toks hc hl hsingle hsrc] at hw
  obtain ⟨x, st⟩ := doWriteCow_compressed_state wf hsrc hw hng
  exact ⟨cowc_wfc wf st w', cowc_refines wf hr st ho512 (by rw [htoks]; omega) hsrc, hsb,
    x, st.aligned, st.pos, st.mapped, st.other, st.fresh⟩

/-- **the merge, seen from the guest** (`cow_source_compressed` of C10).  After such a write
    a sector of the cluster shows the request where the request covers it, and otherwise
    the decompressed content: sector `s mod spc` of the plaintext `d.comp[co]` of the
    compressed data at host byte offset `co` — which is what it showed before. -/
theorem write_cow_compressed_cluster (d d' : Dev) (f : Flat) (off len co : Nat) (toks : List Nat)
    (wf : WFC d) (hr : Refines d f)
    (hc : writeCheck d.info off len = none) (hl : len ≠ 0)
    (hsingle : off / d.info.clusterSize = (off + len - 1) / d.info.clusterSize)
    (htoks : toks.length = len / 512)
    (hsrc : (d.mapping off).source = .compressed) (hco : (d.mapping off).clusterOffset = some co)
    (hw : writeAt off len toks d = (d', .ok ())) (hng : d'.rtLen = d.rtLen)
    (s : Nat) (hs : (s + 1) * 512 ≤ d.info.vsize)
    (hcl : s * 512 / d.info.clusterSize = off / d.info.clusterSize) :
    guestSec d' s =
      (if off / 512 ≤ s ∧ s < off / 512 + toks.length then toks.getD (s - off / 512) 0
       else (d.comp.get co).get (s * 512 % d.info.clusterSize / 512)) ∧
    guestSec d s = (d.comp.get co).get (s * 512 % d.info.clusterSize / 512) := by
  obtain ⟨_, hr', hsb, _⟩ := write_cow_compressed_refines d d' f off len toks wf hr hc hl hsingle htoks hsrc hw hng
  have hcs := cs_pos d.info
  have hspc := cs512W wf.winv
  have hmc : d.mapping (s * 512) = d.mapping off := mapping_congr d hcl
  have hold : guestSec d s = (d.comp.get co).get (s * 512 % d.info.clusterSize / 512) := by
    have hlt := Nat.mod_lt (s * 512) hcs
    rw [guestSec_compressed d s (by rw [hmc]; exact hsrc), if_pos (by omega), hmc, hco]
    rfl
  refine ⟨?_, hold⟩
  rw [hr' s (by rw [hsb.2.2.1]; exact hs), flat_write_sec]
  split
  · rfl
  · rw [← hr s hs, hold]

/-- **every other cluster is unchanged**: a sector outside the guest cluster of the request
    reads what it read before, and its L2 entry is the same -/
theorem write_cow_compressed_other (d d' : Dev) (f : Flat) (off len : Nat) (toks : List Nat)
    (wf : WFC d) (hr : Refines d f)
    (hc : writeCheck d.info off len = none) (hl : len ≠ 0)
    (hsingle : off / d.info.clusterSize = (off + len - 1) / d.info.clusterSize)
    (htoks : toks.length = len / 512)
    (hsrc : (d.mapping off).source = .compressed)
    (hw : writeAt off len toks d = (d', .ok ())) (hng : d'.rtLen = d.rtLen)
    (s : Nat) (hs : (s + 1) * 512 ≤ d.info.vsize)
    (hcl : s * 512 / d.info.clusterSize ≠ off / d.info.clusterSize) :
    guestSec d' s = guestSec d s ∧ d'.mapping (s * 512) = d.mapping (s * 512) := by
  obtain ⟨_, hr', hsb, _, _, _, _, hoth, _⟩ :=
    write_cow_compressed_refines d d' f off len toks wf hr hc hl hsingle htoks hsrc hw hng
  have hcs := cs_pos d.info
  obtain ⟨hv, hlb, hob, _⟩ := writeCheck_none hc
  have ho512 := Qv.Props.C01Refine.mod512_of_mod_bs wf.bsb9 hob
  have hl512 := Qv.Props.C01Refine.mod512_of_mod_bs wf.bsb9 hlb
  have hfit := single_cluster_fits hcs hsingle
  refine ⟨?_, mapping_of_l2Entry hsb.2.2.1 (hoth _ hcl)⟩
  rw [hr' s (by rw [hsb.2.2.1]; exact hs), flat_write_sec, if_neg, hr s hs]
  intro hin
  exact hcl (piece_sector_cluster (n := toks.length) (by rw [htoks]; omega) hin.1 hin.2 ho512)

/-- … in particular ANOTHER compressed cluster — for instance one whose compressed data lie
    in the same host cluster as the data just released — is still a compressed cluster with
    the same descriptor and still shows its plaintext `d.comp[co₂]` -/
theorem write_cow_compressed_other_compressed (d d' : Dev) (f : Flat) (off len co2 : Nat) (toks : List Nat)
    (wf : WFC d) (hr : Refines d f)
    (hc : writeCheck d.info off len = none) (hl : len ≠ 0)
    (hsingle : off / d.info.clusterSize = (off + len - 1) / d.info.clusterSize)
    (htoks : toks.length = len / 512)
    (hsrc : (d.mapping off).source = .compressed)
    (hw : writeAt off len toks d = (d', .ok ())) (hng : d'.rtLen = d.rtLen)
    (s : Nat) (hs : (s + 1) * 512 ≤ d.info.vsize)
    (hcl : s * 512 / d.info.clusterSize ≠ off / d.info.clusterSize)
    (hsrc2 : (d.mapping (s * 512)).source = .compressed)
    (hco2 : (d.mapping (s * 512)).clusterOffset = some co2) :
    (d'.mapping (s * 512)).source = .compressed ∧ (d'.mapping (s * 512)).clusterOffset = some co2 ∧
      guestSec d' s = (d.comp.get co2).get (s * 512 % d.info.clusterSize / 512) ∧ d'.comp = d.comp := by
  obtain ⟨h1, h2⟩ := write_cow_compressed_other d d' f off len toks wf hr hc hl hsingle htoks hsrc hw hng s hs hcl
  have hsb : SameBack d d' := by
    have := Qv.Props.C10.writeAt_sameBack off len toks d
    rw [hw] at this; exact this
  have hcs := cs_pos d.info
  have hspc := cs512W wf.winv
  have hlt := Nat.mod_lt (s * 512) hcs
  refine ⟨by rw [h2]; exact hsrc2, by rw [h2]; exact hco2, ?_, hsb.2.1⟩
  rw [h1, guestSec_compressed d s hsrc2, if_pos (by omega), hco2]
  rfl

/-! ## non-vacuity: two compressed clusters that share a host cluster -/

open Qv.Props.C03 (withL2 withL2_rc withL2_l1At withL2_acct fmtEx fmt_rt)
open Qv.Props.C08 (geomEx)

/-- compressed descriptor: bit 62, compressed data at host byte offset 0x50000, one sector -/
def eA : E64 := 0x4000000000050000#64
/-- compressed descriptor: compressed data at host byte offset 0x50200 (the SAME host
    cluster 5), one sector -/
def eB : E64 := 0x4000000000050200#64
def tabC : FMap E64 := ((FMap.empty 0#64).set 0 eA).set 1 eB
/-- plaintext of guest cluster 0: sectors 50, 51, then zeros -/
def pA : FMap Nat := ((FMap.empty 0).set 0 50).set 1 51
/-- plaintext of guest cluster 1: sector 60, then zeros -/
def pB : FMap Nat := (FMap.empty 0).set 0 60

/-- `withL2` (C03: formatted 1 GiB image, 64 KiB clusters, L2 table of L1 slot 0 in host
    cluster 4, clusters 0–4 in use) with guest cluster 0 compressed -/
def devC1 : Dev :=
  { withL2 with l2 := withL2.l2.set 0x40000 ((FMap.empty 0#64).set 0 eA), rc := withL2.rc.set 5 1 }

/-- … and guest clusters 0 AND 1 compressed, both in host cluster 5 (refcount 2), the
    plaintexts in `comp` under the two byte offsets; allocator hint at the free cluster 6.
    No backing image. -/
def devC : Dev :=
  { withL2 with l2 := withL2.l2.set 0x40000 tabC, rc := withL2.rc.set 5 2, hint := 0x60000,
                comp := ((FMap.empty (FMap.empty 0)).set 0x50000 pA).set 0x50200 pB }

theorem eA_range : L2.compressedRange 16 eA = some (0x50000, 512) := by decide
theorem eB_range : L2.compressedRange 16 eB = some (0x50200, 512) := by decide
theorem eA_alloc : L2.allocation 16 eA = some (0x50000, 1) := by decide
theorem eB_alloc : L2.allocation 16 eB = some (0x50000, 1) := by decide

theorem slot_of (d : Dev) (h1 : d.l1 = withL2.l1) (h2 : d.l1Len = withL2.l1Len) (i j : Nat) :
    d.slot i j = if i = 0 then (d.l2.get 0x40000).get j else 0#64 := by
  have hat : d.l1At i = withL2.l1At i := by unfold Dev.l1At; rw [h1, h2]
  unfold Dev.slot
  rw [hat, withL2_l1At]
  by_cases hi : i = 0
  · rw [if_pos hi, if_pos hi]
    have hz : L1.isZero (L1.mapEntry 0x40000) = false := by decide
    have h3 : (L1.l2Offset (L1.mapEntry 0x40000)).toNat = 0x40000 := by decide
    rw [if_neg (by simp [hz]), h3]
  · rw [if_neg hi, if_neg hi, if_pos (by decide)]

theorem withL2_tab : withL2.l2.get 0x40000 = FMap.empty 0#64 := by
  show (fmtEx.l2.set 0x40000 (FMap.empty 0#64)).get 0x40000 = _
  simp

theorem devC1_tab : devC1.l2.get 0x40000 = (FMap.empty 0#64).set 0 eA := by
  show (withL2.l2.set 0x40000 ((FMap.empty 0#64).set 0 eA)).get 0x40000 = _
  simp

theorem devC_tab : devC.l2.get 0x40000 = tabC := by
  show (withL2.l2.set 0x40000 tabC).get 0x40000 = _
  simp

theorem devC1_acct : Acct devC1 := by
  apply acct_set_slot (d := withL2) (d' := devC1) (i0 := 0) (j0 := 0) (e := eA) withL2_acct
    ⟨rfl, rfl, rfl, rfl, rfl⟩ (fun _ _ => rfl) rfl rfl (by decide) (by decide)
  · rw [slot_of withL2 rfl rfl, if_pos rfl, withL2_tab, FMap.get_empty]
    exact L2.allocation_zero _
  · intro i j _ _
    rw [slot_of devC1 rfl rfl, slot_of withL2 rfl rfl, devC1_tab, withL2_tab, FMap.get_set, FMap.get_empty]
    by_cases hi : i = 0 <;> by_cases hj : j = 0
    · subst hi; subst hj; simp
    · have : ¬ 0 = j := fun x => hj x.symm
      simp [hi, hj, this]
    · simp [hi]
    · simp [hi]
  · intro c
    show (withL2.rc.set 5 1).get c = withL2.rc.get c + covers withL2.cs (L2.allocation 16 eA) c
    have h5 : 0x50000 / withL2.cs = 5 := by decide
    rw [eA_alloc, covers_some, h5, FMap.get_set, withL2_rc]
    by_cases h : 5 = c
    · subst h; simp
    · have hn : ¬ (5 ≤ c ∧ c < 5 + 1) := by omega
      rw [if_neg h, if_neg hn]; rfl

theorem devC_acct : Acct devC := by
  apply acct_set_slot (d := devC1) (d' := devC) (i0 := 0) (j0 := 1) (e := eB) devC1_acct
    ⟨rfl, rfl, rfl, rfl, rfl⟩ (fun _ _ => rfl) rfl rfl (by decide) (by decide)
  · rw [slot_of devC1 rfl rfl, if_pos rfl, devC1_tab, FMap.get_set_other _ _ _ _ (by decide), FMap.get_empty]
    exact L2.allocation_zero _
  · intro i j _ _
    rw [slot_of devC rfl rfl, slot_of devC1 rfl rfl, devC_tab, devC1_tab]
    unfold tabC
    rw [FMap.get_set]
    by_cases hi : i = 0 <;> by_cases hj : j = 1
    · subst hi; subst hj; simp
    · have : ¬ 1 = j := fun x => hj x.symm
      simp [hi, hj, this]
    · simp [hi]
    · simp [hi]
  · intro c
    show (withL2.rc.set 5 2).get c = (withL2.rc.set 5 1).get c + covers withL2.cs (L2.allocation 16 eB) c
    have h5 : 0x50000 / withL2.cs = 5 := by decide
    rw [eB_alloc, covers_some, h5, FMap.get_set, FMap.get_set]
    by_cases h : 5 = c
    · subst h; simp
    · rw [if_neg h, if_neg h, if_neg (by omega)]; rfl

theorem devC_winv : WInv devC := by
  have w := Qv.Props.C03Write.withL2_winv
  refine ⟨w.shape.congr rfl rfl rfl rfl rfl rfl, ⟨?_, w.dom.sync, w.dom.tail⟩, devC_acct⟩
  intro c hz
  have hz' : RT.isZero (rtEntryAt withL2 (c * withL2.info.clusterSize)) = true := hz
  have h0 := w.dom.zero c hz'
  show (withL2.rc.set 5 2).get c = 0
  rw [FMap.get_set]
  by_cases h : 5 = c
  · subst h
    exact absurd hz' (fmt_rt withL2 rfl rfl rfl _ (by decide))
  · rw [if_neg h]; exact h0

theorem devC_l2Entry (o : Nat) :
    devC.l2Entry o = if o < 65536 then eA else if o < 131072 then eB else 0#64 := by
  rw [Dev.l2Entry_eq_slot, slot_of devC rfl rfl, devC_tab]
  show (if o / 2^(16 + 13) = 0 then tabC.get (o / 2^16 % 2^13) else 0#64) = _
  unfold tabC
  rw [FMap.get_set, FMap.get_set, FMap.get_empty]
  by_cases h1 : o < 65536
  · rw [if_pos h1, if_pos (by omega), if_neg (by omega), if_pos (by omega)]
  · rw [if_neg h1]
    by_cases h2 : o < 131072
    · rw [if_pos h2, if_pos (by omega), if_pos (by omega)]
    · rw [if_neg h2]
      by_cases h3 : o / 2^(16 + 13) = 0
      · rw [if_pos h3, if_neg (by omega), if_neg (by omega)]
      · rw [if_neg h3]

theorem mapA (g : Nat) : L2.intoMapping 16 false g eA =
    { source := .compressed, clusterOffset := some 0x50000, compressedLength := some 512, copied := false } := by
  unfold L2.intoMapping
  rw [eA_range]

theorem mapB (g : Nat) : L2.intoMapping 16 false g eB =
    { source := .compressed, clusterOffset := some 0x50200, compressedLength := some 512, copied := false } := by
  unfold L2.intoMapping
  rw [eB_range]

/-- guest clusters 0 and 1 of `devC` are compressed (byte offsets 0x50000, 0x50200), every
    other cluster is unallocated -/
theorem devC_mapping (o : Nat) : devC.mapping o =
    if o < 65536 then
      { source := .compressed, clusterOffset := some 0x50000, compressedLength := some 512, copied := false }
    else if o < 131072 then
      { source := .compressed, clusterOffset := some 0x50200, compressedLength := some 512, copied := false }
    else { source := .unallocated, clusterOffset := some 0, compressedLength := none, copied := false } := by
  unfold Dev.mapping
  rw [devC_l2Entry]
  show L2.intoMapping 16 false _ _ = _
  split
  · exact mapA _
  · split
    · exact mapB _
    · exact L2.intoMapping_zero _ _

theorem devC_not_dataFile (o : Nat) : (devC.mapping o).source ≠ .dataFile := by
  rw [devC_mapping]
  repeat' split
  all_goals decide

theorem devC_wfc : WFC devC := by
  refine ⟨devC_winv, by decide, ?_, ?_, ?_⟩
  · intro o _ h hs _
    exact absurd hs (devC_not_dataFile o)
  · intro p q _ _ _ _ _ sp _ _ _
    exact absurd sp (devC_not_dataFile p)
  · intro o _ hn
    obtain ⟨_, hs, _⟩ := hn
    exact absurd hs (devC_not_dataFile o)

/-- the flat disk `devC` shows: guest sectors 0, 1 (cluster 0) and 128 (cluster 1) -/
def flatC : Flat :=
  { vsize := 2^30, cs := 2^16, sec := (((FMap.empty 0).set 0 50).set 1 51).set 128 60, own := FMap.empty false }

theorem devC_comp_A : devC.comp.get 0x50000 = pA := by
  show (((FMap.empty (FMap.empty 0)).set 0x50000 pA).set 0x50200 pB).get 0x50000 = pA
  rw [FMap.get_set_other _ _ _ _ (by decide), FMap.get_set_same]

theorem devC_comp_B : devC.comp.get 0x50200 = pB := by
  show (((FMap.empty (FMap.empty 0)).set 0x50000 pA).set 0x50200 pB).get 0x50200 = pB
  rw [FMap.get_set_same]

theorem devC_refines : Refines devC flatC := by
  intro s hs
  have hs' : (s + 1) * 512 ≤ 1073741824 := hs
  show _ = ((((FMap.empty 0).set 0 50).set 1 51).set 128 60).get s
  rw [FMap.get_set, FMap.get_set, FMap.get_set, FMap.get_empty]
  have hm := devC_mapping (s * 512)
  have hcs : devC.info.clusterSize = 65536 := rfl
  have hspc : devC.spc = 128 := rfl
  by_cases h1 : s < 128
  · rw [if_pos (by omega)] at hm
    rw [guestSec_compressed devC s (by rw [hm]), hm, hcs, hspc, if_pos (by omega)]
    show (devC.comp.get 0x50000).get _ = _
    have : s * 512 % 65536 / 512 = s := by omega
    rw [devC_comp_A, this, if_neg (by omega)]
    unfold pA
    rw [FMap.get_set, FMap.get_set, FMap.get_empty]
  · rw [if_neg (by omega)] at hm
    by_cases h2 : s < 256
    · rw [if_pos (by omega)] at hm
      rw [guestSec_compressed devC s (by rw [hm]), hm, hcs, hspc, if_pos (by omega)]
      show (devC.comp.get 0x50200).get _ = _
      have : s * 512 % 65536 / 512 = s - 128 := by omega
      rw [devC_comp_B, this]
      unfold pB
      rw [FMap.get_set, FMap.get_empty]
      by_cases h3 : 128 = s
      · subst h3; rfl
      · rw [if_neg h3, if_neg (by omega), if_neg (by omega), if_neg (by omega)]
    · rw [if_neg (by omega)] at hm
      rw [guestSec_unallocated devC s (by rw [hm]), if_neg (by omega), if_neg (by omega), if_neg (by omega)]

/-- **the step is not vacuous.**  `devC` has two compressed guest clusters whose compressed
    data share host cluster 5 (refcount 2).  The one-sector write of token 7 at guest offset 0
    satisfies every hypothesis of `write_cow_compressed_refines`; it returns `Ok` without
    growing the reftable; afterwards the device is well-formed (exact accounting), guest
    cluster 0 is a standard data-file cluster and reads `[7, 51, 0]` (request over the
    plaintext), guest cluster 1 — whose compressed data lie in the host cluster that was
    just released once — is still compressed at byte offset 0x50200 and still reads `[60]`;
    `comp` is unchanged. -/
theorem devC_cow_write : ∃ d', writeAt 0 512 [7] devC = (d', .ok ()) ∧ d'.rtLen = devC.rtLen ∧
    WFC d' ∧ SameBack devC d' ∧
    (d'.mapping 0).source = .dataFile ∧ (d'.mapping 0).copied = true ∧
    readAt d' 0 1536 = .ok (1536, [7, 51, 0]) ∧
    (d'.mapping 65536).source = .compressed ∧ (d'.mapping 65536).clusterOffset = some 0x50200 ∧
    readAt d' 65536 512 = .ok (512, [60]) := by
  have hsrc0 : (devC.mapping 0).source = .compressed := by rw [devC_mapping]; rfl
  obtain ⟨dB, hal, hngB⟩ := allocateClusters_one_free_hint devC devC_winv.shape.geo (by decide)
    (by
      have : devC.rt.get (Host.rtIndex devC.info devC.hint) = 0x20000#64 := by
        show fmtEx.rt.get 0 = _; simp [fmtEx]
      rw [this]; decide)
    (by
      have : devC.hint / devC.info.clusterSize = 6 := by decide
      rw [this]
      show (withL2.rc.set 5 2).get 6 = 0
      rw [FMap.get_set_other _ _ _ _ (by decide), withL2_rc]; decide)
  obtain ⟨d', hw, hng⟩ := write_cow_compressed_succeeds [7] devC_wfc (off := 0) (len := 512) (by decide)
    (by decide) (by decide) hsrc0 hal hngB
  obtain ⟨wf', hr', hsb, x, _, _, hmp, _, _⟩ := write_cow_compressed_refines devC d' flatC 0 512 [7]
    devC_wfc devC_refines (by decide) (by decide) (by decide) rfl hsrc0 hw hng
  have hi' : d'.info = devC.info := hsb.2.2.1
  obtain ⟨hs2, hc2, _, _⟩ := write_cow_compressed_other_compressed devC d' flatC 0 512 0x50200 [7]
    devC_wfc devC_refines (by decide) (by decide) (by decide) rfl hsrc0 hw hng 128 (by decide) (by decide)
    (by rw [devC_mapping]; rfl) (by rw [devC_mapping]; rfl)
  have hrd1 := Qv.Props.C01Model.refines_read _ _ hr' 0 1536 (by rw [hi']; decide) (by rw [hi']; decide)
    (by decide) (by rw [hi']; decide) (by rw [hi']; decide) (by decide) (by decide)
  have hrd2 := Qv.Props.C01Model.refines_read _ _ hr' 65536 512 (by rw [hi']; decide) (by rw [hi']; decide)
    (by decide) (by rw [hi']; decide) (by rw [hi']; decide) (by decide) (by decide)
  have e1 : (flatC.write 0 [7]).read 0 (1536 / 512) = [7, 51, 0] := by
    show (List.range 3).map (fun i => (flatC.write 0 [7]).sec.get (0 / 512 + i)) = [7, 51, 0]
    have l : List.range 3 = [0, 1, 2] := rfl
    rw [l]
    simp only [List.map_cons, List.map_nil, flat_write_sec]
    simp [flatC, FMap.get_set]
  have e2 : (flatC.write 0 [7]).read 65536 (512 / 512) = [60] := by
    show (List.range 1).map (fun i => (flatC.write 0 [7]).sec.get (65536 / 512 + i)) = [60]
    have l : List.range 1 = [0] := rfl
    rw [l]
    simp only [List.map_cons, List.map_nil, flat_write_sec]
    simp [flatC]
  refine ⟨d', hw, hng, wf', hsb, by rw [hmp 0 rfl]; rfl, by rw [hmp 0 rfl]; rfl, by rw [hrd1, e1],
    hs2, hc2, by rw [hrd2, e2]⟩

/-! ## a partial write into a ZERO-FLAGGED cluster (item (1) of the open list of C01RefineMore)

`need_make_mapping` is true for a zero-flagged entry whatever `has_back_file` says, so the
path is `make_single_write_mapping` → `alloc_and_map_cluster` → `do_write` on the new
standard entry → zero-once + payload; no copy from the backing image.  `WFC` assumes nothing
about a backing image, so the step holds on devices with and without one (and with compressed
clusters elsewhere).  The entry must have NO preallocated cluster (`allocation = none`, e.g.
the entry `1` a discard leaves on a device with a backing image): with a preallocation the
code drops the old cluster (finding C03, leak) and the accounting part of `WFC d'` fails. -/

theorem write_zero_flagged_refines (d d' : Dev) (f : Flat) (off len : Nat) (toks : List Nat)
    (wf : WFC d) (hr : Refines d f)
    (hc : writeCheck d.info off len = none) (hl : len ≠ 0)
    (hsingle : off / d.info.clusterSize = (off + len - 1) / d.info.clusterSize)
    (htoks : toks.length = len / 512)
    (hsrc : (d.mapping off).source = .zero)
    (hnp : L2.allocation d.info.cb (d.l2Entry off) = none)
    (hw : writeAt off len toks d = (d', .ok ())) (hng : d'.rtLen = d.rtLen) :
    WFC d' ∧ Refines d' (f.write off toks) ∧ SameBack d d' ∧
      ∃ x, x % d.info.clusterSize = 0 ∧ 0 < x ∧
        (∀ o, o / d.info.clusterSize = off / d.info.clusterSize → d'.mapping o = plainMapping x) ∧
        (∀ o, o / d.info.clusterSize ≠ off / d.info.clusterSize → d'.l2Entry o = d.l2Entry o) := by
  have hcs := cs_pos d.info
  obtain ⟨hv, hlb, hob, _⟩ := writeCheck_none hc
  have ho512 := Qv.Props.C01Refine.mod512_of_mod_bs wf.bsb9 hob
  have hl512 := Qv.Props.C01Refine.mod512_of_mod_bs wf.bsb9 hlb
  have hfit := single_cluster_fits hcs hsingle
  have hfit' : off % d.info.clusterSize + toks.length * 512 ≤ d.info.clusterSize := by rw [htoks]; omega
  have hsb : SameBack d d' := by
    have := Qv.Props.C10.writeAt_sameBack off len toks d
    rw [hw] at this; exact this
  have hcap : Cap d' := wf.winv.shape.cap56.of_eq hsb.2.2.1 hng
  have hnc : L2.isCompressed (d.l2Entry off) = false := by
    cases hx : L2.isCompressed (d.l2Entry off) with
    | false => rfl
    | true =>
      have : (d.mapping off).source = .compressed := (source_compressed_iff _ _ _ _).2 hx
      rw [hsrc] at this; cases this
  obtain ⟨_, w', _⟩ := Qv.Props.C03Write.writeAt_single_acct wf.winv hc hl hsingle (fun _ => hnp) hnc hw hcap
  obtain ⟨x, st⟩ := writeAt_zero_state wf hc hl hsingle hfit' hsrc hw hng
  exact ⟨cowc_wfc wf st w', zero_refines wf hr st ho512 hfit' hsrc, hsb, x, st.aligned, st.pos, st.mapped, st.other⟩

/-- the guest view of the cluster afterwards: the request, zeros around it -/
theorem write_zero_flagged_cluster (d d' : Dev) (f : Flat) (off len : Nat) (toks : List Nat)
    (wf : WFC d) (hr : Refines d f)
    (hc : writeCheck d.info off len = none) (hl : len ≠ 0)
    (hsingle : off / d.info.clusterSize = (off + len - 1) / d.info.clusterSize)
    (htoks : toks.length = len / 512)
    (hsrc : (d.mapping off).source = .zero)
    (hnp : L2.allocation d.info.cb (d.l2Entry off) = none)
    (hw : writeAt off len toks d = (d', .ok ())) (hng : d'.rtLen = d.rtLen)
    (s : Nat) (hs : (s + 1) * 512 ≤ d.info.vsize)
    (hcl : s * 512 / d.info.clusterSize = off / d.info.clusterSize) :
    guestSec d' s =
      if off / 512 ≤ s ∧ s < off / 512 + toks.length then toks.getD (s - off / 512) 0 else 0 := by
  obtain ⟨_, hr', hsb, _⟩ := write_zero_flagged_refines d d' f off len toks wf hr hc hl hsingle htoks hsrc hnp hw hng
  rw [hr' s (by rw [hsb.2.2.1]; exact hs), flat_write_sec]
  split
  · rfl
  · rw [← hr s hs]
    exact guestSec_zero d s (by rw [mapping_congr d hcl]; exact hsrc)

/-- **device with a backing image `b`** (`WFB`, C01RefineMore): a request inside one
    zero-flagged cluster without preallocation keeps `WFB`, refines `Flat.write`, keeps the
    backing image; the rest of the cluster reads ZEROS afterwards (not the backing content) -/
theorem write_zero_flagged_backing (d d' : Dev) (b : Back) (f : Flat) (off len : Nat) (toks : List Nat)
    (wf : WFB d b) (hr : Refines d f)
    (hc : writeCheck d.info off len = none) (hl : len ≠ 0)
    (hsingle : off / d.info.clusterSize = (off + len - 1) / d.info.clusterSize)
    (htoks : toks.length = len / 512)
    (hsrc : (d.mapping off).source = .zero)
    (hnp : L2.allocation d.info.cb (d.l2Entry off) = none)
    (hw : writeAt off len toks d = (d', .ok ())) (hng : d'.rtLen = d.rtLen) :
    WFB d' b ∧ Refines d' (f.write off toks) ∧ SameBack d d' ∧ d'.back = some b ∧
      ∀ o, o / d.info.clusterSize = off / d.info.clusterSize → (d'.mapping o).source = .dataFile := by
  obtain ⟨wc', hr', hsb, x, _, _, hmp, hoth⟩ :=
    write_zero_flagged_refines d d' f off len toks (WFB.wfc wf) hr hc hl hsingle htoks hsrc hnp hw hng
  refine ⟨⟨wc'.winv, wc'.bsb9, by rw [hsb.2.2.1]; exact wf.hasBack, by rw [hsb.1]; exact wf.back, ?_,
    wc'.inj, wc'.new⟩, hr', hsb, by rw [hsb.1]; exact wf.back, fun o ho => by rw [hmp o ho]; rfl⟩
  intro o ho
  refine ⟨?_, wc'.ent o ho⟩
  rw [hsb.2.2.1] at ho
  by_cases hcl : o / d.info.clusterSize = off / d.info.clusterSize
  · rw [hmp o hcl]; simp [plainMapping]
  · rw [mapping_of_l2Entry hsb.2.2.1 (hoth o hcl)]
    exact (wf.ent o ho).1

end Qv.Props.C10Refine

/-! ## axioms -/
#print axioms Qv.Props.C10Refine.write_cow_compressed_refines
#print axioms Qv.Props.C10Refine.write_cow_compressed_cluster
#print axioms Qv.Props.C10Refine.write_cow_compressed_other
#print axioms Qv.Props.C10Refine.write_cow_compressed_other_compressed
#print axioms Qv.Proofs.RefineCowComp.write_cow_compressed_succeeds
#print axioms Qv.Props.C10Refine.devC_wfc
#print axioms Qv.Props.C10Refine.devC_refines
#print axioms Qv.Props.C10Refine.devC_cow_write
#print axioms Qv.Props.C10Refine.write_zero_flagged_refines
#print axioms Qv.Props.C10Refine.write_zero_flagged_cluster
#print axioms Qv.Props.C10Refine.write_zero_flagged_backing
