import Qv.Model.Dev
/-
C13 — request validation: bad arguments are rejected without side effects,
boundary cases return as documented, no argument value panics.

The statements are about `Qv.Model.readAt / writeAt / discard` and their
prologues `readPlan / writeCheck / discardRange`, the mirrors of `__read_at`,
`__write_at` and `discard` (src/dev/{read,write,discard}.rs).  Offsets and
lengths are unbounded `Nat`; the u64 bound is explicit where the Rust code's
checked arithmetic could fire.
-/
namespace Qv.Props.C13
open Qv Qv.Model Qv.Codec

/-- A write is *invalid* when the statement of C13 says it must be refused. -/
def InvalidWrite (i : Info) (off len : Nat) : Prop :=
  ¬ (off + len < 2^64 ∧ off + len ≤ i.vsize) ∨ len % i.bs ≠ 0 ∨ off % i.bs ≠ 0 ∨ i.readOnly = true

/-- the write prologue rejects exactly the invalid requests -/
theorem writeCheck_iff (i : Info) (off len : Nat) :
    (writeCheck i off len).isSome = true ↔ InvalidWrite i off len := by
  unfold writeCheck InvalidWrite
  by_cases h1 : (off + len < 2^64 ∧ off + len ≤ i.vsize) <;>
  by_cases h2 : len % i.bs = 0 <;>
  by_cases h3 : off % i.bs = 0 <;>
  by_cases h4 : i.readOnly = true <;> simp [h1, h2, h3, h4]

/-- An invalid write returns `Err` and leaves the whole device state unchanged
    (no metadata change; the model performs no step before the checks, so
    nothing is sent to the backend either). -/
theorem write_reject_noop (d : Dev) (off len : Nat) (toks : List Nat)
    (h : InvalidWrite d.info off len) :
    ∃ e, writeAt off len toks d = (d, .err e) := by
  have hs := (writeCheck_iff d.info off len).mpr h
  cases hc : writeCheck d.info off len with
  | none => simp [hc] at hs
  | some e => exact ⟨e, by unfold writeAt; simp only [hc]⟩

/-- a valid write is not rejected by the prologue -/
theorem write_valid_passes (i : Info) (off len : Nat) (h : ¬ InvalidWrite i off len) :
    writeCheck i off len = none := by
  cases hc : writeCheck i off len with
  | none => rfl
  | some e => exact absurd ((writeCheck_iff i off len).mp (by simp [hc])) h

/-- a zero-length, otherwise valid write is `Ok` and changes nothing -/
theorem write_empty_noop (d : Dev) (off : Nat) (toks : List Nat)
    (h : ¬ InvalidWrite d.info off 0) :
    writeAt off 0 toks d = (d, .ok ()) := by
  unfold writeAt
  simp [write_valid_passes d.info off 0 h]

/-- writes and discards are refused on a read-only device, state unchanged -/
theorem ro_rejects_write (d : Dev) (off len : Nat) (toks : List Nat) (h : d.info.readOnly = true) :
    ∃ e, writeAt off len toks d = (d, .err e) :=
  write_reject_noop d off len toks (Or.inr (Or.inr (Or.inr h)))

theorem ro_rejects_discard (d : Dev) (off len : Nat) (h : d.info.readOnly = true) :
    Model.discard off len d = (d, .err .readOnly) := by
  unfold Model.discard; simp [h]

/-- a read starting at or beyond the virtual size, or with an unaligned
    offset/length, is rejected -/
theorem read_reject (i : Info) (off len : Nat)
    (h : off ≥ i.vsize ∨ (len ≠ 0 ∧ (len % i.bs ≠ 0 ∨ off % i.bs ≠ 0))) :
    ∃ e, readPlan i off len = .reject e := by
  unfold readPlan
  by_cases h1 : off ≥ i.vsize
  · exact ⟨.eof, by simp [h1]⟩
  · rcases h with h | ⟨hl, h⟩
    · exact absurd h h1
    · by_cases h2 : len % i.bs = 0
      · rcases h with h | h
        · exact absurd h2 h
        · exact ⟨.unaligned, by simp [h1, hl, h2, h]⟩
      · exact ⟨.unaligned, by simp [h1, hl, h2]⟩

theorem read_reject_err (d : Dev) (off len : Nat)
    (h : off ≥ d.info.vsize ∨ (len ≠ 0 ∧ (len % d.info.bs ≠ 0 ∨ off % d.info.bs ≠ 0))) :
    ∃ e, readAt d off len = .err e := by
  obtain ⟨e, he⟩ := read_reject d.info off len h
  exact ⟨e, by unfold readAt; simp [he]⟩

/-- zero length (in range) returns `Ok(0)` -/
theorem read_empty (d : Dev) (off : Nat) (h : off < d.info.vsize) :
    readAt d off 0 = .ok (0, []) := by
  unfold readAt readPlan; simp [Nat.not_le.mpr h]

/-- the documented clamp: an accepted read covers
    `len` bytes, or `(vsize - off) / bs * bs` when it crosses the end -/
theorem read_clamp_plan (i : Info) (off len c : Nat) (h : readPlan i off len = .run c) :
    c = (if off + len > i.vsize then (i.vsize - off) / i.bs * i.bs else len) ∧ off < i.vsize := by
  unfold readPlan at h
  by_cases h1 : off ≥ i.vsize
  · simp [h1] at h
  · by_cases hl : len = 0
    · simp [h1, hl] at h
    · by_cases h2 : len % i.bs = 0
      · by_cases h3 : off % i.bs = 0
        · simp only [h1, hl, h2, h3, if_false, ne_eq, not_true_eq_false] at h
          injection h with h
          constructor
          · by_cases hc : len > i.vsize - off
            · have : off + len > i.vsize := by omega
              simp [hc, this] at h ⊢; exact h.symm
            · have : ¬ off + len > i.vsize := by omega
              simp [hc, this] at h ⊢; exact h.symm
          · omega
        · simp [h1, hl, h2, h3] at h
      · simp [h1, hl, h2] at h

/-- the count a successful read returns is the documented clamped count -/
theorem read_clamp (d : Dev) (off len n : Nat) (toks : List Nat)
    (h : readAt d off len = .ok (n, toks)) (hl : len ≠ 0) :
    n = (if off + len > d.info.vsize then (d.info.vsize - off) / d.info.bs * d.info.bs else len) := by
  unfold readAt at h
  cases hp : readPlan d.info off len with
  | reject e => simp [hp] at h
  | empty =>
    unfold readPlan at hp
    by_cases h1 : off ≥ d.info.vsize
    · simp [h1] at hp
    · by_cases h2 : len % d.info.bs = 0 <;> by_cases h3 : off % d.info.bs = 0 <;> simp [h1, hl, h2, h3] at hp
  | run c =>
    have hc := (read_clamp_plan d.info off len c hp).1
    simp only [hp] at h
    by_cases hz : c = 0
    · simp [hz] at h
      omega
    · simp only [hz, if_false] at h
      split at h
      · injection h with h; injection h with h _; omega
      · exact absurd h (by simp)
      · exact absurd h (by simp)

/-- `do_read` of one piece never panics -/
theorem doRead_nopanic (d : Dev) (e : E64) (off n : Nat) : (doRead d e off n).isPanic = false := by
  unfold doRead
  simp only
  split <;> (try split) <;> rfl

theorem doReads_nopanic (d : Dev) (ps : List (Nat × Nat)) : (doReads d ps).isPanic = false := by
  induction ps with
  | nil => rfl
  | cons p ps ih =>
    obtain ⟨off, n⟩ := p
    unfold doReads
    have h1 := doRead_nopanic d (d.l2Entry off) off n
    generalize doRead d (d.l2Entry off) off n = a at h1
    generalize doReads d ps = b at ih
    cases a <;> cases b <;> simp_all [Outcome.isPanic]

/-- no (offset, length) makes a read panic or overflow -/
theorem read_nopanic (d : Dev) (off len : Nat) : (readAt d off len).isPanic = false := by
  unfold readAt
  cases hp : readPlan d.info off len with
  | reject e => simp only [hp]; rfl
  | empty => simp only [hp]; rfl
  | run c =>
    simp only [hp]
    by_cases hz : c = 0
    · simp [hz, Outcome.isPanic]
    · simp only [hz, if_false]
      have := doReads_nopanic d (pieces d.info.clusterSize ((c + d.info.clusterSize - 1) / d.info.clusterSize + 2) off c)
      generalize doReads d (pieces d.info.clusterSize ((c + d.info.clusterSize - 1) / d.info.clusterSize + 2) off c) = r at this
      cases r <;> simp_all [Outcome.isPanic]

theorem clipEnd_le (vsize off len : Nat) :
    clipEnd vsize off len ≤ vsize ∧ clipEnd vsize off len ≤ off + len := by
  unfold clipEnd
  have h1 := Nat.min_le_right (min (off + len) (2^64 - 1)) vsize
  have h2 := Nat.min_le_left (min (off + len) (2^64 - 1)) vsize
  have h3 := Nat.min_le_left (off + len) (2^64 - 1)
  omega

/-- the discard prologue (clip, round inward) cannot overflow or panic for any
    `(off, len)` as long as `vsize + cluster_size ≤ 2^64` — which every header
    the library accepts satisfies by far (the 32 MiB L1 limit bounds sizes) -/
theorem discard_prologue_nopanic (i : Info) (off len : Nat) (hv : i.vsize + i.clusterSize ≤ 2^64) :
    (discardRange i off len).isOk = true := by
  unfold discardRange
  have ⟨he1, _⟩ := clipEnd_le i.vsize off len
  generalize clipEnd i.vsize off len = e at *
  by_cases hl : len = 0
  · simp [hl, Outcome.isOk]
  · simp only [hl, if_false]
    by_cases h1 : off ≥ e
    · simp [h1, Outcome.isOk]
    · simp only [h1, if_false]
      have : off + (i.clusterSize - 1) < 2^64 := by omega
      unfold Info.clusterRoundUp
      simp only [this, if_true]
      split <;> simp [Outcome.isOk]

/-- the whole-cluster range a discard works on: inside the request, inside the
    virtual size, non-empty, cluster aligned -/
theorem discard_range_inside (i : Info) (off len start stop : Nat)
    (h : discardRange i off len = .ok (some (start, stop))) (hcs : 0 < i.clusterSize) :
    off ≤ start ∧ stop ≤ off + len ∧ stop ≤ i.vsize ∧ start < stop ∧
    start % i.clusterSize = 0 ∧ stop % i.clusterSize = 0 := by
  unfold discardRange at h
  have ⟨he1, he2⟩ := clipEnd_le i.vsize off len
  generalize clipEnd i.vsize off len = e at *
  by_cases hl : len = 0
  · simp [hl] at h
  · simp only [hl, if_false] at h
    by_cases h1 : off ≥ e
    · simp [h1] at h
    · simp only [h1, if_false] at h
      unfold Info.clusterRoundUp at h
      by_cases h2 : off + (i.clusterSize - 1) < 2^64
      · simp only [h2, if_true] at h
        by_cases h3 : (off + (i.clusterSize - 1)) / i.clusterSize * i.clusterSize ≥ i.clusterRoundDown e
        · simp [h3] at h
        · simp only [h3, if_false] at h
          injection h with h; injection h with h; injection h with hs he
          subst hs; subst he
          unfold Info.clusterRoundDown at *
          have hm := Nat.div_add_mod (off + (i.clusterSize - 1)) i.clusterSize
          have hm2 := Nat.mod_lt (off + (i.clusterSize - 1)) hcs
          have hd := Nat.div_mul_le_self e i.clusterSize
          refine ⟨?_, ?_, ?_, ?_, ?_, ?_⟩
          · rw [Nat.mul_comm] at hm; omega
          · omega
          · omega
          · omega
          · exact Nat.mul_mod_left _ _
          · exact Nat.mul_mod_left _ _
      · simp [h2] at h

/-- out-of-range or empty discards are `Ok` no-ops on a writable device -/
theorem discard_empty_noop (d : Dev) (off len : Nat) (hro : d.info.readOnly = false)
    (h : len = 0 ∨ off ≥ d.info.vsize) : Model.discard off len d = (d, .ok ()) := by
  have hr : discardRange d.info off len = .ok none := by
    unfold discardRange
    have ⟨he1, _⟩ := clipEnd_le d.info.vsize off len
    generalize clipEnd d.info.vsize off len = e at *
    rcases h with h | h
    · simp [h]
    · by_cases hl : len = 0
      · simp [hl]
      · have : off ≥ e := by omega
        simp [hl, this]
  unfold Model.discard
  simp [hro, hr]

-- non-vacuity: the hypotheses are met by concrete values
example : InvalidWrite (default : Info) 1 512 := by
  unfold InvalidWrite; decide
example : readPlan { (default : Info) with vsize := 4096, bsb := 9 } 3584 1024 = .run 512 := by decide

end Qv.Props.C13
