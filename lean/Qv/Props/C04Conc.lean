import Qv.Spec.ConcCrash
/-
  C04 over concurrent schedules: every crash state the driver judges on the re-ordered log of a concurrent run is a
  crash state of that run (`seq_sound`), so an `unsafe` verdict there is a violation of C04 and never an artefact of the
  ordering; and the ordering by completion time is what makes the loss of a write that was in flight across an fsync
  visible at all (`naive_misses_inflight_loss`).
-/
namespace Qv.Props.C04Conc
open Qv.Spec.ConcCrash

/-- soundness of the driver's reading, for every log, every crash time and every set of surviving writes -/
theorem seq_sound (l : Log) (h : WF l) (t : Nat) (A : Wr → Prop) (hs : SeqPossible l t A) : ConcPossible l t A := by
  refine ⟨?_, ?_⟩
  · intro w hw ha
    exact Nat.lt_trans (h.1 w hw) (hs.1 w hw ha)
  · intro w hw ⟨s, hsm, h1, h2⟩
    exact hs.2 w hw ⟨s, hsm, h1, Nat.lt_trans (h.2 s hsm) h2⟩

/-- the naive (issue-order) reading is sound as well … -/
theorem naive_sound (l : Log) (h : WF l) (t : Nat) (A : Wr → Prop) (hs : NaivePossible l t A) : ConcPossible l t A := by
  refine ⟨hs.1, ?_⟩
  intro w hw ⟨s, hsm, h1, h2⟩
  exact hs.2 w hw ⟨s, hsm, Nat.lt_trans (h.1 w hw) h1, Nat.lt_trans (h.2 s hsm) h2⟩

/-- … but blind to exactly the states of defect 44 / 45: a write in flight across another task's fsync, lost after it -/
def raceLog : Log := { ws := [{ id := 1, issue := 0, done := 3 }], ss := [{ issue := 1, done := 2 }] }

theorem naive_misses_inflight_loss :
    WF raceLog ∧ ConcPossible raceLog 5 (fun _ => False) ∧ SeqPossible raceLog 5 (fun _ => False) ∧
      ¬ NaivePossible raceLog 5 (fun _ => False) := by
  refine ⟨?_, ?_, ?_, ?_⟩
  · simp [WF, raceLog]
  · simp [ConcPossible, raceLog]
  · simp [SeqPossible, raceLog]
  · simp [NaivePossible, raceLog]

/-- non-vacuity of `seq_sound`: a state in which the covered write must be there and the late one may be lost -/
example : let l : Log := { ws := [{ id := 1, issue := 0, done := 1 }, { id := 2, issue := 2, done := 6 }], ss := [{ issue := 3, done := 4 }] }
    WF l ∧ SeqPossible l 7 (fun w => w.id = 1) ∧ ¬ SeqPossible l 7 (fun _ => False) := by
  refine ⟨by simp [WF], by simp [SeqPossible], by simp [SeqPossible]⟩

end Qv.Props.C04Conc
