import Qv.Spec.CrashAbs
/-
C04 — every crash state is a safe image: no reachable cluster has a stored
refcount lower than its number of references; leaks (stored refcount too high)
are the only permitted damage.

Abstract, unbounded theory over `Qv.Spec.CrashAbs` (image = pointer map +
refcount map + data map; crash state = durable image + arbitrary subset of the
un-synced updates, in issue order):

  * `epochSafe_sound`        the per-crash-point monitor `maxRefs ≤ minRc` is sound
  * `epochSafeB_sound`, `epochSafeB_targets_sound`, `logSafeB_sound`
                             the executable (Bool) monitors are sound
  * `log_safe`               monitor at every prefix ⇒ every crash state is Safe
  * `disciplined_safe`       the soft-update discipline (increment-before-pointer,
                             unmap-before-decrement) on a Safe start image
                             ⇒ every crash state is Safe
  * `increment_then_sync_then_pointer_safe`, `unmap_then_sync_then_decrement_safe`
                             the two classical orderings
  * `pointer_before_increment_unsafe`, `decrement_before_unmap_unsafe`,
    `increment_without_sync_unsafe`, `unmap_without_sync_unsafe`
                             negative witnesses: the orderings (and the sync
                             between the two stores) are necessary.  The first two
                             are the shapes of the defects found in the Rust code.
-/
namespace Qv.Props.C04
open Qv.Spec.CrashAbs Qv.Spec.CrashAbs.Ex

/-! ## 1. The monitor is sound -/

/-- KEY THEOREM.  If at a crash point every cluster's worst-case reference count
    is at most its worst-case stored refcount, then EVERY subset of the pending
    updates yields a Safe image. -/
theorem epochSafe_sound (slots : List Nat) (d : AImg) (us : List Upd)
    (h : ∀ c, maxRefs slots d us c ≤ minRc d us c) :
    ∀ keep, Safe slots (applySub d us keep) := by
  intro keep c
  exact Nat.le_trans (refs_applySub_le_maxRefs slots d us keep c)
    (Nat.le_trans (h c) (minRc_le_applySub d us keep c))

/-- the two bounds used by the monitor are bounds -/
theorem crash_refs_le_maxRefs (slots : List Nat) (d : AImg) (us : List Upd)
    (keep : List Bool) (c : Nat) :
    refs slots (applySub d us keep) c ≤ maxRefs slots d us c :=
  refs_applySub_le_maxRefs slots d us keep c

theorem minRc_le_crash_rc (d : AImg) (us : List Upd) (keep : List Bool) (c : Nat) :
    minRc d us c ≤ (applySub d us keep).rc c :=
  minRc_le_applySub d us keep c

/-- `minRc` is the minimum of the durable refcount and the pending stores -/
theorem minRc_spec (d : AImg) (us : List Upd) (c : Nat) :
    minRc d us c ≤ d.rc c ∧ (∀ n, Upd.setRc c n ∈ us → minRc d us c ≤ n) ∧
      (minRc d us c = d.rc c ∨ ∃ n, Upd.setRc c n ∈ us ∧ minRc d us c = n) :=
  ⟨minRcFrom_le_init .., fun n hn => minRcFrom_le_mem _ _ n us hn, minRcFrom_attained ..⟩

/-- `maxRefs` counts the slots that may point to `c` -/
theorem maxRefs_spec (slots : List Nat) (d : AImg) (us : List Upd) (c : Nat) :
    maxRefs slots d us c = (slots.filter (fun s => decide (mayPoint d us s c))).length := by
  unfold maxRefs
  congr 1
  apply List.filter_congr
  intro s _
  rw [Bool.eq_iff_iff, mayPointB_iff]; simp

/-- clusters nothing may point to are trivially fine -/
theorem untargeted_cluster_fine (slots : List Nat) (d : AImg) (us : List Upd) (c : Nat)
    (h : ∀ s ∈ slots, ¬ mayPoint d us s c) : maxRefs slots d us c ≤ minRc d us c := by
  rw [maxRefs_eq_zero slots d us c h]; exact Nat.zero_le _

/-- the executable monitor over a list of clusters that covers every cluster some
    slot may point to -/
theorem epochSafeB_sound (slots clusters : List Nat) (d : AImg) (us : List Upd)
    (h : epochSafeB slots clusters d us = true)
    (hcov : ∀ c, c ∉ clusters → ∀ s ∈ slots, ¬ mayPoint d us s c) :
    ∀ c, maxRefs slots d us c ≤ minRc d us c := by
  intro c
  by_cases hc : c ∈ clusters
  · have := List.all_eq_true.mp h c hc
    simpa using this
  · exact untargeted_cluster_fine slots d us c (hcov c hc)

/-- … and with the computed cluster list `targets` no side condition is left -/
theorem epochSafeB_targets_sound (slots : List Nat) (d : AImg) (us : List Upd)
    (h : epochSafeB slots (targets slots d us) d us = true) :
    ∀ c, maxRefs slots d us c ≤ minRc d us c :=
  epochSafeB_sound slots _ d us h
    (fun c hc s hs hm => hc (mem_targets_of_mayPoint slots d us s c hs hm))

/-- the Bool monitor is exactly the Prop monitor -/
theorem epochSafeB_targets_iff (slots : List Nat) (d : AImg) (us : List Upd) :
    epochSafeB slots (targets slots d us) d us = true ↔
      ∀ c, maxRefs slots d us c ≤ minRc d us c := by
  constructor
  · exact epochSafeB_targets_sound slots d us
  · intro h
    apply List.all_eq_true.mpr
    intro c _
    simpa using h c

theorem epochSafeB_crash_safe (slots : List Nat) (d : AImg) (us : List Upd)
    (h : epochSafeB slots (targets slots d us) d us = true) :
    ∀ keep, Safe slots (applySub d us keep) :=
  epochSafe_sound slots d us (epochSafeB_targets_sound slots d us h)

/-! ## 2. Whole logs -/

/-- monitor at every crash point ⇒ every crash state of the log is Safe -/
theorem log_safe (slots : List Nat) (a : AImg) (log : List Ev)
    (h : ∀ k c, maxRefs slots (durable a (log.take k)) (pending (log.take k)) c ≤
      minRc (durable a (log.take k)) (pending (log.take k)) c) :
    ∀ s, CrashStates a log s → Safe slots s := by
  rintro s ⟨k, keep, rfl⟩
  exact epochSafe_sound slots _ _ (h k) keep

/-- the executable whole-log monitor is sound -/
theorem logSafeB_sound (slots : List Nat) (a : AImg) (log : List Ev)
    (h : logSafeB slots a log = true) : ∀ s, CrashStates a log s → Safe slots s := by
  rintro s ⟨k, keep, rfl⟩
  have hall := List.all_eq_true.mp h
  by_cases hk : k ≤ log.length
  · have := hall k (List.mem_range.mpr (by omega))
    exact epochSafeB_crash_safe slots _ _ this keep
  · rw [crashAt_ge_length a log k (by omega)]
    have := hall log.length (List.mem_range.mpr (by omega))
    exact epochSafeB_crash_safe slots _ _ this keep

/-- crash states of a prefix of the log are crash states of the log -/
theorem crashStates_prefix (a : AImg) (log : List Ev) (j : Nat) (s : AImg)
    (h : CrashStates a (log.take j) s) : CrashStates a log s :=
  CrashStates_take a log j s h

/-- the durable image itself and the fully flushed image are crash states -/
theorem durable_is_crashState (a : AImg) (log : List Ev) (k : Nat) :
    CrashStates a log (durable a (log.take k)) :=
  ⟨k, [], by simp [crashAt]⟩

theorem flushed_is_crashState (a : AImg) (log : List Ev) :
    CrashStates a log (applyAll a (updates log)) := by
  refine ⟨log.length, List.replicate (pending log).length true, ?_⟩
  have h := run_flush a [] log
  simp only [applyAll_nil] at h
  rw [crashAt, List.take_length, applySub_all_true, ← h, durable, pending_eq_run a]

/-- every crash state is a subset application of the updates issued so far
    (in particular each of its cells holds the start value or an issued one) -/
theorem crashState_is_subset (a : AImg) (log : List Ev) (s : AImg) (h : CrashStates a log s) :
    ∃ k keep, s = applySub a (updates (log.take k)) keep := by
  obtain ⟨k, keep, rfl⟩ := h
  obtain ⟨keep', h'⟩ := crashAt_eq_applySub a log k keep
  exact ⟨k, keep', h'⟩

/-! ## 3. The soft-update discipline is sufficient -/

/-- the monitor condition implies the discipline … -/
theorem monitor_disciplined (slots : List Nat) (a : AImg) (log : List Ev)
    (h : ∀ k c, maxRefs slots (durable a (log.take k)) (pending (log.take k)) c ≤
      minRc (durable a (log.take k)) (pending (log.take k)) c) :
    Disciplined slots a log :=
  fun k => ⟨fun _ c _ _ => h k c, fun c _ _ _ => h k c⟩

/-- under the discipline every durable image along the log is Safe -/
theorem disciplined_durable_safe (slots : List Nat) (a : AImg) (log : List Ev)
    (ha : Safe slots a) (hd : Disciplined slots a log) :
    ∀ k, Safe slots (durable a (log.take k)) := by
  intro k
  induction k with
  | zero => simpa using ha
  | succ k ih =>
    rw [List.take_add_one]
    cases hk : log[k]? with
    | none => simpa using ih
    | some e =>
      cases e with
      | upd u => simpa [durable_snoc_upd] using ih
      | sync =>
        simp only [Option.toList_some, durable_snoc_sync]
        rw [← applySub_all_true]
        exact epochSafe_sound slots _ _ (fun c => (hd k).monitor ih c) _

/-- … and conversely, on a Safe start image, the discipline (which only
    constrains clusters with a pending pointer store or a pending refcount
    decrease) gives the monitor condition at every crash point -/
theorem disciplined_monitor (slots : List Nat) (a : AImg) (log : List Ev)
    (ha : Safe slots a) (hd : Disciplined slots a log) :
    ∀ k c, maxRefs slots (durable a (log.take k)) (pending (log.take k)) c ≤
      minRc (durable a (log.take k)) (pending (log.take k)) c :=
  fun k c => (hd k).monitor (disciplined_durable_safe slots a log ha hd k) c

/-- MAIN THEOREM (C04).  From a Safe image, a log that follows the soft-update
    discipline has only Safe crash states. -/
theorem disciplined_safe (slots : List Nat) (a : AImg) (log : List Ev)
    (ha : Safe slots a) (hd : Disciplined slots a log) :
    ∀ s, CrashStates a log s → Safe slots s :=
  log_safe slots a log (disciplined_monitor slots a log ha hd)

/-- leaks are the only damage: in every crash state of a disciplined log the
    stored refcount of every cluster is at least its reference count -/
theorem disciplined_only_leaks (slots : List Nat) (a : AImg) (log : List Ev)
    (ha : Safe slots a) (hd : Disciplined slots a log) (s : AImg) (hs : CrashStates a log s)
    (c : Nat) : refs slots s c ≤ s.rc c :=
  disciplined_safe slots a log ha hd s hs c

/-! ## 4. The two classical orderings -/

/-- (a) allocate: increment the refcount, sync, then store the pointer.
    (`c` is unreferenced before; the previous content of slot `s` is irrelevant —
    overwriting a pointer can only leak.) -/
theorem increment_then_sync_then_pointer_safe (slots : List Nat) (hnd : slots.Nodup)
    (a : AImg) (s c : Nat) (ha : Safe slots a) (hfree : refs slots a c = 0) :
    ∀ x, CrashStates a [.upd (.setRc c 1), .sync, .upd (.setPtr s (some c))] x →
      Safe slots x := by
  apply disciplined_safe slots a _ ha
  have hnone := (refs_eq_zero_iff slots a c).mp hfree
  intro k
  match k with
  | 0 => constructor <;> simp
  | 1 =>
    have e1 : durable a [Ev.upd (Upd.setRc c 1)] = a := by simp [durable, run, step]
    have e2 : pending [Ev.upd (Upd.setRc c 1)] = [Upd.setRc c 1] := by simp [pending, pendStep]
    simp only [List.take_succ_cons, List.take_zero, e1, e2]
    constructor
    · intro s' c' _ hm; simp at hm
    · intro c' n hm _
      simp only [List.mem_singleton, Upd.setRc.injEq] at hm
      obtain ⟨rfl, rfl⟩ := hm
      rw [maxRefs_eq_refs slots a _ c' (by simp), hfree]; exact Nat.zero_le _
  | 2 =>
    have e2 : pending [Ev.upd (Upd.setRc c 1), Ev.sync] = [] := by simp [pending, pendStep]
    simp only [List.take_succ_cons, List.take_zero, e2]
    constructor <;> simp
  | k + 3 =>
    have e1 : durable a [Ev.upd (Upd.setRc c 1), Ev.sync, Ev.upd (Upd.setPtr s (some c))] =
        applyUpd a (Upd.setRc c 1) := by simp [durable, run, step]
    have e2 : pending [Ev.upd (Upd.setRc c 1), Ev.sync, Ev.upd (Upd.setPtr s (some c))] =
        [Upd.setPtr s (some c)] := by simp [pending, pendStep]
    simp only [List.take_succ_cons, List.take_nil, e1, e2]
    constructor
    · intro s' c' _ hm
      simp only [List.mem_singleton, Upd.setPtr.injEq, Option.some.injEq] at hm
      obtain ⟨rfl, rfl⟩ := hm
      have hmin : minRc (applyUpd a (Upd.setRc c' 1)) [Upd.setPtr s' (some c')] c' = 1 := by
        simp [minRc, minRcFrom, applyUpd]
      rw [hmin]
      apply filter_length_le_one slots hnd _ s'
      intro x hx hm
      rcases (mayPointB_iff ..).mp hm with h | h
      · exact absurd (by simpa [applyUpd] using h) (hnone x hx)
      · simpa using h
    · intro c' n hm; simp at hm

/-- (b) free: clear the pointer, sync, then decrement the refcount. -/
theorem unmap_then_sync_then_decrement_safe (slots : List Nat) (a : AImg) (s c : Nat)
    (ha : Safe slots a) (hs : s ∈ slots) (hp : a.ptr s = some c) :
    ∀ x, CrashStates a [.upd (.setPtr s none), .sync, .upd (.setRc c (a.rc c - 1))] x →
      Safe slots x := by
  apply disciplined_safe slots a _ ha
  intro k
  match k with
  | 0 => constructor <;> simp
  | 1 =>
    have e2 : pending [Ev.upd (Upd.setPtr s none)] = [Upd.setPtr s none] := by
      simp [pending, pendStep]
    simp only [List.take_succ_cons, List.take_zero, e2]
    constructor <;> simp
  | 2 =>
    have e2 : pending [Ev.upd (Upd.setPtr s none), Ev.sync] = [] := by simp [pending, pendStep]
    simp only [List.take_succ_cons, List.take_zero, e2]
    constructor <;> simp
  | k + 3 =>
    have e1 : durable a [Ev.upd (Upd.setPtr s none), Ev.sync, Ev.upd (Upd.setRc c (a.rc c - 1))] =
        applyUpd a (Upd.setPtr s none) := by simp [durable, run, step]
    have e2 : pending [Ev.upd (Upd.setPtr s none), Ev.sync, Ev.upd (Upd.setRc c (a.rc c - 1))] =
        [Upd.setRc c (a.rc c - 1)] := by simp [pending, pendStep]
    simp only [List.take_succ_cons, List.take_nil, e1, e2]
    constructor
    · intro s' c' _ hm; simp at hm
    · intro c' n hm _
      simp only [List.mem_singleton, Upd.setRc.injEq] at hm
      obtain ⟨rfl, rfl⟩ := hm
      rw [maxRefs_eq_refs slots _ _ c' (by simp)]
      have hmin : minRc (applyUpd a (Upd.setPtr s none)) [Upd.setRc c' (a.rc c' - 1)] c' =
          a.rc c' - 1 := by
        simp [minRc, minRcFrom, applyUpd]
      rw [hmin]
      have hlt : refs slots (applyUpd a (Upd.setPtr s none)) c' < refs slots a c' := by
        apply filter_length_lt slots _ _ _ s hs
        · simpa using hp
        · simp [applyUpd]
        · intro x _ hx
          by_cases hxs : x = s
          · simp [applyUpd, hxs] at hx
          · simpa [applyUpd, hxs] using hx
      have := ha c'
      omega

/-! ## 5. Negative witnesses (the orderings are necessary) -/

/-- DEFECT SHAPE 1: the pointer is stored before the refcount increment is
    durable — the crash state with only the pointer has a referenced cluster with
    refcount 0 (a later allocation would hand it out again). -/
theorem pointer_before_increment_unsafe :
    ∃ x, CrashStates img0 [.upd (.setPtr 0 (some 5)), .upd (.setRc 5 1)] x ∧ ¬ Safe [0] x := by
  refine ⟨_, ⟨1, [true], rfl⟩, fun h => ?_⟩
  have := h 5
  revert this; decide

/-- the right order WITHOUT the sync is just as unsafe: the subset semantics lets
    the later pointer store overtake the earlier refcount store -/
theorem increment_without_sync_unsafe :
    ∃ x, CrashStates img0 [.upd (.setRc 5 1), .upd (.setPtr 0 (some 5))] x ∧ ¬ Safe [0] x := by
  refine ⟨_, ⟨2, [false, true], rfl⟩, fun h => ?_⟩
  have := h 5
  revert this; decide

/-- DEFECT SHAPE 2: the refcount is decremented before the unmapping is durable —
    the crash state with only the decrement still references cluster 5, whose
    refcount is 0. -/
theorem decrement_before_unmap_unsafe :
    ∃ x, CrashStates img1 [.upd (.setRc 5 0), .upd (.setPtr 0 none)] x ∧ ¬ Safe [0] x := by
  refine ⟨_, ⟨1, [true], rfl⟩, fun h => ?_⟩
  have := h 5
  revert this; decide

theorem unmap_without_sync_unsafe :
    ∃ x, CrashStates img1 [.upd (.setPtr 0 none), .upd (.setRc 5 0)] x ∧ ¬ Safe [0] x := by
  refine ⟨_, ⟨2, [false, true], rfl⟩, fun h => ?_⟩
  have := h 5
  revert this; decide

/-- the monitor rejects the four bad logs and accepts the two good ones -/
theorem monitor_verdicts :
    logSafeB [0] img0 [.upd (.setPtr 0 (some 5)), .upd (.setRc 5 1)] = false ∧
    logSafeB [0] img0 [.upd (.setRc 5 1), .upd (.setPtr 0 (some 5))] = false ∧
    logSafeB [0] img1 [.upd (.setRc 5 0), .upd (.setPtr 0 none)] = false ∧
    logSafeB [0] img1 [.upd (.setPtr 0 none), .upd (.setRc 5 0)] = false ∧
    logSafeB [0] img0 [.upd (.setRc 5 1), .sync, .upd (.setPtr 0 (some 5))] = true ∧
    logSafeB [0] img1 [.upd (.setPtr 0 none), .sync, .upd (.setRc 5 0)] = true := by
  decide

/-! ## 6. Non-vacuity -/

/-- the start images are Safe -/
example : Safe [0] img0 := by intro c; simp [refs, img0]
example : Safe [0] img1 := by
  intro c
  by_cases hc : c = 5 <;> simp [refs, img1, hc]
  exact fun h => absurd h.symm hc

/-- the hypotheses of the two positive corollaries are satisfiable … -/
example : ∀ x, CrashStates img0 [.upd (.setRc 5 1), .sync, .upd (.setPtr 0 (some 5))] x →
    Safe [0] x :=
  increment_then_sync_then_pointer_safe [0] (by simp) img0 0 5
    (by intro c; simp [refs, img0]) (by simp [refs, img0])

example : ∀ x, CrashStates img1 [.upd (.setPtr 0 none), .sync, .upd (.setRc 5 0)] x →
    Safe [0] x :=
  unmap_then_sync_then_decrement_safe [0] img1 0 5
    (by
      intro c
      by_cases hc : c = 5 <;> simp [refs, img1, hc]
      exact fun h => absurd h.symm hc)
    (by simp) (by simp [img1])

/-- … and so is the executable route (`logSafeB` evaluates by `decide`) -/
example : ∀ x, CrashStates img0 [.upd (.setRc 5 1), .sync, .upd (.setPtr 0 (some 5))] x →
    Safe [0] x :=
  logSafeB_sound [0] img0 _ (by decide)

/-- a leak is a permitted crash state: the increment reached the disk, the
    pointer did not — cluster 5 has refcount 1 and no reference, and that image
    is Safe -/
example : ∃ x, CrashStates img0 [.upd (.setRc 5 1), .sync, .upd (.setPtr 0 (some 5))] x ∧
    x.rc 5 = 1 ∧ refs [0] x 5 = 0 ∧ Safe [0] x := by
  refine ⟨crashAt img0 _ 3 [false], ⟨3, [false], rfl⟩, by decide, by decide, ?_⟩
  exact logSafeB_sound [0] img0 _ (by decide) _ ⟨3, [false], rfl⟩

/-- the fully applied state is reached too: slot 0 → 5 with refcount 1 -/
example : ∃ x, CrashStates img0 [.upd (.setRc 5 1), .sync, .upd (.setPtr 0 (some 5))] x ∧
    x.ptr 0 = some 5 ∧ x.rc 5 = 1 ∧ refs [0] x 5 = 1 :=
  ⟨crashAt img0 _ 3 [true], ⟨3, [true], rfl⟩, by decide, by decide, by decide⟩

/-- `Safe` is not trivially true -/
example : ¬ Safe [0] (applyUpd img0 (.setPtr 0 (some 5))) := by
  intro h; have := h 5; revert this; decide

/-- the monitor with two slots sharing a cluster: refcount 2 needed -/
example :
    epochSafeB [0, 1] [5] (applyUpd img0 (.setRc 5 2))
      [.setPtr 0 (some 5), .setPtr 1 (some 5)] = true ∧
    epochSafeB [0, 1] [5] (applyUpd img0 (.setRc 5 1))
      [.setPtr 0 (some 5), .setPtr 1 (some 5)] = false := by
  decide

end Qv.Props.C04
