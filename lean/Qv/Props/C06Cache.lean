import Qv.Proofs.SliceProto
/-
C06 (cache part) — the slice cache protocol does not lose updates.

Model: `Qv.Model.Slice` (Qv/Model/SliceProto.lean) on top of `Qv.Model.Lru`
(Qv/Model/LruCache.lean): tasks interleave at suspension points; a `Step` is the
code of one task between two of them.  `Policy.fixed` is the eviction rule of the
code as it is now, `Policy.old` the rule before the repair.

Proved for ALL traces (any length, any interleaving, any cache limit) without
`Step.loadFail` (`NoLoadFail`, defined in Qv/Proofs/SliceProto.lean as
`tr.all (fun st => !isLoadFail st) = true`), from the inductive invariant
`Qv.Proofs.SliceProto.Inv`:

* `no_lost_update`            a task using a loaded slice it holds sees the latest version
                              stored for the key, and the slice is still the cache's copy;
* `disk_or_cache_has_latest`  a key without cache entry has its latest version on disk, a
                              loaded cache entry has the latest version;
* `quiescent_flushed`         no write in flight and nothing dirty: the disk has the latest
                              version of every key.

Concrete traces (by `decide`):

* `old_policy_loses_update`, `old_policy_orphans_in_use_entry`: the two defects of `.old`;
  the losing trace is not enabled under `.fixed`;
* non-vacuity examples for `.fixed`;
* `loadFail_waiter_orphan`, `loadFail_after_commit_stays`: what `Step.loadFail` does
  to a second task waiting on the same not-yet-loaded entry — the reason the three
  theorems above exclude `loadFail` (the invariant clause "whatever a task holds is
  still in the cache" fails after it).

Not covered: that the Rust code refines this model (checked by the correspondence
harness on explored schedules, not proved).
-/
namespace Qv.Props.C06Cache
open Qv.Model.Lru Qv.Model.Slice Qv.Proofs.SliceProto

/-- (a) whatever the interleaving, a task that uses a loaded slice it holds sees the latest
    version stored for that key, and the slice is still the cache's copy (so what the task
    stores into it will be flushed) -/
theorem no_lost_update (limit : Nat) (tr : List Step) (hn : NoLoadFail tr) (s : Sys)
    (hr : run .fixed (Sys.init limit) tr = some s) :
    ∀ i ∈ s.held, s.loaded i = true →
      inCache s.cache i = true ∧ observe s i = s.latest (s.keyOf i) :=
  fun _ hi hl =>
    ⟨(inv_reachable hn hr).held_inCache hi, (inv_reachable hn hr).held_latest hi hl⟩

/-- (b) a key without cache entry has its latest version on disk, and a loaded cache entry of
    a key holds its latest version: a later load or hit gets the latest version -/
theorem disk_or_cache_has_latest (limit : Nat) (tr : List Step) (hn : NoLoadFail tr) (s : Sys)
    (hr : run .fixed (Sys.init limit) tr = some s) (k : Nat) :
    (lookup s.cache.rmap k = none ∧ lookup s.cache.wmap k = none → s.disk k = s.latest k) ∧
    (∀ e, lookup s.cache.rmap k = some e ∨ lookup s.cache.wmap k = some e →
      s.loaded e.id = true → s.val e.id = s.latest k) :=
  ⟨fun h => (inv_reachable hn hr).absent_disk h.1 h.2,
   fun _ he hl => (inv_reachable hn hr).cached_latest he hl⟩

/-- (c) after all write-backs the disk has everything: with no write in flight and no dirty
    entry, the disk has the latest version of every key (in particular of every key whose
    entry is loaded or absent).  `held = []` and `wbq = []` are not even needed. -/
theorem quiescent_flushed (limit : Nat) (tr : List Step) (hn : NoLoadFail tr) (s : Sys)
    (hr : run .fixed (Sys.init limit) tr = some s)
    (_hheld : s.held = []) (_hwbq : s.wbq = []) (hinfl : s.inflight = [])
    (hclean : ∀ p ∈ s.cache.rmap ++ s.cache.wmap, p.2.dirty = false) :
    ∀ k, s.disk k = s.latest k :=
  (inv_reachable hn hr).flushed hinfl hclean

/-! ### the code before the repair -/

/-- task A loads, modifies and releases slice 0; B's load evicts it (dirty, handed to B for
    write-back, but gone from the cache at once); C misses key 0 and reloads the stale disk
    content before B's write-back -/
def lostUpdateTrace : List Step :=
  [.miss 0, .load 0 [], .modify 0, .release 0, .miss 1, .load 1 [0], .miss 0, .load 2 [1]]

/-- (d) under `.old` the last loader observes version 0 although version 1 was stored -/
theorem old_policy_loses_update :
    (run .old (Sys.init 1) lostUpdateTrace).map (fun s => (observe s 2, s.latest 0)) = some (0, 1) := by
  decide

/-- (d) the same trace is not enabled under `.fixed` (the dirty victim stays in rmap, so
    `miss 0` returns entry 0 and there is no entry 2 to load) -/
theorem fixed_policy_blocks_lostUpdateTrace :
    (run .fixed (Sys.init 1) lostUpdateTrace).isNone = true := by decide

/-- (e) "victim in use": under `.old` an entry a task holds (loaded) is evicted -/
theorem old_policy_orphans_in_use_entry :
    (run .old (Sys.init 1) [.miss 0, .load 0 [], .miss 1, .load 1 [0]]).map
      (fun s => (s.held.contains 0, s.loaded 0, inCache s.cache 0)) = some (true, true, false) := by
  decide

/-- (e) under `.fixed` a referenced entry is not a legal victim: that step is not enabled,
    the only legal choice is no victim -/
theorem fixed_policy_keeps_in_use_entry :
    (run .fixed (Sys.init 1) [.miss 0, .load 0 [], .miss 1, .load 1 [0]]).isNone = true ∧
    (run .fixed (Sys.init 1) [.miss 0, .load 0 [], .miss 1, .load 1 []]).map
      (fun s => (s.held.contains 0, s.loaded 0, inCache s.cache 0)) = some (true, true, true) := by
  decide

/-! ### non-vacuity: `.fixed` traces with eviction of a dirty victim -/

/-- 13 steps, limit 1: A loads/modifies/releases slice 0; B's load picks the dirty victim 0
    (kept in rmap, queued), B writes it back, A re-`hit`s it, modifies it again, a flush
    queues it, the write fails (dirty again) -/
def fixedTrace : List Step :=
  [.miss 0, .load 0 [], .modify 0, .release 0, .miss 1, .load 1 [0], .wbStart 0, .wbDone 0 true,
   .hit 0, .modify 0, .flush 0 8, .wbStart 0, .wbDone 0 false]

example : NoLoadFail fixedTrace := by decide

/-- after the eviction (6 steps): victim 0 is still cached, dirty, queued for write-back -/
example : (run .fixed (Sys.init 1) (fixedTrace.take 6)).map
    (fun s => (inCache s.cache 0, isDirty s.cache 0, s.wbq, s.disk 0, s.latest 0))
    = some (true, true, [(0, 0)], 0, 1) := by decide

/-- after write-back and re-hit (9 steps): the observation is the latest version, on disk too -/
example : (run .fixed (Sys.init 1) (fixedTrace.take 9)).map
    (fun s => (s.held, s.loaded 0, observe s 0, s.latest (s.keyOf 0), s.disk 0, isDirty s.cache 0))
    = some ([0, 1], true, 1, 1, 1, false) := by decide

/-- the whole trace: version 2 observed, the failed write left the entry dirty, disk has 1 -/
example : (run .fixed (Sys.init 1) fixedTrace).map
    (fun s => (s.held, observe s 0, s.latest (s.keyOf 0), s.disk 0, isDirty s.cache 0, s.inflight.length))
    = some ([0, 1], 2, 2, 1, true, 0) := by decide

/-- the hypotheses of `quiescent_flushed` are satisfiable after real work -/
example : (run .fixed (Sys.init 1)
      [.miss 0, .load 0 [], .modify 0, .release 0, .miss 1, .load 1 [0], .wbStart 0, .wbDone 0 true,
       .release 1]).map
    (fun s => (s.held.length, s.wbq.length, s.inflight.length,
               (s.cache.rmap ++ s.cache.wmap).all (fun p => !p.2.dirty), s.disk 0, s.latest 0))
    = some (0, 0, 0, true, 1, 1) := by decide

/-! ### `loadFail` (excluded above) -/

/-- (g) two tasks `miss` the same key and share the not-yet-loaded entry 0; the loader's
    `loadFail` removes it from wmap.  The waiter still holds entry 0, which is no longer in
    the cache (invariant clause `ref_in` is broken).  In this model the waiter's own `load 0`
    is then NOT enabled (`load` requires `inCache`), so the orphan never becomes loaded here;
    and a third `miss 0` creates a second entry (id 1) for the same key while 0 is still held. -/
theorem loadFail_waiter_orphan :
    (run .fixed (Sys.init 4) [.miss 0, .miss 0, .loadFail 0]).map
        (fun s => (s.held, s.loaded 0, inCache s.cache 0, s.cache.rmap.length, s.cache.wmap.length))
      = some ([0], false, false, 0, 0) ∧
    (run .fixed (Sys.init 4) [.miss 0, .miss 0, .loadFail 0, .load 0 []]).isNone = true ∧
    (run .fixed (Sys.init 4) [.miss 0, .miss 0, .loadFail 0, .miss 0]).map
        (fun s => (s.held, s.keyOf 0, s.keyOf 1, inCache s.cache 0, inCache s.cache 1))
      = some ([1, 0], 0, 0, false, true) := by
  decide

/-- (g) variant: somebody else's `load` commit moved the not-yet-loaded entry 0 into rmap
    before its loader fails: `remove_from_wmap` does nothing, the unloaded entry stays in
    rmap (unreferenced, clean).  A later `miss 0` gets this same entry and can load it. -/
theorem loadFail_after_commit_stays :
    (run .fixed (Sys.init 4) [.miss 0, .miss 1, .load 1 [], .loadFail 0]).map
        (fun s => (s.held, s.loaded 0, inCache s.cache 0, lookup s.cache.rmap 0))
      = some ([1], false, true, some { id := 0, lru := 0, dirty := false, refs := 0 }) ∧
    (run .fixed (Sys.init 4) [.miss 0, .miss 1, .load 1 [], .loadFail 0, .miss 0, .load 0 []]).map
        (fun s => (s.held, s.loaded 0, inCache s.cache 0, observe s 0, s.latest 0))
      = some ([0, 1], true, true, 0, 0) := by
  decide

end Qv.Props.C06Cache
