import Qv.Proofs.RefineOwnWrite
import Qv.Proofs.RefineCow
import Qv.Props.C03Write
/-
C01, model side, continued: the refinement of the device model `Qv.Model.Dev` against the
flat reference disk `Qv.Spec.Flat` for DISCARDS, and the history theorem with discards.
Helper lemmas: `Qv/Proofs/RefineDiscard.lean` (discard), `Qv/Proofs/RefineOwnWrite.lean`
(writes keep the ownership link).

`Qv.Spec.Flat.discard` refers to `own`: which guest clusters have their own uncompressed
allocation.  `Refines` (C01Refine) is about sectors only, so the relation is strengthened:

* `RefinesO d f`     `Refines d f`, the flat disk has the geometry of the device, and
                     `f.own g = true ↔ guest cluster g is mapped to the data file` (`OwnLink`);
* `WFD d`            `WF d` (C01Refine) together with the invariant of histories of C03Write
                     (`HInv`: exact refcount accounting `WInv`, no compressed cluster, no
                     zero-flagged entry WITH preallocation).  Zero-flagged entries without
                     preallocation are allowed (they are "not owned", and a discard leaves
                     them alone).  The accounting is what makes `WF` survive a release of
                     clusters (an L2 table keeps its refcount).
* D1 `discard_refines`       the refinement step for `discard`, any `off` / `len`;
      `write_refinesO`       the write step of C01Refine also keeps `RefinesO` and `WFD`
                             (a written cluster becomes owned on both sides);
      `discard_whole_reads_zero`, `discard_other_unchanged`: the contract spelled out on the
                             device (whole mapped clusters read zeros, the rest is unchanged);
      `discard_succeeds`     on a writable device with `vsize + cluster_size ≤ 2^64` a discard
                             of a `WFD` device returns `Ok`;
* D2 `history_refines_discard`, `history_refines_flat_discard`: histories of writes, reads,
      flushes and discards; `fmtEx_discard_history`: non-vacuity (write, read, discard, read).
* C1 `write_cow_backing_refines`, `write_cow_backing_cluster`: a device WITH a backing image
      (`WFB d b`, RefineCow): a request inside one guest cluster that still reads from the
      backing image (`do_write_cow` from the backing source) refines `Flat.write`; the rest
      of the cluster keeps the backing content; the backing image is unchanged;
      `write_cow_backing_succeeds`, `write_inplace_backing` (RefineCow): success criterion, and
      the in-place step on such a device; `history_refines_backing`: histories of in-place
      writes, single-cluster COW writes, reads and flushes; `devB_cow_write`: non-vacuity.

Not covered.  Discards / histories: compressed clusters, zero-flagged entries with
preallocation (excluded by `HInv`; the write path leaks their cluster, finding C03), writes
that fail or grow the reftable.  Backing file — what is missing for a full `write_refines`
on devices with a backing image: (1) writes into zero-flagged clusters of such a device
(`need_make_mapping` is true: allocate, zero-once, no copy) — the step lemmas of
`RefineWrite.lean` are stated with `Static`, which fixes `has_back_file = false`;
(2) requests that span several clusters of which some still read from the backing image
(`make_multiple_write_mappings` skips them, every piece then runs its own `do_write_cow`);
(3) COW from a compressed source (`cow_source_compressed`); (4) discards on a device with a
backing image (entry `1` / version-2 zeroing, C11); (5) COW writes that grow the reftable.
-/
namespace Qv.Props.C01RefineMore
open Qv Qv.Codec Qv.Model Qv.Model.RW
open Qv.Props.C15 (Geom)
open Qv.Props.C11 (Whole)
open Qv.Props.C01Refine (WF)
open Qv.Proofs.RefineDiscard
open Qv.Spec (Flat)

/-- well-formedness for histories with discards: `WF` of C01Refine (no backing file, no
    compressed cluster, data clusters COPIED / aligned / refcounted / pairwise distinct, no
    stale new-cluster mark) and `HInv` of C03Write (refcount of every host cluster = number
    of references; no compressed entry; no zero-flagged entry with preallocation) -/
structure WFD (d : Dev) : Prop where
  wf : WF d
  hinv : HInv d

/-! ## D1. the steps -/

/-- **D1, discard.**  `WFD d`, `RefinesO d f`, and `discard off len` (ANY `off`, `len`)
    returned `Ok`: the device is well-formed again and shows `f.discard off len` — sectors
    and ownership.  By the laws of `Flat.discard` (C11): whole clusters inside the clipped
    range that were mapped read zeros and are no longer owned (released: their L2 entry is
    `0` and, by the accounting in `WFD d'`, their refcount dropped); partial head / tail
    clusters, clusters beyond the virtual size and unmapped (unallocated or zero-flagged)
    clusters are unchanged. -/
theorem discard_refines (d d' : Dev) (f : Flat) (off len : Nat) (w : WFD d) (hr : RefinesO d f)
    (h : Model.discard off len d = (d', .ok ())) :
    WFD d' ∧ RefinesO d' (f.discard off len) ∧ d'.info = d.info := by
  obtain ⟨wf', hI'⟩ := discard_wf w.wf w.hinv h
  have hi := (Qv.Props.C11.discard_frame d off len).1
  rw [h] at hi
  exact ⟨⟨wf', hI'⟩, discard_refinesO w.wf w.hinv hr h, hi⟩

/-- on a writable device whose virtual size is not within a cluster of 2^64, `discard`
    cannot fail on a `WFD` device, whatever `off` and `len` -/
theorem discard_succeeds (d : Dev) (off len : Nat) (w : WFD d) (hro : d.info.readOnly = false)
    (hv : d.info.vsize + d.info.clusterSize ≤ 2^64) :
    ∃ d', Model.discard off len d = (d', .ok ()) := by
  have hcs := cs_pos d.info
  have hp := Qv.Props.C13.discard_prologue_nopanic d.info off len hv
  unfold Model.discard
  dsimp only
  rw [hro]
  simp only [Bool.false_eq_true, if_false]
  cases hr : discardRange d.info off len with
  | panic p => rw [hr] at hp; cases hp
  | err x => rw [hr] at hp; cases hp
  | ok r =>
    cases r with
    | none => exact ⟨d, rfl⟩
    | some x =>
      obtain ⟨start, stop⟩ := x
      obtain ⟨_, _, hsv, _, _, _⟩ := Qv.Props.C13.discard_range_inside d.info off len start stop hr hcs
      dsimp only
      generalize hl : discardLoop stop ((stop - start) / d.info.clusterSize + 1) start d = r
      obtain ⟨d', o⟩ := r
      obtain ⟨_, ho, _⟩ := discardLoop_winv stop _ start d d' o w.hinv.winv hsv hl
      exact ⟨d', by rw [ho]⟩

/-- **D1, write.**  The write step of C01Refine (`write_refines`: accepted, returned `Ok`,
    did not grow the reftable) also keeps the strengthened relations: the written clusters
    become owned on the flat disk and data-file mapped on the device, the ownership of every
    other cluster is unchanged on both sides; the accounting invariant is kept (C03Write). -/
theorem write_refinesO (d d' : Dev) (f : Flat) (off len : Nat) (toks : List Nat)
    (w : WFD d) (hr : RefinesO d f)
    (hc : writeCheck d.info off len = none) (htoks : toks.length = len / 512)
    (hw : writeAt off len toks d = (d', .ok ())) (hng : d'.rtLen = d.rtLen) :
    WFD d' ∧ RefinesO d' (f.write off toks) ∧ d'.info = d.info := by
  obtain ⟨wf', hr', hi⟩ := Qv.Props.C01Refine.write_refines d d' f off len toks w.wf hr.sec hc htoks hw hng
  have hcs := cs_pos d.info
  have hI' : HInv d' := by
    have := hstep_hinv w.hinv (.write off len toks) (by
      show Cap (writeAt off len toks d).1
      rw [hw]; exact wf'.st.rt56)
    rw [show hstep d (.write off len toks) = (writeAt off len toks d).1 from rfl, hw] at this
    exact this
  refine ⟨⟨wf', hI'⟩, ⟨hr', ?_, ?_, ?_⟩, hi⟩
  · rw [Flat.write_vsize, hr.vsize, hi]
  · rw [Flat.write_cs, hr.cs, hi]
  · by_cases hl : len = 0
    · subst hl
      have ht : toks = [] := List.eq_nil_of_length_eq_zero (by simpa using htoks)
      subst ht
      unfold writeAt at hw
      dsimp only at hw
      rw [hc] at hw
      simp only [if_true, Prod.mk.injEq, and_true] at hw
      subst hw
      rw [Flat.write_nil]
      exact hr.own
    · obtain ⟨_, hlb, _, _⟩ := writeCheck_none hc
      have hl512 := Qv.Props.C01Refine.mod512_of_mod_bs w.wf.st.bsb9 hlb
      have hlen : toks.length * 512 = len := by rw [htoks]; omega
      have hne : toks ≠ [] := by
        intro e; rw [e] at hlen; simp at hlen; omega
      obtain ⟨fr1, fr2⟩ := write_frame d d' f off len toks w.wf hr.sec hc hl htoks hw hng
      intro g hg
      rw [hi] at hg ⊢
      have hgc : g * d.info.clusterSize / d.info.clusterSize = g := Nat.mul_div_cancel _ hcs
      rw [Flat.write_own_get, hr.cs, hlen]
      by_cases ht : off / d.info.clusterSize ≤ g ∧ g ≤ (off + len - 1) / d.info.clusterSize
      · rw [if_pos ⟨hne, ht⟩]
        refine ⟨fun _ => ?_, fun _ => rfl⟩
        exact fr2 _ hg (by rw [hgc]; exact ht.1) (by rw [hgc]; exact ht.2)
      · rw [if_neg (fun x => ht x.2), hr.own g hg]
        have he := fr1 (g * d.info.clusterSize) (by rw [hgc]; omega)
        rw [mapping_of_l2Entry hi he]

/-! ### the contract, spelled out on the device -/

/-- after a successful discard, every sector of a whole cluster of the clipped range that
    was mapped to the data file reads zeros -/
theorem discard_whole_reads_zero (d d' : Dev) (f : Flat) (off len s : Nat) (w : WFD d) (hr : RefinesO d f)
    (h : Model.discard off len d = (d', .ok ())) (hs : (s + 1) * 512 ≤ d.info.vsize)
    (hw : Whole f off len (s / d.spc))
    (hm : (d.mapping (s * 512)).source = .dataFile) : guestSec d' s = 0 := by
  obtain ⟨_, hr', hi⟩ := discard_refines d d' f off len w hr h
  have hcs := cs_pos d.info
  have hspc := cs512 w.wf.st
  have hspcpos : 0 < d.spc := by
    apply Nat.pos_of_ne_zero; intro h0; rw [h0] at hspc; omega
  have hfspc : f.secPerCl = d.spc := by unfold Flat.secPerCl Dev.spc; rw [hr.cs]
  have hcl : s * 512 / d.info.clusterSize = s / d.spc := sector_cluster hspc s
  have hclv : s / d.spc * d.info.clusterSize < d.info.vsize := by
    have := Nat.div_mul_le_self (s * 512) d.info.clusterSize
    rw [hcl] at this; omega
  have hmc : d.mapping (s / d.spc * d.info.clusterSize) = d.mapping (s * 512) := by
    apply mapping_congr
    rw [Nat.mul_div_cancel _ hcs, hcl]
  rw [hr'.sec s (by rw [hi]; exact hs)]
  apply Qv.Props.C11.flat_discard_zeroes f off len s (by rw [hfspc]; exact hspcpos)
  · rw [hfspc]; exact hw
  · rw [hfspc]; exact (hr.own _ hclv).2 (by rw [hmc]; exact hm)

/-- … and every sector whose cluster is not a whole cluster of the clipped range (partial
    head / tail, outside the range), or is not mapped to the data file, reads what it read
    before -/
theorem discard_other_unchanged (d d' : Dev) (f : Flat) (off len s : Nat) (w : WFD d) (hr : RefinesO d f)
    (h : Model.discard off len d = (d', .ok ())) (hs : (s + 1) * 512 ≤ d.info.vsize)
    (hn : ¬ Whole f off len (s / d.spc) ∨ (d.mapping (s * 512)).source ≠ .dataFile) :
    guestSec d' s = guestSec d s := by
  obtain ⟨_, hr', hi⟩ := discard_refines d d' f off len w hr h
  have hcs := cs_pos d.info
  have hspc := cs512 w.wf.st
  have hspcpos : 0 < d.spc := by
    apply Nat.pos_of_ne_zero; intro h0; rw [h0] at hspc; omega
  have hfspc : f.secPerCl = d.spc := by unfold Flat.secPerCl Dev.spc; rw [hr.cs]
  have hcl : s * 512 / d.info.clusterSize = s / d.spc := sector_cluster hspc s
  have hclv : s / d.spc * d.info.clusterSize < d.info.vsize := by
    have := Nat.div_mul_le_self (s * 512) d.info.clusterSize
    rw [hcl] at this; omega
  have hmc : d.mapping (s / d.spc * d.info.clusterSize) = d.mapping (s * 512) := by
    apply mapping_congr
    rw [Nat.mul_div_cancel _ hcs, hcl]
  rw [hr'.sec s (by rw [hi]; exact hs), hr.sec s hs,
    Qv.Props.C11.flat_discard_spec f off len s (by rw [hfspc]; exact hspcpos), hfspc, if_neg]
  intro x
  rcases hn with hn | hn
  · exact hn x.1
  · apply hn
    have := (hr.own _ hclv).1 x.2
    rw [hmc] at this
    exact this

/-! ## D2. histories with discards -/

inductive Op where
  | write (off len : Nat) (toks : List Nat)
  | read (off len : Nat)
  | flush
  | discard (off len : Nat)

def stepDev (d : Dev) : Op → Dev
  | .write off len toks => (writeAt off len toks d).1
  | .read _ _ => d
  | .flush => (flushMeta d).1
  | .discard off len => (Model.discard off len d).1

def stepFlat (f : Flat) : Op → Flat
  | .write off _ toks => f.write off toks
  | .read _ _ => f
  | .flush => f
  | .discard off len => f.discard off len

/-- the operation is valid in state `d`: writes and reads as in C01Refine (`OpOK`); a
    discard, with ARBITRARY `off` and `len`, returned `Ok` (which it always does on a
    writable device with `vsize + cluster_size ≤ 2^64`, `discard_succeeds`) -/
def OpOK (d : Dev) : Op → Prop
  | .write off len toks => writeCheck d.info off len = none ∧ toks.length = len / 512 ∧
      (writeAt off len toks d).2 = .ok () ∧ (writeAt off len toks d).1.rtLen = d.rtLen
  | .read off len => off + len ≤ d.info.vsize ∧ len ≠ 0 ∧ len % d.info.bs = 0 ∧ off % d.info.bs = 0
  | .flush => True
  | .discard off len => (Model.discard off len d).2 = .ok ()

def RunOK : Dev → List Op → Prop
  | _, [] => True
  | d, op :: ops => OpOK d op ∧ RunOK (stepDev d op) ops

/-- every discard is a valid operation on a writable `WFD` device with `vsize + cs ≤ 2^64` -/
theorem opOK_discard (d : Dev) (off len : Nat) (w : WFD d) (hro : d.info.readOnly = false)
    (hv : d.info.vsize + d.info.clusterSize ≤ 2^64) : OpOK d (.discard off len) := by
  obtain ⟨d', h⟩ := discard_succeeds d off len w hro hv
  show (Model.discard off len d).2 = .ok ()
  rw [h]

/-- every read of the history returns on the device what it returns on the flat disk -/
def ReadsAgree : Dev → Flat → List Op → Prop
  | _, _, [] => True
  | d, f, op :: ops =>
    (match op with
     | .read off len => readAt d off len = Qv.Props.C01Refine.flatRead f off len
     | _ => True) ∧ ReadsAgree (stepDev d op) (stepFlat f op) ops

theorem refinesO_of_viewStep {d d' : Dev} {f : Flat} (v : RW.ViewStep d d') (h : RefinesO d f) : RefinesO d' f := by
  refine ⟨Qv.Props.C01Refine.refines_of_viewStep v h.sec, by rw [h.vsize, v.info], by rw [h.cs, v.info], ?_⟩
  intro g hg
  rw [v.info] at hg ⊢
  rw [v.mapping]
  exact h.own g hg

/-- one step of a history keeps well-formedness and refinement -/
theorem step_refines (d : Dev) (f : Flat) (op : Op) (w : WFD d) (hr : RefinesO d f) (ok : OpOK d op) :
    WFD (stepDev d op) ∧ RefinesO (stepDev d op) (stepFlat f op) := by
  cases op with
  | write off len toks =>
    obtain ⟨hc, htoks, hok, hng⟩ := ok
    have hw : writeAt off len toks d = ((writeAt off len toks d).1, .ok ()) := Prod.ext rfl hok
    obtain ⟨a, b, _⟩ := write_refinesO d _ f off len toks w hr hc htoks hw hng
    exact ⟨a, b⟩
  | read off len => exact ⟨w, hr⟩
  | flush =>
    have v : RW.ViewStep d (flushMeta d).1 := needFlush_viewStep d false
    have hI : HInv (flushMeta d).1 := hstep_hinv w.hinv .flush (by
      show Cap (flushMeta d).1
      exact w.wf.st.rt56)
    exact ⟨⟨⟨v.static w.wf.st, w.wf.tab.transfer rfl (fun _ h => h) (fun _ => rfl), v.mapOK w.wf.map,
      Qv.Props.C01Refine.newOK_of_viewStep v w.wf.new⟩, hI⟩, refinesO_of_viewStep v hr⟩
  | discard off len =>
    have hd : Model.discard off len d = ((Model.discard off len d).1, .ok ()) := Prod.ext rfl ok
    obtain ⟨a, b, _⟩ := discard_refines d _ f off len w hr hd
    exact ⟨a, b⟩

/-- **D2, general form.**  From any `WFD` device that shows the flat disk `f` (`RefinesO`):
    along every history of valid writes, reads, flushes and discards, every read returns what
    the flat disk returns. -/
theorem history_refines_discard (ops : List Op) : ∀ (d : Dev) (f : Flat), WFD d → RefinesO d f →
    RunOK d ops → ReadsAgree d f ops := by
  induction ops with
  | nil => intro _ _ _ _ _; trivial
  | cons op ops ih =>
    intro d f w hr hrun
    obtain ⟨ok, hrest⟩ := hrun
    obtain ⟨w', hr'⟩ := step_refines d f op w hr ok
    refine ⟨?_, ih _ _ w' hr' hrest⟩
    cases op with
    | write off len toks => trivial
    | flush => trivial
    | discard off len => trivial
    | read off len =>
      obtain ⟨hv, hl, hlb, hob⟩ := ok
      have h512 : d.info.clusterSize % 512 = 0 := by have := cs512 w.wf.st; omega
      exact Qv.Props.C01Model.refines_read d f hr.sec off len h512 hv hl hlb hob
        (Qv.Props.C01Refine.mod512_of_mod_bs w.wf.st.bsb9 hob)
        (Qv.Props.C01Refine.mod512_of_mod_bs w.wf.st.bsb9 hlb)

/-- a freshly formatted image is `WFD` and shows the blank disk, nothing owned -/
theorem format_wfd {size cb ro k : Nat} {p : Params} {d : Dev}
    (h : formatDev size cb ro (2^k) p = .ok d)
    (h9 : 9 ≤ cb) (h21 : cb ≤ 21) (hro : ro ≤ 6) (hk : k ≤ cb) (hsz : 0 < size)
    (hbs9 : 9 ≤ p.bsBits) (hbscb : p.bsBits ≤ cb)
    (hcap : (size + 2^cb / 8 * 2^cb - 1) / (2^cb / 8 * 2^cb) ≤ 32 * 2^20 / 8)
    (hrt56 : d.rtLen * d.info.rbEntries * d.info.clusterSize ≤ 2^56) :
    WFD d ∧ RefinesO d (Qv.Props.C01Refine.blank size cb) := by
  obtain ⟨wf, hr⟩ := Qv.Props.C01Refine.format_wf h h9 h21 hro hbs9 hbscb hcap hrt56
  have hI := formatDev_hinv h h9 h21 hro hk hsz hcap (by omega) hrt56
  obtain ⟨_, c1, _, hvs, _⟩ := Qv.Props.C09.format_geometry h h9 h21 hro (by omega) hcap
  refine ⟨⟨wf, hI⟩, hr, hvs.symm, ?_, ?_⟩
  · show 2^cb = 2^d.info.cb
    rw [c1]
  · intro g _
    rw [(Qv.Props.C09.format_mapping_empty h _).2.1]
    show (FMap.empty false).get g = true ↔ _
    rw [FMap.get_empty]
    constructor <;> intro x <;> cases x

/-- **D2.**  Start from a freshly formatted image (`formatDev` with a power-of-two format
    block size `2^k ≤ cluster size`, `size > 0`, and the hypotheses of
    `C01Refine.format_wf`).  For every list of operations — writes accepted by the
    validation prologue that return `Ok` and do not grow the reftable, reads inside the
    virtual disk, flushes, and discards with arbitrary offset and length that return `Ok`
    (`RunOK`) — every read returns exactly what the flat reference disk, started blank,
    returns under `Flat.write` / `Flat.discard`. -/
theorem history_refines_flat_discard {size cb ro k : Nat} {p : Params} {d0 : Dev}
    (hfmt : formatDev size cb ro (2^k) p = .ok d0)
    (h9 : 9 ≤ cb) (h21 : cb ≤ 21) (hro : ro ≤ 6) (hk : k ≤ cb) (hsz : 0 < size)
    (hbs9 : 9 ≤ p.bsBits) (hbscb : p.bsBits ≤ cb)
    (hcap : (size + 2^cb / 8 * 2^cb - 1) / (2^cb / 8 * 2^cb) ≤ 32 * 2^20 / 8)
    (hrt56 : d0.rtLen * d0.info.rbEntries * d0.info.clusterSize ≤ 2^56)
    (ops : List Op) (hrun : RunOK d0 ops) :
    ReadsAgree d0 (Qv.Props.C01Refine.blank size cb) ops := by
  obtain ⟨w, hr⟩ := format_wfd hfmt h9 h21 hro hk hsz hbs9 hbscb hcap hrt56
  exact history_refines_discard ops d0 _ w hr hrun

/-! ### non-vacuity: a history with a discard on the formatted image -/

open Qv.Props.C03 (fmtEx fmtEx_format)
open Qv.Props.C15 (infoEx)
open Qv.Props.C01Refine (blank)

theorem fmtEx_wfd : WFD fmtEx ∧ RefinesO fmtEx (blank (2^30) 16) :=
  format_wfd (k := 9) fmtEx_format (by decide) (by decide) (by decide) (by decide) (by decide)
    (by decide) (by decide) (by decide) (by decide)

/-- **D2 is not vacuous**: on the freshly formatted 1 GiB image the history "write one sector
    (token 7) at offset 0, read it, discard the first cluster, read again" is valid; the
    first read returns `[7]`, the read after the discard returns `[0]` — as on the flat disk. -/
theorem fmtEx_discard_history : ∃ d', writeAt 0 512 [7] fmtEx = (d', .ok ()) ∧
    RunOK fmtEx [.write 0 512 [7], .read 0 512, .discard 0 65536, .read 0 512] ∧
    readAt d' 0 512 = .ok (512, [7]) ∧
    readAt (Model.discard 0 65536 d').1 0 512 = .ok (512, [0]) := by
  obtain ⟨w, hr⟩ := fmtEx_wfd
  obtain ⟨dA, hen, hiA, hrtA, hhintA, hrtA', hrcA⟩ := Qv.Props.C01Refine.fmtEx_ensureL2
  obtain ⟨dB, hal, hngB⟩ := allocateClusters_one_free_hint dA (by rw [hiA]; exact Qv.Props.C08.geomEx)
    (by rw [hiA, hhintA, hrtA]; decide)
    (by
      have : dA.rt.get (Host.rtIndex dA.info dA.hint) = 0x20000#64 := by
        rw [hiA, hhintA, hrtA']
        show fmtEx.rt.get 0 = _; simp [fmtEx]
      rw [this]; decide)
    (by
      have : dA.hint / dA.info.clusterSize = 5 := by rw [hiA, hhintA]; decide
      rw [this]; exact hrcA)
  have hneed : needMakeMapping fmtEx.info (fmtEx.mapping 0) = true :=
    needMakeMapping_unallocated rfl (Qv.Props.C09.format_mapping_empty fmtEx_format 0).2.1
  obtain ⟨d', hw, hng⟩ := Qv.Props.C01Refine.write_single_succeeds [7] w.wf hr.sec (off := 0) (len := 512)
    (by decide) (by decide) (by decide) hneed hen hrtA hal hngB
  obtain ⟨w', hr', hi'⟩ := write_refinesO fmtEx d' _ 0 512 [7] w hr (by decide) rfl hw hng
  obtain ⟨d'', hd⟩ := discard_succeeds d' 0 65536 w' (by rw [hi']; rfl) (by rw [hi']; decide)
  obtain ⟨_, _, hi''⟩ := discard_refines d' d'' _ 0 65536 w' hr' hd
  have hrun : RunOK fmtEx [.write 0 512 [7], .read 0 512, .discard 0 65536, .read 0 512] := by
    refine ⟨⟨by decide, rfl, by rw [hw], by rw [hw]; exact hng⟩, ?_⟩
    show RunOK (writeAt 0 512 [7] fmtEx).1 _
    rw [hw]
    refine ⟨?_, ?_, ?_, trivial⟩
    · show 0 + 512 ≤ d'.info.vsize ∧ 512 ≠ 0 ∧ 512 % d'.info.bs = 0 ∧ 0 % d'.info.bs = 0
      rw [hi']; decide
    · show (Model.discard 0 65536 d').2 = .ok ()
      rw [hd]
    · show 0 + 512 ≤ (Model.discard 0 65536 d').1.info.vsize ∧ 512 ≠ 0 ∧
        512 % (Model.discard 0 65536 d').1.info.bs = 0 ∧ 0 % (Model.discard 0 65536 d').1.info.bs = 0
      rw [hd, hi'', hi']; decide
  refine ⟨d', hw, hrun, ?_, ?_⟩
  · have hag := history_refines_discard _ fmtEx _ w hr hrun
    have h1 := hag.2.1
    dsimp only [stepDev, stepFlat] at h1
    rw [hw] at h1
    rw [h1]
    unfold Qv.Props.C01Refine.flatRead
    have e : ((blank (2^30) 16).write 0 [7]).read 0 (512 / 512) = [7] := by
      show (List.range 1).map (fun i => ((blank (2^30) 16).write 0 [7]).sec.get (0 / 512 + i)) = [7]
      have l : List.range 1 = [0] := rfl
      rw [l]
      simp only [List.map_cons, List.map_nil, flat_write_sec]
      simp
    rw [e]
  · have hag := history_refines_discard _ fmtEx _ w hr hrun
    have h2 := hag.2.2.2.1
    dsimp only [stepDev, stepFlat] at h2
    rw [hw] at h2
    rw [h2]
    unfold Qv.Props.C01Refine.flatRead
    generalize hf : (blank (2^30) 16).write 0 [7] = f
    have hcs : f.cs = 2^16 := by rw [← hf, Flat.write_cs]; rfl
    have hvs : f.vsize = 2^30 := by rw [← hf, Flat.write_vsize]; rfl
    have hspc : f.secPerCl = 128 := by unfold Flat.secPerCl; rw [hcs]
    have hown : f.own.get 0 = true := by
      rw [← hf, Flat.write_own_get, if_pos]
      exact ⟨by simp, Nat.zero_le _, Nat.zero_le _⟩
    have hW : Whole f 0 65536 (0 / f.secPerCl) := by
      unfold Whole Qv.Props.C11.flatEnd
      rw [hspc, hcs, hvs]
      decide
    have e : (f.discard 0 65536).read 0 (512 / 512) = [0] := by
      show (List.range 1).map (fun i => (f.discard 0 65536).sec.get (0 / 512 + i)) = [0]
      have l : List.range 1 = [0] := rfl
      rw [l]
      simp only [List.map_cons, List.map_nil]
      have h0 : 0 / 512 + 0 = 0 := rfl
      rw [h0, Qv.Props.C11.flat_discard_zeroes f 0 65536 0 (by rw [hspc]; decide) hW
        (by rw [hspc]; exact hown)]
    rw [e]

/-! ## C1. a device with a backing image: copy-on-write from the backing source

The abstraction function `guestSec` (C01Model) already reads through the backing image:
a cluster the top device does not map (source `backing`: an unallocated entry of an image
that names a backing file) shows `backSec b s` — the backing content, zeros beyond the end
of a shorter backing image (`guestSec_backing`); a mapped cluster shows its data cluster.
So `Refines d f` is the refinement relation "guest view = own mapping, else backing
content", and `WFB d b` (RefineCow) is the well-formedness of a device with backing `b`. -/

open Qv.Proofs.RefineCow

/-- **C1.**  Device with backing image `b`, well-formed (`WFB`), showing `f`.  An accepted,
    non-empty request inside ONE guest cluster that the top device does not map yet (source
    `backing`) — partial or whole cluster — that returns `Ok` without growing the reftable
    (path `populate_single_write_mapping` → `do_write` → `do_write_cow` →
    `alloc_and_map_cluster` → `do_write_data_file` with the backing mapping as COW source):
    the device is well-formed again and shows `f.write off toks`; the backing image, the
    compressed plaintext, geometry and version are unchanged (`SameBack`, in particular
    `d'.back = some b`), and the cluster is mapped to the data file afterwards. -/
theorem write_cow_backing_refines (d d' : Dev) (b : Back) (f : Flat) (off len : Nat) (toks : List Nat)
    (wf : WFB d b) (hr : Refines d f)
    (hc : writeCheck d.info off len = none) (hl : len ≠ 0)
    (hsingle : off / d.info.clusterSize = (off + len - 1) / d.info.clusterSize)
    (htoks : toks.length = len / 512)
    (hsrc : (d.mapping off).source = .backing)
    (hw : writeAt off len toks d = (d', .ok ())) (hng : d'.rtLen = d.rtLen) :
    WFB d' b ∧ Refines d' (f.write off toks) ∧ SameBack d d' ∧ d'.back = some b ∧
      ∀ o, o / d.info.clusterSize = off / d.info.clusterSize → (d'.mapping o).source = .dataFile := by
  have hcs := cs_pos d.info
  obtain ⟨hv, hlb, hob, _⟩ := writeCheck_none hc
  have ho512 := Qv.Props.C01Refine.mod512_of_mod_bs wf.bsb9 hob
  have hl512 := Qv.Props.C01Refine.mod512_of_mod_bs wf.bsb9 hlb
  have hfit := single_cluster_fits hcs hsingle
  have hov : off < d.info.vsize := by omega
  have hsb : SameBack d d' := by
    have := Qv.Props.C10.writeAt_sameBack off len toks d
    rw [hw] at this; exact this
  unfold writeAt at hw
  dsimp only at hw
  rw [hc] at hw
  dsimp only at hw
  rw [if_neg hl, if_pos hsingle, RW.populateSingle_eq, needMake_backing wf.hasBack hsrc] at hw
  simp only [Bool.false_eq_true, if_false] at hw
  unfold doWrite at hw
  dsimp only at hw
  have hm : L2.intoMapping d.info.cb d.info.hasBack
      (Split.clusterOffset d.info (d.info.clusterRoundDown off)) (d.l2Entry off) = d.mapping off := rfl
  rw [hm, hsrc] at hw
  dsimp only at hw
  rw [if_pos wf.hasBack] at hw
  obtain ⟨x, st⟩ := doWriteCow_backing_state wf hov hsrc hw hng
  have hcap : Cap d' := by
    unfold Cap; rw [hng, st.info]; exact wf.winv.shape.cap56
  obtain ⟨w', _⟩ := doWriteCow_plain_winv wf.winv (wf.winv.shape.l1cov off hov)
    (by rw [hsrc]; decide) (by rw [hsrc]; decide) hw hcap
  refine ⟨cow_wfb wf st w', ?_, hsb, by rw [st.back]; exact wf.back, fun o ho => by rw [st.mapped o ho]; rfl⟩
  exact cow_refines wf hr st ho512 (by rw [htoks]; omega) hsrc

/-- **C1, the merge.**  After such a write the sectors of the cluster that the request does
    not cover still show the backing content (zeros beyond the end of a shorter backing
    image), the written sectors show the request (`cow_source_backing` of C10, seen from
    the guest) -/
theorem write_cow_backing_cluster (d d' : Dev) (b : Back) (f : Flat) (off len : Nat) (toks : List Nat)
    (wf : WFB d b) (hr : Refines d f)
    (hc : writeCheck d.info off len = none) (hl : len ≠ 0)
    (hsingle : off / d.info.clusterSize = (off + len - 1) / d.info.clusterSize)
    (htoks : toks.length = len / 512)
    (hsrc : (d.mapping off).source = .backing)
    (hw : writeAt off len toks d = (d', .ok ())) (hng : d'.rtLen = d.rtLen)
    (s : Nat) (hs : (s + 1) * 512 ≤ d.info.vsize)
    (hcl : s * 512 / d.info.clusterSize = off / d.info.clusterSize) :
    guestSec d' s =
      if off / 512 ≤ s ∧ s < off / 512 + toks.length then toks.getD (s - off / 512) 0
      else backSec b s := by
  obtain ⟨_, hr', hsb, _⟩ := write_cow_backing_refines d d' b f off len toks wf hr hc hl hsingle htoks hsrc hw hng
  rw [hr' s (by rw [hsb.2.2.1]; exact hs), flat_write_sec]
  split
  · rfl
  · rw [← hr s hs]
    exact guestSec_backing d b s wf.back (by rw [mapping_congr d hcl]; exact hsrc)

/-! ### histories on a device with a backing image -/


/-- the operations the backing-file theorems cover (operations, `stepDev`, `stepFlat`,
    `ReadsAgree` are those of C01Refine): a write accepted by the validation prologue that is
    empty, or lies entirely in clusters already mapped to the data file (in place, one or
    several clusters), or lies in ONE cluster that still reads from the backing image,
    returns `Ok` and does not grow the reftable (COW); reads inside the virtual disk; flushes -/
def OpOKB (d : Dev) : Qv.Props.C01Refine.Op → Prop
  | .write off len toks => writeCheck d.info off len = none ∧ toks.length = len / 512 ∧
      (len = 0 ∨ (∀ o, off ≤ o → o < off + len → (d.mapping o).source = .dataFile) ∨
       (off / d.info.clusterSize = (off + len - 1) / d.info.clusterSize ∧
         (d.mapping off).source = .backing ∧
         (writeAt off len toks d).2 = .ok () ∧ (writeAt off len toks d).1.rtLen = d.rtLen))
  | .read off len => off + len ≤ d.info.vsize ∧ len ≠ 0 ∧ len % d.info.bs = 0 ∧ off % d.info.bs = 0
  | .flush => True

def RunOKB : Dev → List Qv.Props.C01Refine.Op → Prop
  | _, [] => True
  | d, op :: ops => OpOKB d op ∧ RunOKB (Qv.Props.C01Refine.stepDev d op) ops

theorem step_refines_backing (d : Dev) (b : Back) (f : Flat) (op : Qv.Props.C01Refine.Op) (wf : WFB d b) (hr : Refines d f)
    (ok : OpOKB d op) : WFB (Qv.Props.C01Refine.stepDev d op) b ∧
      Refines (Qv.Props.C01Refine.stepDev d op) (Qv.Props.C01Refine.stepFlat f op) := by
  cases op with
  | write off len toks =>
    obtain ⟨hc, htoks, hcase⟩ := ok
    show WFB (writeAt off len toks d).1 b ∧ Refines (writeAt off len toks d).1 (f.write off toks)
    by_cases hl : len = 0
    · subst hl
      have ht : toks = [] := List.eq_nil_of_length_eq_zero (by simpa using htoks)
      subst ht
      have : writeAt off 0 [] d = (d, .ok ()) := by
        unfold writeAt
        dsimp only
        rw [hc]
        simp
      rw [this, Flat.write_nil]
      exact ⟨wf, hr⟩
    · rcases hcase with h0 | hin | ⟨hsingle, hsrc, hok, hng⟩
      · exact absurd h0 hl
      · obtain ⟨d', hw, wf', hr', _, _⟩ := write_inplace_backing wf hr hc hl htoks hin
        rw [hw]; exact ⟨wf', hr'⟩
      · have hw : writeAt off len toks d = ((writeAt off len toks d).1, .ok ()) := Prod.ext rfl hok
        obtain ⟨wf', hr', _, _⟩ := write_cow_backing_refines d _ b f off len toks wf hr hc hl hsingle
          htoks hsrc hw hng
        exact ⟨wf', hr'⟩
  | read off len => exact ⟨wf, hr⟩
  | flush =>
    have fr : MFrame d (flushMeta d).1 := ⟨rfl, rfl, rfl, rfl, rfl, rfl, rfl, rfl, rfl, rfl, rfl⟩
    exact ⟨⟨fr.winv rfl wf.winv, wf.bsb9, wf.hasBack, wf.back, wf.ent, wf.inj, wf.new⟩,
      Qv.Props.C01Refine.refines_of_viewStep (needFlush_viewStep d false) hr⟩

/-- **C1, histories.**  From a well-formed device with backing image `b` that shows `f`:
    along every history of the operations of `OpOKB` every read returns what the flat disk
    returns — the written data where something was written, the backing content (zeros
    beyond its end) elsewhere — and the device keeps the backing image `b`. -/
theorem history_refines_backing (b : Back) (ops : List Qv.Props.C01Refine.Op) : ∀ (d : Dev) (f : Flat), WFB d b → Refines d f →
    RunOKB d ops → Qv.Props.C01Refine.ReadsAgree d f ops ∧
      (ops.foldl Qv.Props.C01Refine.stepDev d).back = some b := by
  induction ops with
  | nil => intro d _ wf _ _; exact ⟨trivial, wf.back⟩
  | cons op ops ih =>
    intro d f wf hr hrun
    obtain ⟨ok, hrest⟩ := hrun
    obtain ⟨wf', hr'⟩ := step_refines_backing d b f op wf hr ok
    obtain ⟨ha, hb⟩ := ih _ _ wf' hr' hrest
    refine ⟨⟨?_, ha⟩, hb⟩
    cases op with
    | write off len toks => trivial
    | flush => trivial
    | read off len =>
      obtain ⟨hv, hl, hlb, hob⟩ := ok
      have h512 : d.info.clusterSize % 512 = 0 := by have := cs512W wf.winv; omega
      exact Qv.Props.C01Model.refines_read d f hr off len h512 hv hl hlb hob
        (Qv.Props.C01Refine.mod512_of_mod_bs wf.bsb9 hob)
        (Qv.Props.C01Refine.mod512_of_mod_bs wf.bsb9 hlb)

/-! ### non-vacuity of C1 -/

open Qv.Props.C03 (withL2 withL2_rc withL2_l1Entry)

/-- a backing image of three sectors; sector `k` holds token `100 + k` -/
def bEx : Back := { vsize := 1536, sec := fun k => 100 + k }

/-- `withL2` (C03: the formatted 1 GiB image with an empty L2 table for L1 slot 0, host
    clusters 0–4 in use) as the top of a chain over `bEx`; allocator hint at the free cluster 5 -/
def devB : Dev :=
  { withL2 with info := { withL2.info with hasBack := true }, back := some bEx, hint := 0x50000 }

theorem devB_winv : WInv devB := by
  obtain ⟨⟨g, s2, s3, s4, s5, s6, s7, s8, s9⟩, ⟨r1, r2, r3⟩, a⟩ := Qv.Props.C03Write.withL2_winv
  obtain ⟨g1, g2, g3, g4, g5, g6, g7, g8, g9, g10⟩ := g
  exact ⟨⟨⟨g1, g2, g3, g4, g5, g6, g7, g8, g9, g10⟩, s2, s3, s4, s5, s6, s7, s8, s9⟩, ⟨r1, r2, r3⟩, a⟩

theorem intoMapping_zero_back (cb g : Nat) : (L2.intoMapping cb true g 0#64).source = .backing := by
  have h1 : L2.compressedRange cb 0#64 = none := by
    unfold L2.compressedRange; rw [if_neg (by decide)]
  unfold L2.intoMapping
  rw [h1]
  simp only []
  rw [if_neg (by decide), if_pos (by decide), if_pos (by decide)]

/-- every guest cluster of `devB` reads from the backing image -/
theorem devB_mapping (o : Nat) : (devB.mapping o).source = .backing := by
  have : devB.l2Entry o = 0#64 := Qv.Props.C03Write.withL2_l2Entry_all o
  unfold Dev.mapping
  rw [this]
  exact intoMapping_zero_back _ _

theorem devB_wfb : WFB devB bEx := by
  refine ⟨devB_winv, by decide, rfl, rfl, ?_, ?_, ?_⟩
  · intro o _
    refine ⟨by rw [devB_mapping]; decide, fun h hs _ => ?_⟩
    rw [devB_mapping] at hs; cases hs
  · intro p q _ _ _ _ _ sp _ _ _
    rw [devB_mapping] at sp; cases sp
  · intro o _ hn
    obtain ⟨_, hs, _⟩ := hn
    rw [devB_mapping] at hs; cases hs

/-- the flat disk `devB` shows: the three sectors of the backing image, zeros after them -/
def flatB : Flat :=
  { vsize := 2^30, cs := 2^16, sec := (((FMap.empty 0).set 0 100).set 1 101).set 2 102, own := FMap.empty false }

theorem devB_refines : Refines devB flatB := by
  intro s _
  rw [guestSec_backing devB bEx s rfl (devB_mapping _)]
  unfold backSec
  show (if s * 512 + 512 ≤ 1536 then 100 + s else 0) = ((((FMap.empty 0).set 0 100).set 1 101).set 2 102).get s
  rw [FMap.get_set, FMap.get_set, FMap.get_set, FMap.get_empty]
  by_cases h2 : 2 = s
  · subst h2; simp
  · rw [if_neg h2]
    by_cases h1 : 1 = s
    · subst h1; simp
    · rw [if_neg h1]
      by_cases h0 : 0 = s
      · subst h0; simp
      · rw [if_neg h0, if_neg (by omega)]

/-- **C1 is not vacuous**: the one-sector write of token 7 at guest offset 0 of `devB` — a
    cluster that reads from the backing image — satisfies every hypothesis of
    `write_cow_backing_refines`; afterwards the device is well-formed, the backing image is
    still `bEx`, and a read of four sectors returns the written token, the two remaining
    sectors of the backing image, and a zero beyond its end.  The history "COW write, in-place
    write of token 8 into the cluster just mapped, read" is valid (`RunOKB`), and the read
    returns `[7, 8, 102, 0]`. -/
theorem devB_cow_write : ∃ d', writeAt 0 512 [7] devB = (d', .ok ()) ∧ d'.rtLen = devB.rtLen ∧
    WFB d' bEx ∧ d'.back = some bEx ∧ readAt d' 0 2048 = .ok (2048, [7, 101, 102, 0]) ∧
    RunOKB devB [.write 0 512 [7], .write 512 512 [8], .read 0 2048] ∧
    readAt (writeAt 512 512 [8] d').1 0 2048 = .ok (2048, [7, 8, 102, 0]) := by
  have hl1 : L1.isZero (devB.l1Entry 0) = false := by
    show L1.isZero (withL2.l1Entry 0) = false
    rw [withL2_l1Entry]; decide
  obtain ⟨dB, hal, hngB⟩ := allocateClusters_one_free_hint devB devB_winv.shape.geo (by decide)
    (by
      have : devB.rt.get (Host.rtIndex devB.info devB.hint) = 0x20000#64 := by
        show Qv.Props.C03.fmtEx.rt.get 0 = _; simp [Qv.Props.C03.fmtEx]
      rw [this]; decide)
    (by
      have : devB.hint / devB.info.clusterSize = 5 := by decide
      rw [this]
      show withL2.rc.get 5 = 0
      rw [withL2_rc]; decide)
  obtain ⟨d', hw, hng⟩ := write_cow_backing_succeeds [7] devB_wfb (off := 0) (len := 512) (by decide)
    (by decide) (by decide) (devB_mapping 0) hl1 hal hngB
  obtain ⟨wf', hr', hsb, hb', hmp⟩ := write_cow_backing_refines devB d' bEx flatB 0 512 [7] devB_wfb devB_refines
    (by decide) (by decide) (by decide) rfl (devB_mapping 0) hw hng
  have hi' : d'.info = devB.info := hsb.2.2.1
  have hrd := Qv.Props.C01Model.refines_read _ _ hr' 0 2048 (by rw [hi']; decide) (by rw [hi']; decide)
    (by decide) (by rw [hi']; decide) (by rw [hi']; decide) (by decide) (by decide)
  have e : (flatB.write 0 [7]).read 0 (2048 / 512) = [7, 101, 102, 0] := by
    show (List.range 4).map (fun i => (flatB.write 0 [7]).sec.get (0 / 512 + i)) = [7, 101, 102, 0]
    have l : List.range 4 = [0, 1, 2, 3] := rfl
    rw [l]
    simp only [List.map_cons, List.map_nil, flat_write_sec]
    simp [flatB, FMap.get_set]
  have hrun : RunOKB devB [.write 0 512 [7], .write 512 512 [8], .read 0 2048] := by
    refine ⟨⟨by decide, rfl, Or.inr (Or.inr ⟨by decide, devB_mapping 0, by rw [hw], by rw [hw]; exact hng⟩)⟩, ?_⟩
    show RunOKB (writeAt 0 512 [7] devB).1 _
    rw [hw]
    have hc2 : writeCheck d'.info 512 512 = none := by rw [hi']; decide
    have hin : ∀ o, 512 ≤ o → o < 512 + 512 → (d'.mapping o).source = .dataFile := by
      intro o o1 o2
      apply hmp
      show o / 65536 = 0 / 65536
      omega
    refine ⟨⟨hc2, rfl, Or.inr (Or.inl hin)⟩, ?_, trivial⟩
    obtain ⟨d'', hw2, _, _, _, hi''⟩ := write_inplace_backing wf' hr' hc2 (by decide) (toks := [8]) rfl hin
    show 0 + 2048 ≤ (writeAt 512 512 [8] d').1.info.vsize ∧ 2048 ≠ 0 ∧
      2048 % (writeAt 512 512 [8] d').1.info.bs = 0 ∧ 0 % (writeAt 512 512 [8] d').1.info.bs = 0
    rw [hw2, hi'', hi']; decide
  refine ⟨d', hw, hng, wf', hb', by rw [hrd, e], hrun, ?_⟩
  have hag := (history_refines_backing bEx _ devB flatB devB_wfb devB_refines hrun).1
  have h3 := hag.2.2.1
  dsimp only [Qv.Props.C01Refine.stepDev, Qv.Props.C01Refine.stepFlat] at h3
  rw [hw] at h3
  rw [h3]
  unfold Qv.Props.C01Refine.flatRead
  have e2 : ((flatB.write 0 [7]).write 512 [8]).read 0 (2048 / 512) = [7, 8, 102, 0] := by
    show (List.range 4).map (fun i => ((flatB.write 0 [7]).write 512 [8]).sec.get (0 / 512 + i)) = [7, 8, 102, 0]
    have l : List.range 4 = [0, 1, 2, 3] := rfl
    rw [l]
    simp only [List.map_cons, List.map_nil, flat_write_sec]
    simp [flatB, FMap.get_set]
  rw [e2]

end Qv.Props.C01RefineMore

/-! ## axioms -/
#print axioms Qv.Props.C01RefineMore.discard_refines
#print axioms Qv.Props.C01RefineMore.discard_succeeds
#print axioms Qv.Props.C01RefineMore.write_refinesO
#print axioms Qv.Props.C01RefineMore.discard_whole_reads_zero
#print axioms Qv.Props.C01RefineMore.discard_other_unchanged
#print axioms Qv.Props.C01RefineMore.history_refines_discard
#print axioms Qv.Props.C01RefineMore.format_wfd
#print axioms Qv.Props.C01RefineMore.history_refines_flat_discard
#print axioms Qv.Props.C01RefineMore.fmtEx_discard_history
#print axioms Qv.Props.C01RefineMore.write_cow_backing_refines
#print axioms Qv.Props.C01RefineMore.write_cow_backing_cluster
#print axioms Qv.Props.C01RefineMore.devB_wfb
#print axioms Qv.Props.C01RefineMore.devB_cow_write
#print axioms Qv.Props.C01RefineMore.step_refines_backing
#print axioms Qv.Props.C01RefineMore.history_refines_backing
#print axioms Qv.Props.C01RefineMore.opOK_discard
