import Qv.Proofs.Discard
import Qv.Props.C08
import Qv.Props.C13
/-
C11 — discard.  Part 1 states the discard contract on the flat reference disk
(`Qv.Spec.Flat.discard`): clip to the virtual size, round inward to whole
clusters, zero (and release) exactly the whole clusters that have their own
uncompressed allocation, leave everything else alone.  Part 2 states what one
`__discard_one_cluster` does on the device model in its three variants (no
backing file / backing file and version ≥ 3 / backing file and version 2), and
that a discarded cluster reads as zeros, never from the backing chain.  Part 3
is about the cluster loop and the public `discard`.  Helper lemmas live in
`Qv/Proofs/Flat.lean` and `Qv/Proofs/Discard.lean`.
-/
namespace Qv.Props.C11
open Qv Qv.Spec Qv.Model Qv.Codec

/-! ## 1. The contract on the flat disk -/

/-- end of the discarded byte range: saturating u64 add, clipped to the virtual size -/
def flatEnd (f : Flat) (off len : Nat) : Nat := min (min (off + len) (2^64 - 1)) f.vsize

/-- guest cluster `g` is a whole cluster inside the clipped range of `discard off len` -/
def Whole (f : Flat) (off len g : Nat) : Prop :=
  len ≠ 0 ∧ (off + f.cs - 1) / f.cs ≤ g ∧ g < flatEnd f off len / f.cs

instance (f : Flat) (off len g : Nat) : Decidable (Whole f off len g) := by
  unfold Whole; infer_instance

/-- the rounding is exact: `g` is selected iff the request is non-empty and the
    bytes of cluster `g` lie inside `[off, min (off+len) (2^64-1) vsize)` -/
theorem flat_discard_whole_iff (f : Flat) (off len g : Nat) (hcs : 0 < f.cs) :
    Whole f off len g ↔ len ≠ 0 ∧ off ≤ g * f.cs ∧ g * f.cs + f.cs ≤ flatEnd f off len := by
  unfold Whole
  have e1 : (off + f.cs - 1) / f.cs ≤ g ↔ off ≤ g * f.cs := by
    rw [← Nat.lt_succ_iff, Nat.div_lt_iff_lt_mul hcs, Nat.succ_mul]; omega
  have e2 : g < flatEnd f off len / f.cs ↔ g * f.cs + f.cs ≤ flatEnd f off len := by
    rw [← Nat.succ_le_iff, Nat.le_div_iff_mul_le hcs, Nat.succ_mul]
  rw [e1, e2]

theorem flatEnd_le (f : Flat) (off len : Nat) :
    flatEnd f off len ≤ off + len ∧ flatEnd f off len ≤ f.vsize ∧ flatEnd f off len ≤ 2^64 - 1 := by
  unfold flatEnd
  have h1 := Nat.min_le_right (min (off + len) (2^64 - 1)) f.vsize
  have h2 := Nat.min_le_left (min (off + len) (2^64 - 1)) f.vsize
  have h3 := Nat.min_le_left (off + len) (2^64 - 1)
  have h4 := Nat.min_le_right (off + len) (2^64 - 1)
  omega

theorem flat_discard_cs (f : Flat) (off len : Nat) (hspc : 0 < f.secPerCl) :
    (f.discard off len).cs = f.cs ∧ (f.discard off len).vsize = f.vsize := by
  rw [Flat.discard_eq]
  split; · exact ⟨rfl, rfl⟩
  split; · exact ⟨rfl, rfl⟩
  split; · exact ⟨rfl, rfl⟩
  obtain ⟨a, b, _⟩ := Flat.discardFold_spec f ((off + f.cs - 1) / f.cs)
    (min (min (off + len) (2^64 - 1)) f.vsize / f.cs - (off + f.cs - 1) / f.cs) hspc
  exact ⟨a, b⟩

theorem whole_def (f : Flat) (off len g : Nat) :
    Whole f off len g ↔ len ≠ 0 ∧ (off + f.cs - 1) / f.cs ≤ g ∧
      g < min (min (off + len) (2^64 - 1)) f.vsize / f.cs := Iff.rfl

/-- `Whole` is empty in the three early-return cases of `Flat.discard` -/
theorem not_whole_of_early (f : Flat) (off len g : Nat) (hcs : 0 < f.cs)
    (h : len = 0 ∨ off ≥ min (min (off + len) (2^64 - 1)) f.vsize ∨
      (off + f.cs - 1) / f.cs ≥ min (min (off + len) (2^64 - 1)) f.vsize / f.cs) :
    ¬ Whole f off len g := by
  intro x
  obtain ⟨x1, x2, x3⟩ := (whole_def f off len g).1 x
  rcases h with h | h | h
  · exact x1 h
  · have a := Nat.div_le_div_right (c := f.cs) h
    have b : off / f.cs ≤ (off + f.cs - 1) / f.cs := Nat.div_le_div_right (by omega)
    omega
  · omega

/-- the discard contract, sector by sector: a sector is zeroed iff its cluster is
    a whole cluster inside the clipped range and has its own allocation; every
    other sector keeps its content -/
theorem flat_discard_spec (f : Flat) (off len s : Nat) (hspc : 0 < f.secPerCl) :
    (f.discard off len).sec.get s =
      if Whole f off len (s / f.secPerCl) ∧ f.own.get (s / f.secPerCl) = true then 0
      else f.sec.get s := by
  have hcs : 0 < f.cs := by unfold Flat.secPerCl at hspc; omega
  rw [Flat.discard_eq]
  split
  · rename_i h; rw [if_neg (fun x => not_whole_of_early f off len _ hcs (Or.inl h) x.1)]
  split
  · rename_i h1 h; rw [if_neg (fun x => not_whole_of_early f off len _ hcs (Or.inr (Or.inl h)) x.1)]
  split
  · rename_i h1 h2 h; rw [if_neg (fun x => not_whole_of_early f off len _ hcs (Or.inr (Or.inr h)) x.1)]
  · rename_i h1 h2 h3
    obtain ⟨_, _, _, d⟩ := Flat.discardFold_spec f ((off + f.cs - 1) / f.cs)
      (min (min (off + len) (2^64 - 1)) f.vsize / f.cs - (off + f.cs - 1) / f.cs) hspc
    rw [d s]
    have e : (off + f.cs - 1) / f.cs +
        (min (min (off + len) (2^64 - 1)) f.vsize / f.cs - (off + f.cs - 1) / f.cs) =
        min (min (off + len) (2^64 - 1)) f.vsize / f.cs := by omega
    rw [e]
    by_cases c : (off + f.cs - 1) / f.cs ≤ s / f.secPerCl ∧
        s / f.secPerCl < min (min (off + len) (2^64 - 1)) f.vsize / f.cs ∧
        f.own.get (s / f.secPerCl) = true
    · rw [if_pos c, if_pos ⟨(whole_def f off len _).2 ⟨h1, c.1, c.2.1⟩, c.2.2⟩]
    · rw [if_neg c, if_neg]
      intro x
      obtain ⟨_, x2, x3⟩ := (whole_def f off len _).1 x.1
      exact c ⟨x2, x3, x.2⟩

/-- the discarded owned clusters are no longer owned; every other `own` bit is unchanged -/
theorem flat_discard_own (f : Flat) (off len g : Nat) (hspc : 0 < f.secPerCl) :
    (f.discard off len).own.get g = if Whole f off len g then false else f.own.get g := by
  have hcs : 0 < f.cs := by unfold Flat.secPerCl at hspc; omega
  rw [Flat.discard_eq]
  split
  · rename_i h; rw [if_neg (not_whole_of_early f off len _ hcs (Or.inl h))]
  split
  · rename_i h1 h; rw [if_neg (not_whole_of_early f off len _ hcs (Or.inr (Or.inl h)))]
  split
  · rename_i h1 h2 h; rw [if_neg (not_whole_of_early f off len _ hcs (Or.inr (Or.inr h)))]
  · rename_i h1 h2 h3
    obtain ⟨_, _, c, _⟩ := Flat.discardFold_spec f ((off + f.cs - 1) / f.cs)
      (min (min (off + len) (2^64 - 1)) f.vsize / f.cs - (off + f.cs - 1) / f.cs) hspc
    rw [c g]
    have e : (off + f.cs - 1) / f.cs +
        (min (min (off + len) (2^64 - 1)) f.vsize / f.cs - (off + f.cs - 1) / f.cs) =
        min (min (off + len) (2^64 - 1)) f.vsize / f.cs := by omega
    rw [e]
    by_cases c : (off + f.cs - 1) / f.cs ≤ g ∧ g < min (min (off + len) (2^64 - 1)) f.vsize / f.cs
    · rw [if_pos c, if_pos ((whole_def f off len g).2 ⟨h1, c⟩)]
    · rw [if_neg c, if_neg (fun x => c ((whole_def f off len g).1 x).2)]

/-- whole owned clusters inside the range do read as zeros afterwards -/
theorem flat_discard_zeroes (f : Flat) (off len s : Nat) (hspc : 0 < f.secPerCl)
    (hw : Whole f off len (s / f.secPerCl)) (ho : f.own.get (s / f.secPerCl) = true) :
    (f.discard off len).sec.get s = 0 := by
  rw [flat_discard_spec f off len s hspc, if_pos ⟨hw, ho⟩]

/-- byte bounds of a selected cluster -/
theorem whole_bounds (f : Flat) (off len g : Nat) (hcs : 0 < f.cs) (h : Whole f off len g) :
    off ≤ g * f.cs ∧ g * f.cs + f.cs ≤ off + len ∧ g * f.cs + f.cs ≤ f.vsize := by
  obtain ⟨_, a, b⟩ := (flat_discard_whole_iff f off len g hcs).1 h
  obtain ⟨c, d, _⟩ := flatEnd_le f off len
  omega

/-- sector `s` of cluster `s / secPerCl`: byte bounds (needs `cs` to be a
    multiple of the sector size) -/
theorem sector_in_cluster (f : Flat) (s : Nat) (hspc : 0 < f.secPerCl) (hdiv : f.cs % 512 = 0) :
    (s / f.secPerCl) * f.cs ≤ s * 512 ∧ s * 512 + 512 ≤ (s / f.secPerCl) * f.cs + f.cs := by
  have hcs : f.cs = f.secPerCl * 512 := by
    unfold Flat.secPerCl
    have := Nat.div_add_mod f.cs 512
    omega
  have h1 := Nat.div_add_mod s f.secPerCl
  have h2 := Nat.mod_lt s hspc
  rw [hcs, ← Nat.mul_assoc]
  rw [Nat.mul_comm] at h1
  generalize s / f.secPerCl * f.secPerCl = a at *
  omega

/-- nothing outside the byte range `[off, off+len)` changes: a sector that is
    not entirely inside the requested range keeps its content -/
theorem flat_discard_outside (f : Flat) (off len s : Nat) (hspc : 0 < f.secPerCl) (hdiv : f.cs % 512 = 0)
    (h : ¬ (off ≤ s * 512 ∧ s * 512 + 512 ≤ off + len)) :
    (f.discard off len).sec.get s = f.sec.get s := by
  rw [flat_discard_spec f off len s hspc, if_neg]
  intro x
  have hcs : 0 < f.cs := by unfold Flat.secPerCl at hspc; omega
  have := whole_bounds f off len _ hcs x.1
  have := sector_in_cluster f s hspc hdiv
  omega

/-- head and tail clusters that the request covers only partly are unchanged -/
theorem flat_discard_partial_clusters_unchanged (f : Flat) (off len s : Nat) (hspc : 0 < f.secPerCl)
    (h : (s / f.secPerCl) * f.cs < off ∨ off + len < (s / f.secPerCl) * f.cs + f.cs) :
    (f.discard off len).sec.get s = f.sec.get s := by
  rw [flat_discard_spec f off len s hspc, if_neg]
  intro x
  have hcs : 0 < f.cs := by unfold Flat.secPerCl at hspc; omega
  have := whole_bounds f off len _ hcs x.1
  omega

/-- clusters without an own allocation are unchanged (they keep reading what
    they read before: zeros, backing data or compressed data) -/
theorem flat_discard_unowned_unchanged (f : Flat) (off len s : Nat) (hspc : 0 < f.secPerCl)
    (h : f.own.get (s / f.secPerCl) = false) :
    (f.discard off len).sec.get s = f.sec.get s := by
  rw [flat_discard_spec f off len s hspc, if_neg]
  intro x; rw [h] at x; cases x.2

theorem flat_discard_zero_len (f : Flat) (off : Nat) : f.discard off 0 = f := by
  simp [Flat.discard]

/-- a request starting at or beyond the virtual size does nothing -/
theorem flat_discard_beyond_end (f : Flat) (off len : Nat) (h : f.vsize ≤ off) : f.discard off len = f := by
  rw [Flat.discard_eq]
  split; · rfl
  rw [if_pos]
  have := Nat.min_le_right (min (off + len) (2^64 - 1)) f.vsize
  omega

/-- sectors of clusters that are not entirely below the virtual size are unchanged -/
theorem flat_discard_beyond_vsize (f : Flat) (off len s : Nat) (hspc : 0 < f.secPerCl)
    (h : f.vsize < (s / f.secPerCl) * f.cs + f.cs) :
    (f.discard off len).sec.get s = f.sec.get s := by
  rw [flat_discard_spec f off len s hspc, if_neg]
  intro x
  have hcs : 0 < f.cs := by unfold Flat.secPerCl at hspc; omega
  have := whole_bounds f off len _ hcs x.1
  omega

theorem whole_congr (f f' : Flat) (off len g : Nat) (h1 : f'.cs = f.cs) (h2 : f'.vsize = f.vsize) :
    Whole f' off len g ↔ Whole f off len g := by
  unfold Whole flatEnd; rw [h1, h2]

/-- discarding the same range twice is the same as once -/
theorem flat_discard_idempotent (f : Flat) (off len : Nat) (hspc : 0 < f.secPerCl) :
    (∀ s, ((f.discard off len).discard off len).sec.get s = (f.discard off len).sec.get s) ∧
    (∀ g, ((f.discard off len).discard off len).own.get g = (f.discard off len).own.get g) := by
  obtain ⟨hcs, hvs⟩ := flat_discard_cs f off len hspc
  have hspc' : (f.discard off len).secPerCl = f.secPerCl := by unfold Flat.secPerCl; rw [hcs]
  have hspc1 : 0 < (f.discard off len).secPerCl := by rw [hspc']; exact hspc
  constructor
  · intro s
    rw [flat_discard_spec _ off len s hspc1, if_neg]
    intro x
    rw [hspc'] at x
    have hw := (whole_congr f _ off len _ hcs hvs).1 x.1
    have := x.2
    rw [flat_discard_own f off len _ hspc, if_pos hw] at this
    cases this
  · intro g
    rw [flat_discard_own _ off len g hspc1, flat_discard_own f off len g hspc]
    by_cases c : Whole f off len g
    · rw [if_pos ((whole_congr f _ off len g hcs hvs).2 c), if_pos c]
    · rw [if_neg (fun x => c ((whole_congr f _ off len g hcs hvs).1 x)), if_neg c]

/-- after a discard, no whole cluster inside the range is owned -/
theorem flat_discard_range_unowned (f : Flat) (off len g : Nat) (hspc : 0 < f.secPerCl)
    (h : Whole f off len g) : (f.discard off len).own.get g = false := by
  rw [flat_discard_own f off len g hspc, if_pos h]

/-! ## 2. One cluster on the device model -/

/-- nothing to release: unmapped L2 table, compressed cluster, or no allocation -/
theorem discardOne_unallocated_noop (g : Nat) (d : Dev)
    (h : L1.isZero (d.l1Entry g) = true ∨ L2.isCompressed (d.l2Entry g) = true ∨
      L2.allocation d.info.cb (d.l2Entry g) = none) :
    discardOne g d = (d, .ok ()) :=
  discardOne_noop g d h

/-- in particular an already discarded cluster (entry `0` or `1`) is a no-op -/
theorem discardOne_cleared_noop (g : Nat) (d : Dev) (h : d.l2Entry g = 0#64 ∨ d.l2Entry g = 1#64) :
    discardOne g d = (d, .ok ()) := by
  apply discardOne_noop
  rcases h with h | h
  · rw [h]; exact Or.inr (Or.inr (L2.allocation_zero _))
  · rw [h]; exact Or.inr (Or.inr (L2.allocation_one _))

/-- What a successful mapping-clearing `discardOne g` established: `d'` is the
    state after, `(host, cnt)` the released allocation, `cleared` the new entry. -/
structure Discarded (d d' : Dev) (g host cnt : Nat) (cleared : E64) : Prop where
  /-- an uncompressed allocation is one cluster at the entry's host offset -/
  alloc : cnt = 1 ∧ host = (L2.clusterOffset (d.l2Entry g)).toNat ∧ host ≠ 0
  /-- the L2 table of `g` was mapped -/
  l1_mapped : L1.isZero (d.l1Entry g) = false
  /-- the mapping of `g` is cleared -/
  entry : d'.l2Entry g = cleared
  /-- every entry in another slot, or in another L2 table, is unchanged -/
  l2_frame : ∀ o, (Split.l2Index d.info o ≠ Split.l2Index d.info g ∨ L1.isZero (d.l1Entry o) = true ∨
      (L1.l2Offset (d.l1Entry o)).toNat ≠ (L1.l2Offset (d.l1Entry g)).toNat) →
    d'.l2Entry o = d.l2Entry o
  /-- … and only those: an aliased slot (same table, same index) is cleared too -/
  l2_alias : ∀ o, Split.l2Index d.info o = Split.l2Index d.info g → L1.isZero (d.l1Entry o) = false →
      (L1.l2Offset (d.l1Entry o)).toNat = (L1.l2Offset (d.l1Entry g)).toNat →
    d'.l2Entry o = cleared
  /-- each released cluster had refcount ≥ 1 and lost exactly one reference -/
  rc_released : ∀ k, k < cnt → 1 ≤ d.rc.get (host / d.info.clusterSize + k) ∧
    d'.rc.get (host / d.info.clusterSize + k) = d.rc.get (host / d.info.clusterSize + k) - 1
  rc_frame : ∀ c, ¬ (host / d.info.clusterSize ≤ c ∧ c < host / d.info.clusterSize + cnt) →
    d'.rc.get c = d.rc.get c
  /-- hole punch: the data sectors of the released clusters are zero -/
  data_zeroed : ∀ s, host / 512 ≤ s → s < host / 512 + cnt * d.spc → d'.data.get s = 0
  data_frame : ∀ s, ¬ (host / 512 ≤ s ∧ s < host / 512 + cnt * d.spc) → d'.data.get s = d.data.get s
  needFlush : d'.needFlush = true
  /-- the allocator hint only moves down, to or below a cluster that became free -/
  hint_le : d'.hint ≤ d.hint ∧ (d.rc.get (host / d.info.clusterSize) = 1 → d'.hint ≤ host)
  newData : d'.newData = d.newData.filter
    (fun c => ¬ (host / d.info.clusterSize ≤ c ∧ c < host / d.info.clusterSize + cnt))
  frame : d'.info = d.info ∧ d'.version = d.version ∧ d'.l1 = d.l1 ∧ d'.l1Len = d.l1Len ∧
    d'.rt = d.rt ∧ d'.rtLen = d.rtLen ∧ d'.back = d.back ∧ d'.comp = d.comp

/-- distinct mapped L1 slots point to distinct L2 tables.  Holds for every
    consistent image (each L2 table has refcount 1); a corrupt image may violate
    it, and then `Discarded.l2_alias` describes what happens. -/
def L1Distinct (d : Dev) : Prop :=
  ∀ a b, Split.l1Index d.info a ≠ Split.l1Index d.info b →
    L1.isZero (d.l1Entry a) = false → L1.isZero (d.l1Entry b) = false →
    (L1.l2Offset (d.l1Entry a)).toNat ≠ (L1.l2Offset (d.l1Entry b)).toNat

/-- the mapping-clearing variants (everything except "backing file and version 2") -/
theorem discardOne_clear_spec (g : Nat) (d d' : Dev) (host cnt : Nat)
    (hc : L2.isCompressed (d.l2Entry g) = false)
    (ha : L2.allocation d.info.cb (d.l2Entry g) = some (host, cnt))
    (hv : ¬ (d.info.hasBack = true ∧ d.version < 3))
    (h : discardOne g d = (d', .ok ())) :
    Discarded d d' g host cnt (if d.info.hasBack = true then 1#64 else 0#64) := by
  obtain ⟨d2, hfc, hd'⟩ := discardOne_release hc ha hv h
  have hl1 := l1_nonzero_of_allocation ha
  obtain ⟨a1, a2, a3⟩ := L2.allocation_uncompressed hc ha
  obtain ⟨r1, r2, r3, r4, _, _, _⟩ := C08.freeClusters_spec host cnt true _ d2 hfc
  have hl2 := fun o => l2Entry_after_setL2 d d' g (if d.info.hasBack = true then 1#64 else 0#64) o
    (by rw [hd']) (by rw [hd']) (by rw [hd']) (by rw [hd'])
  have hdata : ∀ s, d'.data.get s =
      if host / 512 ≤ s ∧ s < host / 512 + cnt * d.spc then 0 else d.data.get s := by
    intro s; rw [hd']; exact FMap.get_setRange _ _ _ _ s
  have hrc : d'.rc = d2.rc := by rw [hd']
  have hhint : d'.hint = d2.hint := by rw [hd']
  refine
    { alloc := ⟨a1, a2, ?_⟩, l1_mapped := hl1, entry := ?_, l2_frame := ?_, l2_alias := ?_,
      rc_released := ?_, rc_frame := ?_, data_zeroed := ?_, data_frame := ?_, needFlush := ?_,
      hint_le := ?_, newData := ?_, frame := ?_ }
  · intro h0
    apply a3
    apply BitVec.eq_of_toNat_eq
    rw [← a2, h0]; rfl
  · rw [hl2 g, if_neg (by simp [hl1]), if_pos ⟨rfl, rfl⟩]
  · intro o ho
    rw [hl2 o]
    split
    · rename_i hz; exact (l2Entry_of_l1_zero d o hz).symm
    · rename_i hz
      rw [if_neg]
      rintro ⟨x1, x2⟩
      rcases ho with ho | ho | ho
      · exact ho x2
      · exact hz ho
      · exact ho x1
  · intro o o1 o2 o3
    rw [hl2 o, if_neg (by simp [o2]), if_pos ⟨o3, o1⟩]
  · intro k hk
    rw [hrc]; exact r1 k hk
  · intro c hcc
    rw [hrc]; exact r2 c hcc
  · intro s s1 s2
    rw [hdata s, if_pos ⟨s1, s2⟩]
  · intro s hs
    rw [hdata s, if_neg hs]
  · rw [hd']
  · rw [hhint]
    refine ⟨r3, fun h1 => ?_⟩
    have := r4 rfl 0 (by omega) h1
    simpa using this
  · rw [hd']
  · rw [hd']; exact ⟨rfl, rfl, rfl, rfl, rfl, rfl, rfl, rfl⟩

/-- no backing file: the entry becomes `0` (unallocated), the cluster is released -/
theorem discardOne_plain_spec (g : Nat) (d d' : Dev) (host cnt : Nat)
    (hnb : d.info.hasBack = false)
    (hc : L2.isCompressed (d.l2Entry g) = false)
    (ha : L2.allocation d.info.cb (d.l2Entry g) = some (host, cnt))
    (h : discardOne g d = (d', .ok ())) :
    Discarded d d' g host cnt 0#64 := by
  have := discardOne_clear_spec g d d' host cnt hc ha (by simp [hnb]) h
  rw [hnb] at this
  exact this

/-- backing file and version ≥ 3: the entry becomes `1` (zero flag, no offset),
    the cluster is released -/
theorem discardOne_backing_v3_spec (g : Nat) (d d' : Dev) (host cnt : Nat)
    (hb : d.info.hasBack = true) (hver : 3 ≤ d.version)
    (hc : L2.isCompressed (d.l2Entry g) = false)
    (ha : L2.allocation d.info.cb (d.l2Entry g) = some (host, cnt))
    (h : discardOne g d = (d', .ok ())) :
    Discarded d d' g host cnt 1#64 := by
  have := discardOne_clear_spec g d d' host cnt hc ha (by omega) h
  rw [hb] at this
  exact this

/-- the frame in the form "every other (L1 index, L2 index) pair", for images
    whose L1 entries do not alias -/
theorem discardOne_l2_frame {g : Nat} {d d' : Dev} {host cnt : Nat} {cleared : E64}
    (hd : Discarded d d' g host cnt cleared) (hna : L1Distinct d) (o : Nat)
    (ho : Split.l1Index d.info o ≠ Split.l1Index d.info g ∨ Split.l2Index d.info o ≠ Split.l2Index d.info g) :
    d'.l2Entry o = d.l2Entry o := by
  apply hd.l2_frame
  rcases ho with ho | ho
  · cases hz : L1.isZero (d.l1Entry o) with
    | true => exact Or.inr (Or.inl rfl)
    | false => exact Or.inr (Or.inr (hna o g ho hz hd.l1_mapped))
  · exact Or.inl ho

/-- the discarded cluster reads as zeros and never from the backing chain, in
    both mapping-clearing variants, for every in-cluster offset and length (the
    result does not depend on `d'.back`, `d'.data` or `d'.comp`) -/
theorem discardOne_reads_zero (g : Nat) (d d' : Dev) (host cnt : Nat)
    (hc : L2.isCompressed (d.l2Entry g) = false)
    (ha : L2.allocation d.info.cb (d.l2Entry g) = some (host, cnt))
    (hv : ¬ (d.info.hasBack = true ∧ d.version < 3))
    (h : discardOne g d = (d', .ok ())) (off n : Nat) :
    doRead d' (d'.l2Entry g) off n = .ok (List.replicate n 0) := by
  have hd := discardOne_clear_spec g d d' host cnt hc ha hv h
  rw [hd.entry]
  unfold doRead; dsimp only
  rw [hd.frame.1]
  cases hb : d.info.hasBack with
  | false => simp only [Bool.false_eq_true, if_false, L2.intoMapping_zero]
  | true => simp only [if_true, L2.intoMapping_one]

/-- … whatever the backing chain contains -/
theorem discardOne_reads_zero_any_backing (g : Nat) (d d' : Dev) (host cnt : Nat)
    (hc : L2.isCompressed (d.l2Entry g) = false)
    (ha : L2.allocation d.info.cb (d.l2Entry g) = some (host, cnt))
    (hv : ¬ (d.info.hasBack = true ∧ d.version < 3))
    (h : discardOne g d = (d', .ok ())) (b : Option Back) (off n : Nat) :
    doRead { d' with back := b } (d'.l2Entry g) off n = .ok (List.replicate n 0) := by
  have hd := discardOne_clear_spec g d d' host cnt hc ha hv h
  rw [hd.entry]
  unfold doRead; dsimp only
  rw [hd.frame.1]
  cases hb : d.info.hasBack with
  | false => simp only [Bool.false_eq_true, if_false, L2.intoMapping_zero]
  | true => simp only [if_true, L2.intoMapping_one]

/-- backing file and version 2 (no zero flag available): the mapping and the
    refcounts stay, only the content of the cluster is zeroed; this variant
    cannot fail -/
theorem discardOne_backing_v2_spec (g : Nat) (d : Dev) (host cnt : Nat)
    (hb : d.info.hasBack = true) (hver : d.version < 3)
    (hc : L2.isCompressed (d.l2Entry g) = false)
    (ha : L2.allocation d.info.cb (d.l2Entry g) = some (host, cnt)) :
    ∃ d', discardOne g d = (d', .ok ()) ∧
      d' = { d with data := d.data.setRange (host / 512) (cnt * d.spc) (fun _ => 0) } ∧
      (∀ o, d'.l2Entry o = d.l2Entry o) ∧ d'.l2 = d.l2 ∧ d'.rc = d.rc ∧
      (∀ s, host / 512 ≤ s → s < host / 512 + cnt * d.spc → d'.data.get s = 0) ∧
      (∀ s, ¬ (host / 512 ≤ s ∧ s < host / 512 + cnt * d.spc) → d'.data.get s = d.data.get s) ∧
      d'.needFlush = d.needFlush ∧ cnt = 1 ∧ host = (L2.clusterOffset (d.l2Entry g)).toNat := by
  obtain ⟨a1, a2, _⟩ := L2.allocation_uncompressed hc ha
  refine ⟨_, ?_, rfl, fun o => rfl, rfl, rfl, ?_, ?_, rfl, a1, a2⟩
  · rw [discardOne_alloc g d host cnt hc ha, if_pos ⟨hb, hver⟩]
  · intro s s1 s2
    show (d.data.setRange (host / 512) (cnt * d.spc) (fun _ => 0)).get s = 0
    rw [FMap.get_setRange, if_pos ⟨s1, s2⟩]
  · intro s hs
    show (d.data.setRange (host / 512) (cnt * d.spc) (fun _ => 0)).get s = d.data.get s
    rw [FMap.get_setRange, if_neg hs]

/-- … and the cluster still reads as zeros (from its own, zeroed, data cluster —
    not from the backing chain) -/
theorem discardOne_backing_v2_reads_zero (g : Nat) (d d' : Dev) (host cnt : Nat)
    (hb : d.info.hasBack = true) (hver : d.version < 3)
    (hc : L2.isCompressed (d.l2Entry g) = false)
    (ha : L2.allocation d.info.cb (d.l2Entry g) = some (host, cnt))
    (h : discardOne g d = (d', .ok ()))
    (hal : d.info.inClusterOffset g = 0) (n : Nat) (hn : n ≤ d.spc) :
    doRead d' (d'.l2Entry g) g n = .ok (List.replicate n 0) := by
  obtain ⟨d'', h', e, _, _, _, hz, _, _, a1, a2⟩ := discardOne_backing_v2_spec g d host cnt hb hver hc ha
  rw [h] at h'
  simp only [Prod.mk.injEq, and_true] at h'
  subst h'
  have hent : d'.l2Entry g = d.l2Entry g := by rw [e]; rfl
  have hinfo : d'.info = d.info := by rw [e]
  obtain ⟨_, _, hne⟩ := L2.allocation_uncompressed hc ha
  rw [hent]
  unfold doRead; dsimp only
  rw [hinfo, hal]
  cases hzf : L2.isZero (d.l2Entry g) with
  | true =>
    have := L2.intoMapping_zeroflag d.info.cb d.info.hasBack (Split.clusterOffset d.info (g - 0))
      (d.l2Entry g) hc hzf
    simp only [this]
  | false =>
    rw [L2.intoMapping_plain _ _ _ _ hc hzf hne]
    dsimp only
    congr 1
    apply List.ext_getElem
    · simp
    · intro i h1 h2
      simp only [List.length_map, List.length_range] at h1
      simp only [List.getElem_map, List.getElem_range, List.getElem_replicate, Nat.add_zero]
      rw [← a2]
      apply hz
      · omega
      · subst a1; omega

/-- `discardOne` succeeds when the cluster to release is covered by a refblock
    and has refcount ≥ 1 (it then cannot fail in any variant) -/
theorem discardOne_ok_of_refcounted (g : Nat) (d : Dev) (host cnt : Nat)
    (hc : L2.isCompressed (d.l2Entry g) = false)
    (ha : L2.allocation d.info.cb (d.l2Entry g) = some (host, cnt))
    (hrt : ¬ RT.isZero (rtEntryAt d host))
    (hrc : 1 ≤ d.rc.get (host / d.info.clusterSize)) :
    ∃ d', discardOne g d = (d', .ok ()) := by
  obtain ⟨a1, _, _⟩ := L2.allocation_uncompressed hc ha
  subst a1
  rw [discardOne_alloc g d host 1 hc ha]
  split
  · exact ⟨_, rfl⟩
  · obtain ⟨d2, h2⟩ := (C08.freeClusters_ok_iff host 1 true
      { d.setL2 g (if d.info.hasBack = true then 1#64 else 0#64) with needFlush := true }).2
      ⟨fun k hk => by
        have : k = 0 := by omega
        subst this
        simp only [Nat.zero_mul, Nat.add_zero]
        exact hrt,
       fun k hk => by
        have : k = 0 := by omega
        subst this
        exact hrc⟩
    rw [h2]
    exact ⟨_, rfl⟩

/-- the only errors a `discardOne` can return are `free_clusters` hitting a
    cluster without a refblock (`other`) or a cluster whose refcount is already 0
    (`invalid`).
    CHANGED (was `e = .other`): the second case used to be a panic of
    `decrement().unwrap()`; the code now returns an error. -/
theorem discardOne_err (g : Nat) (d d' : Dev) (e : Err) (h : discardOne g d = (d', .err e)) :
    e = .other ∨ e = .invalid := discardOne_err_cases h

/-- no outcome of `discardOne` touches the geometry, the L1 table, the refcount
    table or the backing chain -/
theorem discardOne_frame (g : Nat) (d : Dev) :
    (discardOne g d).1.info = d.info ∧ (discardOne g d).1.version = d.version ∧
    (discardOne g d).1.l1 = d.l1 ∧ (discardOne g d).1.l1Len = d.l1Len ∧
    (discardOne g d).1.rt = d.rt ∧ (discardOne g d).1.rtLen = d.rtLen ∧
    (discardOne g d).1.back = d.back ∧ (discardOne g d).1.comp = d.comp := by
  obtain ⟨a1, a2, a3, a4, _, a6, a7, a8, a9, _⟩ := discardOne_sameFrame g d
  exact ⟨a1, a2, a3, a4, a6, a7, a8, a9⟩

/-! ## 3. The cluster loop and `discard` -/

theorem discard_ro (d : Dev) (off len : Nat) (h : d.info.readOnly = true) :
    Model.discard off len d = (d, .err .readOnly) :=
  C13.ro_rejects_discard d off len h

/-- the loop visits exactly `g, g + cs, g + 2·cs, … < stop`, in this order, and
    stops at the first `discardOne` that does not return `Ok`; any fuel
    `≥ ⌈(stop - g) / cs⌉` gives this same result -/
theorem discardLoop_visits (stop fuel g : Nat) (d : Dev)
    (hf : loopCount d.info.clusterSize stop g ≤ fuel) :
    discardLoop stop fuel g d =
      discardAll ((List.range (loopCount d.info.clusterSize stop g)).map
        (fun k => g + k * d.info.clusterSize)) d :=
  discardLoop_eq_all stop fuel g d hf

theorem discardLoop_fuel_irrelevant (stop f1 f2 g : Nat) (d : Dev)
    (h1 : loopCount d.info.clusterSize stop g ≤ f1) (h2 : loopCount d.info.clusterSize stop g ≤ f2) :
    discardLoop stop f1 g d = discardLoop stop f2 g d := by
  rw [discardLoop_eq_all stop f1 g d h1, discardLoop_eq_all stop f2 g d h2]

/-- the fuel `discard` passes is sufficient, without any alignment assumption -/
theorem discard_fuel_sufficient (cs start stop : Nat) (hcs : 0 < cs) :
    loopCount cs stop start ≤ (stop - start) / cs + 1 := by
  unfold loopCount
  have : stop - start + cs - 1 ≤ (stop - start) + cs := by omega
  have h := Nat.div_le_div_right (c := cs) this
  rw [Nat.add_div_right _ hcs] at h
  exact h

/-- for cluster-aligned bounds the loop runs exactly `(stop - start) / cs` times -/
theorem loopCount_aligned (cs start stop : Nat) (hcs : 0 < cs)
    (h1 : start % cs = 0) (h2 : stop % cs = 0) :
    loopCount cs stop start = (stop - start) / cs := by
  unfold loopCount
  have hd : (stop - start) % cs = 0 := by
    have := Nat.sub_mod_eq_zero_of_mod_eq (m := stop) (n := start) (k := cs) (by omega)
    exact this
  have e := Nat.div_add_mod (stop - start) cs
  rw [hd] at e
  apply (Spec.Flat.div_eq_iff_bounds _ _ cs hcs).2
  rw [Nat.mul_comm] at e
  generalize (stop - start) / cs * cs = a at *
  omega

/-- `discard` on a writable device is the prologue followed by `discardOne` on
    every whole cluster of the clipped range, in ascending order -/
theorem discard_visits (d : Dev) (off len start stop : Nat) (hro : d.info.readOnly = false)
    (hr : discardRange d.info off len = .ok (some (start, stop))) :
    Model.discard off len d =
      discardAll ((List.range ((stop - start) / d.info.clusterSize)).map
        (fun k => start + k * d.info.clusterSize)) d := by
  have hcs : 0 < d.info.clusterSize := Nat.two_pow_pos _
  obtain ⟨_, _, _, hlt, hs1, hs2⟩ := C13.discard_range_inside d.info off len start stop hr hcs
  unfold Model.discard
  simp only [hro, hr, Bool.false_eq_true, if_false]
  rw [discardLoop_eq_all _ _ _ _ (discard_fuel_sufficient _ _ _ hcs),
    loopCount_aligned _ _ _ hcs hs1 hs2]

/-- the prologue of `discard` never returns `Err` -/
theorem discardRange_not_err (i : Info) (off len : Nat) (e : Err) : discardRange i off len ≠ .err e := by
  unfold discardRange
  by_cases h1 : len = 0
  · simp [h1]
  · simp only [h1, if_false]
    by_cases h2 : off ≥ clipEnd i.vsize off len
    · simp [h2]
    · simp only [h2, if_false]
      unfold Info.clusterRoundUp
      by_cases h3 : off + (i.clusterSize - 1) < 2^64
      · simp only [h3, if_true]; split <;> simp
      · simp [h3]

/-- on a writable device the only possible `Err`s of `discard` are `Other` and
    `Invalid`, coming from `free_clusters` (a mapped cluster without refblock, or with
    refcount 0, i.e. an inconsistent image); in particular never `ReadOnly`,
    `Unaligned`, ….
    CHANGED (was `e = .other`): `invalid` added, see `discardOne_err`. -/
theorem discard_err_only_from_free (d d' : Dev) (off len : Nat) (e : Err)
    (hro : d.info.readOnly = false) (h : Model.discard off len d = (d', .err e)) :
    e = .other ∨ e = .invalid := by
  cases hr : discardRange d.info off len with
  | panic p => unfold Model.discard at h; simp [hro, hr] at h
  | err x => exact absurd hr (discardRange_not_err _ _ _ _)
  | ok r =>
    cases r with
    | none => unfold Model.discard at h; simp [hro, hr] at h
    | some x =>
      obtain ⟨start, stop⟩ := x
      rw [discard_visits d off len start stop hro hr] at h
      exact discardAll_err_cases h

/-- `discard` on a writable device returns `Ok` provided every `discardOne`
    does: stated with an invariant `P` (for instance "every mapped data cluster
    has a refblock and refcount ≥ 1", see `discardOne_ok_of_refcounted`) that
    makes `discardOne` succeed and is preserved by it.  `vsize + cs ≤ 2^64`
    excludes the overflow panic of the round-up in the prologue. -/
theorem discard_ok_on_writable_partial (P : Dev → Prop)
    (hP : ∀ d g, P d → ∃ d', discardOne g d = (d', .ok ()) ∧ P d')
    (d : Dev) (off len : Nat) (hro : d.info.readOnly = false)
    (hv : d.info.vsize + d.info.clusterSize ≤ 2^64) (h : P d) :
    ∃ d', Model.discard off len d = (d', .ok ()) ∧ P d' := by
  have hp := C13.discard_prologue_nopanic d.info off len hv
  cases hr : discardRange d.info off len with
  | panic p => rw [hr] at hp; cases hp
  | err x => rw [hr] at hp; cases hp
  | ok r =>
    cases r with
    | none => exact ⟨d, by unfold Model.discard; simp [hro, hr], h⟩
    | some x =>
      obtain ⟨start, stop⟩ := x
      rw [discard_visits d off len start stop hro hr]
      exact discardAll_ok_of_inv P hP _ d h

/-- no outcome of `discard` touches the geometry, the L1 table, the refcount
    table or the backing chain -/
theorem discard_frame (d : Dev) (off len : Nat) :
    (Model.discard off len d).1.info = d.info ∧ (Model.discard off len d).1.version = d.version ∧
    (Model.discard off len d).1.l1 = d.l1 ∧ (Model.discard off len d).1.l1Len = d.l1Len ∧
    (Model.discard off len d).1.rt = d.rt ∧ (Model.discard off len d).1.rtLen = d.rtLen ∧
    (Model.discard off len d).1.back = d.back ∧ (Model.discard off len d).1.comp = d.comp := by
  have key : SameFrame d (Model.discard off len d).1 := by
    cases hro : d.info.readOnly with
    | true => rw [discard_ro d off len hro]; exact SameFrame.refl d
    | false =>
      cases hr : discardRange d.info off len with
      | panic p => unfold Model.discard; simp only [hro, hr]; exact SameFrame.refl d
      | err x => unfold Model.discard; simp only [hro, hr]; exact SameFrame.refl d
      | ok r =>
        cases r with
        | none => unfold Model.discard; simp only [hro, hr]; exact SameFrame.refl d
        | some x =>
          obtain ⟨start, stop⟩ := x
          rw [discard_visits d off len start stop hro hr]
          exact discardAll_sameFrame _ d
  obtain ⟨a1, a2, a3, a4, _, a6, a7, a8, a9, _⟩ := key
  exact ⟨a1, a2, a3, a4, a6, a7, a8, a9⟩

/-- after a successful `discard` in a mapping-clearing configuration, every whole
    cluster of the clipped range is either compressed (left alone by design) or
    has no allocation any more — no aliasing assumption is needed for this -/
theorem discard_clears_range (d d' : Dev) (off len start stop : Nat) (hro : d.info.readOnly = false)
    (hv : ¬ (d.info.hasBack = true ∧ d.version < 3))
    (hr : discardRange d.info off len = .ok (some (start, stop)))
    (h : Model.discard off len d = (d', .ok ())) :
    ∀ k, k < (stop - start) / d.info.clusterSize →
      L2.isCompressed (d'.l2Entry (start + k * d.info.clusterSize)) = true ∨
      L2.allocation d'.info.cb (d'.l2Entry (start + k * d.info.clusterSize)) = none := by
  rw [discard_visits d off len start stop hro hr] at h
  let Q : Nat → Dev → Prop := fun g x =>
    (x.info.hasBack = true ∧ x.version < 3) ∨ L2.isCompressed (x.l2Entry g) = true ∨
      L2.allocation x.info.cb (x.l2Entry g) = none
  have hall := discardAll_ok_each (d := d) (d' := d') Q
    (by
      intro g x x1 hx
      show (x1.info.hasBack = true ∧ x1.version < 3) ∨ _
      by_cases hx2 : x.info.hasBack = true ∧ x.version < 3
      · have fr := discardOne_sameFrame g x
        rw [hx] at fr
        left; rw [fr.1, fr.2.1]; exact hx2
      · right
        by_cases hn : L1.isZero (x.l1Entry g) = true ∨ L2.isCompressed (x.l2Entry g) = true ∨
            L2.allocation x.info.cb (x.l2Entry g) = none
        · rw [discardOne_noop g x hn] at hx
          simp only [Prod.mk.injEq, and_true] at hx
          subst hx
          rcases hn with hn | hn | hn
          · right; rw [l2Entry_of_l1_zero x g hn]; exact L2.allocation_zero _
          · left; exact hn
          · right; exact hn
        · have hc : L2.isCompressed (x.l2Entry g) = false := by
            cases hcx : L2.isCompressed (x.l2Entry g) with
            | false => rfl
            | true => exact absurd (Or.inr (Or.inl hcx)) hn
          cases ha : L2.allocation x.info.cb (x.l2Entry g) with
          | none => exact absurd (Or.inr (Or.inr ha)) hn
          | some p =>
            obtain ⟨host, cnt⟩ := p
            have sp := discardOne_clear_spec g x x1 host cnt hc ha hx2 hx
            right
            rw [sp.entry]
            split
            · exact L2.allocation_one _
            · exact L2.allocation_zero _)
    (by
      intro g g' x x1 hx q
      show (x1.info.hasBack = true ∧ x1.version < 3) ∨ _
      have fr := discardOne_sameFrame g' x
      rw [hx] at fr
      dsimp only at fr
      rcases q with q | q
      · left; rw [fr.1, fr.2.1]; exact q
      · by_cases hx2 : x.info.hasBack = true ∧ x.version < 3
        · left; rw [fr.1, fr.2.1]; exact hx2
        · right
          by_cases hn : L1.isZero (x.l1Entry g') = true ∨ L2.isCompressed (x.l2Entry g') = true ∨
              L2.allocation x.info.cb (x.l2Entry g') = none
          · rw [discardOne_noop g' x hn] at hx
            simp only [Prod.mk.injEq, and_true] at hx
            subst hx; exact q
          · have hc : L2.isCompressed (x.l2Entry g') = false := by
              cases hcx : L2.isCompressed (x.l2Entry g') with
              | false => rfl
              | true => exact absurd (Or.inr (Or.inl hcx)) hn
            cases ha : L2.allocation x.info.cb (x.l2Entry g') with
            | none => exact absurd (Or.inr (Or.inr ha)) hn
            | some p =>
              obtain ⟨host, cnt⟩ := p
              obtain ⟨d2, _, hd'⟩ := discardOne_release hc ha hx2 hx
              have hl2 := l2Entry_after_setL2 x x1 g' (if x.info.hasBack = true then 1#64 else 0#64) g
                (by rw [hd']) (by rw [hd']) (by rw [hd']) (by rw [hd'])
              rw [hl2, fr.1]
              split
              · right; exact L2.allocation_zero _
              · split
                · right; split
                  · exact L2.allocation_one _
                  · exact L2.allocation_zero _
                · exact q)
    h
  intro k hk
  have hq := hall (start + k * d.info.clusterSize)
    (List.mem_map.2 ⟨k, List.mem_range.2 hk, rfl⟩)
  rcases hq with hq | hq
  · exfalso
    have fr := discardAll_sameFrame
      ((List.range ((stop - start) / d.info.clusterSize)).map (fun k => start + k * d.info.clusterSize)) d
    rw [h] at fr
    dsimp only at fr
    rw [fr.1, fr.2.1] at hq
    exact hv hq
  · exact hq

/-! ## 4. Non-vacuity -/

/-- 4 KiB disk, 1 KiB clusters (2 sectors each); clusters 1 and 2 owned with
    content, cluster 0 content but not owned (e.g. backed / compressed) -/
def flatEx : Flat :=
  { vsize := 4096, cs := 1024,
    sec := (((((FMap.empty 0).set 0 5).set 2 7).set 3 8).set 4 9).set 5 10,
    own := ((FMap.empty false).set 1 true).set 2 true }

theorem flatEx_spc : 0 < flatEx.secPerCl := by decide

/-- discard `[512, 3584)`: the only whole clusters are 1 and 2 -/
example : Whole flatEx 512 3072 1 ∧ Whole flatEx 512 3072 2 ∧ ¬ Whole flatEx 512 3072 0 ∧
    ¬ Whole flatEx 512 3072 3 := by decide
example : (flatEx.discard 512 3072).sec.get 2 = 0 :=
  flat_discard_zeroes flatEx 512 3072 2 flatEx_spc (by decide)
    (by show flatEx.own.get 1 = true; simp [flatEx, FMap.get_set])
example : (flatEx.discard 512 3072).sec.get 5 = 0 :=
  flat_discard_zeroes flatEx 512 3072 5 flatEx_spc (by decide)
    (by show flatEx.own.get 2 = true; simp [flatEx])
/-- the partly covered head cluster 0 keeps its content -/
example : (flatEx.discard 512 3072).sec.get 0 = 5 := by
  rw [flat_discard_partial_clusters_unchanged flatEx 512 3072 0 flatEx_spc (by decide)]
  simp [flatEx, FMap.get_set]
/-- an unowned cluster inside the range keeps its content -/
example : (flatEx.discard 0 4096).sec.get 0 = 5 := by
  rw [flat_discard_unowned_unchanged flatEx 0 4096 0 flatEx_spc
    (by show flatEx.own.get 0 = false; simp [flatEx, FMap.get_set])]
  simp [flatEx, FMap.get_set]
/-- clipping: a length far beyond the end (even beyond u64) selects clusters up to vsize -/
example : Whole flatEx 1024 (2^64) 3 ∧ ¬ Whole flatEx 1024 (2^64) 4 := by decide
example : (flatEx.discard 512 3072).own.get 1 = false :=
  flat_discard_range_unowned flatEx 512 3072 1 flatEx_spc (by decide)

open Qv.Props.C08 (devEx devEx_rc devEx_rt)

/-- `devEx` of C08 (64 KiB clusters, refblock for the first 2 GiB) plus one L2
    table at 0x30000 mapping guest cluster 0 to the data cluster at 0x40000
    (refcount 1) whose first sector holds token 42 -/
def devD (hasBack : Bool) (version : Nat) : Dev :=
  { devEx with
    info := { devEx.info with hasBack := hasBack }, version := version,
    l1Len := 1, l1 := (FMap.empty 0#64).set 0 (L1.mapEntry 0x30000),
    l2 := (FMap.empty (FMap.empty 0#64)).set 0x30000 ((FMap.empty 0#64).set 0 (L2.mapClusterEntry 0x40000)),
    rc := devEx.rc.set 4 1,
    data := (FMap.empty 0).set 0x200 42 }

theorem devD_l1Entry (hb : Bool) (v : Nat) : (devD hb v).l1Entry 0 = L1.mapEntry 0x30000 := by
  unfold Dev.l1Entry
  have h1 : Split.l1Index (devD hb v).info 0 = 0 := by simp [Split.l1Index]
  have h2 : (devD hb v).l1Len = 1 := rfl
  simp only [h1, h2]
  simp [devD]

theorem devD_l2Entry (hb : Bool) (v : Nat) : (devD hb v).l2Entry 0 = L2.mapClusterEntry 0x40000 := by
  unfold Dev.l2Entry
  simp only [devD_l1Entry]
  have h0 : L1.isZero (L1.mapEntry 0x30000) = false := by decide
  have h1 : (L1.l2Offset (L1.mapEntry 0x30000)).toNat = 0x30000 := by decide
  have h2 : Split.l2Index (devD hb v).info 0 = 0 := by simp [Split.l2Index]
  simp only [h0, h1, h2]
  simp [devD]

theorem devD_alloc (hb : Bool) (v : Nat) :
    L2.isCompressed ((devD hb v).l2Entry 0) = false ∧
    L2.allocation (devD hb v).info.cb ((devD hb v).l2Entry 0) = some (0x40000, 1) := by
  rw [devD_l2Entry]
  have hc : L2.isCompressed (L2.mapClusterEntry 0x40000) = false := by decide
  refine ⟨hc, ?_⟩
  rw [L2.allocation_of_not_compressed _ _ hc]
  decide

theorem devD_ok (hb : Bool) (v : Nat) : ∃ d', discardOne 0 (devD hb v) = (d', .ok ()) := by
  obtain ⟨hc, ha⟩ := devD_alloc hb v
  apply discardOne_ok_of_refcounted 0 (devD hb v) 0x40000 1 hc ha
  · exact devEx_rt 0x40000 (by decide)
  · have hcs : (devD hb v).info.clusterSize = 65536 := by show 2 ^ 16 = 65536; rfl
    have : 0x40000 / (devD hb v).info.clusterSize = 4 := by rw [hcs]
    rw [this]
    show 1 ≤ (devEx.rc.set 4 1).get 4
    simp

/-- `discardOne_plain_spec` / `discardOne_reads_zero` are not vacuous -/
example : ∃ d', discardOne 0 (devD false 3) = (d', .ok ()) ∧ d'.l2Entry 0 = 0#64 ∧
    d'.rc.get 4 = 0 ∧ d'.data.get 0x200 = 0 ∧ doRead d' (d'.l2Entry 0) 0 8 = .ok (List.replicate 8 0) := by
  obtain ⟨d', h⟩ := devD_ok false 3
  obtain ⟨hc, ha⟩ := devD_alloc false 3
  have sp := discardOne_plain_spec 0 (devD false 3) d' 0x40000 1 rfl hc ha h
  refine ⟨d', h, sp.entry, ?_, ?_, ?_⟩
  · have := (sp.rc_released 0 (by omega)).2
    have e : 0x40000 / (devD false 3).info.clusterSize + 0 = 4 := by decide
    rw [e] at this
    rw [this]
    show (devEx.rc.set 4 1).get 4 - 1 = 0
    simp
  · exact sp.data_zeroed 0x200 (by decide) (by decide)
  · exact discardOne_reads_zero 0 (devD false 3) d' 0x40000 1 hc ha (by decide) h 0 8

/-- `discardOne_backing_v3_spec` is not vacuous: zero-flag entry, reads zeros
    whatever the backing chain holds -/
example : ∃ d', discardOne 0 (devD true 3) = (d', .ok ()) ∧ d'.l2Entry 0 = 1#64 ∧
    doRead { d' with back := some { vsize := 2^30, sec := fun _ => 77 } } (d'.l2Entry 0) 0 8
      = .ok (List.replicate 8 0) := by
  obtain ⟨d', h⟩ := devD_ok true 3
  obtain ⟨hc, ha⟩ := devD_alloc true 3
  have sp := discardOne_backing_v3_spec 0 (devD true 3) d' 0x40000 1 rfl (by decide) hc ha h
  exact ⟨d', h, sp.entry,
    discardOne_reads_zero_any_backing 0 (devD true 3) d' 0x40000 1 hc ha (by decide) h _ 0 8⟩

/-- `discardOne_backing_v2_spec` is not vacuous: mapping kept, content zeroed -/
example : ∃ d', discardOne 0 (devD true 2) = (d', .ok ()) ∧
    d'.l2Entry 0 = L2.mapClusterEntry 0x40000 ∧ d'.rc = (devD true 2).rc ∧ d'.data.get 0x200 = 0 := by
  obtain ⟨hc, ha⟩ := devD_alloc true 2
  obtain ⟨d', h, _, e, _, r, z, _⟩ := discardOne_backing_v2_spec 0 (devD true 2) 0x40000 1 rfl (by decide) hc ha
  exact ⟨d', h, by rw [e 0, devD_l2Entry], r, z 0x200 (by decide) (by decide)⟩

/-- `discard_visits`: a 200 KiB request at 1000 visits guest clusters 1 and 2 -/
example : discardRange (devD false 3).info 1000 204800 = .ok (some (0x10000, 0x30000)) := by rfl
example : Model.discard 1000 204800 (devD false 3) = discardAll [0x10000, 0x20000] (devD false 3) := by
  rw [discard_visits (devD false 3) 1000 204800 0x10000 0x30000 rfl (by rfl)]
  rfl

/-- `L1Distinct` (hypothesis of `discardOne_l2_frame`) holds for the example device -/
example (hb : Bool) (v : Nat) : L1Distinct (devD hb v) := by
  intro a b hne ha hb'
  have hz : L1.isZero 0#64 = true := by decide
  have key : ∀ o, L1.isZero ((devD hb v).l1Entry o) = false → Split.l1Index (devD hb v).info o = 0 := by
    intro o ho
    unfold Dev.l1Entry at ho
    dsimp only at ho
    by_cases c : Split.l1Index (devD hb v).info o < (devD hb v).l1Len
    · have : (devD hb v).l1Len = 1 := rfl
      omega
    · rw [if_neg c, hz] at ho; cases ho
  exact absurd ((key a ha).trans (key b hb').symm) hne

/-- `discard_ok_on_writable_partial` is not vacuous: with an empty L1 table
    (invariant `l1Len = 0`) every `discardOne` is a no-op -/
example : ∃ d', Model.discard 1000 204800 devEx = (d', .ok ()) ∧ d'.l1Len = 0 :=
  discard_ok_on_writable_partial (fun d => d.l1Len = 0)
    (fun d g h => ⟨d, discardOne_noop g d (Or.inl (by
      have : d.l1Entry g = 0#64 := by unfold Dev.l1Entry; simp [h]
      rw [this]; decide)), h⟩)
    devEx 1000 204800 rfl (by decide) rfl

/-- `discard_clears_range` is not vacuous: discarding guest cluster 0 of `devD` -/
example : ∃ d', Model.discard 0 65536 (devD false 3) = (d', .ok ()) ∧
    (L2.isCompressed (d'.l2Entry 0) = true ∨ L2.allocation d'.info.cb (d'.l2Entry 0) = none) := by
  obtain ⟨d', h⟩ := devD_ok false 3
  have hr : discardRange (devD false 3).info 0 65536 = .ok (some (0, 0x10000)) := by rfl
  have hd : Model.discard 0 65536 (devD false 3) = (d', .ok ()) := by
    rw [discard_visits (devD false 3) 0 65536 0 0x10000 rfl hr]
    show discardAll [0] (devD false 3) = _
    rw [discardAll_cons, h]; rfl
  refine ⟨d', hd, ?_⟩
  have := discard_clears_range (devD false 3) d' 0 65536 0 0x10000 rfl (by decide) hr hd 0 (by decide)
  simp only [Nat.zero_mul, Nat.add_zero] at this
  exact this

end Qv.Props.C11
