import Qv.Proofs.Format
import Qv.Props.C03
import Qv.Props.C15
/-
C09 — format conformance on the model: what `format_qcow2` lays out
(`metaParams`, `formatRefcounts`, `formatDev`) is a valid, empty image whose
derived geometry follows the specification's formulas.
Helper lemmas: Qv/Proofs/Format.lean, Qv/Proofs/Acct.lean.
-/
namespace Qv.Props.C09
open Qv Qv.Model Qv.Codec
open Qv.Props.C15 (Geom prmEx info_geometry_of_params)

/-! ### (a) layout -/

/-- header cluster, refcount table, the refblock and the L1 table follow one another,
    cluster aligned, in increasing order and without gaps; the reftable is not empty -/
theorem format_layout (size cb ro k : Nat) (h9 : 9 ≤ cb) (hro : ro ≤ 6) (hsz : 0 < size) :
    let mp := metaParams size cb ro (2^k)
    let cs := 2^cb
    mp.rtOff = cs ∧ mp.rbOff = mp.rtOff + mp.rtClusters * cs ∧ mp.l1Off = mp.rbOff + cs ∧
    mp.rtOff % cs = 0 ∧ mp.rbOff % cs = 0 ∧ mp.l1Off % cs = 0 ∧ 0 < mp.rtClusters := by
  intro mp cs
  obtain ⟨e1, e2, e3⟩ := metaParams_offsets size cb ro (2^k)
  obtain ⟨a1, a2, a3⟩ := metaParams_aligned size cb ro (2^k)
  exact ⟨e1, by rw [e2, e1], e3, a1, a2, a3,
    metaParams_rtClusters_pos size cb ro (2^k) h9 hro (Nat.two_pow_pos _) hsz⟩

/-- the four metadata regions are pairwise disjoint: no byte belongs to two of them
    (regions: header `[0, cs)`, reftable, refblock, L1 table) -/
theorem format_layout_disjoint (size cb ro k : Nat) (x : Nat) :
    let mp := metaParams size cb ro (2^k)
    let cs := 2^cb
    let inHdr := x < cs
    let inRt := mp.rtOff ≤ x ∧ x < mp.rtOff + mp.rtClusters * cs
    let inRb := mp.rbOff ≤ x ∧ x < mp.rbOff + cs
    let inL1 := mp.l1Off ≤ x ∧ x < mp.l1Off + mp.l1Clusters * cs
    ¬ (inHdr ∧ inRt) ∧ ¬ (inHdr ∧ inRb) ∧ ¬ (inHdr ∧ inL1) ∧
    ¬ (inRt ∧ inRb) ∧ ¬ (inRt ∧ inL1) ∧ ¬ (inRb ∧ inL1) := by
  intro mp cs inHdr inRt inRb inL1
  obtain ⟨e1, e2, e3⟩ := metaParams_offsets size cb ro (2^k)
  simp only [inHdr, inRt, inRb, inL1, mp, cs, e1, e2, e3]
  generalize (metaParams size cb ro (2^k)).rtClusters * 2^cb = a
  generalize (metaParams size cb ro (2^k)).l1Clusters * 2^cb = b
  omega

/-- the refcounts cover exactly these clusters, and all of them fit the one refblock -/
theorem format_refcounts {size cb ro fmtBs : Nat} {p : Params} {d : Dev}
    (h : formatDev size cb ro fmtBs p = .ok d) (c : Nat) :
    d.rc.get c = if c < 1 + (metaParams size cb ro fmtBs).rtClusters + 1 +
      (metaParams size cb ro fmtBs).l1Clusters then 1 else 0 :=
  formatDev_rc_get h c

/-! ### (b) a fresh image maps nothing and reads as zeros -/

theorem format_mapping_empty {size cb ro fmtBs : Nat} {p : Params} {d : Dev}
    (h : formatDev size cb ro fmtBs p = .ok d) (off : Nat) :
    d.l2Entry off = 0#64 ∧ (d.mapping off).source = .unallocated ∧
    (d.mapping off).clusterOffset = some 0 := by
  obtain ⟨rc, info, _, hinfo, e1, _, _, _, _, _, e7, _, _⟩ := formatDev_ok h
  have hz := l2Entry_of_l1_empty d e7 off
  have hb : d.info.hasBack = false := by
    obtain ⟨_, _, _, _, _, _, _, _, _, _, _, hi⟩ := Info.new_ok hinfo
    rw [e1, hi]
  unfold Dev.mapping
  dsimp only
  rw [hz, hb, intoMapping_zero]
  exact ⟨rfl, rfl, rfl⟩

/-- every piece of every read of a fresh image returns zeros -/
theorem format_reads_zero {size cb ro fmtBs : Nat} {p : Params} {d : Dev}
    (h : formatDev size cb ro fmtBs p = .ok d) (off n : Nat) :
    doRead d (d.l2Entry off) off n = .ok (List.replicate n 0) := by
  obtain ⟨rc, info, _, hinfo, e1, _, _, _, _, _, e7, _, _⟩ := formatDev_ok h
  have hz := l2Entry_of_l1_empty d e7 off
  have hb : d.info.hasBack = false := by
    obtain ⟨_, _, _, _, _, _, _, _, _, _, _, hi⟩ := Info.new_ok hinfo
    rw [e1, hi]
  unfold doRead
  dsimp only
  rw [hz, hb, intoMapping_zero]

theorem format_reads_zero_pieces {size cb ro fmtBs : Nat} {p : Params} {d : Dev}
    (h : formatDev size cb ro fmtBs p = .ok d) (ps : List (Nat × Nat)) :
    doReads d ps = .ok (List.replicate (ps.map (·.2)).sum 0) := by
  induction ps with
  | nil => rfl
  | cons q ps ih =>
    obtain ⟨off, n⟩ := q
    rw [doReads, format_reads_zero h off n, ih]
    simp only [List.map_cons, List.sum_cons, List.replicate_append_replicate]

/-! ### (c) geometry of the opened fresh image -/

/-- the derived geometry follows the specification's formulas: entries per L2 table and
    per refblock, index shifts (`Geom`), the header's `l1_size = ⌈size / (cs·cs/8)⌉`
    covers the virtual size, and the RAM L1 table holds it (size within the 32 MiB L1 cap) -/
theorem format_geometry {size cb ro fmtBs : Nat} {p : Params} {d : Dev}
    (h : formatDev size cb ro fmtBs p = .ok d)
    (h9 : 9 ≤ cb) (h21 : cb ≤ 21) (hro : ro ≤ 6) (hbs : 3 ≤ p.bsBits)
    (hcap : (size + 2^cb / 8 * 2^cb - 1) / (2^cb / 8 * 2^cb) ≤ 32 * 2^20 / 8) :
    Geom d.info ∧ d.info.cb = cb ∧ d.info.ro = ro ∧ d.info.vsize = size ∧
    d.info.l2Entries = 2^cb / 8 ∧ d.info.rbEntries = 2^cb * 8 / 2^ro ∧
    d.hdrL1Entries = (size + 2^cb / 8 * 2^cb - 1) / (2^cb / 8 * 2^cb) ∧
    size ≤ d.hdrL1Entries * (2^cb / 8 * 2^cb) ∧
    d.hdrL1Entries ≤ d.l1Len ∧
    d.rtLen = d.hdrRtClusters * 2^cb / 8 := by
  obtain ⟨rc, info, _, hinfo, e1, _, _, e4, _, e6, _, _, e9⟩ := formatDev_ok h
  obtain ⟨g, c1, c2, _⟩ := info_geometry_of_params hinfo h9 h21 hro hbs
  have hv : info.vsize = size := by
    obtain ⟨_, _, _, _, _, _, _, _, _, _, _, hi⟩ := Info.new_ok hinfo
    rw [hi]
  rw [← e1] at g c1 c2 hv
  dsimp only at c1 c2
  have hper : 0 < 2^cb / 8 * 2^cb := by
    rw [Arith.two_pow_div_eight (by omega : 3 ≤ cb)]
    exact Nat.mul_pos (Nat.two_pow_pos _) (Nat.two_pow_pos _)
  have hl1 : d.hdrL1Entries = (size + 2^cb / 8 * 2^cb - 1) / (2^cb / 8 * 2^cb) := e4
  have hcover : size ≤ d.hdrL1Entries * (2^cb / 8 * 2^cb) := by
    rw [hl1]
    generalize 2^cb / 8 * 2^cb = per at hper ⊢
    have h1 := Nat.div_add_mod (size + per - 1) per
    have h2 := Nat.mod_lt (size + per - 1) hper
    rw [Nat.mul_comm] at h1
    omega
  have hlen : d.hdrL1Entries ≤ d.l1Len := by
    have hl : d.l1Len = ramL1Len size cb p.bsBits := by
      unfold formatDev at h
      cases hr : formatRefcounts (metaParams size cb ro fmtBs) cb ro with
      | none => simp [hr] at h
      | some rc =>
        simp only [hr, hinfo, Outcome.bind_ok] at h
        split at h
        · cases h
        · simp only [Outcome.ok.injEq] at h
          subst h; rfl
    rw [hl, hl1]
    unfold ramL1Len Info.maxL1Size Info.maxL1EntriesOf
    dsimp only
    rw [Nat.min_eq_left hcap]
    have := Arith16.alignUp_ge ((size + 2^cb / 8 * 2^cb - 1) / (2^cb / 8 * 2^cb) * 8) (2^p.bsBits)
      (Nat.two_pow_pos _)
    omega
  refine ⟨g, c1, c2, hv, ?_, ?_, hl1, hcover, hlen, ?_⟩
  · rw [g.l2Entries_eq, c1]
  · rw [g.rbEntries_eq, c1, c2]
  · rw [e9, e6]

/-! ### (d) the fresh image is valid -/

/-- exact refcounts (no under-count, no leak), every table pointer cluster aligned, the
    one reftable entry points at the refblock with its reserved bits clear -/
theorem format_valid_model {size cb ro fmtBs k : Nat} {p : Params} {d : Dev}
    (h : formatDev size cb ro fmtBs p = .ok d)
    (h9 : 9 ≤ cb) (h21 : cb ≤ 21) (hro : ro ≤ 6) (hbs : fmtBs = 2^k) (hk : k ≤ cb) (hsz : 0 < size)
    (hcap : (size + 2^cb / 8 * 2^cb - 1) / (2^cb / 8 * 2^cb) ≤ 32 * 2^20 / 8) :
    Acct d ∧ d.hdrL1Off % 2^cb = 0 ∧ d.hdrRtOff % 2^cb = 0 ∧
    (RT.refblockOffset (d.rt.get 0)).toNat = (metaParams size cb ro fmtBs).rbOff ∧
    (RT.refblockOffset (d.rt.get 0)).toNat % 2^cb = 0 ∧
    RT.reservedBits (d.rt.get 0) = 0#64 ∧
    (∀ i, i ≠ 0 → d.rt.get i = 0#64) ∧ (∀ i, d.l1.get i = 0#64) := by
  have hA := Qv.Props.C03.format_acct h h9 h21 hro hbs hk hsz hcap
  obtain ⟨rc, info, _, _, _, _, e3, _, e5, _, e7, e8, _⟩ := formatDev_ok h
  obtain ⟨a1, a2, a3⟩ := metaParams_aligned size cb ro fmtBs
  have h64 := metaParams_rbOff_lt size cb ro fmtBs h21
  have h512 : (metaParams size cb ro fmtBs).rbOff % 512 = 0 :=
    Arith16.mod_zero_of_dvd_of_mod (Nat.pow_dvd_pow 2 h9 : 2^9 ∣ 2^cb) a2
  have hget : d.rt.get 0 = BitVec.ofNat 64 (metaParams size cb ro fmtBs).rbOff := by
    rw [e8, FMap.get_set_same]
  have hdec := rt_refblockOffset_ofNat _ h512 h64
  refine ⟨hA, by rw [e3]; exact a3, by rw [e5]; exact a1, by rw [hget, hdec], by rw [hget, hdec]; exact a2,
    by rw [hget]; exact rt_reservedBits_ofNat _ h512 h64, ?_, ?_⟩
  · intro i hi
    rw [e8, FMap.get_set_other _ _ _ _ (fun x => hi x.symm), FMap.get_empty]
  · intro i
    rw [e7, FMap.get_empty]

/-! ### non-vacuity -/

/-- 1 GiB, 64 KiB clusters, 16-bit refcounts: header 0, reftable 1, refblock 2, L1 3 -/
example : metaParams (2^30) 16 4 512 =
    { rtOff := 0x10000, rtClusters := 1, rbOff := 0x20000, l1Off := 0x30000, l1Clusters := 1, l1Entries := 2 } := by
  decide

example : ∃ d, formatDev (2^30) 16 4 512 prmEx = .ok d ∧ Acct d ∧ d.l2Entry 0x12345 = 0#64 ∧
    doRead d (d.l2Entry 0x12345) 0x12345 8 = .ok (List.replicate 8 0) := by
  have : ∃ d, formatDev (2^30) 16 4 512 prmEx = .ok d := ⟨_, rfl⟩
  obtain ⟨d, h⟩ := this
  exact ⟨d, h, (format_valid_model (k := 9) h (by decide) (by decide) (by decide) (by decide) (by decide)
    (by decide) (by decide)).1, (format_mapping_empty h _).1, format_reads_zero h _ _⟩

end Qv.Props.C09
