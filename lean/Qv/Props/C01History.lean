import Qv.Proofs.RefineReopen
/-
C01, model side, the history theorem without side conditions on the operations.
Helper lemmas: `Qv/Proofs/RefineGrow.lean`, `RefineGrowMulti.lean` (the write path on top of the
accounting chain of C03Write: growth of the refcount table, failed allocations),
`RefineFail.lean` (discards and reads on states left behind by failed writes),
`RefineReopen.lean` (reopen).

What C01Refine / C01RefineMore assume of every write — "returned `Ok`" and "did not grow the
refcount table" — is removed:

* G1 (growth) and G2 (failure), one theorem: `write_step` (= `RG.write_gz`).  ANY request, ANY
  outcome.  The refcount table may be relocated during the call (C12); the only hypothesis
  about it is `Cap d'` (afterwards it still describes host offsets below 2^56), as in
  `history_acct`.  Outcome `Ok`: the device shows `f.write off toks`.  Outcome `Err` —
  rejected by the validation prologue (C13: the state is unchanged, `write_rejected_unchanged`)
  or failed midway (an allocation returned an error after some clusters were mapped): the
  device is well-formed again and shows the SAME flat disk `f`: in the model a failed write
  changes no guest sector at all, inside or outside its range (`write_step`, last clause).
  The clusters it mapped before failing were unallocated or zero clusters and are mapped to
  fresh host clusters, which hold zeros (`ZInv`); they stay marked "new", which is harmless
  (the later zero-once writes zeros over zeros).  No panic.
  Where an accepted write can fail, from a `WFZ` state: only in its MAPPING phase
  (`populate_single_write_mapping` / `make_multiple_write_mappings`), i.e. through an error of
  `allocate_clusters` (`nospace`; `unsupported` = growth refused by `grow_reftable`: new table
  ≥ refblock entries − 1 clusters, or more than a refblock slice) or `nospace` when a mapping
  call covers 0 clusters.  Proved: the call never panics, and the DATA phase of a request whose
  mapping phase succeeded always succeeds (`doWrites_g`, `doWrite_piece`), so `Err .other` of
  `do_write` / `__write_at` and the `l2_entries` index panic do not occur.  (Not classified
  further: which `Err` code `allocate_clusters` returns.)
  CAVEAT of the model, not of the proof: "a failed write changes no guest sector" rests on
  `ZInv`, which holds in the model because a host cluster nobody maps always holds zero tokens
  there (fresh file space; the hole punch of `discard`; metadata is not part of the data
  plane).  The clusters mapped by a failed write are never zeroed by the code (they stay in
  the new-cluster set) and `do_read` of the model does not consult that set: if the file
  held stale bytes in such a cluster (e.g. a released refcount-table cluster after a
  relocation), a guest read before the next write to that cluster would see them.  The model
  cannot express this (tokens of metadata clusters are always 0).
* `WFZ` (RefineGrow) is the well-formedness between operations: `WF` of C01Refine with
  "no mapped cluster is marked new" replaced by `ZInv` (non-zero data lives only in mapped
  clusters that are not marked new), the invariant of histories `HInv` of C03Write, and `L1Q`
  (nothing behind the RAM L1 table).  `WFD d ∧ ZInv d ∧ L1Q d → WFZ d` (`wfz_of_wfd`).
* `RefinesZ` (RefineFail): the device shows the sectors of `f`, same geometry, and `OwnZ f`
  (a cluster the flat disk does not own holds zeros — an invariant of the flat disk itself,
  true for the blank disk, kept by `Flat.write` and `Flat.discard`).  The exact ownership link
  of C01RefineMore (`OwnLink`) does not survive a failed write (the device then maps clusters
  the flat disk does not own); it is not needed: with `OwnZ` the SECTORS of `f.discard` do not
  depend on it (`discard_step`).
* G3 (reopen): `reopen_step` (= `RG.reopen_g`): flush + `reopenDev d p` for any parameters with
  `9 ≤ bsBits ≤ cluster_bits` that `Qcow2Info::new` accepts keeps `WFZ` and `RefinesZ`.
* reads: `read_step` (= `RG.read_g`): EVERY read — rejected, empty, clamped at the end of the
  disk, or plain — returns what `flatReadAt` returns on the flat disk.
* H `history_refines_flat_all`: from a freshly formatted image, for EVERY list of operations
  write / read / discard / flush / reopen with arbitrary arguments, every read returns exactly
  what the flat reference disk returns, and no operation panics.  Hypotheses: those of
  `format_wfd`, the buffers of writes carry `len / 512` tokens, reopen parameters have
  `9 ≤ bsBits ≤ cluster_bits`, and `Cap` of the FINAL state.
-/
namespace Qv.Props.C01History
open Qv Qv.Codec Qv.Model Qv.Model.RW Qv.Model.RG
open Qv.Props.C15 (Geom)
open Qv.Spec (Flat)
open Qv.Props.C01Refine (WF blank)
open Qv.Props.C01RefineMore (WFD)
open Qv.Proofs.RefineDiscard (RefinesO)

/-! ## the steps -/

/-- `WFD` of C01RefineMore (which has "no mapped cluster is marked new") together with
    `ZInv` and `L1Q` gives `WFZ` -/
theorem wfz_of_wfd {d : Dev} (w : WFD d) (z : ZInv d) (q : L1Q d) : WFZ d :=
  ⟨w.wf.st, w.wf.tab, w.wf.map, w.hinv, z, q⟩

/-- **G1 + G2, the write step.**  `WFZ d`, `RefinesZ d f`; ANY `off`, `len`; the buffer
    carries `len / 512` sector tokens; the call returned `r` (anything) and afterwards the
    refcount table — it may have been relocated — still describes host offsets below 2^56:
    the device is well-formed again, the geometry is unchanged, the call did not panic;
    `Ok` → the device shows `f.write off toks`; `Err` → the device shows `f`, unchanged. -/
theorem write_step (d d' : Dev) (f : Flat) (off len : Nat) (toks : List Nat) (r : Outcome Unit)
    (wz : WFZ d) (hr : RefinesZ d f) (htoks : toks.length = len / 512)
    (hw : writeAt off len toks d = (d', r)) (hcap : Cap d') :
    WFZ d' ∧ d'.info = d.info ∧ (∀ p, r ≠ .panic p) ∧
    (r = .ok () → RefinesZ d' (f.write off toks)) ∧ (r ≠ .ok () → RefinesZ d' f) :=
  write_gz d d' f off len toks r wz hr htoks hw hcap

/-- G2, rejected requests (C13): the state is unchanged -/
theorem write_rejected_unchanged (d : Dev) (off len : Nat) (toks : List Nat) (e : Err)
    (h : writeCheck d.info off len = some e) : writeAt off len toks d = (d, .err e) :=
  writeAt_rejected h

/-- the write step in the vocabulary of C01Refine: a successful write, growth allowed -/
theorem write_refines_growth (d d' : Dev) (f : Flat) (off len : Nat) (toks : List Nat)
    (wz : WFZ d) (hr : Refines d f) (htoks : toks.length = len / 512)
    (hw : writeAt off len toks d = (d', .ok ())) (hcap : Cap d') :
    WFZ d' ∧ Refines d' (f.write off toks) ∧ d'.info = d.info := by
  obtain ⟨a, b, _, c, _⟩ := write_g d d' f off len toks _ wz hr htoks hw hcap
  exact ⟨a, c rfl, b⟩

/-- … and a write that returned `Err`, for whatever reason: no guest sector changed -/
theorem write_failed_unchanged_view (d d' : Dev) (f : Flat) (off len : Nat) (toks : List Nat) (e : Err)
    (wz : WFZ d) (hr : Refines d f) (htoks : toks.length = len / 512)
    (hw : writeAt off len toks d = (d', .err e)) (hcap : Cap d') :
    WFZ d' ∧ Refines d' f ∧ d'.info = d.info := by
  obtain ⟨a, b, _, _, c⟩ := write_g d d' f off len toks _ wz hr htoks hw hcap
  exact ⟨a, c (fun h => by cases h), b⟩

/-- **the discard step** on a `WFZ` state, ANY `off`, `len`, outcome `Ok` -/
theorem discard_step (d d' : Dev) (f : Flat) (off len : Nat) (wz : WFZ d) (hr : RefinesZ d f)
    (h : Model.discard off len d = (d', .ok ())) :
    WFZ d' ∧ RefinesZ d' (f.discard off len) ∧ d'.info = d.info :=
  discard_g d d' f off len wz hr h

/-- G2, discards: on a `WFZ` device whose virtual size is not within a cluster of 2^64 (true
    for every image within the L1 limit, `vsize_small` below) a discard — ANY `off`, `len` —
    returns `Ok` when the device is writable; on a read-only device it returns
    `Err readOnly` and the state is unchanged.  No other outcome. -/
theorem discard_outcomes (d d' : Dev) (off len : Nat) (r : Outcome Unit) (wz : WFZ d)
    (hv : d.info.vsize + d.info.clusterSize ≤ 2^64) (h : Model.discard off len d = (d', r)) :
    (d.info.readOnly = false → r = .ok ()) ∧ (d.info.readOnly = true → d' = d ∧ r = .err .readOnly) :=
  discard_outcome wz hv h

/-- the read path of the model does not consult the new-cluster set: what a read returns
    from a cluster that a failed write mapped but never zeroed is whatever the data plane
    holds there (zeros in the model, by `ZInv`; see the caveat in the header) -/
theorem read_ignores_new_marks (d : Dev) (nd : List Nat) (off len : Nat) :
    readAt { d with newData := nd } off len = readAt d off len := by
  apply readAt_congr d { d with newData := nd } off len rfl
  intro fuel clen _ _
  exact Qv.Props.C02.doReads_congr d { d with newData := nd } _ (fun _ _ => rfl) (fun _ _ _ => rfl)

/-- **G3, the reopen step** -/
theorem reopen_step (d d' : Dev) (p : Params) (f : Flat) (wz : WFZ d) (fx : Fixed d) (hr : RefinesZ d f)
    (hp9 : 9 ≤ p.bsBits) (hpcb : p.bsBits ≤ d.info.cb) (h : reopenDev d p = .ok d') :
    WFZ d' ∧ Fixed d' ∧ RefinesZ d' f ∧ (Cap d' ↔ Cap d) :=
  reopen_g d d' p f wz fx hr hp9 hpcb h

/-- **the read step**: any offset, any length -/
theorem read_step (d : Dev) (f : Flat) (wz : WFZ d) (hr : RefinesZ d f) (off len : Nat) :
    readAt d off len = flatReadAt d.info f off len :=
  read_g d f wz.st hr.sec off len

/-! ## histories -/

inductive Op where
  | write (off len : Nat) (toks : List Nat)
  | read (off len : Nat)
  | discard (off len : Nat)
  | flush
  | reopen (p : Params)

/-- flush, then drop the device and open the file again with parameters `p`; when
    `Qcow2Info::new` refuses `p` the device stays as it is -/
def reopenStep (d : Dev) (p : Params) : Dev :=
  match reopenDev (flushMeta d).1 p with
  | .ok d' => d'
  | _ => (flushMeta d).1

/-- the state after one operation, whatever it returned -/
def stepDev (d : Dev) : Op → Dev
  | .write off len toks => (writeAt off len toks d).1
  | .read _ _ => d
  | .discard off len => (Model.discard off len d).1
  | .flush => (flushMeta d).1
  | .reopen p => reopenStep d p

def runDev (d : Dev) (ops : List Op) : Dev := ops.foldl stepDev d

/-- the flat reference disk after one operation issued in device state `d`: a write that
    returned `Ok` is applied (`Flat.write`), a discard that returned `Ok` is applied
    (`Flat.discard`); an operation that returned `Err` — rejected or failed midway — changes
    nothing; reads, flushes and reopens change nothing.  (The device state is consulted only
    for the outcome `Ok` / `Err` of the operation.) -/
def stepFlat (d : Dev) (f : Flat) : Op → Flat
  | .write off len toks => if (writeAt off len toks d).2.isOk then f.write off toks else f
  | .discard off len => if (Model.discard off len d).2.isOk then f.discard off len else f
  | _ => f

/-- the encoding of an operation is meaningful: the buffer of a write of `len` bytes carries
    `len / 512` sector tokens; the block size of a reopen is between 512 bytes and the
    cluster size.  Offsets and lengths are ARBITRARY. -/
def OpWF (cb : Nat) : Op → Prop
  | .write _ len toks => toks.length = len / 512
  | .reopen p => 9 ≤ p.bsBits ∧ p.bsBits ≤ cb
  | _ => True

/-- the outcome of an operation is not a panic -/
def NoPanic (d : Dev) : Op → Prop
  | .write off len toks => ∀ p, (writeAt off len toks d).2 ≠ .panic p
  | .read off len => ∀ p, readAt d off len ≠ .panic p
  | .discard off len => ∀ p, (Model.discard off len d).2 ≠ .panic p
  | _ => True

/-- a read returns on the device exactly what it returns on the flat disk (`flatReadAt`: the
    same rejections, the same clamping, the sectors of the flat disk) -/
def ReadOK (d : Dev) (f : Flat) : Op → Prop
  | .read off len => readAt d off len = flatReadAt d.info f off len
  | _ => True

/-- every read of the history returns on the device exactly what it returns on the flat
    disk, and no operation panics -/
def ReadsAgree : Dev → Flat → List Op → Prop
  | _, _, [] => True
  | d, f, op :: ops =>
    ReadOK d f op ∧ NoPanic d op ∧ ReadsAgree (stepDev d op) (stepFlat d f op) ops

theorem isOk_unit {r : Outcome Unit} : r.isOk = true ↔ r = .ok () := by
  cases r with
  | ok a => cases a; exact ⟨fun _ => rfl, fun _ => rfl⟩
  | err e => exact ⟨fun h => (by cases h), fun h => (by cases h)⟩
  | panic p => exact ⟨fun h => (by cases h), fun h => (by cases h)⟩

theorem reopenDev_flush (d : Dev) (p : Params) : reopenDev (flushMeta d).1 p = reopenDev d p := rfl

theorem reopen_cap {d d' : Dev} {p : Params} (h : reopenDev d p = .ok d') : Cap d' ↔ Cap d := by
  obtain ⟨_, _, _, _, _, _, _, hcb, _, hro, _⟩ := Qv.Props.C02.reopen_view d d' p h
  obtain ⟨_, _, _, _, _, hrtLen, _⟩ := Qv.Props.C02.reopen_rest d d' p h
  unfold Cap Info.rbEntries Info.clusterSize
  rw [hrtLen, hcb, hro]

/-- `Cap` after an operation implies `Cap` before it -/
theorem cap_step_back (d : Dev) (op : Op) (h : Cap (stepDev d op)) : Cap d := by
  cases op with
  | write off len toks => exact ((writeAt_mn off len toks).rm d).cap h
  | read off len => exact h
  | discard off len => exact (discard_rm off len d).cap h
  | flush => exact h
  | reopen p =>
    change Cap (reopenStep d p) at h
    unfold reopenStep at h
    rw [reopenDev_flush] at h
    cases hr : reopenDev d p with
    | ok d' => rw [hr] at h; exact (reopen_cap hr).1 h
    | err e => rw [hr] at h; exact h
    | panic s => rw [hr] at h; exact h

theorem cap_run_back (ops : List Op) : ∀ d, Cap (runDev d ops) → Cap d := by
  induction ops with
  | nil => intro d h; exact h
  | cons op ops ih => intro d h; exact cap_step_back d op (ih (stepDev d op) h)

/-- the invariant of a history -/
structure Inv (cb : Nat) (d : Dev) (f : Flat) : Prop where
  wz : WFZ d
  fx : Fixed d
  rz : RefinesZ d f
  cb : d.info.cb = cb

theorem fixed_of_same {d d' : Dev} (fx : Fixed d) (hi : d'.info = d.info)
    (hn : d'.hdrL1Entries = d.hdrL1Entries) : Fixed d' :=
  ⟨by rw [hi]; exact fx.cb21, by rw [hi]; exact fx.ro6, by rw [hi]; exact fx.l1cap,
    by rw [hi, hn]; exact fx.hdrB⟩

/-- the virtual size of a device within the L1 limit is far below 2^64 -/
theorem vsize_small {d : Dev} (fx : Fixed d) (h9 : 9 ≤ d.info.cb) :
    d.info.vsize + d.info.clusterSize ≤ 2^64 := by
  have hcb : 2^d.info.cb ≤ 2^21 := Nat.pow_le_pow_right (by decide) fx.cb21
  have hpos : 2^9 ≤ 2^d.info.cb := Nat.pow_le_pow_right (by decide) h9
  have h := fx.l1cap
  unfold Info.clusterSize
  generalize 2^d.info.cb = cs at *
  have hper : cs / 8 * cs ≤ 2^18 * 2^21 := Nat.mul_le_mul (by omega) hcb
  have hper0 : 2^6 * 2^9 ≤ cs / 8 * cs := Nat.mul_le_mul (by omega) hpos
  generalize hP : cs / 8 * cs = per at *
  by_cases hp0 : per = 0
  · omega
  · have h1 := Nat.div_add_mod (d.info.vsize + per - 1) per
    have h2 := Nat.mod_lt (d.info.vsize + per - 1) (Nat.pos_of_ne_zero hp0)
    have h3 : per * ((d.info.vsize + per - 1) / per) ≤ per * (32 * 2^20 / 8) := Nat.mul_le_mul_left _ h
    have h4 : per * (32 * 2^20 / 8) ≤ 2^18 * 2^21 * (32 * 2^20 / 8) := Nat.mul_le_mul_right _ hper
    omega

/-- **one operation of a history**: the invariant is kept, a read agrees with the flat disk,
    nothing panics -/
theorem step_inv (cb : Nat) (d : Dev) (f : Flat) (op : Op) (inv : Inv cb d f) (hwf : OpWF cb op)
    (hcap : Cap (stepDev d op)) :
    Inv cb (stepDev d op) (stepFlat d f op) ∧ NoPanic d op ∧ ReadOK d f op := by
  cases op with
  | write off len toks =>
    have htoks : toks.length = len / 512 := hwf
    generalize hw : writeAt off len toks d = rw
    obtain ⟨d', r⟩ := rw
    have hcap' : Cap d' := by
      have : Cap (writeAt off len toks d).1 := hcap
      rw [hw] at this; exact this
    obtain ⟨wz', hi, np, hok, herr⟩ := write_gz d d' f off len toks r inv.wz inv.rz htoks hw hcap'
    have hn : d'.hdrL1Entries = d.hdrL1Entries :=
      (writeAt_winv inv.wz.hinv.winv (fun o _ _ => (inv.wz.hinv.plain o).1)
        (fun o _ _ => (inv.wz.hinv.plain o).2) hw hcap').2.2.1
    refine ⟨?_, ?_, trivial⟩
    · show Inv cb (writeAt off len toks d).1
        (if (writeAt off len toks d).2.isOk then f.write off toks else f)
      rw [hw]
      dsimp only
      refine ⟨wz', fixed_of_same inv.fx hi hn, ?_, by rw [hi]; exact inv.cb⟩
      by_cases hr : r = .ok ()
      · rw [if_pos (isOk_unit.2 hr)]; exact hok hr
      · rw [if_neg (fun x => hr (isOk_unit.1 x))]; exact herr hr
    · show ∀ p, (writeAt off len toks d).2 ≠ .panic p
      rw [hw]; exact np
  | read off len =>
    refine ⟨inv, ?_, read_g d f inv.wz.st inv.rz.sec off len⟩
    intro p hp
    have := read_g d f inv.wz.st inv.rz.sec off len
    rw [hp] at this
    unfold flatReadAt at this
    split at this
    · cases this
    · cases this
    · split at this <;> cases this
  | discard off len =>
    generalize hd : Model.discard off len d = rd
    obtain ⟨d', r⟩ := rd
    obtain ⟨hrw, hro⟩ := discard_outcome inv.wz (vsize_small inv.fx inv.wz.st.cb9) hd
    cases hro' : d.info.readOnly with
    | false =>
      have hr := hrw hro'
      subst hr
      obtain ⟨wz', rz', hi⟩ := discard_g d d' f off len inv.wz inv.rz hd
      have hn : d'.hdrL1Entries = d.hdrL1Entries := by
        have := (discard_sameFrame off len d).2.2.2.2.2.2.2.2.2.2.1
        rw [hd] at this; exact this
      refine ⟨?_, ?_, trivial⟩
      · show Inv cb (Model.discard off len d).1
          (if (Model.discard off len d).2.isOk then f.discard off len else f)
        rw [hd]
        show Inv cb d' (f.discard off len)
        exact ⟨wz', fixed_of_same inv.fx hi hn, rz', by rw [hi]; exact inv.cb⟩
      · show ∀ p, (Model.discard off len d).2 ≠ .panic p
        rw [hd]; intro p hp; cases hp
    | true =>
      obtain ⟨hd', hr⟩ := hro hro'
      rw [hd', hr] at hd
      refine ⟨?_, ?_, trivial⟩
      · show Inv cb (Model.discard off len d).1
          (if (Model.discard off len d).2.isOk then f.discard off len else f)
        rw [hd]
        show Inv cb d f
        exact inv
      · show ∀ p, (Model.discard off len d).2 ≠ .panic p
        rw [hd]; intro p hp; cases hp
  | flush =>
    refine ⟨?_, trivial, trivial⟩
    show Inv cb (flushMeta d).1 f
    have v : VFrame d (flushMeta d).1 := nf_vframe d false
    have hI : HInv (flushMeta d).1 := hstep_hinv inv.wz.hinv .flush (by
      show Cap (flushMeta d).1
      exact inv.wz.st.rt56)
    have gi := (inv.wz.gInv inv.rz.sec).of_vframe_winv v hI.winv inv.wz.q
    exact ⟨⟨gi.st, gi.tab, gi.map, hI, gi.z, gi.q⟩, fixed_of_same inv.fx rfl rfl,
      ⟨gi.refines, inv.rz.vsize, inv.rz.cs, inv.rz.ownz⟩, inv.cb⟩
  | reopen p =>
    obtain ⟨hp9, hpcb⟩ : 9 ≤ p.bsBits ∧ p.bsBits ≤ cb := hwf
    refine ⟨?_, trivial, trivial⟩
    show Inv cb (reopenStep d p) f
    unfold reopenStep
    rw [reopenDev_flush]
    have hflush : Inv cb (flushMeta d).1 f := by
      have v : VFrame d (flushMeta d).1 := nf_vframe d false
      have hI : HInv (flushMeta d).1 := hstep_hinv inv.wz.hinv .flush (by
        show Cap (flushMeta d).1
        exact inv.wz.st.rt56)
      have gi := (inv.wz.gInv inv.rz.sec).of_vframe_winv v hI.winv inv.wz.q
      exact ⟨⟨gi.st, gi.tab, gi.map, hI, gi.z, gi.q⟩, fixed_of_same inv.fx rfl rfl,
        ⟨gi.refines, inv.rz.vsize, inv.rz.cs, inv.rz.ownz⟩, inv.cb⟩
    cases hr : reopenDev d p with
    | ok d' =>
      dsimp only
      obtain ⟨wz', fx', rz', _⟩ := reopen_g d d' p f inv.wz inv.fx inv.rz hp9 (by rw [inv.cb]; exact hpcb) hr
      refine ⟨wz', fx', rz', ?_⟩
      rw [(Qv.Props.C02.reopen_view d d' p hr).2.2.2.2.2.2.2.1]; exact inv.cb
    | err e => exact hflush
    | panic s => exact hflush

/-- **H, general form.**  From any state satisfying the invariant of histories: along EVERY
    list of operations (arbitrary arguments) after which the refcount table still describes
    host offsets below 2^56, every read agrees with the flat disk and nothing panics. -/
theorem history_refines_all (cb : Nat) (ops : List Op) : ∀ (d : Dev) (f : Flat), Inv cb d f →
    (∀ op ∈ ops, OpWF cb op) → Cap (runDev d ops) → ReadsAgree d f ops := by
  induction ops with
  | nil => intro _ _ _ _ _; trivial
  | cons op ops ih =>
    intro d f inv hwf hcap
    have hcap1 : Cap (stepDev d op) := cap_run_back ops (stepDev d op) hcap
    obtain ⟨inv', np, hrd⟩ := step_inv cb d f op inv (hwf op List.mem_cons_self) hcap1
    exact ⟨hrd, np, ih _ _ inv' (fun o ho => hwf o (List.mem_cons_of_mem _ ho)) hcap⟩

/-! ### a freshly formatted image -/

theorem ownZ_blank (size cb : Nat) : OwnZ (blank size cb) := by
  intro s _ _
  show (FMap.empty 0).get s = 0
  rw [FMap.get_empty]

/-- a freshly formatted image satisfies the invariant of histories and shows the blank disk -/
theorem format_inv {size cb ro k : Nat} {p : Params} {d : Dev}
    (h : formatDev size cb ro (2^k) p = .ok d)
    (h9 : 9 ≤ cb) (h21 : cb ≤ 21) (hro : ro ≤ 6) (hk : k ≤ cb) (hsz : 0 < size)
    (hbs9 : 9 ≤ p.bsBits) (hbscb : p.bsBits ≤ cb)
    (hcap : (size + 2^cb / 8 * 2^cb - 1) / (2^cb / 8 * 2^cb) ≤ 32 * 2^20 / 8)
    (hrt56 : d.rtLen * d.info.rbEntries * d.info.clusterSize ≤ 2^56) :
    Inv cb d (blank size cb) := by
  obtain ⟨w, hr⟩ := Qv.Props.C01RefineMore.format_wfd h h9 h21 hro hk hsz hbs9 hbscb hcap hrt56
  obtain ⟨_, c1, c2, hvs, _⟩ := Qv.Props.C09.format_geometry h h9 h21 hro (by omega) hcap
  obtain ⟨rc, info, _, _, hd⟩ := formatDev_fields h
  have hdata : d.data = FMap.empty 0 := by rw [hd]
  have hl1 : d.l1 = FMap.empty 0#64 := by rw [hd]
  have hhdr : d.hdrL1Entries = (metaParams size cb ro (2^k)).l1Entries := by rw [hd]
  have hz : ZInv d := by
    intro σ hσ
    rw [hdata, FMap.get_empty] at hσ
    exact absurd rfl hσ
  have hq : L1Q d := by
    refine ⟨?_, fun i _ => ?_⟩
    · rw [w.hinv.winv.shape.hdrEq]; exact w.hinv.winv.shape.hdrLe
    · rw [hl1, FMap.get_empty]; exact l1_isZero_zero
  refine ⟨wfz_of_wfd w hz hq, ⟨by rw [c1]; exact h21, by rw [c2]; exact hro, by rw [hvs, c1]; exact hcap, ?_⟩,
    ⟨hr.sec, hr.vsize, hr.cs, ownZ_blank size cb⟩, c1⟩
  rw [hhdr, hvs, c1]
  unfold Info.maxL1EntriesOf metaParams
  dsimp only
  rw [Nat.min_eq_left hcap]
  exact Nat.le_refl _

/-- **H.**  Start from a freshly formatted image (`formatDev` with a power-of-two format
    block size `2^k ≤ cluster size`, `size > 0`, cluster bits 9..21, refcount order ≤ 6, opened
    with a block size between 512 bytes and the cluster size, virtual size within the 32 MiB
    L1 limit, refcount table area at most 2^56 bytes).  Take ANY list of operations

      write off len toks | read off len | discard off len | flush | reopen p

    with ARBITRARY offsets and lengths; the only conditions on the operations are about their
    encoding (`OpWF`: a write buffer of `len` bytes carries `len / 512` sector tokens; a reopen
    uses a block size between 512 bytes and the cluster size).  Writes may be rejected, may
    fail midway, may relocate the refcount table; discards may be refused (read-only after a
    reopen); reopens may change block size, cache geometry and the read-only flag.
    Single capacity hypothesis: in the FINAL state the refcount table still describes host
    offsets below 2^56 (`Cap`), as in `history_acct`.

    Then (`ReadsAgree`): EVERY read — whatever it returns: data, a clamped count, `Err` —
    returns exactly what `flatReadAt` returns on the flat reference disk, which starts blank
    and applies `Flat.write` for every write that returned `Ok`, `Flat.discard` for every
    discard that returned `Ok`, and NOTHING for an operation that returned `Err` (a rejected
    request; a write that failed midway: it changes no guest sector); and no operation
    panics. -/
theorem history_refines_flat_all {size cb ro k : Nat} {p : Params} {d0 : Dev}
    (hfmt : formatDev size cb ro (2^k) p = .ok d0)
    (h9 : 9 ≤ cb) (h21 : cb ≤ 21) (hro : ro ≤ 6) (hk : k ≤ cb) (hsz : 0 < size)
    (hbs9 : 9 ≤ p.bsBits) (hbscb : p.bsBits ≤ cb)
    (hcapL1 : (size + 2^cb / 8 * 2^cb - 1) / (2^cb / 8 * 2^cb) ≤ 32 * 2^20 / 8)
    (ops : List Op) (hwf : ∀ op ∈ ops, OpWF cb op) (hcap : Cap (runDev d0 ops)) :
    ReadsAgree d0 (blank size cb) ops := by
  have hrt56 : d0.rtLen * d0.info.rbEntries * d0.info.clusterSize ≤ 2^56 := cap_run_back ops d0 hcap
  exact history_refines_all cb ops d0 _
    (format_inv hfmt h9 h21 hro hk hsz hbs9 hbscb hcapL1 hrt56) hwf hcap

/-! ## non-vacuity -/

open Qv.Props.C03 (fmtEx fmtEx_format)
open Qv.Props.C15 (infoEx)

/-- write one sector, a write beyond the end of the disk (rejected), a read, a reopen with
    4096-byte blocks, a read of one new block, and a read that is no longer block aligned -/
def opsEx : List Op :=
  [.write 0 512 [7], .write (2^30) 512 [9], .read 0 512, .reopen exReopenParams, .read 0 4096, .read 0 512]

theorem flatEx_read (n : Nat) (hn : 1 ≤ n) :
    ((blank (2^30) 16).write 0 [7]).read 0 n = 7 :: List.replicate (n - 1) 0 := by
  obtain ⟨m, rfl⟩ : ∃ m, n = m + 1 := ⟨n - 1, by omega⟩
  unfold Flat.read
  rw [List.range_succ_eq_map, List.map_cons, List.map_map]
  have h0 : ((blank (2^30) 16).write 0 [7]).sec.get (0 / 512 + 0) = 7 := by
    rw [flat_write_sec]; simp
  rw [h0, Nat.add_sub_cancel]
  congr 1
  apply List.ext_getElem
  · simp
  · intro i h1 h2
    simp only [List.getElem_map, List.getElem_range, Function.comp, List.getElem_replicate]
    rw [flat_write_sec]
    simp [blank]

/-- **H is not vacuous**: on the freshly formatted 1 GiB image the history `opsEx` satisfies
    every hypothesis of `history_refines_flat_all` (in particular `Cap` of the final state).
    The write returns `Ok` (it allocates the L2 table and the data cluster), the write beyond
    the end is rejected and changes nothing, the reopen with 4096-byte blocks succeeds; the
    reads return `[7]`, then — through the reopened device — `[7, 0, 0, 0, 0, 0, 0, 0]`, and
    the 512-byte read is then rejected as unaligned: on the device and on the flat disk. -/
theorem fmtEx_history_all : ∃ d1 d3, writeAt 0 512 [7] fmtEx = (d1, .ok ()) ∧
    writeAt (2^30) 512 [9] d1 = (d1, .err .beyondEnd) ∧
    reopenDev d1 exReopenParams = .ok d3 ∧ d3.info.bs = 4096 ∧
    (∀ op ∈ opsEx, OpWF 16 op) ∧ runDev fmtEx opsEx = d3 ∧ Cap (runDev fmtEx opsEx) ∧
    ReadsAgree fmtEx (blank (2^30) 16) opsEx ∧
    readAt d1 0 512 = .ok (512, [7]) ∧
    readAt d3 0 4096 = .ok (4096, [7, 0, 0, 0, 0, 0, 0, 0]) ∧
    readAt d3 0 512 = .err .unaligned := by
  obtain ⟨w, hr⟩ := Qv.Props.C01RefineMore.fmtEx_wfd
  obtain ⟨dA, hen, hiA, hrtA, hhintA, hrtA', hrcA⟩ := Qv.Props.C01Refine.fmtEx_ensureL2
  obtain ⟨dB, hal, hngB⟩ := allocateClusters_one_free_hint dA (by rw [hiA]; exact Qv.Props.C08.geomEx)
    (by rw [hiA, hhintA, hrtA]; decide)
    (by
      have : dA.rt.get (Host.rtIndex dA.info dA.hint) = 0x20000#64 := by
        rw [hiA, hhintA, hrtA']
        show fmtEx.rt.get 0 = _; simp [fmtEx]
      rw [this]; decide)
    (by
      have : dA.hint / dA.info.clusterSize = 5 := by rw [hiA, hhintA]; decide
      rw [this]; exact hrcA)
  have hneed : needMakeMapping fmtEx.info (fmtEx.mapping 0) = true :=
    needMakeMapping_unallocated rfl (Qv.Props.C09.format_mapping_empty fmtEx_format 0).2.1
  obtain ⟨d1, hw, hng⟩ := Qv.Props.C01Refine.write_single_succeeds [7] w.wf hr.sec (off := 0) (len := 512)
    (by decide) (by decide) (by decide) hneed hen hrtA hal hngB
  obtain ⟨_, _, hi1⟩ := Qv.Props.C01RefineMore.write_refinesO fmtEx d1 _ 0 512 [7] w hr (by decide) rfl hw hng
  have hcap1 : Cap d1 := by
    unfold Cap; rw [hng, hi1]; decide
  have hrej : writeAt (2^30) 512 [9] d1 = (d1, .err .beyondEnd) :=
    writeAt_rejected (by rw [hi1]; decide)
  have hn : Info.new { clusterBits := d1.info.cb, refcountOrder := d1.info.ro, size := d1.info.vsize,
                       hasBackingName := d1.info.hasBack } exReopenParams = .ok { infoEx with bsb := 12 } := by
    rw [hi1]; rfl
  obtain ⟨d3, hre⟩ : ∃ d3, reopenDev d1 exReopenParams = .ok d3 :=
    ⟨_, by unfold reopenDev; rw [hn]; rfl⟩
  have hbs3 : d3.info.bsb = 12 := (Qv.Props.C02.reopen_rest d1 d3 _ hre).2.2.2.2.2.2.2.2.2.2.2.1
  have hvs3 : d3.info.vsize = 2^30 := by
    rw [(Qv.Props.C02.reopen_view d1 d3 _ hre).2.2.2.2.2.2.2.2.1, hi1]; rfl
  have hwf : ∀ op ∈ opsEx, OpWF 16 op := by
    intro op hop
    simp only [opsEx, List.mem_cons, List.mem_nil_iff, or_false] at hop
    rcases hop with rfl | rfl | rfl | rfl | rfl | rfl
    · rfl
    · rfl
    · trivial
    · exact ⟨by decide, by decide⟩
    · trivial
    · trivial
  have hrun : runDev fmtEx opsEx = d3 := by
    simp only [runDev, opsEx, List.foldl_cons, List.foldl_nil, stepDev]
    rw [hw]
    dsimp only
    rw [hrej]
    dsimp only
    unfold reopenStep
    rw [reopenDev_flush, hre]
  have hcap : Cap (runDev fmtEx opsEx) := by
    rw [hrun]; exact (reopen_cap hre).2 hcap1
  have hag := history_refines_flat_all (k := 9) fmtEx_format (by decide) (by decide) (by decide) (by decide)
    (by decide) (by decide) (by decide) (by decide) opsEx hwf hcap
  -- the invariant along the history, for the concrete read results
  have inv0 : Inv 16 fmtEx (blank (2^30) 16) :=
    format_inv (k := 9) fmtEx_format (by decide) (by decide) (by decide) (by decide) (by decide) (by decide)
      (by decide) (by decide) (by decide)
  have inv1 : Inv 16 d1 ((blank (2^30) 16).write 0 [7]) := by
    have := (step_inv 16 fmtEx _ (.write 0 512 [7]) inv0 rfl (by
      show Cap (writeAt 0 512 [7] fmtEx).1
      rw [hw]; exact hcap1)).1
    change Inv 16 (writeAt 0 512 [7] fmtEx).1
      (if (writeAt 0 512 [7] fmtEx).2.isOk then (blank (2^30) 16).write 0 [7] else blank (2^30) 16) at this
    rw [hw] at this
    exact this
  have inv3 : Inv 16 d3 ((blank (2^30) 16).write 0 [7]) := by
    have := (step_inv 16 d1 _ (.reopen exReopenParams) inv1 ⟨by decide, by decide⟩ (by
      show Cap (reopenStep d1 exReopenParams)
      unfold reopenStep
      rw [reopenDev_flush, hre]
      exact (reopen_cap hre).2 hcap1)).1
    change Inv 16 (reopenStep d1 exReopenParams) _ at this
    unfold reopenStep at this
    rw [reopenDev_flush, hre] at this
    exact this
  have hbs : d3.info.bs = 4096 := by unfold Info.bs; rw [hbs3]
  refine ⟨d1, d3, hw, hrej, hre, hbs, hwf, hrun, hcap, hag, ?_, ?_, ?_⟩
  · rw [read_step d1 _ inv1.wz inv1.rz 0 512, hi1]
    have hp : readPlan fmtEx.info 0 512 = .run 512 := by decide
    unfold flatReadAt
    rw [hp]
    dsimp only
    rw [if_neg (by decide), flatEx_read _ (by decide)]
    rfl
  · rw [read_step d3 _ inv3.wz inv3.rz 0 4096]
    have hp : readPlan d3.info 0 4096 = .run 4096 := by
      unfold readPlan
      rw [hvs3, hbs]
      decide
    unfold flatReadAt
    rw [hp]
    dsimp only
    rw [if_neg (by decide), flatEx_read _ (by decide)]
    rfl
  · rw [read_step d3 _ inv3.wz inv3.rz 0 512]
    have hp : readPlan d3.info 0 512 = .reject .unaligned := by
      unfold readPlan
      rw [hvs3, hbs]
      decide
    unfold flatReadAt
    rw [hp]

end Qv.Props.C01History

/-! ## axioms -/
#print axioms Qv.Props.C01History.write_step
#print axioms Qv.Props.C01History.write_refines_growth
#print axioms Qv.Props.C01History.write_failed_unchanged_view
#print axioms Qv.Props.C01History.discard_step
#print axioms Qv.Props.C01History.discard_outcomes
#print axioms Qv.Props.C01History.reopen_step
#print axioms Qv.Props.C01History.read_step
#print axioms Qv.Props.C01History.step_inv
#print axioms Qv.Props.C01History.history_refines_all
#print axioms Qv.Props.C01History.format_inv
#print axioms Qv.Props.C01History.history_refines_flat_all
#print axioms Qv.Props.C01History.fmtEx_history_all
