import Qv.Spec.SyncCover
/-
  C05 / C04 at the level of the `unsynced` flag: when a skipped fsync is sound.

  * `flag_clear_all_covered`   with the mark set at completion (the repaired code), under either policy and for EVERY
                               interleaving of issues, completions and syncs of any number of tasks: flag clear ⇒ every
                               completed request is covered. Hence `syncUnsynced_covers`: after sync_unsynced() everything
                               completed is covered (what flush_meta's layer ordering and its final sync rely on), and
                               `fsyncRange_covers` for the public call.
  * `issueOnly_loses_cover`    the code before the repair: a concrete interleaving (another task's fsync while the write is in
                               flight) after which sync_unsynced() leaves a completed write uncovered - the schedule the
                               harness found on the real code (conc seed 4 run 3101).
  * `always_covers`            fsync_range() as written covers everything completed, whatever the marking discipline.
  * `skip_needs_done_mark`     the realistic change "fsync_range() returns early when the flag is clear" is unsound with the
                               issue-only mark (counterexample), and sound only because of the completion mark.
-/
namespace Qv.Props.C05Sync
open Qv.Spec.SyncCover

/-- the invariant of the repaired discipline -/
def Inv (s : St) : Prop := s.flag = false → AllCovered s

theorem inv_init : Inv {} := by simp [Inv, AllCovered]

theorem allCovered_doSync (s : St) : AllCovered (doSync s) := by
  intro id h; simpa [doSync] using h

theorem step_wIssue (m : Mark) (p : Policy) (s : St) (id : Nat) :
    step m p s (.wIssue id) = { s with flag := true, inflight := id :: s.inflight } := rfl
theorem step_wDone (p : Policy) (s : St) (id : Nat) :
    step .issueAndDone p s (.wDone id) =
      if id ∈ s.inflight then { s with inflight := s.inflight.erase id, completed := id :: s.completed, flag := true } else s := rfl
theorem step_sync (m : Mark) (p : Policy) (s : St) : step m p s .sync = doSync s := rfl
theorem step_syncUnsynced (m : Mark) (p : Policy) (s : St) :
    step m p s .syncUnsynced = if s.flag then doSync s else s := rfl
theorem step_fsyncRange_always (m : Mark) (s : St) : step m .always s .fsyncRange = doSync s := rfl
theorem step_fsyncRange_skip (m : Mark) (s : St) :
    step m .skipWhenClear s .fsyncRange = if s.flag then doSync s else s := rfl

theorem inv_cond_sync (s : St) (h : Inv s) : Inv (if s.flag then doSync s else s) := by
  split
  · intro _; exact allCovered_doSync s
  · exact h

theorem allCovered_cond_sync (s : St) (h : Inv s) : AllCovered (if s.flag then doSync s else s) := by
  split
  · exact allCovered_doSync s
  · rename_i hf; exact h (by simpa using hf)

theorem inv_step (p : Policy) (s : St) (op : Op) (h : Inv s) : Inv (step .issueAndDone p s op) := by
  cases op with
  | wIssue id => rw [step_wIssue]; intro hf; simp at hf
  | wDone id =>
    rw [step_wDone]
    split
    · intro hf; simp at hf
    · exact h
  | sync => rw [step_sync]; intro _; exact allCovered_doSync s
  | syncUnsynced => rw [step_syncUnsynced]; exact inv_cond_sync s h
  | fsyncRange =>
    cases p with
    | always => rw [step_fsyncRange_always]; intro _; exact allCovered_doSync s
    | skipWhenClear => rw [step_fsyncRange_skip]; exact inv_cond_sync s h

/-- every reachable state of the repaired discipline: flag clear ⇒ everything completed is covered -/
theorem flag_clear_all_covered (p : Policy) (ops : List Op) : Inv (run .issueAndDone p {} ops) := by
  suffices ∀ s, Inv s → Inv (run .issueAndDone p s ops) from this {} inv_init
  induction ops with
  | nil => intro s h; exact h
  | cons op ops ih => intro s h; exact ih _ (inv_step p s op h)

theorem run_snoc (m : Mark) (p : Policy) (s : St) (ops : List Op) (op : Op) :
    run m p s (ops ++ [op]) = step m p (run m p s ops) op := by
  simp [run, List.foldl_append]

/-- after sync_unsynced(), in any history, everything that has completed is covered by an fsync -/
theorem syncUnsynced_covers (p : Policy) (ops : List Op) :
    AllCovered (run .issueAndDone p {} (ops ++ [.syncUnsynced])) := by
  rw [run_snoc, step_syncUnsynced]
  exact allCovered_cond_sync _ (flag_clear_all_covered p ops)

/-- the public fsync_range(), under either policy, with the completion mark -/
theorem fsyncRange_covers (p : Policy) (ops : List Op) :
    AllCovered (run .issueAndDone p {} (ops ++ [.fsyncRange])) := by
  rw [run_snoc]
  cases p with
  | always => rw [step_fsyncRange_always]; exact allCovered_doSync _
  | skipWhenClear => rw [step_fsyncRange_skip]; exact allCovered_cond_sync _ (flag_clear_all_covered _ ops)

/-- fsync_range() as written covers everything completed, whatever the marking discipline -/
theorem always_covers (m : Mark) (ops : List Op) : AllCovered (run m .always {} (ops ++ [.fsyncRange])) := by
  rw [run_snoc, step_fsyncRange_always]
  exact allCovered_doSync _

/-- the history of the defect: task A issues a write, task B's fsync is issued while it is in flight, the write completes,
    A's sync_unsynced() sees a clear flag -/
def raceHistory : List Op := [.wIssue 1, .sync, .wDone 1, .syncUnsynced]

/-- before the repair (mark at issue only) that history leaves a completed write no fsync covers -/
theorem issueOnly_loses_cover : ¬ AllCovered (run .issueOnly .always {} raceHistory) := by decide

/-- the same history under the repaired discipline -/
example : AllCovered (run .issueAndDone .always {} raceHistory) := by decide

/-- "skip fsync_range() when the flag is clear" is unsound with the issue-only mark -/
theorem skip_needs_done_mark :
    ¬ AllCovered (run .issueOnly .skipWhenClear {} [.wIssue 1, .sync, .wDone 1, .fsyncRange]) := by decide

/-- non-vacuity: a history with two tasks' writes, one straddling an fsync, ends covered and with a clear flag -/
example : let s := run .issueAndDone .always {} [.wIssue 1, .wIssue 2, .wDone 2, .sync, .wDone 1, .syncUnsynced]
    s.flag = false ∧ s.completed = [1, 2] ∧ AllCovered s := by decide

end Qv.Props.C05Sync
