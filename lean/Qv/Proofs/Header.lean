import Qv.Codec.Header
/-
Helper lemmas for C14 (Qv/Props/C14.lean): big-endian read/write round trips,
reading a concatenation of `bePut` chunks, the extension walk.
-/
namespace Qv.Codec.Hdr

theorem beAt_zero (b : Bytes) (off : Nat) : beAt b off 0 = 0 := by simp [beAt]

theorem beAt_succ (b : Bytes) (off n : Nat) :
    beAt b off (n + 1) = beAt b off n * 256 + (b.getD (off + n) 0).toNat := by
  simp [beAt, List.range_succ, List.foldl_append]

theorem beAt_congr (b b' : Bytes) (off off' n : Nat)
    (h : ∀ k, k < n → b.getD (off + k) 0 = b'.getD (off' + k) 0) : beAt b off n = beAt b' off' n := by
  induction n with
  | zero => simp [beAt_zero]
  | succ n ih =>
    rw [beAt_succ, beAt_succ, ih (fun k hk => h k (by omega)), h n (by omega)]

@[simp] theorem length_bePut (v n : Nat) : (bePut v n).length = n := by simp [bePut]

theorem bePut_succ (v n : Nat) : bePut v (n + 1) = bePut (v / 256) n ++ [UInt8.ofNat (v % 256)] := by
  unfold bePut
  rw [List.range_succ, List.map_append]
  congr 1
  · apply List.map_congr_left
    intro k hk
    have hk : k < n := by simpa using hk
    have : n + 1 - 1 - k = (n - 1 - k) + 1 := by omega
    rw [this, Nat.pow_succ, Nat.mul_comm, Nat.div_div_eq_div_mul]
  · simp

theorem beAt_lt (b : Bytes) (off n : Nat) : beAt b off n < 256 ^ n := by
  induction n with
  | zero => simp [beAt_zero]
  | succ n ih =>
    rw [beAt_succ, Nat.pow_succ]
    have := (b.getD (off + n) 0).toNat_lt
    omega

/-- reading the big-endian encoding back (at the front of any list) -/
theorem beAt_bePut_append (v n : Nat) (post : List UInt8) :
    beAt (bePut v n ++ post).toArray 0 n = v % 256 ^ n := by
  induction n generalizing v post with
  | zero => simp [beAt_zero, Nat.mod_one]
  | succ n ih =>
    rw [beAt_succ, bePut_succ, List.append_assoc, ih]
    have : ((bePut (v / 256) n ++ ([UInt8.ofNat (v % 256)] ++ post)).toArray.getD (0 + n) 0) = UInt8.ofNat (v % 256) := by
      simp [Array.getD, List.getElem_append_right]
    rw [this]
    have h2 : (UInt8.ofNat (v % 256)).toNat = v % 256 := by
      simp
    rw [h2, Nat.pow_succ, Nat.mul_comm (256 ^ n) 256, Nat.mod_mul]
    omega

theorem beAt_append_right (pre l : List UInt8) (off n : Nat) :
    beAt (pre ++ l).toArray (pre.length + off) n = beAt l.toArray off n := by
  apply beAt_congr
  intro k hk
  simp [Array.getD, Nat.add_assoc]

theorem beAt_append_left (l post : List UInt8) (off n : Nat) (h : off + n ≤ l.length) :
    beAt (l ++ post).toArray off n = beAt l.toArray off n := by
  apply beAt_congr
  intro k hk
  have : off + k < l.length := by omega
  simp [Array.getD, List.getElem_append_left, this]
  omega


/-- serialisation of a list of (value, width) chunks -/
def serChunks (cs : List (Nat × Nat)) : List UInt8 := cs.flatMap (fun c => bePut c.1 c.2)

/-- reading chunk `i` of a chunk sequence followed by anything -/
theorem beAt_chunks (cs : List (Nat × Nat)) (i : Nat) (h : i < cs.length) (post : List UInt8) :
    beAt (serChunks cs ++ post).toArray ((cs.take i).map (·.2)).sum cs[i].2 = cs[i].1 % 256 ^ cs[i].2 := by
  induction cs generalizing i with
  | nil => simp at h
  | cons c cs ih =>
    cases i with
    | zero =>
      simp only [serChunks, List.flatMap_cons, List.take_zero, List.map_nil, List.sum_nil,
        List.getElem_cons_zero, List.append_assoc]
      exact beAt_bePut_append _ _ _
    | succ i =>
      simp only [serChunks, List.flatMap_cons, List.take_succ_cons, List.map_cons, List.sum_cons,
        List.getElem_cons_succ, List.append_assoc]
      have hi : i < cs.length := by simpa using h
      have := beAt_append_right (bePut c.1 c.2) (serChunks cs ++ post) ((cs.take i).map (·.2)).sum cs[i].2
      rw [length_bePut] at this
      rw [serChunks] at this
      rw [this]
      exact ih i hi

def rawChunks (r : Raw) : List (Nat × Nat) :=
  [(r.magic, 4), (r.version, 4), (r.backingOff, 8), (r.backingSize, 4), (r.clusterBits, 4), (r.size, 8),
   (r.crypt, 4), (r.l1Size, 4), (r.l1Off, 8), (r.rtOff, 8), (r.rtClusters, 4), (r.nbSnap, 4),
   (r.snapOff, 8), (r.incompat, 8), (r.compat, 8), (r.autoclear, 8), (r.refcountOrder, 4), (112, 4),
   (r.compression, 1)]

theorem serRaw_eq (r : Raw) : serRaw r = serChunks (rawChunks r) ++ List.replicate 7 0 := by
  unfold serRaw serChunks rawChunks
  simp only [List.flatMap_cons, List.flatMap_nil, List.append_assoc,
    List.append_nil]

theorem length_serRaw (r : Raw) : (serRaw r).length = 112 := by
  unfold serRaw
  simp only [List.length_append, length_bePut, List.length_replicate]

/-- every field fits its on-disk width -/
structure RawFits (r : Raw) : Prop where
  magic : r.magic < 2^32
  version : r.version < 2^32
  backingOff : r.backingOff < 2^64
  backingSize : r.backingSize < 2^32
  clusterBits : r.clusterBits < 2^32
  size : r.size < 2^64
  crypt : r.crypt < 2^32
  l1Size : r.l1Size < 2^32
  l1Off : r.l1Off < 2^64
  rtOff : r.rtOff < 2^64
  rtClusters : r.rtClusters < 2^32
  nbSnap : r.nbSnap < 2^32
  snapOff : r.snapOff < 2^64
  incompat : r.incompat < 2^64
  compat : r.compat < 2^64
  autoclear : r.autoclear < 2^64
  refcountOrder : r.refcountOrder < 2^32
  compression : r.compression < 2^8

theorem readRaw_serRaw (r : Raw) (post : List UInt8) (hf : RawFits r) :
    readRaw (serRaw r ++ post).toArray = { r with headerLength := 112 } := by
  have key : ∀ i (h : i < (rawChunks r).length),
      beAt (serRaw r ++ post).toArray (((rawChunks r).take i).map (·.2)).sum (rawChunks r)[i].2
        = (rawChunks r)[i].1 % 256 ^ (rawChunks r)[i].2 := by
    intro i h
    rw [serRaw_eq, List.append_assoc]
    exact beAt_chunks _ i h _
  have h0 := key 0 (by simp [rawChunks])
  have h1 := key 1 (by simp [rawChunks])
  have h2 := key 2 (by simp [rawChunks])
  have h3 := key 3 (by simp [rawChunks])
  have h4 := key 4 (by simp [rawChunks])
  have h5 := key 5 (by simp [rawChunks])
  have h6 := key 6 (by simp [rawChunks])
  have h7 := key 7 (by simp [rawChunks])
  have h8 := key 8 (by simp [rawChunks])
  have h9 := key 9 (by simp [rawChunks])
  have h10 := key 10 (by simp [rawChunks])
  have h11 := key 11 (by simp [rawChunks])
  have h12 := key 12 (by simp [rawChunks])
  have h13 := key 13 (by simp [rawChunks])
  have h14 := key 14 (by simp [rawChunks])
  have h15 := key 15 (by simp [rawChunks])
  have h16 := key 16 (by simp [rawChunks])
  have h17 := key 17 (by simp [rawChunks])
  have h18 := key 18 (by simp [rawChunks])
  simp only [rawChunks, List.take, List.map, List.sum_cons, List.sum_nil, List.getElem_cons_zero,
    List.getElem_cons_succ, Nat.add_zero, Nat.reduceAdd] at h0 h1 h2 h3 h4 h5 h6 h7 h8 h9 h10 h11 h12 h13 h14 h15 h16 h17 h18
  obtain ⟨f1, f2, f3, f4, f5, f6, f7, f8, f9, f10, f11, f12, f13, f14, f15, f16, f17, f18⟩ := hf
  unfold readRaw
  rw [h0, h1, h2, h3, h4, h5, h6, h7, h8, h9, h10, h11, h12, h13, h14, h15, h16, h17, h18]
  simp only [Nat.mod_eq_of_lt, *]

theorem extFrom_nopanic (ty : Nat) (data : List UInt8) : (extFrom ty data).isPanic = false := by
  unfold extFrom
  repeat' split
  all_goals rfl

theorem walkExts_nopanic (b : Bytes) (cs fuel off : Nat) (acc : List Ext) :
    (walkExts b cs fuel off acc).isPanic = false := by
  induction fuel generalizing off acc with
  | zero => rfl
  | succ fuel ih =>
    unfold walkExts
    split
    · rfl
    · simp only []
      split
      · rfl
      · have := extFrom_nopanic (beAt b off 4) (b.extract (off + 8) (off + 8 + beAt b (off + 4) 4)).toList
        split
        · rfl
        · exact ih _ _
        · rfl
        · rename_i h; rw [h] at this; simp [Outcome.isPanic] at this

/-- the two field normalisations of `from_buf` (version 2 defaults; `compression_type`
    exists only when the header is longer than 104 bytes) -/
def normRaw (r : Raw) : Raw :=
  let r := if r.version = 2 then
      { r with incompat := 0, compat := 0, autoclear := 0, refcountOrder := 4, headerLength := 72, compression := 0 }
    else r
  if r.headerLength ≤ 104 then { r with compression := 0 } else r

/-- the backing-name part of `from_buf` -/
def backingOf (b : Bytes) (r : Raw) : Outcome (Option (List UInt8)) :=
  if r.backingOff ≠ 0 then
    if r.backingSize > 1023 then .err .invalid else
    let e := r.backingOff + r.backingSize
    if e ≥ 2^64 then .err .invalid else
    if e > 2^r.clusterBits then .err .invalid else
    if e > b.size then .err .invalid else
    let nm := (b.extract (e - r.backingSize) e).toList
    if utf8Valid nm then .ok (some nm) else .err .invalid
  else .ok none

/-- the checks of `from_buf` on the normalised raw header -/
def parseChecked (fuel : Nat) (b : Bytes) (r : Raw) : Outcome Header :=
  if r.crypt ≠ 0 then .err .unsupported else
  if r.refcountOrder > 6 then .err .unsupported else
  if r.compression ≠ 0 then .err .unsupported else
  if ¬ (9 ≤ r.clusterBits ∧ r.clusterBits ≤ 30) then .err .invalid else
  if 2^r.clusterBits > 2 * 2^20 then .err .invalid else
  if r.l1Off % 2^r.clusterBits ≠ 0 then .err .invalid else
  if r.rtOff % 2^r.clusterBits ≠ 0 then .err .invalid else
  if r.rtClusters * 2^r.clusterBits > 8 * 2^20 then .err .invalid else
  if r.l1Size * 8 > 32 * 2^20 then .err .invalid else
  match backingOf b r with
  | .err x => .err x
  | .panic p => .panic p
  | .ok bk =>
    match walkExts b (2^r.clusterBits) fuel r.headerLength [] with
    | .err x => .err x
    | .panic p => .panic p
    | .ok exts =>
      if r.incompat ≠ 0 then .err .unsupported else
      .ok { raw := r, backing := bk, exts := exts }

/-- `parse` with an explicit fuel for the extension walk -/
def parseWith (fuel : Nat) (b : Bytes) : Outcome Header :=
  if b.size < rawSize then .err .invalid else
  if (readRaw b).magic ≠ magicV then .err .invalid else
  if (readRaw b).version < 2 ∨ (readRaw b).version > 3 then .err .unsupported else
  parseChecked fuel b (normRaw (readRaw b))

theorem parse_eq_parseWith (b : Bytes) : parse b = parseWith (b.size / 8 + 2) b := by
  unfold parse parseWith parseChecked normRaw backingOf
  by_cases hv : (readRaw b).version = 2
  · simp only [hv, ↓reduceIte, Nat.reduceLeDiff]
    rfl
  · by_cases hl : (readRaw b).headerLength ≤ 104
    · simp only [hv, hl, ↓reduceIte]
      rfl
    · simp only [hv, hl, ↓reduceIte]
      rfl


/-- everything `from_buf` checks, as a predicate on the input and the result -/
structure ParseOk (fuel : Nat) (b : Bytes) (h : Header) : Prop where
  size : 105 ≤ b.size
  magic : (readRaw b).magic = magicV
  version : (readRaw b).version = 2 ∨ (readRaw b).version = 3
  raw : h.raw = normRaw (readRaw b)
  crypt : h.raw.crypt = 0
  rcOrder : h.raw.refcountOrder ≤ 6
  compression : h.raw.compression = 0
  cbLo : 9 ≤ h.raw.clusterBits
  cbHi : h.raw.clusterBits ≤ 21
  l1Off : h.raw.l1Off % 2 ^ h.raw.clusterBits = 0
  rtOff : h.raw.rtOff % 2 ^ h.raw.clusterBits = 0
  rtClusters : h.raw.rtClusters * 2 ^ h.raw.clusterBits ≤ 8 * 2 ^ 20
  l1Size : h.raw.l1Size * 8 ≤ 32 * 2 ^ 20
  backing : backingOf b h.raw = .ok h.backing
  exts : walkExts b (2 ^ h.raw.clusterBits) fuel h.raw.headerLength [] = .ok h.exts
  incompat : h.raw.incompat = 0

theorem pow_le_2m_iff (cb : Nat) : 2 ^ cb ≤ 2 * 2 ^ 20 ↔ cb ≤ 21 := by
  have : 2 * 2 ^ 20 = 2 ^ 21 := by decide
  rw [this]
  exact Nat.pow_le_pow_iff_right (by decide)

theorem ite_err_ok {α : Type} {c : Prop} [Decidable c] {e : Err} {x : Outcome α} {a : α}
    (h : (if c then Outcome.err e else x) = .ok a) : ¬ c ∧ x = .ok a := by
  by_cases hc : c
  · rw [if_pos hc] at h; cases h
  · rw [if_neg hc] at h; exact ⟨hc, h⟩

theorem ite_err_nopanic {α : Type} {c : Prop} [Decidable c] {e : Err} {x : Outcome α}
    (h : x.isPanic = false) : (if c then Outcome.err e else x).isPanic = false := by
  by_cases hc : c
  · rw [if_pos hc]; rfl
  · rw [if_neg hc]; exact h

theorem parseWith_ok (fuel : Nat) (b : Bytes) (h : Header) (hp : parseWith fuel b = .ok h) :
    ParseOk fuel b h := by
  unfold parseWith at hp
  obtain ⟨c1, hp⟩ := ite_err_ok hp
  obtain ⟨c2, hp⟩ := ite_err_ok hp
  obtain ⟨c3, hp⟩ := ite_err_ok hp
  unfold parseChecked at hp
  obtain ⟨c4, hp⟩ := ite_err_ok hp
  obtain ⟨c5, hp⟩ := ite_err_ok hp
  obtain ⟨c6, hp⟩ := ite_err_ok hp
  obtain ⟨c7, hp⟩ := ite_err_ok hp
  obtain ⟨c8, hp⟩ := ite_err_ok hp
  obtain ⟨c9, hp⟩ := ite_err_ok hp
  obtain ⟨c10, hp⟩ := ite_err_ok hp
  obtain ⟨c11, hp⟩ := ite_err_ok hp
  obtain ⟨c12, hp⟩ := ite_err_ok hp
  cases hbk : backingOf b (normRaw (readRaw b)) with
  | err x => rw [hbk] at hp; cases hp
  | panic x => rw [hbk] at hp; cases hp
  | ok bk =>
  rw [hbk] at hp
  simp only [] at hp
  cases hexts : walkExts b (2 ^ (normRaw (readRaw b)).clusterBits) fuel (normRaw (readRaw b)).headerLength [] with
  | err x => rw [hexts] at hp; cases hp
  | panic x => rw [hexts] at hp; cases hp
  | ok exts =>
  rw [hexts] at hp
  simp only [] at hp
  obtain ⟨c13, hp⟩ := ite_err_ok hp
  cases hp
  unfold rawSize at c1
  have := (pow_le_2m_iff (normRaw (readRaw b)).clusterBits).1 (by omega)
  exact ⟨by omega, by simpa using c2, by omega, rfl, by simpa using c4, by simp only []; omega, by simpa using c6,
    by simp only []; omega, this, by simpa using c9, by simpa using c10, by simp only []; omega,
    by simp only []; omega, hbk, hexts, by simpa using c13⟩


theorem parseWith_of_ok (fuel : Nat) (b : Bytes) (h : Header) (hp : ParseOk fuel b h) :
    parseWith fuel b = .ok h := by
  obtain ⟨h1, h2, h3, h4, h5, h6, h7, h8, h9, h10, h11, h12, h13, h14, h15, h16⟩ := hp
  obtain ⟨r, bk, exts⟩ := h
  simp only [] at h4 h5 h6 h7 h8 h9 h10 h11 h12 h13 h14 h15 h16
  unfold parseWith
  rw [if_neg (by unfold rawSize; omega), if_neg (by simpa using h2), if_neg (by omega), ← h4]
  unfold parseChecked
  have := (pow_le_2m_iff r.clusterBits).2 h9
  rw [if_neg (by simpa using h5), if_neg (by omega), if_neg (by simpa using h7), if_neg (by omega),
    if_neg (by omega), if_neg (by simpa using h10), if_neg (by simpa using h11), if_neg (by omega),
    if_neg (by omega)]
  simp only [h14, h15]
  rw [if_neg (by simpa using h16)]

theorem alignUp8_ge (n : Nat) : n ≤ alignUp8 n := by unfold alignUp8; omega

/-- fuel irrelevance: a walk that has one round per remaining 8 bytes never stops
    for lack of fuel -/
theorem walkExts_fuel_add (b : Bytes) (cs : Nat) (fuel off : Nat) (acc : List Ext) (k : Nat)
    (hf : (b.size - off) / 8 + 1 ≤ fuel) :
    walkExts b cs (fuel + k) off acc = walkExts b cs fuel off acc := by
  induction fuel generalizing off acc with
  | zero => omega
  | succ fuel ih =>
    rw [show fuel + 1 + k = (fuel + k) + 1 by omega]
    unfold walkExts
    split
    · rfl
    · rename_i c1
      simp only []
      split
      · rfl
      · rename_i c2
        split
        · rfl
        · apply ih
          have := alignUp8_ge (beAt b (off + 4) 4)
          omega
        · rfl
        · rfl

/-- bounded output: at most one extension per 8 bytes of input -/
theorem walkExts_length (b : Bytes) (cs : Nat) (fuel off : Nat) (acc exts : List Ext)
    (h : walkExts b cs fuel off acc = .ok exts) : exts.length ≤ acc.length + (b.size - off) / 8 := by
  induction fuel generalizing off acc with
  | zero => simp [walkExts] at h
  | succ fuel ih =>
    unfold walkExts at h
    split at h
    · cases h
    · rename_i c1
      simp only [] at h
      split at h
      · cases h
      · rename_i c2
        split at h
        · cases h; simp
        · have := ih _ _ h
          have := alignUp8_ge (beAt b (off + 4) 4)
          simp only [List.length_cons] at *
          omega
        · cases h
        · cases h

theorem beAt_append_right' (pre l : List UInt8) (k n : Nat) (h : pre.length ≤ k) :
    beAt (pre ++ l).toArray k n = beAt l.toArray (k - pre.length) n := by
  have := beAt_append_right pre l (k - pre.length) n
  rwa [show pre.length + (k - pre.length) = k by omega] at this

theorem serExts_nil : serExts [] = bePut 0 4 ++ bePut 0 4 := by
  simp [serExts, padTo8, alignUp8]

/-- the end-of-extensions marker stops the walk -/
theorem walkExts_end (b : Bytes) (cs fuel off : Nat) (acc : List Ext)
    (h1 : off + 8 ≤ cs) (h2 : off + 8 ≤ b.size) (hty : beAt b off 4 = 0) (hlen : beAt b (off + 4) 4 = 0) :
    walkExts b cs (fuel + 1) off acc = .ok acc.reverse := by
  unfold walkExts
  rw [if_neg (by omega)]
  simp only [hty, hlen]
  rw [if_neg (by omega)]
  simp [extFrom]

/-- the conditions `from_buf` accepts, on a raw header (unbundled form of `Supported` in C14) -/
structure RawOk (r : Raw) : Prop where
  magic : r.magic = magicV
  version : r.version = 2 ∨ r.version = 3
  crypt : r.crypt = 0
  rcOrder : r.refcountOrder ≤ 6
  compression : r.compression = 0
  incompat : r.incompat = 0
  cbLo : 9 ≤ r.clusterBits
  cbHi : r.clusterBits ≤ 21
  l1Off : r.l1Off % 2 ^ r.clusterBits = 0
  rtOff : r.rtOff % 2 ^ r.clusterBits = 0
  rtClusters : r.rtClusters * 2 ^ r.clusterBits ≤ 8 * 2 ^ 20
  l1Size : r.l1Size * 8 ≤ 32 * 2 ^ 20

theorem parse_serRaw_plain (r : Raw) (hf : RawFits r) (hok : RawOk r) (hv : r.version = 3)
    (hl : r.headerLength = 112) (hbo : r.backingOff = 0) (hcs : 120 ≤ 2 ^ r.clusterBits) :
    parse (serRaw r ++ (bePut 0 4 ++ bePut 0 4)).toArray = .ok { raw := r, backing := none, exts := [] } := by
  rw [parse_eq_parseWith]
  apply parseWith_of_ok
  have hsz : (serRaw r ++ (bePut 0 4 ++ bePut 0 4)).toArray.size = 120 := by
    simp [length_serRaw]
  have hrd : readRaw (serRaw r ++ (bePut 0 4 ++ bePut 0 4)).toArray = r := by
    rw [readRaw_serRaw r _ hf, ← hl]
  have hn : normRaw r = r := by
    simp [normRaw, hv, hl]
  refine ⟨by omega, by rw [hrd]; exact hok.magic, by rw [hrd]; exact Or.inr hv, by rw [hrd, hn], hok.crypt,
    hok.rcOrder, hok.compression, hok.cbLo, hok.cbHi, hok.l1Off, hok.rtOff, hok.rtClusters, hok.l1Size,
    by simp [backingOf, hbo], ?_, hok.incompat⟩
  simp only [hsz, hl]
  apply walkExts_end
  · exact hcs
  · omega
  · rw [beAt_append_right' _ _ _ _ (by simp [length_serRaw]), length_serRaw]
    exact beAt_bePut_append 0 4 _
  · rw [beAt_append_right' _ _ _ _ (by simp [length_serRaw]), length_serRaw]
    have := beAt_append_right (bePut 0 4) (bePut 0 4) 0 4
    simp only [length_bePut] at this
    rw [this]
    have := beAt_bePut_append 0 4 []
    simpa using this

theorem serialize_plain (r : Raw) (hcs : 120 ≤ 2 ^ r.clusterBits) :
    serialize { raw := r, backing := none, exts := [] }
      = .ok (serRaw { r with backingOff := 0, backingSize := 0 } ++ (bePut 0 4 ++ bePut 0 4)) := by
  unfold serialize
  simp only [serExts_nil, Option.getD_none, List.append_nil]
  rw [if_neg]
  simp only [List.length_append, length_serRaw, length_bePut]
  omega

theorem backingOf_nopanic (b : Bytes) (r : Raw) : (backingOf b r).isPanic = false := by
  unfold backingOf
  simp only []
  repeat' split
  all_goals rfl

theorem parseWith_nopanic (fuel : Nat) (b : Bytes) : (parseWith fuel b).isPanic = false := by
  unfold parseWith
  refine ite_err_nopanic (ite_err_nopanic (ite_err_nopanic ?_))
  unfold parseChecked
  refine ite_err_nopanic (ite_err_nopanic (ite_err_nopanic (ite_err_nopanic (ite_err_nopanic
    (ite_err_nopanic (ite_err_nopanic (ite_err_nopanic (ite_err_nopanic ?_))))))))
  have h1 := backingOf_nopanic b (normRaw (readRaw b))
  have h2 := walkExts_nopanic b (2 ^ (normRaw (readRaw b)).clusterBits) fuel (normRaw (readRaw b)).headerLength []
  cases hbk : backingOf b (normRaw (readRaw b)) with
  | err x => rfl
  | panic x => rw [hbk] at h1; cases h1
  | ok bk =>
  simp only []
  cases hexts : walkExts b (2 ^ (normRaw (readRaw b)).clusterBits) fuel (normRaw (readRaw b)).headerLength [] with
  | err x => rfl
  | panic x => rw [hexts] at h2; cases h2
  | ok exts =>
  simp only []
  exact ite_err_nopanic rfl

theorem parseWith_short (fuel : Nat) (b : Bytes) (h : b.size < 105) : parseWith fuel b = .err .invalid := by
  unfold parseWith
  rw [if_pos (by unfold rawSize; exact h)]

theorem normRaw_v2 (r : Raw) (h : r.version = 2) :
    normRaw r = { r with incompat := 0, compat := 0, autoclear := 0, refcountOrder := 4, headerLength := 72,
                         compression := 0 } := by
  simp [normRaw, h]

theorem normRaw_v3 (r : Raw) (h : r.version ≠ 2) :
    normRaw r = { r with compression := if r.headerLength ≤ 104 then 0 else r.compression } := by
  unfold normRaw
  simp only [h, if_false]
  split <;> rfl

theorem normRaw_magic (r : Raw) : (normRaw r).magic = r.magic := by
  by_cases h : r.version = 2
  · rw [normRaw_v2 r h]
  · rw [normRaw_v3 r h]

theorem normRaw_version (r : Raw) : (normRaw r).version = r.version := by
  by_cases h : r.version = 2
  · rw [normRaw_v2 r h]
  · rw [normRaw_v3 r h]

/-- one serialised extension: type, length, data, padding to 8 bytes -/
def serExt (e : Ext) : List UInt8 :=
  padTo8 (bePut (extType e) 4 ++ bePut (extData e).length 4 ++ extData e)

theorem alignUp8_mod (n : Nat) : alignUp8 n % 8 = 0 := by unfold alignUp8; omega

theorem length_padTo8 (l : List UInt8) : (padTo8 l).length = alignUp8 l.length := by
  have := alignUp8_ge l.length
  simp [padTo8]; omega

theorem padTo8_of_aligned (l : List UInt8) (h : l.length % 8 = 0) : padTo8 l = l := by
  have : alignUp8 l.length - l.length = 0 := by unfold alignUp8; omega
  simp [padTo8, this]

theorem padTo8_append_of_aligned (a l : List UInt8) (h : a.length % 8 = 0) :
    padTo8 (a ++ l) = a ++ padTo8 l := by
  have : alignUp8 (a ++ l).length - (a ++ l).length = alignUp8 l.length - l.length := by
    simp only [List.length_append]; unfold alignUp8; omega
  unfold padTo8
  rw [this, List.append_assoc]

theorem length_serExt (e : Ext) : (serExt e).length = 8 + alignUp8 (extData e).length := by
  unfold serExt
  rw [length_padTo8]
  simp only [List.length_append, length_bePut]
  unfold alignUp8; omega

theorem length_serExt_mod (e : Ext) : (serExt e).length % 8 = 0 := by
  unfold serExt; rw [length_padTo8]; exact alignUp8_mod _

theorem length_flatMap_serExt_mod (exts : List Ext) : (exts.flatMap serExt).length % 8 = 0 := by
  induction exts with
  | nil => rfl
  | cons e es ih =>
    have := length_serExt_mod e
    simp only [List.flatMap_cons, List.length_append]; omega

theorem length_flatMap_serExt_ge (exts : List Ext) : 8 * exts.length ≤ (exts.flatMap serExt).length := by
  induction exts with
  | nil => simp
  | cons e es ih =>
    have := length_serExt e
    simp only [List.flatMap_cons, List.length_append, List.length_cons]; omega

theorem serExts_foldl (exts : List Ext) (acc : List UInt8) (h : acc.length % 8 = 0) :
    exts.foldl (fun acc e =>
      let d := extData e
      padTo8 (acc ++ bePut (extType e) 4 ++ bePut d.length 4 ++ d)) acc = acc ++ exts.flatMap serExt := by
  induction exts generalizing acc with
  | nil => simp
  | cons e es ih =>
    simp only [List.foldl_cons, List.flatMap_cons]
    have h1 : padTo8 (acc ++ bePut (extType e) 4 ++ bePut (extData e).length 4 ++ extData e) = acc ++ serExt e := by
      rw [List.append_assoc, List.append_assoc, padTo8_append_of_aligned _ _ h, serExt, List.append_assoc]
    rw [h1, ih, List.append_assoc]
    have := length_serExt_mod e
    simp only [List.length_append]; omega

theorem serExts_eq (exts : List Ext) : serExts exts = exts.flatMap serExt ++ (bePut 0 4 ++ bePut 0 4) := by
  unfold serExts
  simp only []
  rw [serExts_foldl exts [] rfl, List.nil_append, List.append_assoc, padTo8_of_aligned]
  have := length_flatMap_serExt_mod exts
  simp only [List.length_append, length_bePut]; omega

/-- an extension the parser reads back as itself -/
structure ExtOk (e : Ext) : Prop where
  rt : extFrom (extType e) (extData e) = .ok (some e)
  ty : extType e < 2 ^ 32
  len : (extData e).length < 2 ^ 32

theorem walkExts_step (pre post : List UInt8) (e : Ext) (cs fuel : Nat) (acc : List Ext) (he : ExtOk e)
    (hcs : pre.length + (serExt e).length ≤ cs) :
    walkExts (pre ++ (serExt e ++ post)).toArray cs (fuel + 1) pre.length acc
      = walkExts (pre ++ (serExt e ++ post)).toArray cs fuel (pre.length + (serExt e).length) (e :: acc) := by
  have hlen := length_serExt e
  have hge := alignUp8_ge (extData e).length
  have hsz : (pre ++ (serExt e ++ post)).toArray.size = pre.length + (serExt e).length + post.length := by
    simp [Nat.add_assoc]
  have hty : beAt (pre ++ (serExt e ++ post)).toArray pre.length 4 = extType e := by
    rw [beAt_append_right' _ _ _ _ (Nat.le_refl _), Nat.sub_self]
    unfold serExt padTo8
    simp only [List.append_assoc]
    rw [beAt_bePut_append]
    exact Nat.mod_eq_of_lt he.ty
  have hln : beAt (pre ++ (serExt e ++ post)).toArray (pre.length + 4) 4 = (extData e).length := by
    rw [beAt_append_right' _ _ _ _ (by omega), show pre.length + 4 - pre.length = 4 by omega]
    unfold serExt padTo8
    simp only [List.append_assoc]
    have := beAt_append_right (bePut (extType e) 4) (bePut (extData e).length 4 ++ (extData e ++
      (List.replicate (alignUp8 (bePut (extType e) 4 ++ (bePut (extData e).length 4 ++ extData e)).length -
        (bePut (extType e) 4 ++ (bePut (extData e).length 4 ++ extData e)).length) 0 ++ post))) 0 4
    rw [length_bePut] at this
    rw [this, beAt_bePut_append]
    exact Nat.mod_eq_of_lt he.len
  have hdata : ((pre ++ (serExt e ++ post)).toArray.extract (pre.length + 8)
      (pre.length + 8 + (extData e).length)).toList = extData e := by
    simp
    have : serExt e ++ post = (bePut (extType e) 4 ++ bePut (extData e).length 4) ++ (extData e ++
        (List.replicate (alignUp8 (bePut (extType e) 4 ++ bePut (extData e).length 4 ++ extData e).length -
          (bePut (extType e) 4 ++ bePut (extData e).length 4 ++ extData e).length) 0 ++ post)) := by
      unfold serExt padTo8; simp only [List.append_assoc]
    rw [this, List.drop_left' (by simp), List.take_left' rfl]
  rw [walkExts]
  rw [if_neg (by omega)]
  simp only [hty, hln]
  rw [if_neg (by omega)]
  simp only [hdata, he.rt]
  congr 1
  omega

/-- the walk over serialised extensions returns them -/
theorem walkExts_serExts (exts : List Ext) (pre post : List UInt8) (cs fuel : Nat) (acc : List Ext)
    (hok : ∀ e ∈ exts, ExtOk e)
    (hcs : pre.length + (exts.flatMap serExt).length + 8 ≤ cs)
    (hfuel : exts.length < fuel) :
    walkExts (pre ++ ((exts.flatMap serExt ++ (bePut 0 4 ++ bePut 0 4)) ++ post)).toArray cs fuel pre.length acc
      = .ok (acc.reverse ++ exts) := by
  induction exts generalizing pre fuel acc with
  | nil =>
    obtain ⟨fuel, rfl⟩ : ∃ f, fuel = f + 1 := ⟨fuel - 1, by simp at hfuel; omega⟩
    simp only [List.flatMap_nil, List.nil_append, List.append_nil, List.length_nil, Nat.add_zero] at hcs ⊢
    apply walkExts_end
    · omega
    · simp; omega
    · rw [beAt_append_right' _ _ _ _ (Nat.le_refl _), Nat.sub_self, List.append_assoc]
      exact beAt_bePut_append 0 4 _
    · rw [beAt_append_right' _ _ _ _ (by omega), show pre.length + 4 - pre.length = 4 by omega,
        List.append_assoc]
      have := beAt_append_right (bePut 0 4) (bePut 0 4 ++ post) 0 4
      rw [length_bePut] at this
      rw [this]
      exact beAt_bePut_append 0 4 _
  | cons e es ih =>
    obtain ⟨fuel, rfl⟩ : ∃ f, fuel = f + 1 := ⟨fuel - 1, by simp at hfuel; omega⟩
    simp only [List.flatMap_cons, List.length_append] at hcs
    have hshape : pre ++ (((e :: es).flatMap serExt ++ (bePut 0 4 ++ bePut 0 4)) ++ post)
        = pre ++ (serExt e ++ ((es.flatMap serExt ++ (bePut 0 4 ++ bePut 0 4)) ++ post)) := by
      simp only [List.flatMap_cons, List.append_assoc]
    rw [hshape, walkExts_step pre _ e cs fuel acc (hok e (by simp)) (by omega)]
    have hshape2 : pre ++ (serExt e ++ ((es.flatMap serExt ++ (bePut 0 4 ++ bePut 0 4)) ++ post))
        = (pre ++ serExt e) ++ ((es.flatMap serExt ++ (bePut 0 4 ++ bePut 0 4)) ++ post) := by
      simp only [List.append_assoc]
    rw [hshape2, ← List.length_append]
    rw [ih (pre ++ serExt e) fuel (e :: acc) (fun x hx => hok x (by simp [hx]))
      (by simp only [List.length_append]; omega) (by simp at hfuel; omega)]
    simp

theorem walk_serialized (r : Raw) (exts : List Ext) (nm : List UInt8)
    (hexts : ∀ e ∈ exts, ExtOk e)
    (hcs : 112 + (serExts exts).length + nm.length < 2 ^ r.clusterBits) :
    walkExts (serRaw r ++ serExts exts ++ nm).toArray (2 ^ r.clusterBits)
      ((serRaw r ++ serExts exts ++ nm).toArray.size / 8 + 2) 112 [] = .ok exts := by
  rw [serExts_eq] at hcs ⊢
  simp only [List.length_append, length_bePut] at hcs
  have h112 := length_serRaw r
  have hge := length_flatMap_serExt_ge exts
  have hsz : (serRaw r ++ (exts.flatMap serExt ++ (bePut 0 4 ++ bePut 0 4)) ++ nm).toArray.size
      = 112 + ((exts.flatMap serExt).length + 8) + nm.length := by
    simp only [List.size_toArray, List.length_append, length_bePut, h112]
  rw [List.append_assoc, ← h112]
  have := walkExts_serExts exts (serRaw r) nm (2 ^ r.clusterBits)
    ((serRaw r ++ ((exts.flatMap serExt ++ (bePut 0 4 ++ bePut 0 4)) ++ nm)).toArray.size / 8 + 2) [] hexts
    (by omega) (by rw [← List.append_assoc, hsz]; omega)
  simpa using this


theorem two_pow_cb_lt (cb : Nat) (h : cb ≤ 21) : 2 ^ cb < 2 ^ 32 :=
  Nat.pow_lt_pow_right (by decide) (by omega)

/-- parse of a serialised image: raw header, extensions, backing name -/
theorem parse_image (r : Raw) (exts : List Ext) (nm : List UInt8) (bk : Option (List UInt8))
    (hf : RawFits r) (hok : RawOk r) (hv : r.version = 3) (hl : r.headerLength = 112)
    (hexts : ∀ e ∈ exts, ExtOk e)
    (hcs : 112 + (serExts exts).length + nm.length < 2 ^ r.clusterBits)
    (hbk : (bk = none ∧ nm = [] ∧ r.backingOff = 0) ∨
           (bk = some nm ∧ r.backingOff = 112 + (serExts exts).length ∧ r.backingSize = nm.length ∧
            utf8Valid nm = true ∧ nm.length ≤ 1023)) :
    parse (serRaw r ++ serExts exts ++ nm).toArray = .ok { raw := r, backing := bk, exts := exts } := by
  rw [parse_eq_parseWith]
  apply parseWith_of_ok
  have h112 := length_serRaw r
  have hsz : (serRaw r ++ serExts exts ++ nm).toArray.size = 112 + (serExts exts).length + nm.length := by
    simp only [List.size_toArray, List.length_append, h112]
  have hrd : readRaw (serRaw r ++ serExts exts ++ nm).toArray = r := by
    rw [List.append_assoc, readRaw_serRaw r _ hf, ← hl]
  have hn : normRaw r = r := by
    simp [normRaw, hv, hl]
  have hwalk := walk_serialized r exts nm hexts hcs
  refine ⟨by omega, by rw [hrd]; exact hok.magic, by rw [hrd]; exact Or.inr hv, by rw [hrd, hn], hok.crypt,
    hok.rcOrder, hok.compression, hok.cbLo, hok.cbHi, hok.l1Off, hok.rtOff, hok.rtClusters, hok.l1Size,
    ?_, by simp only [hl]; exact hwalk, hok.incompat⟩
  rcases hbk with ⟨rfl, rfl, h0⟩ | ⟨rfl, hbo, hbs, hutf, hnl⟩
  · simp [backingOf, h0]
  · have hlt := two_pow_cb_lt r.clusterBits hok.cbHi
    have hex : ((serRaw r ++ serExts exts ++ nm).toArray.extract (112 + (serExts exts).length)
        (112 + (serExts exts).length + nm.length)).toList = nm := by
      have : (serRaw r ++ serExts exts).length = 112 + (serExts exts).length := by
        simp only [List.length_append, h112]
      rw [← this]
      simp
    unfold backingOf
    simp only [hbo, hbs]
    rw [if_pos (by omega), if_neg (by omega), if_neg (by omega), if_neg (by omega), if_neg (by omega)]
    simp only [Nat.add_sub_cancel, hex, hutf, if_true]

end Qv.Codec.Hdr
